(* C17, lanes — the +2 reference protocol of a serial lane: "a queue is not deallocated while items submitted to it are
   pending or running".  Model: Model/SLane.v (dispatch_async_f from any number of threads onto one serial lane drained
   by any number of root-queue workers; every dq_state transition is the body generated from the source) instrumented
   with ghost history only (Model/SLaneRef.v: no change to SLane.step): rc2 = +2 units taken on the lane's
   os_obj_ref_cnt and not yet given back, updated as the source does at each step (sites listed in SLaneRef.v:
   retain_2 before the publication of a push that made the list non-empty or that overrides; unit moved into the
   target queue when _dispatch_queue_wakeup sets ENQUEUED; released at `done:` of the wakeup otherwise; released by
   _dispatch_queue_class_invoke after a failed drain_try_lock or a successful drain_try_unlock).
   Statements are about every reachable state: any number of submitters and workers, any interleaving.
   NOT covered (SLane does not model them): suspension (+2 of _dispatch_lane_suspend, _dispatch_queue_invoke_finish),
   dispatch_sync / barrier hand-off, concurrent lanes, the client's own references (between the tail exchange and the
   retain the pusher is covered by its caller's reference; the order retain-before-publish is tied to the source by
   C17_lane_push_retains_before_publish_partial), the target-queue reference of the lane.  Tie of the ghost update to the
   code: the site lists of Properties_C17.v and the white-box differential of do_ref_cnt at quiescent points. *)
From Coq Require Import ZArith Bool List.
From Verif Require Import Word Conc SLane SLane_proofs SLaneRef SLaneRef_proofs.
Import ListNotations.
Local Open Scope Z_scope.

(* exact accounting of the +2 units: outstanding = wakeups in flight that own one + [the enqueued token exists]; never
   negative *)
Theorem C17_lane_plus2_account : forall rb s h, 0 <= rb < 2 -> xreach rb s h ->
  rc2 h = Z.of_nat (length (wh h)) + tok s /\ NoDup (wh h) /\ (forall t, In t (wh h) <-> wake_pc (pcs s t) = true) /\ 0 <= rc2 h.
Proof. exact plus2_account. Qed.
Print Assumptions C17_lane_plus2_account.

(* a +2 is held while the lane sits in its target queue (items pending), while a worker has popped it, drains it (items
   running) or is about to push it, and while a wakeup is in flight *)
Theorem C17_lane_plus2_held_while_busy : forall rb s h t, 0 <= rb < 2 -> xreach rb s h ->
  0 < rootq s \/ token_pc (pcs s t) = true \/ wake_pc (pcs s t) = true -> 1 <= rc2 h.
Proof. exact plus2_held_while_busy. Qed.
Print Assumptions C17_lane_plus2_held_while_busy.

(* hence os_obj_ref_cnt = base + 2*rc2 cannot be -1 there (no dispose), whatever else references the lane (base >= -1) *)
Theorem C17_lane_not_disposed_while_busy : forall rb s h t base, 0 <= rb < 2 -> xreach rb s h -> -1 <= base ->
  0 < rootq s \/ token_pc (pcs s t) = true \/ wake_pc (pcs s t) = true -> 1 <= lane_ref_cnt base h.
Proof. exact lane_not_disposed_while_busy. Qed.
Print Assumptions C17_lane_not_disposed_while_busy.

(* no over-release by the protocol: a step that gives a unit back finds one, and gives back exactly one *)
Theorem C17_lane_plus2_release_has_unit : forall rb s h a s', 0 <= rb < 2 -> xreach rb s h -> step s a s' ->
  rc2 (rstep s a s' h) < rc2 h -> 1 <= rc2 h /\ rc2 (rstep s a s' h) = rc2 h - 1.
Proof. exact plus2_release_has_unit. Qed.
Print Assumptions C17_lane_plus2_release_has_unit.

(* no leak: when nothing is in progress every unit is back, except the one travelling with a lane still in its target queue *)
Theorem C17_lane_plus2_quiescent : forall rb s h, 0 <= rb < 2 -> xreach rb s h -> quiescent s ->
  wh h = [] /\ rc2 h = rootq s /\ (rootq s = 0 \/ rootq s = 1).
Proof. exact plus2_quiescent. Qed.
Print Assumptions C17_lane_plus2_quiescent.

(* non-vacuity: thread 5 pushes onto the empty lane (+2), its wakeup sets ENQUEUED and pushes the lane on the root queue
   (unit moved); thread 7 pushes a second item with an override wakeup (+2 of its own, given back when its rmw loop
   changes nothing); worker 6 pops the lane, drains both items and gives the last unit back *)
Definition demo_lane : list action :=
  [ABegin 5 (CAsync 0); AStep 5; AStep 5; AStep 5; AStep 5; AStep 5;
   ABegin 7 (CAsync 0); AStep 7; AStepO 7; AStep 7;
   ABegin 6 (CWorker 0); AStep 6; AStep 7; AStep 6; AStep 6; AStep 6; AStep 6; AStep 6; AStep 6; AStep 6; AStep 6; AStep 6;
   AStep 6; AStep 6].
Definition lsnap (x : gst * rh) : list Z :=
  let '(s, h) := x in [rc2 h; Z.of_nat (length (wh h)); rootq s; Z.of_nat (length (lst s)); Z.of_nat (length (started s))].
Example C17_lane_nonvacuous :
  (exists s h, xrun (init_state 0) r0 (firstn 9 demo_lane) = Some (s, h) /\ xreach 0 s h /\ lsnap (s, h) = [2; 1; 1; 2; 0]) /\
  (exists s h, xrun (init_state 0) r0 (firstn 18 demo_lane) = Some (s, h) /\ xreach 0 s h /\ lsnap (s, h) = [1; 0; 0; 1; 1] /\
               token_pc (pcs s 6) = true) /\
  (exists s h, xrun (init_state 0) r0 demo_lane = Some (s, h) /\ xreach 0 s h /\ lsnap (s, h) = [0; 0; 0; 0; 2] /\ quiescent_on [5; 6; 7] s = true).
Proof.
  assert (H1 : option_map lsnap (xrun (init_state 0) r0 (firstn 9 demo_lane)) = Some [2; 1; 1; 2; 0]) by (vm_compute; reflexivity).
  assert (H2 : option_map (fun x => (lsnap x, token_pc (pcs (fst x) 6))) (xrun (init_state 0) r0 (firstn 18 demo_lane)) =
               Some ([1; 0; 0; 1; 1], true)) by (vm_compute; reflexivity).
  assert (H3 : option_map (fun x => (lsnap x, quiescent_on [5; 6; 7] (fst x))) (xrun (init_state 0) r0 demo_lane) = Some ([0; 0; 0; 0; 2], true))
    by (vm_compute; reflexivity).
  split; [|split].
  - destruct (xrun (init_state 0) r0 (firstn 9 demo_lane)) as [[s h]|] eqn:E; [|discriminate H1]. exists s, h.
    split; [reflexivity|]. split; [eapply xrun_xreach; [apply xr_init|exact E]|].
    exact (f_equal (fun o => match o with Some l => l | None => [] end) H1).
  - destruct (xrun (init_state 0) r0 (firstn 18 demo_lane)) as [[s h]|] eqn:E; [|discriminate H2]. exists s, h.
    split; [reflexivity|]. split; [eapply xrun_xreach; [apply xr_init|exact E]|].
    pose proof (f_equal (fun o => match o with Some l => l | None => ([], false) end) H2) as H5. cbn [option_map fst] in H5.
    split; [exact (f_equal fst H5)|exact (f_equal snd H5)].
  - destruct (xrun (init_state 0) r0 demo_lane) as [[s h]|] eqn:E; [|discriminate H3]. exists s, h.
    split; [reflexivity|]. split; [eapply xrun_xreach; [apply xr_init|exact E]|].
    pose proof (f_equal (fun o => match o with Some l => l | None => ([], false) end) H3) as H5. cbn [option_map fst] in H5.
    split; [exact (f_equal fst H5)|exact (f_equal snd H5)].
Qed.
