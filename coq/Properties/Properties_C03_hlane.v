(* C03 — a serial target queue serialises every queue targeting it.
   Protocol theorems for a TARGET-QUEUE HIERARCHY of serial lanes: any forest (`target : lane -> option lane`, acyclic by a
   depth witness; any depth and fan-in, any number of bottoms), any number of lanes, of submitting threads
   (dispatch_async_f, also issued from inside work items) and of root-queue workers, for EVERY interleaving of the atomic
   steps of enqueue (tail exchange, link), wakeup (the dq_state rmw loop with and without MAKE_DIRTY; the wakeup that sets
   ENQUEUED pushes the LANE on its target: the same two-step push one level down, or the root queue for a bottom), drain
   (try_lock, head/pop with the wait for a lagging enqueuer, callout, try_unlock, the DIRTY retry of a bottom), the NESTED
   invoke of an inner lane popped from its target's list (a stack of frames per thread) and the re-enqueue of an inner
   lane whose unlock was refused (_dispatch_queue_invoke_finish).  The model is Model/HLane.v; each dq_state transition in
   it IS the body regenerated from the source (Gen_dqstate), with the arguments the code passes.
   Out of scope (decided on the implementation by the stress oracle only): concurrent inner queues, dispatch_sync /
   barriers / waiters through levels, workloop bottoms, retargeting (also before activation), suspension.  Termination under
   a fair scheduler is not stated as one theorem; its three ingredients are: nothing is left behind at quiescence, no state is
   stuck (C03_hlane_no_stuck_thread), no execution livelocks (C03_hlane_no_livelock: a potential function). *)
From Coq Require Import ZArith Bool List.
From Verif Require Import Word DqFields Conc HLane HLane_inv HLane_proofs HLane_progress HLane_measure HLaneR HLaneR_proofs.
Import ListNotations.
Local Open Scope Z_scope.

(* 1. the invariant behind all of it, for every lane: the word decodes to fields; ONE enqueued token per lane, held by
      nobody / the target (the lane object is linked exactly once, into its target's list, or counted in the root queue) /
      one thread; lock shape free/held tied to the holder's drain frame; a non-empty list always has a responsible party
      (token holder or a pusher that still owes its wakeup); the drainer about to unlock a non-empty list with no such
      pusher sees DIRTY; order equation per lane.  For every thread: the tokens it holds are exactly those of its frames,
      its stack has the shape push-frame? :: chain of drain frames along target edges down to a bottom *)
Theorem C03_hlane_invariant : forall F, forest_ok F -> forall s, reach F s -> Inv F s.
Proof. exact Inv_reachable. Qed.
Print Assumptions C03_hlane_invariant.

(* ... stack discipline spelled out: the lanes of a thread's drain frames (top first) form a path of the forest that ends
   in a bottom; the thread holds the enqueued token of each of them, and the drain lock (owner field = its tid, IN_BARRIER,
   full width) of each one it is past drain_try_lock on *)
Theorem C03_hlane_stack_discipline : forall F, forest_ok F -> forall s t,
  reach F s ->
  path F (map fst (dframes (stk s t))) /\
  (forall l p, In (l, p) (dframes (stk s t)) ->
     token s l = Some (Some t) /\ (locked_pc p = true -> exists r, st s l = enc r /\ wfr r /\ held r t)).
Proof. exact stack_discipline. Qed.
Print Assumptions C03_hlane_stack_discipline.

(* ... and the drain region of one lane is exclusive *)
Theorem C03_hlane_lock_exclusive : forall F, forest_ok F -> forall s t1 t2 l p1 p2,
  reach F s -> In (l, p1) (stk s t1) -> is_drain p1 = true -> In (l, p2) (stk s t2) -> is_drain p2 = true -> t1 = t2.
Proof. exact lock_exclusive. Qed.
Print Assumptions C03_hlane_lock_exclusive.

(* 2. global exclusion: two threads inside callouts of items of lanes whose target chains end in the same serial bottom
      are the same thread, and then it is the same frame (same lane, same item): at most one work item of the whole
      hierarchy below a serial bottom runs at any time *)
Theorem C03_hlane_global_exclusion : forall F, forest_ok F -> forall s t1 t2 l1 l2 o1 i1 m1 o2 i2 m2,
  reach F s -> In (l1, PW_incall o1 i1 m1) (stk s t1) -> In (l2, PW_incall o2 i2 m2) (stk s t2) ->
  bottom F l1 = bottom F l2 -> t1 = t2 /\ (l1, PW_incall o1 i1 m1) = (l2, PW_incall o2 i2 m2).
Proof. exact global_exclusion. Qed.
Print Assumptions C03_hlane_global_exclusion.

(* ... more generally the whole hierarchy below a serial bottom is drained by one thread at a time: two threads past
   drain_try_lock on lanes whose target chains end in the same bottom are the same thread *)
Theorem C03_hlane_hierarchy_drain_exclusive : forall F, forest_ok F -> forall s t1 t2 l1 l2 p1 p2,
  reach F s -> In (l1, p1) (stk s t1) -> locked_pc p1 = true -> In (l2, p2) (stk s t2) -> locked_pc p2 = true ->
  bottom F l1 = bottom F l2 -> t1 = t2.
Proof. exact hierarchy_drain_exclusive. Qed.
Print Assumptions C03_hlane_hierarchy_drain_exclusive.

(* 3. each lane still starts its own items in its own tail-exchange (= submission) order, each at most once, only
      submitted ones: rev (started l) is a prefix of 0,1,2,...,nextid l - 1; the k-th callout of lane l to begin is item k *)
Theorem C03_hlane_per_lane_fifo : forall F, forest_ok F -> forall s l,
  reach F s ->
  exists rest, zrange (nextid s l) = rev (started s l) ++ rest /\ NoDup (started s l) /\
               (forall i, In i (started s l) -> 0 <= i < nextid s l).
Proof. exact started_in_order. Qed.
Print Assumptions C03_hlane_per_lane_fifo.

Theorem C03_hlane_kth_started_is_k : forall F, forest_ok F -> forall s l k,
  reach F s -> (k < length (started s l))%nat -> nth k (rev (started s l)) (-1) = Z.of_nat k.
Proof. exact kth_started_is_k. Qed.
Print Assumptions C03_hlane_kth_started_is_k.

(* 4. nothing is stranded: with every thread idle, a lane with a non-empty list is enqueued on its target — it sits in
      the target lane's list, or in the root queue when it is a bottom ... *)
Theorem C03_hlane_not_stranded : forall F, forest_ok F -> forall s l,
  reach F s -> quiescent s -> lst s l <> [] ->
  token s l = Some None /\
  match target F l with
  | Some p => exists e, In e (lst s p) /\ e_ent e = Lane l
  | None => rootq s l = 1
  end.
Proof. exact not_stranded. Qed.
Print Assumptions C03_hlane_not_stranded.

(* ... hence (induction on the depth) its serial bottom sits in the root queue: a worker can pick the hierarchy up *)
Theorem C03_hlane_bottom_in_root : forall F, forest_ok F -> forall s l,
  reach F s -> quiescent s -> lst s l <> [] -> rootq s (bottom F l) = 1.
Proof. exact bottom_in_root. Qed.
Print Assumptions C03_hlane_bottom_in_root.

(* ... and when nothing sits in a root queue either, every submitted item of every lane has run, in order *)
Theorem C03_hlane_quiescent_all_done : forall F, forest_ok F -> forall s,
  reach F s -> quiescent s -> (forall b, rootq s b = 0) ->
  forall l, lst s l = [] /\ rev (started s l) = zrange (nextid s l) /\ token s l = None.
Proof. exact quiescent_all_done. Qed.
Print Assumptions C03_hlane_quiescent_all_done.

(* the failure branch of drain_try_lock (somebody else holds the lane: ENQUEUED is toggled off, the invoke returns) is
   unreachable with asynchronous submission only: whoever invokes a lane holds its single enqueued token, and then the
   lane is free; an inner lane (role INNER) moreover never takes the override retry *)
Theorem C03_hlane_lock_never_fails : forall F, forest_ok F -> forall s t l fl r,
  reach F s -> stk s t = (l, PW_lock fl) :: r ->
  w_lock t fl (st s l) = Restart [] \/ exists new, w_lock t fl (st s l) = Commit new OWN.
Proof. exact lock_never_fails. Qed.
Print Assumptions C03_hlane_lock_never_fails.

Theorem C03_hlane_inner_lock_succeeds : forall F, forest_ok F -> forall s t l fl r,
  reach F s -> stk s t = (l, PW_lock fl) :: r -> target F l <> None -> exists new, w_lock t fl (st s l) = Commit new OWN.
Proof. exact inner_lock_succeeds. Qed.
Print Assumptions C03_hlane_inner_lock_succeeds.

(* 5. no reachable state is stuck: a thread inside a call or a drain (at any depth of nesting) can step, or it waits for
      an enqueuer's link and that enqueuer (another thread, one step from publishing it) can; in particular a nested
      invoke always returns control to the drain loop of the target, and dispatch_async_f never waits for anything *)
Theorem C03_hlane_no_stuck_thread : forall F, forest_ok F -> forall s t,
  reach F s -> valid_tid t -> stk s t <> [] -> enabled F s t \/ exists u, u <> t /\ enabled F s u.
Proof. exact no_stuck_thread. Qed.
Print Assumptions C03_hlane_no_stuck_thread.

(* ... the same naming the thread waited for: when t cannot step, t is a drainer at get_head / pop_head of a lane l, and u
   is THE enqueuer whose top frame is the push onto l at PA_link for an entry of l's list that is not linked yet; u's next
   step publishes that link *)
Theorem C03_hlane_no_stuck_thread_named : forall F, forest_ok F -> forall s t,
  reach F s -> valid_tid t -> stk s t <> [] ->
  enabled F s t \/ exists u, u <> t /\ waits_for_link s t u /\ enabled F s u.
Proof. exact no_stuck_thread_named. Qed.
Print Assumptions C03_hlane_no_stuck_thread_named.

Theorem C03_hlane_async_never_blocks : forall F, forest_ok F -> forall s t l p r,
  reach F s -> stk s t = (l, p) :: r -> is_drain p = false -> enabled F s t.
Proof. exact async_never_blocks. Qed.
Print Assumptions C03_hlane_async_never_blocks.

(* 6. termination measure: a potential Phi (per frame: a constant per program point, 2 * T l + ... for the frames of a
      push on lane l with T l = 24 * 3 ^ depth l; 8 per item and 18 per lane object in a list; T l on the DIRTY bit of a
      LOCKED lane; 20 per bottom in its root queue) that every step and every worker pick-up strictly decreases and only a
      new dispatch_async raises.  The DIRTY retry of a bottom and the invoke_finish re-enqueue of an inner lane are paid
      for by the MAKE_DIRTY wakeup that caused them.  WHAT IS COUNTED: actions of the MODEL.  In the model an
      os_atomic_rmw_loop is one step (its successful compare-exchange: failed attempts are not steps) and a wait
      (_dispatch_wait_for_enqueuer at get_head / pop_head) is a disabled step, not a sequence of steps: livelock by endless
      CAS retries or by spinning is excluded by construction of the model, not by these theorems; what they exclude is
      livelock of the PROTOCOL (DIRTY retries, re-enqueues, restarts, pushes chasing each other through the levels).
      For executions confined to a finite, target-closed set Ls of lanes and a finite set L of threads: *)
(* the hypothesis Inv3 of the theorems below holds on every reachable state *)
Theorem C03_hlane_inv3_reachable : forall F, forest_ok F -> forall s, reach F s -> Inv3 F s.
Proof. exact Inv3_reachable. Qed.
Print Assumptions C03_hlane_inv3_reachable.

Theorem C03_hlane_step_decreases : forall F, forest_ok F -> forall Ls L, NoDup Ls -> NoDup L -> forall s t o s',
  Inv3 F s -> In t L -> (forall l p, In (l, p) (stk s t) -> In l Ls) -> gstep F s t o = Some s' ->
  Phi F Ls L s' + 1 <= Phi F Ls L s.
Proof. exact step_decreases. Qed.
Print Assumptions C03_hlane_step_decreases.

Theorem C03_hlane_execution_bound : forall F, forest_ok F -> forall Ls L,
  NoDup Ls -> NoDup L -> (forall l p, In l Ls -> target F l = Some p -> In p Ls) ->
  forall acts s s',
  Inv3 F s -> conf Ls s -> forallb act_valid acts = true -> (forall a, In a acts -> In (act_tid a) L /\ begin_lane_in Ls a) ->
  run F s acts = Some s' ->
  Inv3 F s' /\ conf Ls s' /\ n_other acts <= Phi F Ls L s - Phi F Ls L s' + raised F acts.
Proof. exact execution_bound. Qed.
Print Assumptions C03_hlane_execution_bound.

(* no livelock: from the initial state, the number of steps other than new submissions never exceeds what the
   submissions paid in (2 * T l + 13 each), whatever the schedule *)
Theorem C03_hlane_no_livelock : forall F, forest_ok F -> forall Ls L acts s',
  NoDup Ls -> NoDup L -> (forall l p, In l Ls -> target F l = Some p -> In p Ls) ->
  forallb act_valid acts = true -> (forall a, In a acts -> In (act_tid a) L /\ begin_lane_in Ls a) ->
  run F (init_state F) acts = Some s' -> n_other acts <= raised F acts.
Proof. exact no_livelock. Qed.
Print Assumptions C03_hlane_no_livelock.

(* the end of every maximal execution: a state in which no thread has an enabled step and no bottom sits in a root
   queue has run every submitted item of every lane exactly once, in order; and a bottom in the root queue can always be
   picked up by an idle worker *)
Theorem C03_hlane_nothing_enabled_all_done : forall F, forest_ok F -> forall s,
  reach F s -> (forall t o, valid_tid t -> gstep F s t o = None) -> (forall b, rootq s b = 0) ->
  forall l, lst s l = [] /\ rev (started s l) = zrange (nextid s l) /\ token s l = None.
Proof. exact nothing_enabled_all_done. Qed.
Print Assumptions C03_hlane_nothing_enabled_all_done.

Theorem C03_hlane_worker_can_begin : forall F s t b f,
  stk s t = [] -> target F b = None -> rootq s b = 1 -> exists s', begin F s t (CWorker b f) = Some s'.
Proof. exact worker_can_begin. Qed.
Print Assumptions C03_hlane_worker_can_begin.

(* 7. the replay machinery (Model/HLaneR.v, used by the correspondence on recorded rounds).  What these three theorems say
      is modest: the scheduler only ever takes model steps, so every state it passes through is reachable (true for ANY
      action list it manages to execute); inv_b is true on every reachable state — so evaluating inv_b on replayed states
      cannot fail unless the replay machinery itself is inconsistent with these proofs: it is a consistency check of the
      replay, not a test of the library; the boolean test of a round's forest table decides forest_ok.  The content of a
      replay is TRACE INCLUSION, established by the executable HLaneR.try_act / sched (every recorded operation must be an
      enabled model step producing the recorded stack shape, entry and dq_state word) together with the untrusted Python
      abstraction of events into actions (lib/hlane_replay.py): it is a run-time tie, not a theorem *)
Theorem C03_hlane_replay_reach : forall F chk every fuel w cs s qs ord done bad s' d o b q,
  reach F s -> sched F chk every fuel w cs s qs ord done bad = (s', d, o, b, q) -> reach F s'.
Proof. exact sched_reach. Qed.
Print Assumptions C03_hlane_replay_reach.

Theorem C03_hlane_inv_b_reach : forall F lanes tids s, forest_ok F -> reach F s -> inv_b F lanes tids s = true.
Proof. exact inv_b_reach. Qed.
Print Assumptions C03_hlane_inv_b_reach.

Theorem C03_hlane_table_forest_ok : forall tbl, table_ok_b tbl = true -> forest_ok (forest_of tbl).
Proof. exact table_forest_ok. Qed.
Print Assumptions C03_hlane_table_forest_ok.

(* non-vacuity: two inner lanes on one bottom, three submitters, two workers; items of both inner lanes run, in order;
   the run exercises the nested invoke, a refused unlock of an inner lane with the re-enqueue by invoke_finish, the
   wakeup without MAKE_DIRTY, a refused unlock of the bottom; it is reachable and ends quiescent with nothing anywhere *)
Theorem C03_hlane_nonvacuous :
  forest_ok F2 /\
  exists s, demo_final = Some s /\ reach F2 s /\ quiescent s /\ rootq s 0 = 0 /\
            started s 1 = [1; 0] /\ nextid s 1 = 2 /\ started s 2 = [1; 0] /\ nextid s 2 = 2 /\
            lst s 0 = [] /\ lst s 1 = [] /\ lst s 2 = [] /\ token s 0 = None.
Proof. exact (conj F2_ok demo_reach). Qed.
Print Assumptions C03_hlane_nonvacuous.
