(* C18 — queue identity, queue-specific data and attributes are reported faithfully.
   Proved here: the global queue map (over Gen_qos, generated) and the attribute algebra (Model/Attr.v, tied
   exhaustively).  The get_specific / assert_queue clause is NOT proved yet (see DESIGN.md). *)
From Coq Require Import ZArith Bool.
From Verif Require Import Word Gen_consts Gen_qos Qos Attr Time_proofs Qos_proofs Attr_proofs.
Local Open Scope Z_scope.

(* for EVERY priority and flags value: NULL iff flags or identifier undefined, else the root queue of the
   documented class after the platform clamp *)
Theorem C18_global_queue_map : forall priority flags,
  ins64 priority -> in64 flags ->
  dispatch_get_global_queue priority flags = global_queue_spec priority flags.
Proof. exact global_queue_correct. Qed.
Print Assumptions C18_global_queue_map.

Theorem C18_global_queue_injective : forall q1 o1 q2 o2,
  1 <= q1 <= 6 -> 1 <= q2 <= 6 -> root_queue_addr (root_index q1 o1) = root_queue_addr (root_index q2 o2) ->
  q1 = q2 /\ o1 = o2.
Proof. exact root_index_injective. Qed.
Print Assumptions C18_global_queue_injective.

Theorem C18_defined_identifier_gets_a_queue : forall priority flags q,
  nz (Z.land flags (not64 DISPATCH_QUEUE_OVERCOMMIT)) = false -> ident_class priority = Some q ->
  global_queue_spec priority flags <> 0 /\
  0 <= root_index (platform_clamp q) (nz (Z.land flags DISPATCH_QUEUE_OVERCOMMIT)) < DISPATCH_ROOT_QUEUE_COUNT.
Proof. exact defined_ident_nonnull. Qed.
Print Assumptions C18_defined_identifier_gets_a_queue.

(* attribute table: bijection between indices and well-formed infos *)
Theorem C18_attr_from_to : forall a, 0 <= a < ATTR_COUNT -> from_info (to_info a) = a.
Proof. exact from_to. Qed.
Print Assumptions C18_attr_from_to.
Theorem C18_attr_to_from : forall i, wf_info i = true -> to_info (from_info i) = i /\ 0 <= from_info i < ATTR_COUNT.
Proof. exact to_from. Qed.
Print Assumptions C18_attr_to_from.

(* constructors are per-field updates of the denoted info ... *)
Theorem C18_ctor_qos : forall a cls rp, valid_attr a -> class_valid cls rp = true ->
  to_info (make_with_qos_class a cls rp) = set_qos (to_info a) (qos_of_class cls) rp /\ valid_attr (make_with_qos_class a cls rp).
Proof. exact ctor_qos. Qed.
Print Assumptions C18_ctor_qos.
Theorem C18_ctor_inactive : forall a, valid_attr a ->
  to_info (make_initially_inactive a) = set_inactive (to_info a) /\ valid_attr (make_initially_inactive a).
Proof. exact ctor_inactive. Qed.
Print Assumptions C18_ctor_inactive.
Theorem C18_ctor_overcommit : forall a oc, valid_attr a ->
  to_info (make_with_overcommit a oc) = set_overcommit (to_info a) (if oc then 1 else 2) /\ valid_attr (make_with_overcommit a oc).
Proof. exact ctor_overcommit. Qed.
Print Assumptions C18_ctor_overcommit.
Theorem C18_ctor_autorelease : forall a f, valid_attr a -> 0 <= f < AF ->
  to_info (make_with_autorelease a f) = set_autorelease (to_info a) f /\ valid_attr (make_with_autorelease a f).
Proof. exact ctor_autorelease. Qed.
Print Assumptions C18_ctor_autorelease.

(* ... hence independent of the order in which they are applied *)
Theorem C18_ctors_commute_qos_inactive : forall a cls rp, valid_attr a -> class_valid cls rp = true ->
  make_initially_inactive (make_with_qos_class a cls rp) = make_with_qos_class (make_initially_inactive a) cls rp.
Proof. exact ctors_commute_qos_inactive. Qed.
Print Assumptions C18_ctors_commute_qos_inactive.
Theorem C18_ctors_commute_qos_overcommit : forall a cls rp oc, valid_attr a -> class_valid cls rp = true ->
  make_with_overcommit (make_with_qos_class a cls rp) oc = make_with_qos_class (make_with_overcommit a oc) cls rp.
Proof. exact ctors_commute_qos_overcommit. Qed.
Print Assumptions C18_ctors_commute_qos_overcommit.
Theorem C18_ctors_commute_inactive_overcommit : forall a oc, valid_attr a ->
  make_with_overcommit (make_initially_inactive a) oc = make_initially_inactive (make_with_overcommit a oc).
Proof. exact ctors_commute_inactive_overcommit. Qed.
Print Assumptions C18_ctors_commute_inactive_overcommit.

(* what a queue created from the attribute reports *)
Theorem C18_created_queue_reports : forall a, valid_attr a ->
  let '(cls, _, _, _) := report a in
  (cls = 0 \/ cls = 9 \/ cls = 17 \/ cls = 21 \/ cls = 25) /\
  (forall q, qos (to_info a) = q -> 2 <= q <= 5 -> cls = class_of_qos q).
Proof. exact report_class_supported. Qed.
Print Assumptions C18_created_queue_reports.

Example C18_nonvacuous :
  valid_attr 0 /\ valid_attr (-1) /\ class_valid 25 (-3) = true /\
  report (make_with_qos_class (make_initially_inactive 0) 33 (-3)) = (25, -3, DISPATCH_QUEUE_WIDTH_MAX, true) /\
  dispatch_get_global_queue 2 0 = root_queue_addr 8 /\ dispatch_get_global_queue 33 2 = root_queue_addr 9 /\
  dispatch_get_global_queue 7 0 = 0.
Proof. unfold valid_attr. repeat split; try (vm_compute; reflexivity); [right|left]; vm_compute; intuition congruence. Qed.
