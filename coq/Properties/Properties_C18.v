(* C18 — queue identity, queue-specific data and attributes are reported faithfully.
   Proved here: the global queue map (over Gen_qos, generated) and the attribute algebra (Model/Attr.v, tied
   exhaustively), and — appended below — the get_specific / assert_queue clause over Model/Frames.v. *)
From Coq Require Import ZArith Bool.
From Verif Require Import Word Gen_consts Gen_qos Qos Attr Time_proofs Qos_proofs Attr_proofs.
Local Open Scope Z_scope.

(* for EVERY priority and flags value: NULL iff flags or identifier undefined, else the root queue of the
   documented class after the platform clamp *)
Theorem C18_global_queue_map : forall priority flags,
  ins64 priority -> in64 flags ->
  dispatch_get_global_queue priority flags = global_queue_spec priority flags.
Proof. exact global_queue_correct. Qed.
Print Assumptions C18_global_queue_map.

Theorem C18_global_queue_injective : forall q1 o1 q2 o2,
  1 <= q1 <= 6 -> 1 <= q2 <= 6 -> root_queue_addr (root_index q1 o1) = root_queue_addr (root_index q2 o2) ->
  q1 = q2 /\ o1 = o2.
Proof. exact root_index_injective. Qed.
Print Assumptions C18_global_queue_injective.

Theorem C18_defined_identifier_gets_a_queue : forall priority flags q,
  nz (Z.land flags (not64 DISPATCH_QUEUE_OVERCOMMIT)) = false -> ident_class priority = Some q ->
  global_queue_spec priority flags <> 0 /\
  0 <= root_index (platform_clamp q) (nz (Z.land flags DISPATCH_QUEUE_OVERCOMMIT)) < DISPATCH_ROOT_QUEUE_COUNT.
Proof. exact defined_ident_nonnull. Qed.
Print Assumptions C18_defined_identifier_gets_a_queue.

(* attribute table: bijection between indices and well-formed infos *)
Theorem C18_attr_from_to : forall a, 0 <= a < ATTR_COUNT -> from_info (to_info a) = a.
Proof. exact from_to. Qed.
Print Assumptions C18_attr_from_to.
Theorem C18_attr_to_from : forall i, wf_info i = true -> to_info (from_info i) = i /\ 0 <= from_info i < ATTR_COUNT.
Proof. exact to_from. Qed.
Print Assumptions C18_attr_to_from.

(* constructors are per-field updates of the denoted info ... *)
Theorem C18_ctor_qos : forall a cls rp, valid_attr a -> class_valid cls rp = true ->
  to_info (make_with_qos_class a cls rp) = set_qos (to_info a) (qos_of_class cls) rp /\ valid_attr (make_with_qos_class a cls rp).
Proof. exact ctor_qos. Qed.
Print Assumptions C18_ctor_qos.
Theorem C18_ctor_inactive : forall a, valid_attr a ->
  to_info (make_initially_inactive a) = set_inactive (to_info a) /\ valid_attr (make_initially_inactive a).
Proof. exact ctor_inactive. Qed.
Print Assumptions C18_ctor_inactive.
Theorem C18_ctor_overcommit : forall a oc, valid_attr a ->
  to_info (make_with_overcommit a oc) = set_overcommit (to_info a) (if oc then 1 else 2) /\ valid_attr (make_with_overcommit a oc).
Proof. exact ctor_overcommit. Qed.
Print Assumptions C18_ctor_overcommit.
Theorem C18_ctor_autorelease : forall a f, valid_attr a -> 0 <= f < AF ->
  to_info (make_with_autorelease a f) = set_autorelease (to_info a) f /\ valid_attr (make_with_autorelease a f).
Proof. exact ctor_autorelease. Qed.
Print Assumptions C18_ctor_autorelease.

(* ... hence independent of the order in which they are applied *)
Theorem C18_ctors_commute_qos_inactive : forall a cls rp, valid_attr a -> class_valid cls rp = true ->
  make_initially_inactive (make_with_qos_class a cls rp) = make_with_qos_class (make_initially_inactive a) cls rp.
Proof. exact ctors_commute_qos_inactive. Qed.
Print Assumptions C18_ctors_commute_qos_inactive.
Theorem C18_ctors_commute_qos_overcommit : forall a cls rp oc, valid_attr a -> class_valid cls rp = true ->
  make_with_overcommit (make_with_qos_class a cls rp) oc = make_with_qos_class (make_with_overcommit a oc) cls rp.
Proof. exact ctors_commute_qos_overcommit. Qed.
Print Assumptions C18_ctors_commute_qos_overcommit.
Theorem C18_ctors_commute_inactive_overcommit : forall a oc, valid_attr a ->
  make_with_overcommit (make_initially_inactive a) oc = make_initially_inactive (make_with_overcommit a oc).
Proof. exact ctors_commute_inactive_overcommit. Qed.
Print Assumptions C18_ctors_commute_inactive_overcommit.

(* what a queue created from the attribute reports *)
Theorem C18_created_queue_reports : forall a, valid_attr a ->
  let '(cls, _, _, _) := report a in
  (cls = 0 \/ cls = 9 \/ cls = 17 \/ cls = 21 \/ cls = 25) /\
  (forall q, qos (to_info a) = q -> 2 <= q <= 5 -> cls = class_of_qos q).
Proof. exact report_class_supported. Qed.
Print Assumptions C18_created_queue_reports.

Example C18_nonvacuous :
  valid_attr 0 /\ valid_attr (-1) /\ class_valid 25 (-3) = true /\
  report (make_with_qos_class (make_initially_inactive 0) 33 (-3)) = (25, -3, DISPATCH_QUEUE_WIDTH_MAX, true) /\
  dispatch_get_global_queue 2 0 = root_queue_addr 8 /\ dispatch_get_global_queue 33 2 = root_queue_addr 9 /\
  dispatch_get_global_queue 7 0 = 0.
Proof. unfold valid_attr. repeat split; try (vm_compute; reflexivity); [right|left]; vm_compute; intuition congruence. Qed.

(* ======================================================================================================================
   C18-FRAMES extension (worker) — the clause that was missing above:
   "Inside a work item, dispatch_get_specific(key) returns the value set for key on the nearest queue in the chain from the queue
    the item was submitted to down through its target queues, or NULL, and dispatch_assert_queue accepts exactly the queues of
    that chain (and those of the submitting context for synchronous submissions) while dispatch_assert_queue_not accepts exactly
    the others."
   Model: Model/Frames.v (hand-written, tied by harness/c18_frames.c + lib/props/c18_frames.py).  All theorems hold for every
   finite acyclic queue graph (`wf_graph g = true`: any depth, any fan-in), every frame stack and every placement of keys.
   ====================================================================================================================== *)
From Coq Require Import List Permutation.
From Verif Require Import Gen_dqstate Frames Frames_proofs.
Import ListNotations.

(* _dispatch_thread_frame_find_queue never runs out of the fuel the model gives it, and is true exactly for the queues on the
   target chain of the current queue and of each saved frame (down to the first frame that recorded no queue) *)
Theorem C18_find_queue_exact : forall g th x, wf_graph g = true ->
  exists b, find_queue_opt g th x = Some b /\
    (b = true <-> t_cq th <> 0 /\ (on_chain g (t_cq th) x \/ exists f, In f (live_frames (t_frames th)) /\ on_chain g f x)).
Proof. exact find_queue_total. Qed.
Print Assumptions C18_find_queue_exact.

(* frames that repeat queues of the current chain — present or left out by redirection through concurrent queues
   ("simulate the missing links") — do not change the verdict *)
Theorem C18_find_queue_skipped_frames_irrelevant : forall g cq fr x, wf_graph g = true -> cq <> 0 ->
  (forall f, In f fr -> f <> 0 -> on_chain g cq f) ->
  (find_queue g {| t_cq := cq; t_frames := fr |} x = true <-> on_chain g cq x).
Proof. exact frames_on_chain_irrelevant. Qed.
Print Assumptions C18_find_queue_skipped_frames_irrelevant.

(* dispatch_get_specific: the value of the nearest queue, from the current queue down its target chain, that has a value for
   the key; NULL when none has (or key / current queue is NULL).  `nearest` is functional. *)
Theorem C18_get_specific_nearest : forall g th key, wf_graph g = true -> key <> 0 -> t_cq th <> 0 ->
  exists v, get_specific_opt g th key = Some v /\ nearest g key (t_cq th) v.
Proof. exact get_specific_nearest. Qed.
Print Assumptions C18_get_specific_nearest.
Theorem C18_nearest_functional : forall g key q v1, nearest g key q v1 -> forall v2, nearest g key q v2 -> v1 = v2.
Proof. exact nearest_functional. Qed.
Print Assumptions C18_nearest_functional.
Theorem C18_get_specific_null : forall g th key, key = 0 \/ t_cq th = 0 -> get_specific_opt g th key = Some 0.
Proof. exact get_specific_null. Qed.
Print Assumptions C18_get_specific_null.
(* a queue contributes a value exactly when it admits specifics and its list holds an entry for the key *)
Theorem C18_specific_value_is_held : forall g q key v, v <> 0 -> (get_specific_inline g q key = v <-> holds g q key v).
Proof. exact inline_holds. Qed.
Print Assumptions C18_specific_value_is_held.

(* dispatch_assert_queue = drain-locked-by-self OR find_queue; dispatch_assert_queue_not is its exact complement;
   objects that are neither lanes nor workloops crash both *)
Theorem C18_assert_queue_exact : forall g st tid th dq r, lookup g dq = Some r -> valid_assert_type r = true ->
  (assert_queue g st tid th dq = APass <-> locked_by_self st tid = true \/ find_queue g th dq = true) /\
  (assert_queue g st tid th dq = AFail <-> locked_by_self st tid = false /\ find_queue g th dq = false).
Proof. exact assert_queue_exact. Qed.
Print Assumptions C18_assert_queue_exact.
Theorem C18_assert_queue_not_complement : forall g st tid th dq r, lookup g dq = Some r -> valid_assert_type r = true ->
  (assert_queue_not g st tid th dq = APass <-> assert_queue g st tid th dq = AFail) /\
  (assert_queue_not g st tid th dq = AFail <-> assert_queue g st tid th dq = APass) /\
  assert_queue g st tid th dq <> ACrash /\ assert_queue_not g st tid th dq <> ACrash.
Proof. exact assert_queue_not_complement. Qed.
Print Assumptions C18_assert_queue_not_complement.
Theorem C18_assert_queue_invalid_type : forall g st tid th dq,
  (lookup g dq = None \/ exists r, lookup g dq = Some r /\ valid_assert_type r = false) ->
  assert_queue g st tid th dq = ACrash /\ assert_queue_not g st tid th dq = ACrash.
Proof. exact assert_queue_invalid_type. Qed.
Print Assumptions C18_assert_queue_invalid_type.

(* dispatch_queue_set_specific replaces (or, for NULL, removes) the value of the key on that queue only, leaves the graph alone,
   keeps the list invariant, and posts the destructor of the old value exactly when it had one *)
Theorem C18_set_specific_replaces : forall g dq key ctxt dtor r, specifics_ok g -> key <> 0 ->
  lookup g dq = Some r -> admits_specific r = true ->
  exists g' posted, set_specific g dq key ctxt dtor = SetOk g' posted /\
    queue_get_specific g' dq key = ctxt /\
    (forall q' k', q' <> dq \/ k' <> key -> get_specific_inline g' q' k' = get_specific_inline g q' k') /\
    (forall q', target g' q' = target g q') /\ wf_graph g' = wf_graph g /\ specifics_ok g' /\
    posted = old_posts (if q_head r then q_entries r else []) key.
Proof. exact set_specific_replaces. Qed.
Print Assumptions C18_set_specific_replaces.
(* over any history of set_specific calls on a queue, the destructor calls posted so far together with the entries that still
   hold a destructor (the ones _dispatch_queue_specific_head_dispose calls) are, as a multiset, exactly the (value, destructor)
   pairs ever stored: each old destructor runs exactly once *)
Theorem C18_destructors_exactly_once : forall ops l,
  Permutation (snd (run_entries l ops) ++ dtor_entries (fst (run_entries l ops))) (sets_with_dtor ops ++ dtor_entries l).
Proof. exact destructors_exactly_once. Qed.
Print Assumptions C18_destructors_exactly_once.

(* ---- inside a work item.  PARTIAL in this sense only: `frames_of_path` (which current queue and frames each submission path —
   async, barrier, group, blocks with private data, sync fast/slow, sync executed by a bound thread through
   _dispatch_async_and_wait_invoke with dc_other, async_and_wait, redirection through concurrent queues, apply — establishes)
   is HAND-WRITTEN and tied to the library only by the correspondence run, not by proof.  Full statement = the three theorems
   below with `frames_of_path g p` replaced by "the thread state the library has when the item submitted along p runs". *)
Theorem C18_item_get_specific_partial : forall g p key, wf_graph g = true -> path_top p <> 0 -> key <> 0 ->
  exists v, get_specific_opt g (frames_of_path g p) key = Some v /\ nearest g key (path_top p) v.
Proof. exact item_get_specific. Qed.
Print Assumptions C18_item_get_specific_partial.
Theorem C18_item_current_queue_partial : forall g p dflt, wf_graph g = true -> path_top p <> 0 ->
  current_queue_or_default dflt (frames_of_path g p) = path_top p.
Proof. exact item_current_queue. Qed.
Print Assumptions C18_item_current_queue_partial.
(* accepted = queues of the chain of the queue submitted to, plus (synchronous submissions) whatever the submitting context
   accepted, plus queues whose drain lock the executing thread holds; assert_queue_not accepts exactly the others.
   NOTE: `st` (the lock word) and `tid` are FREE here, so the third disjunct is unconstrained by this theorem.  It is tied down in
   Properties_C18_locks.v: under lock_discipline the disjunct disappears, and for serial hierarchies under dispatch_async the
   discipline is proved from the protocol model (C03 hlane) with the lock words of the reachable state. *)
Theorem C18_item_assert_queue_partial : forall g p st tid q r, wf_graph g = true -> path_top p <> 0 ->
  lookup g q = Some r -> valid_assert_type r = true ->
  (assert_queue g st tid (frames_of_path g p) q = APass <->
     locked_by_self st tid = true \/ on_chain g (path_top p) q \/
     match path_ctx p with Some c => find_queue g c q = true | None => False end) /\
  (assert_queue_not g st tid (frames_of_path g p) q = APass <->
     ~ (locked_by_self st tid = true \/ on_chain g (path_top p) q \/
        match path_ctx p with Some c => find_queue g c q = true | None => False end)).
Proof. exact item_assert_queue. Qed.
Print Assumptions C18_item_assert_queue_partial.
(* a block run on behalf of a sync waiter by the thread a queue is bound to sees what the waiter itself would see.
   DEFINITIONAL in the model (both sides are {top; ctx.cq :: ctx.frames}; the proof is reflexivity): the content is in frames_of_path
   assigning push_and_rebase(dc_other = top, dsc_dtf) to that path, which only the correspondence (the "sync-remote" probes) ties *)
Theorem C18_remote_same_as_self : forall g top ctx runner,
  frames_of_path g (PSyncRemote top ctx runner) = frames_of_path g (PSync top ctx).
Proof. exact remote_same_as_self. Qed.
Print Assumptions C18_remote_same_as_self.

(* hypotheses are satisfiable on a non-trivial state: 3 (concurrent) -> 2 -> 1 -> main queue (thread-bound) -> root 107,
   6 -> 5 -> 4 (all concurrent) -> root 106; keys at several levels; a sync from inside an item of queue 6 *)
Example C18_frames_nonvacuous :
  let g0 := example_graph in
  wf_graph g0 = true /\
  match run_sets g0 [(1, 1, 9001, 0); (2, 2, 9002, 1); (3, 3, 9003, 0); (200, 3, 9004, 0); (2, 1, 9005, 0); (2, 2, 9008, 1); (107, 2, 7, 0)] with
  | Some (g, posted) =>
      posted = [(9002, 1)] /\
      let item := frames_of_path g (PAsync 6 [5; 4]) in                (* async on 6, redirected through 5 and 4 *)
      let inner := frames_of_path g (PSyncRemote 3 item {| t_cq := 200; t_frames := [] |}) in   (* sync onto 3 from inside it, run by the main thread *)
      item = {| t_cq := 6; t_frames := [106] |} /\ inner = {| t_cq := 3; t_frames := [6; 106] |} /\
      map (get_specific g inner) [1; 2; 3; 4] = [9005; 9008; 9003; 0] /\
      map (find_queue g inner) [3; 2; 1; 200; 107; 6; 5; 4; 106] = [true; true; true; true; true; true; true; true; true] /\
      map (find_queue g item) [6; 5; 4; 106; 3; 200] = [true; true; true; true; false; false] /\
      assert_queue g 0 77 item 3 = AFail /\ assert_queue_not g 0 77 item 3 = APass /\ assert_queue g 77 77 item 3 = APass
  | None => False
  end.
Proof. vm_compute. repeat split; reflexivity. Qed.
(* end of the C18-FRAMES extension *)
