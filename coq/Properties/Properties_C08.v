(* C08 — dispatch semaphores conserve permits: no spurious success, no lost signal.
   Model: Model/Sema.v (thread automaton + dsema_value word + kernel semaphore count + ghost history counters), whose
   atomic sites, memory orders and LONG_MIN/LONG_MAX are Gen_sema, regenerated from src/semaphore.c.
   All statements are about every reachable state of a semaphore created with any value 0 <= v <= LONG_MAX: any number
   of threads, any history of signal / wait-forever / timed wait / polling wait calls, any interleaving of their atomic
   steps, spurious weak-CAS failures, sem_timedwait timing out at any moment (in particular while a signal is in flight).
   Not in the model (see Sema.v): the LONG_MIN overflow crash of dispatch_semaphore_signal, 2^63 simultaneous waiters,
   and elapsed real time: "returns non-zero only after its full timeout" is proved as control flow only
   (C08_nonzero_only_via_timeout_or_poll: the undo code is entered only by ETIMEDOUT of sem_timedwait or by
   DISPATCH_TIME_NOW; C08_return_value_tells: a non-zero return happens only from there, after the undo CAS); the
   absolute deadline handed to sem_timedwait is C12_since_epoch (Properties_C12.v); the harness checks the real clock. *)
From Coq Require Import ZArith Bool List.
From Verif Require Import Word Conc Replay Gen_consts Gen_fields Gen_sema Sema SemaR Sema_proofs SemaR_proofs.
Import ListNotations.
Local Open Scope Z_scope.

(* the balance invariant: with #X = number of threads at program points X,
   #slow-path waiters = max(0, -value) + #signallers at sem_post + kernel count;
   value + #slow + #(waits about to return 0) + #(signals before their increment) = v + signals started - successes;
   every started call is finished or at exactly one program point *)
Theorem C08_balance : forall v s, valid_init v -> reach v s ->
  v0 s = v /\ 0 <= ksem s /\ SEMA_LONG_MIN <= value s <= SEMA_LONG_MAX /\
  cnt is_Slow s = Z.max 0 (- value s) + cnt is_SigPost s + ksem s /\
  value s + cnt is_Slow s + cnt is_WRet0 s + cnt is_SigInc s = v0 s + sig_started s - successes s /\
  sig_started s = sig_finished s + cnt is_SigInc s + cnt is_SigPost s + cnt is_SigRet s /\
  waits_started s = successes s + timeouts s + cnt is_WDec s + cnt is_Slow s + cnt is_WRet0 s + cnt is_WRetT s.
Proof. exact balance_reach. Qed.
Print Assumptions C08_balance.

(* at every moment: waits that have returned 0 <= v + signals that have started *)
Theorem C08_no_spurious_success : forall v s, valid_init v -> reach v s ->
  successes s <= v + sig_started s /\
  successes s + cnt is_WRet0 s <= v + (sig_started s - cnt is_SigInc s).
Proof. exact no_spurious_success. Qed.
Print Assumptions C08_no_spurious_success.

(* a timed-out wait (or a poll that found nothing) either re-increments the value or consumes the pending post,
   never both, never neither; the return value says which *)
Theorem C08_timeout_neutral : forall v s t, valid_init v -> reach v s ->
  (pcs s t = PWRetT -> g_undo s t = 1 /\ g_cons s t = 0 /\ g_tout s t = true) /\
  (pcs s t = PWRet0 -> g_undo s t = 0 /\ 0 <= g_cons s t <= 1 /\ (g_tout s t = true -> g_cons s t = 1)).
Proof. exact timeout_neutral. Qed.
Print Assumptions C08_timeout_neutral.
Theorem C08_return_value_tells : forall v s t e s',
  valid_init v -> reach v s -> gstep s t e = Some s' -> ev_kind e DVU_RET = true ->
  (exists r, pcs s t = PSigRet r /\ ea e = r) \/
  (pcs s t = PWRet0 /\ ea e = 0 /\ successes s' = successes s + 1 /\ timeouts s' = timeouts s /\
     g_undo s t = 0 /\ (g_tout s t = true -> g_cons s t = 1)) \/
  (pcs s t = PWRetT /\ ea e <> 0 /\ timeouts s' = timeouts s + 1 /\ successes s' = successes s /\
     g_tout s t = true /\ g_undo s t = 1 /\ g_cons s t = 0).
Proof. exact return_value_tells. Qed.
Print Assumptions C08_return_value_tells.
Theorem C08_nonzero_only_via_timeout_or_poll : forall s t e s',
  gstep s t e = Some s' -> g_tout s t = false -> g_tout s' t = true ->
  (exists k, pcs s t = PWDec k /\ k = WNow) \/ (pcs s t = PWTimed /\ eb e <> 0).
Proof. exact tout_only_by_timeout_or_poll. Qed.
Print Assumptions C08_nonzero_only_via_timeout_or_poll.

(* after all calls have finished: exactly v + signals - successful waits permits remain, all of them in the value
   word (the kernel count is 0), so a timed-out waiter neither consumed nor lost a signal *)
Theorem C08_conservation : forall v s, valid_init v -> reach v s -> quiescent s ->
  value s = v + sig_started s - successes s /\ 0 <= value s /\ ksem s = 0 /\
  sig_finished s = sig_started s /\ waits_started s = successes s + timeouts s.
Proof. exact conservation. Qed.
Print Assumptions C08_conservation.
(* ... and at every moment the permits obtainable right now (positive part of the value + kernel count) are
   v + signals past their increment-and-post - waits that have obtained a permit *)
Theorem C08_available_permits : forall v s, valid_init v -> reach v s ->
  Z.max (value s) 0 + ksem s = v + (sig_finished s + cnt is_SigRet s) - (successes s + cnt is_WRet0 s).
Proof. exact available_permits. Qed.
Print Assumptions C08_available_permits.
(* "obtainable": from a quiescent state with value n, n polls succeed and the next one times out *)
Theorem C08_drain : forall v s t n, valid_init v -> reach v s -> quiescent s -> value s = Z.of_nat n ->
  exists s', grun s (drain_schedule t n) = Some s' /\ quiescent s' /\ value s' = 0 /\
             successes s' = successes s + Z.of_nat n /\ timeouts s' = timeouts s + 1.
Proof. exact drain_run. Qed.
Print Assumptions C08_drain.

(* no lost signal: a waiter in the slow path (asleep in sem_wait / sem_timedwait, or on its way) while a permit is
   obtainable always has a post in the kernel count (its sem_wait is enabled) or a signaller right before sem_post *)
Theorem C08_no_lost_signal : forall v s t, valid_init v -> reach v s -> is_Slow (pcs s t) = 1 ->
  0 < v + (sig_finished s + cnt is_SigRet s) - (successes s + cnt is_WRet0 s) ->
  0 < ksem s \/ exists u, pcs s u = PSigPost.
Proof. exact no_lost_signal. Qed.
Print Assumptions C08_no_lost_signal.
(* the same, in the form "no reachable state has a blocked waiter, k = 0, no signaller between its increment and its
   post, and v + signals finished - waits granted > 0" (granted = returned 0 or standing at `return 0`; counting only
   the returned ones would be false: see Sema_proofs.blocked_means_no_permit) *)
Theorem C08_blocked_means_no_permit : forall v s t, valid_init v -> reach v s -> is_Slow (pcs s t) = 1 ->
  ksem s = 0 -> (forall u, pcs s u <> PSigPost) ->
  v + sig_finished s - (successes s + cnt is_WRet0 s) <= 0 /\ value s = - cnt is_Slow s /\ value s < 0.
Proof. exact blocked_means_no_permit. Qed.
Print Assumptions C08_blocked_means_no_permit.

(* ties: the model's atomic sites and memory orders are the source's; the global model moves threads by the thread
   automaton; the conformance automaton is the thread automaton plus the plain read the hook cannot see *)
Theorem C08_sites_match_source :
  model_sites_signal = dispatch_semaphore_signal_sites /\ model_sites_signal_slow = f_dispatch_semaphore_signal_slow_sites /\
  model_sites_wait = dispatch_semaphore_wait_sites /\ model_sites_wait_slow = f_dispatch_semaphore_wait_slow_sites.
Proof. repeat split. Qed.
Print Assumptions C08_sites_match_source.
Theorem C08_model_uses_thread_automaton : forall s t e s',
  gstep s t e = Some s' -> tstep (pcs s t) e = Some (pcs s' t).
Proof. exact gstep_tstep. Qed.
Print Assumptions C08_model_uses_thread_automaton.
Theorem C08_conformance_automaton_sound : forall p e p', tstep_vis p e = Some p' ->
  (p <> PWLoad /\ tstep p e = Some p') \/
  (p = PWLoad /\ exists v, tstep PWLoad (plain_load v) = Some (PWUndo (s64 v)) /\ tstep (PWUndo (s64 v)) e = Some p').
Proof. exact tstep_vis_sound. Qed.
Print Assumptions C08_conformance_automaton_sound.

(* whole-round replay (lib/props/c08.py): the scheduler of SemaR.replay only takes steps of the model, so the state it ends
   in is reachable (every theorem above applies to it); the boolean invariant it evaluates there is true on every reachable
   state *)
Theorem C08_replay_reach : forall v w depths chains ord s done rest,
  sched gstep sema_hidden sema_accepts sema_valid (S (length ord)) w depths chains (init_state v) ord 0 = (s, done, rest) ->
  reach v s.
Proof. exact replay_reach. Qed.
Print Assumptions C08_replay_reach.
Theorem C08_replay_invariant : forall v tids s, valid_init v -> reach v s -> inv_b v tids s = true.
Proof. exact inv_b_reach. Qed.
Print Assumptions C08_replay_invariant.

(* non-vacuity: semaphore created with 0.  Thread 1 waits with a timeout and goes to sleep; thread 2 signals and is
   preempted between its increment and its sem_post; thread 1 times out, finds the value no longer negative, falls
   into sem_wait (asleep, kernel count 0, the signaller at PSigPost: the premise of C08_no_lost_signal holds);
   thread 2 posts; thread 1 consumes the post and returns 0.  Then thread 3 polls an empty semaphore: undo, non-zero. *)
Definition M1 := 18446744073709551615.
Definition demo_schedule : list (Z * event) :=
  [ (1, mkEv DVU_CALL 0 0 0 0 OP_WAIT 777777 1); (1, mkEv DV_SUB MO_ACQUIRE 0 0 8 0 1 1);
    (2, mkEv DVU_CALL 0 0 0 0 OP_SIGNAL 0 1); (2, mkEv DV_ADD MO_RELEASE 0 0 8 M1 1 1);
    (1, mkEv DV_SEM_TIMEDWAIT_RET 0 0 16 0 777777 1 1); (1, plain_load 0); (1, mkEv DV_SEM_WAIT 0 0 16 0 0 0 1);
    (2, mkEv DV_SEM_POST 0 0 16 0 1 0 1); (2, mkEv DVU_RET 0 0 0 0 1 0 1);
    (1, mkEv DV_SEM_WAIT_RET 0 0 16 0 0 0 1); (1, mkEv DVU_RET 0 0 0 0 0 0 1);
    (3, mkEv DVU_CALL 0 0 0 0 OP_WAIT DISPATCH_TIME_NOW 1); (3, mkEv DV_SUB MO_ACQUIRE 0 0 8 0 1 1);
    (3, plain_load M1); (3, mkEv DV_CASW MO_RELAXED 0 0 8 M1 0 1); (3, mkEv DVU_RET 0 0 0 0 M1 0 1) ].
Example C08_nonvacuous :
  match grun (init_state 0) (firstn 7 demo_schedule) with
  | Some s => pcs s 1 = PWBlocked /\ ksem s = 0 /\ pcs s 2 = PSigPost /\ value s = 0 /\ g_tout s 1 = true /\
              cnt is_Slow s = 1 /\ cnt is_SigPost s = 1
  | None => False end /\
  match grun (init_state 0) (firstn 11 demo_schedule) with
  | Some s => (forall t, In t [1; 2; 3] -> pcs s t = PIdle) /\ value s = 0 /\ ksem s = 0 /\ successes s = 1 /\
              sig_finished s = 1 /\ g_cons s 1 = 1 /\ g_undo s 1 = 0
  | None => False end /\
  match grun (init_state 0) demo_schedule with
  | Some s => value s = 0 /\ ksem s = 0 /\ successes s = 1 /\ timeouts s = 1 /\ g_undo s 3 = 1 /\ g_cons s 3 = 0
  | None => False end /\
  match grun (init_state 2) (drain_schedule 5 2) with
  | Some s => value s = 0 /\ successes s = 2 /\ timeouts s = 1 | None => False end.
Proof.
  vm_compute. repeat split; intros t [<-|[<-|[<-|[]]]]; reflexivity.
Qed.
