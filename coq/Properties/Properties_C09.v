(* C09 — dispatch_once runs its initialiser exactly once, before anyone returns.
   Model: Model/Once.v (thread automaton + memory/kernel semantics), whose rmw-loop body, memory orders, constants
   and atomic-site lists are Gen_once, regenerated from src/once.c, src/shims/lock.h, src/shims/lock.c.
   All statements are about every reachable state: any number of threads, any interleaving, spurious futex
   returns and spurious weak-CAS failures included; a call enters either directly (dispatch_once_f of the library) or through
   the inline wrapper of dispatch/once.h (program points PFast / PFRet: plain read of the predicate, ~0l = return at once).
   Not modelled (see the header of Model/Once.v): an initialiser that itself calls dispatch_once (same predicate: the
   library crashes "trying to lock recursively", a client obligation; another predicate: an independent instance); a
   predicate overwritten by the client. *)
From Coq Require Import ZArith Bool List.
From Verif Require Import Word Conc Replay Gen_consts Gen_once Once OnceR Once_proofs OnceR_proofs.
Import ListNotations.
Local Open Scope Z_scope.

Theorem C09_exactly_once : forall s, reach s ->
  starts s <= 1 /\ (finished s = true -> starts s = 1) /\ (starts s = 0 -> finished s = false).
Proof. exact exactly_once. Qed.
Print Assumptions C09_exactly_once.

(* no call returns before the initialiser has completed (early_ret records any return taken while it had not) *)
Theorem C09_no_return_before_completion : forall s, reach s -> early_ret s = false.
Proof. exact no_early_return. Qed.
Print Assumptions C09_no_return_before_completion.
Theorem C09_return_implies_finished : forall s t e s',
  reach s -> valid_tid t -> gstep s t e = Some s' -> ev_kind e DVU_RET = true -> finished s = true.
Proof. exact return_enabled_only_after_finish. Qed.
Print Assumptions C09_return_implies_finished.

(* callers that arrive while it is in progress are released: a thread asleep in futex_wait always has the owner
   on its way to the broadcast, and the owner cannot skip the broadcast *)
Theorem C09_waiters_released : forall s t, reach s -> slp s t = Sleeping ->
  exists o, owner s = Some o /\
    ((word s = W o /\ (pcs s o = PCall \/ pcs s o = PInCall \/ pcs s o = PMark)) \/ pcs s o = PWake).
Proof. exact sleeper_has_waker. Qed.
Print Assumptions C09_waiters_released.
Theorem C09_owner_cannot_skip_broadcast : forall s o e s',
  valid_tid o -> pcs s o = PMark -> word s = W o -> gstep s o e = Some s' -> pcs s' o = PWake /\ word s' = DONE.
Proof. exact mark_with_waiters_wakes. Qed.
Print Assumptions C09_owner_cannot_skip_broadcast.

(* later calls: DONE is stable and no caller can go to sleep on a completed gate *)
Theorem C09_later_calls_do_not_block : forall s t e s',
  reach s -> valid_tid t -> word s = DONE -> gstep s t e = Some s' ->
  word s' = DONE /\ (slp s' t = Sleeping -> slp s t = Sleeping).
Proof. exact done_stable. Qed.
Print Assumptions C09_later_calls_do_not_block.

(* the inline fast path of dispatch/once.h.  The fact its plain read relies on: the gate word is ~0l only after the initialiser
   has finished (and ran exactly once) *)
Theorem C09_done_implies_finished : forall s, reach s -> word s = DONE -> finished s = true /\ starts s = 1.
Proof. exact done_implies_finished. Qed.
Print Assumptions C09_done_implies_finished.
(* the wrapper's step reads the gate word, takes the way out iff it is ~0l, otherwise enters the library; it writes nothing *)
Theorem C09_fast_path_reads_done : forall s t e s', gstep s t e = Some s' -> pcs s t = PFast ->
  ea e = word s /\ (pcs s' t = PFRet <-> word s = DONE) /\ (pcs s' t = PFRet \/ pcs s' t = PTry) /\ word s' = word s.
Proof. exact fast_path_reads_done. Qed.
Print Assumptions C09_fast_path_reads_done.
(* a caller on its way out through the fast path returns after the initialiser finished (C09_no_return_before_completion and
   C09_return_implies_finished cover its return step as well: early_ret is also set at PFRet) *)
Theorem C09_fast_path_returns_after_completion : forall s t, reach s -> pcs s t = PFRet -> finished s = true /\ starts s = 1.
Proof. exact fast_return_after_finish. Qed.
Print Assumptions C09_fast_path_returns_after_completion.

(* the crash path of _dispatch_gate_broadcast_slow ("lock not owned by current thread") is unreachable: the word the owner
   exchanges for DONE is its own lock value, with or without the waiters bit *)
Theorem C09_broadcast_crash_unreachable : forall s o, reach s -> valid_tid o -> pcs s o = PMark ->
  owner s = Some o /\ (word s = o \/ word s = W o).
Proof. exact mark_word_is_owners. Qed.
Print Assumptions C09_broadcast_crash_unreachable.

(* whole-round replay (lib/props/c09.py): the scheduler of OnceR.replay only takes steps of the model, so the state it ends
   in is reachable; the boolean invariant it evaluates there is true on every reachable state *)
Theorem C09_replay_reach : forall w depths chains ord s done rest,
  sched gstep once_hidden once_accepts valid_tidb (S (length ord)) w depths chains init_state ord 0 = (s, done, rest) -> reach s.
Proof. exact replay_reach. Qed.
Print Assumptions C09_replay_reach.
Theorem C09_replay_invariant : forall tids s, reach s -> inv_b tids s = true.
Proof. exact inv_b_reach. Qed.
Print Assumptions C09_replay_invariant.

(* ties: the model's atomic sites are the source's; the global model moves threads by the conformance automaton, which is the
   thread automaton plus the one hidden plain read of the inline wrapper *)
Theorem C09_conformance_automaton : forall self p e p', tstep_vis self p e = Some p' ->
  tstep self p e = Some p' \/ exists v p1, tstep self p (ev_plain_load v) = Some p1 /\ tstep self p1 e = Some p'.
Proof. exact tstep_vis_sound. Qed.
Print Assumptions C09_conformance_automaton.
Theorem C09_sites_match_source :
  model_sites_dispatch_once_f = dispatch_once_f_sites /\ model_sites_once_wait = once_wait_sites /\
  once_wait_loop_order = Relaxed.
Proof. repeat split. Qed.
Print Assumptions C09_sites_match_source.
Theorem C09_model_uses_thread_automaton : forall s t e s',
  gstep s t e = Some s' -> tstep t (pcs s t) e = Some (pcs s' t).
Proof. exact gstep_tstep. Qed.
Print Assumptions C09_model_uses_thread_automaton.

(* non-vacuity: a concrete schedule in which thread 7 wins, thread 9 sets the waiters bit and sleeps, 7 finishes,
   publishes DONE, wakes; 9 wakes up, sees DONE and returns; thread 11 then calls through the inline wrapper and leaves by
   the fast path — every intermediate state is reachable *)
Definition ev k o a b ok := mkEv k o 0 0 8 a b ok.
Definition demo_schedule : list (Z * event) :=
  [ (7, ev DVU_CALL 0 0 0 1); (7, ev DV_CAS 0 0 7 1); (9, ev DVU_CALL 0 0 0 1); (9, ev DV_CAS 0 7 9 0);
    (7, ev DVU_CALLOUT_BEGIN 0 0 0 1); (9, ev DV_LOAD 0 7 7 1); (9, ev DV_CASW 0 7 2147483655 1);
    (9, ev DV_FUTEX_WAIT 0 2147483655 0 1); (7, ev DVU_CALLOUT_END 0 0 0 1);
    (7, ev DV_XCHG 3 2147483655 18446744073709551615 1); (7, ev DV_FUTEX_WAKE 0 0 0 1); (7, ev DVU_RET 0 0 0 1);
    (9, ev DV_FUTEX_WAIT_RET 0 0 0 1); (9, ev DV_LOAD 0 18446744073709551615 18446744073709551615 1);
    (9, ev DVU_RET 0 0 0 1);
    (* a later call through the inline wrapper: plain read of ~0l, return *)
    (11, ev DVU_CALL 0 1 0 1); (11, ev DV_LOAD MO_PLAIN 18446744073709551615 18446744073709551615 1); (11, ev DVU_RET 0 0 0 1) ].
Example C09_nonvacuous :
  match grun init_state (firstn 9 demo_schedule) with
  | Some s => slp s 9 = Sleeping /\ word s = W 7 /\ pcs s 7 = PMark | None => False end /\
  match grun init_state (firstn 17 demo_schedule) with
  | Some s => pcs s 11 = PFRet /\ word s = DONE | None => False end /\
  match grun init_state demo_schedule with
  | Some s => word s = DONE /\ starts s = 1 /\ finished s = true /\ pcs s 9 = PIdle /\ pcs s 11 = PIdle /\ early_ret s = false
  | None => False end.
Proof. vm_compute. repeat split. Qed.
