(* C02 — serial queues run one item at a time, in submission order.
   THIS FILE holds only word-level mechanisms, for all 2^64 state words of the generated bodies.  The exclusion / FIFO /
   real-time order theorems over all interleavings are in Properties_C02_slane.v (serial lane, async),
   Properties_C02_sync.v (order across asynchronous and synchronous submissions) and Properties_C02_mainq.v (main
   queue); the rest is decided on the implementation by the stress oracle. *)
From Coq Require Import ZArith Bool List.
From Verif Require Import Word Gen_consts Gen_dqstate Suspend_proofs Lane_iface.
Import ListNotations.
Local Open Scope Z_scope.

(* exclusive drain lock acquisition fails if any owner, width or suspension is present *)
Theorem C02_lock_fails_when_not_free_partial : forall s flags w self floor ov,
  Z.land s LOCK_FAIL <> 0 ->
  (exists r, f_dispatch_queue_drain_try_lock 0 flags w self floor s ov = NoCommit r [] /\ r = 0) \/
  (exists m, f_dispatch_queue_drain_try_lock 0 flags w self floor s ov = Commit (Z.lxor s m) 0 /\
             (m = 2147483648 \/ m = 274877906944)).
Proof. exact drain_lock_refused_when_not_free. Qed.
Print Assumptions C02_lock_fails_when_not_free_partial.
Theorem C02_held_lock_is_not_free_partial : forall s, Z.land s OWNER_MASK <> 0 -> Z.land s LOCK_FAIL <> 0.
Proof. exact held_is_not_free. Qed.
Print Assumptions C02_held_lock_is_not_free_partial.

(* the barrier-sync fast path is a compare-and-swap from the completely idle state only, so it cannot overtake
   queued items (an enqueued or running item leaves ENQUEUED / owner / width bits in the word) *)
Theorem C02_barrier_sync_fastpath_from_idle_only_partial : forall s tid k w new r,
  f_dispatch_queue_try_acquire_barrier_sync_and_suspend 0 tid k w s = Commit new r ->
  s = Z.lor (u64 (Z.shiftl (u64 (4096 - w)) 41)) (Z.land s ROLE_MASK) /\ r = 1.
Proof. exact barrier_fastpath_from_idle_only. Qed.
Print Assumptions C02_barrier_sync_fastpath_from_idle_only_partial.

(* its inline unlock refuses as soon as something was enqueued, made dirty or suspended meanwhile: the slow
   completion path then looks at the list *)
Theorem C02_fastpath_unlock_refuses_partial : forall s,
  (Z.land s ENQUEUED <> 0 \/ Z.land s DIRTY <> 0 \/ Z.land s 18410715276690587648 <> 0) ->
  barrier_sync_unlock_loop 0 0 0 s = NoCommit 1 [].
Proof. exact barrier_sync_unlock_refuses. Qed.
Print Assumptions C02_fastpath_unlock_refuses_partial.

(* the reader (non-barrier sync) fast path refuses any word that is dirty, has a pending barrier, is not sync-runnable, or
   whose list is non-empty.  (That a SERIAL queue never takes this path at all is decided before the word is looked at:
   `_dispatch_sync_f_inline` tests dq_width == 1 and goes to the barrier path; that branch is not in this word-level
   statement.) *)
Theorem C02_reader_fastpath_guards_partial : forall s tail w,
  (nz (f_dq_state_is_dirty s) = true \/ nz (f_dq_state_has_pending_barrier s) = true \/
   nz (f_dq_state_is_sync_runnable s) = false \/ nz tail = true) ->
  exists r, f_dispatch_queue_try_reserve_sync_width 0 tail s w = NoCommit r [].
Proof. exact reader_fastpath_guards. Qed.
Print Assumptions C02_reader_fastpath_guards_partial.

Example C02_nonvacuous :
  f_dispatch_queue_try_acquire_barrier_sync_and_suspend 0 77 0 1 (init_st_plain 1) =
    Commit (27021597764222976 + 77) 1 /\
  f_dispatch_queue_try_acquire_barrier_sync_and_suspend 0 77 0 1 (init_st_plain 1 + 2147483648) = NoCommit 0 [] /\
  Z.land (27021597764222976 + 77) LOCK_FAIL <> 0.
Proof. repeat split; vm_compute; congruence. Qed.
