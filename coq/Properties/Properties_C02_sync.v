(* C02 (order across submission kinds) — "items run in submission order" for ANY MIX of dispatch_async_f,
   dispatch_sync_f / dispatch_barrier_sync_f and dispatch_async_and_wait_f on one serial lane.

   Model: Model/SyncWait.v (the lane of C05_sync: per-thread automata with one program point per atomic site, every
   dq_state transition the rmw body generated from the source, any number of threads, every interleaving) with the ghost
   history of Model/SyncOrder.v on top of its UNCHANGED steps: every submission call gets a number; `returned` = the
   calls that have returned, `pre b` = what had returned when call b began, `caller`, `started` / `finished` = the
   calls whose item's callout has begun / ended.

   Real-time order (C02_sync_realtime_order, C02_sync_start_step_after_finish): when the callout of item B begins, every
   item whose submission call had returned before B's call began has finished.  Program order across kinds
   (C02_sync_same_thread_order) is the special case: a thread's earlier call has returned when its next call begins, so
   an item submitted with dispatch_async by a thread has finished when the item of a LATER dispatch_sync /
   dispatch_barrier_sync / dispatch_async_and_wait (or dispatch_async) of the same thread starts.

   What carries the proof on the fast path is the plain read of dq_items_tail in
   _dispatch_queue_try_acquire_barrier_sync (program point S_ftail; added by libdispatch 43b9c73): without it the
   theorem FAILS in the model — C02_sync_overtake_refuted_old_fast_path is the overtake schedule as an executable run of
   the old automaton (SyncWait.tstep_old), the model-level replay of the defect; C02_sync_overtake_refused is the same
   schedule under the fixed automaton.  The plain read is not an atomic site: it is an unobserved step of the model
   (as the other plain reads of dq_items_tail), tied to the source by reading; the conformance check
   (lib/props/c05_sync.py) replays the recorded overtake schedule of the real library through the model.
   Scope: as Model/SyncWait.v (one serial lane on a root queue, not suspended / retargeted / thread bound).
   FLAT CLIENTS: a submission call (DVU_CALL) is accepted only at Idle, never from inside a work item of the lane: an item
   that submits to its own queue (drainer = pusher) is outside the model and outside every theorem of this file; "any mix
   of submission kinds, any number of threads" is about threads that are clients between callouts or workers. *)
From Coq Require Import ZArith Bool List.
From Verif Require Import Word Conc Gen_consts Gen_dqstate Gen_lanesites SyncWait SyncWait_word SyncWait_inv SyncWait_proofs
  SyncWait_example SyncOrder SyncOrder_proofs SyncOrder_example.
Import ListNotations.
Local Open Scope Z_scope.

(* the history rides on the unchanged model *)
Theorem C02_sync_history_over_unchanged_steps : forall s h, xreach s h -> reach s.
Proof. exact xreach_reach. Qed.
Print Assumptions C02_sync_history_over_unchanged_steps.

(* real-time order: once B's callout has begun, whatever had returned before B's call began has finished ... *)
Theorem C02_sync_realtime_order : forall s h b a, xreach s h -> In b (started h) -> In a (pre h b) -> In a (finished h).
Proof. exact realtime_order. Qed.
Print Assumptions C02_sync_realtime_order.

(* ... and it had finished BEFORE the step at which B's callout begins *)
Theorem C02_sync_start_step_after_finish : forall s h t e s' b a,
  xreach s h -> valid_tid t -> gstep s t e = Some s' -> started (hstep s h t e) = b :: started h ->
  In a (pre h b) -> In a (finished h).
Proof. exact start_step_after_finish. Qed.
Print Assumptions C02_sync_start_step_after_finish.

(* what `pre` is: fixed to `returned` by the CALL step of any of the four submission functions, never changed afterwards *)
Theorem C02_sync_pre_is_returned_at_call : forall s h t e s',
  xreach s h -> pcs s t = Idle -> ek e = DVU_CALL -> gstep s t e = Some s' ->
  let h' := hstep s h t e in
  callno h' t = nextc h /\ caller h' (nextc h) = t /\ pre h' (nextc h) = returned h /\ nextc h' = nextc h + 1.
Proof. exact call_records_returned. Qed.
Print Assumptions C02_sync_pre_is_returned_at_call.
Theorem C02_sync_pre_stable : forall s h t e b,
  b < nextc h -> pre (hstep s h t e) b = pre h b /\ caller (hstep s h t e) b = caller h b.
Proof. exact pre_stable. Qed.
Print Assumptions C02_sync_pre_stable.

(* same-thread order across submission kinds: call a of a thread had returned when its later call b began ... *)
Theorem C02_sync_program_order : forall s h a b,
  xreach s h -> 0 <= a -> a < b -> b < nextc h -> caller h a = caller h b -> In a (pre h b).
Proof. exact program_order. Qed.
Print Assumptions C02_sync_program_order.

(* ... hence A has finished when B starts, whatever the two submission functions were *)
Theorem C02_sync_same_thread_order : forall s h a b,
  xreach s h -> 0 <= a -> a < b -> b < nextc h -> caller h a = caller h b -> In b (started h) -> In a (finished h).
Proof. exact same_thread_order. Qed.
Print Assumptions C02_sync_same_thread_order.

(* the history is what it says: finished items were started, started items are calls, `pre` only holds returned calls *)
Theorem C02_sync_finished_were_started : forall s h a, xreach s h -> In a (finished h) -> In a (started h).
Proof. exact finished_were_started. Qed.
Print Assumptions C02_sync_finished_were_started.
Theorem C02_sync_pre_are_returned : forall s h b a, xreach s h -> In a (pre h b) -> In a (returned h).
Proof. exact pre_are_returned. Qed.
Print Assumptions C02_sync_pre_are_returned.

(* the tail test: the fast path goes on to its compare-exchange only from a state in which dq_items_tail is NULL *)
Theorem C02_sync_fast_path_needs_empty_list : forall s t k e s',
  pcs s t = S_ftail k -> gstep s t e = Some s' -> fastp (pcs s' t) = true -> tail_value s = 0.
Proof. exact fast_path_needs_empty_list. Qed.
Print Assumptions C02_sync_fast_path_needs_empty_list.

(* the atomic sites of the fast path (initial load, weak compare-exchange with acquire) are the ones read from the source *)
Theorem C02_sync_fast_path_sites : model_sites_fast_path = f_dispatch_queue_try_acquire_barrier_sync_and_suspend_sites.
Proof. exact sites_fast_path. Qed.
Print Assumptions C02_sync_fast_path_sites.

(* the whole invariant *)
Theorem C02_sync_invariant : forall s h, xreach s h -> HInv s h.
Proof. exact HInv_reach. Qed.
Print Assumptions C02_sync_invariant.

(* ---- the defect, replayed: WITHOUT the tail test the theorem fails.  On the old fast path (tstep_old) the schedule of
   harness/c04_overtake.c is a run of the model after which call 3 (dispatch_sync by thread 6) has started although
   call 2 (dispatch_async by thread 6, returned before call 3 began) has neither started nor finished ---- *)
Theorem C02_sync_overtake_refuted_old_fast_path :
  exists s h, xrun_with tstep_old init_state h0 (ot_prefix ++ ot_old) = Some (s, h) /\
    caller h 2 = 6 /\ caller h 3 = 6 /\ In 2 (returned h) /\ In 2 (pre h 3) /\
    In 3 (started h) /\ ~ In 2 (finished h) /\ ~ In 2 (started h) /\ running s = Some 6 /\
    length (lst s) = 2%nat /\ ~ order_ok h.
Proof. exact overtake_old_fast_path. Qed.
Print Assumptions C02_sync_overtake_refuted_old_fast_path.

(* ---- non-vacuity: the same schedule under the fixed automaton: the prefix is a reachable state with the idle word and
   two queued items in which the fast path is refused; the run completes through the slow path, in order ---- *)
Example C02_sync_overtake_refused :
  (exists s h, xrun_with tstep init_state h0 ot_prefix = Some (s, h) /\ xreach s h /\
     st s = init_word /\ holder s = None /\ length (lst s) = 2%nat /\ pcs s 6 = S_ftail KS /\ gstep s 6 (tau 0) = None) /\
  (exists s h, xrun_with tstep init_state h0 (ot_prefix ++ ot_new) = Some (s, h) /\ xreach s h /\
     started h = [3; 2; 1; 0] /\ finished h = [3; 2; 1; 0] /\ order_okb h = true /\ st s = init_word /\ lst s = [] /\
     pcs s 6 = Idle).
Proof. exact overtake_fixed. Qed.
