(* C06 — inactive and suspended queues run nothing; resume restarts them: the PROTOCOL theorems.
   For ONE serial lane (dq_width 1, role BASE_ANON or plain, targeting a root queue) and EVERY interleaving of the atomic
   steps of any number of threads calling dispatch_suspend / dispatch_resume / dispatch_activate (fast path, the
   side-counter path under the side lock at any nesting depth, the activation of a lane created inactive, the
   full-width lock hand-off of the resume that brings the count to zero), dispatch_async_f (tail exchange, link,
   wakeup, root push) and draining it as root-queue workers (try_lock, the suspended-check at the head of every
   iteration, pop, callout, try_unlock on suspended words, _dispatch_queue_invoke_finish).  The model is
   Model/SLaneS.v; each dq_state transition in it IS the body regenerated from the source (Gen_dqstate).
   Ghost state used in the statements: susp_done = dispatch_suspend calls that have RETURNED minus dispatch_resume
   calls that have BEGUN (the client contract is: dispatch_resume is only called when this is positive); sret / rpre =
   threads inside dispatch_suspend after its commit / inside a resume before its decrement committed; side_eff = the
   side counter including a transfer whose word half has committed; plic / pstarts = for the current suspended
   period (maximal interval in which the word is suspended) whether a drainer had passed its suspended-check and not
   yet begun its callout when the period began, and the number of callouts begun since.
   SCOPE with respect to the property text: dispatch_sync callers blocked on the lane, barrier items on concurrent
   queues and target-queue hierarchies are not in this model (word-level lemmas in Properties_C06.v and the oracles
   cover them); fair termination is not proved (safety + no stuck state + nothing left at quiescence). *)
From Coq Require Import ZArith Bool List.
From Verif Require Import Word Conc DqFields SLaneS SLaneSR SLaneS_inv SLaneS_proofs SLaneS_progress SLaneS_realtime.
Import ListNotations.
Local Open Scope Z_scope.

(* 1. the invariant: SLane's invariant with the suspend bits free (ainv), the counting (binv), the suspended period
   (cinv), the activation bits (dinv), and per thread the ghost sets / locks its program point implies *)
Theorem C06_slane_invariant : forall rb ina s, 0 <= rb < 2 -> reach rb ina s -> Inv ina s.
Proof. exact Inv_reachable. Qed.
Print Assumptions C06_slane_invariant.

(* ... what it says about counting, with no bound on the nesting depth: in-word count + side count = suspends
   committed and not yet matched by a committed resume decrement; the side bit mirrors the side counter; the word is
   suspended exactly when something is outstanding or the lane is not yet activated *)
Theorem C06_slane_count_exact : forall rb ina s,
  0 <= rb < 2 -> reach rb ina s ->
  sc_of s + side_eff s = outstanding s /\
  ((hi_of s / 4) mod 2 = 1 <-> 0 < side_eff s) /\
  0 <= side s /\ side s mod 32 = 0 /\ 0 <= susp_done s /\
  (suspended_word (st s) = true <-> 0 < outstanding s \/ hi_of s mod 4 <> 0).
Proof. exact count_exact. Qed.
Print Assumptions C06_slane_count_exact.

(* ... no over-resume / invalid-state crash is reachable under the client contract; the only client crash is the
   documented nesting limit, and it needs 2^32 - 64 outstanding suspensions *)
Theorem C06_slane_crash_only_nesting_limit : forall rb ina s t tag,
  0 <= rb < 2 -> reach rb ina s -> pcs s t = PCrash tag -> tag = 1.
Proof. exact crash_only_nesting_limit. Qed.
Print Assumptions C06_slane_crash_only_nesting_limit.
Theorem C06_slane_nesting_limit_crash_needs : forall rb ina s t s' tag,
  0 <= rb < 2 -> reach rb ina s -> pcs s t = PS_sside -> gstep rb s t = Some s' -> pcs s' t = PCrash tag ->
  4294967296 - 64 <= outstanding s.
Proof. exact nesting_limit_crash_needs. Qed.
Print Assumptions C06_slane_nesting_limit_crash_needs.

(* 2. nothing starts while suspended.  In every reachable state in which a dispatch_suspend has returned whose
   dispatch_resume has not been called (more generally: whenever the word is suspended) at most ONE callout has begun
   since the word became suspended; if one has begun, or a drainer is at a program point from which it will begin one
   without looking at dq_state again (PW_pop, PW_run), then that drainer had already passed the suspended-check of its
   iteration when the suspending RMW committed (plic), it is the only such callout, and no second one is licensed *)
Theorem C06_slane_no_start_while_suspended : forall rb ina s,
  0 <= rb < 2 -> reach rb ina s -> 0 < susp_done s ->
  suspended_word (st s) = true /\
  0 <= pstarts s <= 1 /\
  (pstarts s = 1 -> plic s = true /\ forall t, licensed_pc (pcs s t) = false) /\
  (forall t, licensed_pc (pcs s t) = true -> plic s = true /\ pstarts s = 0).
Proof. exact no_start_after_suspend_returned. Qed.
Print Assumptions C06_slane_no_start_while_suspended.

(* ... in real time, over execution segments: along any segment of an execution in which at every state some
   dispatch_suspend has returned whose dispatch_resume has not yet been called, AT MOST ONE callout begins (nstarted = length
   of the list of begun callouts), and none at all when no drainer was past its suspended-check at the moment the word
   became suspended (a suspend issued by the running item, or while nobody drains) *)
Theorem C06_slane_at_most_one_start_between_suspend_and_resume : forall rb ina s acts s',
  0 <= rb < 2 -> reach rb ina s -> 0 < susp_done s -> owed_path rb s acts s' ->
  reach rb ina s' /\
  nstarted s' - nstarted s = pstarts s' - pstarts s /\ plic s' = plic s /\
  0 <= nstarted s' - nstarted s <= 1 /\
  (plic s = false -> started s' = started s).
Proof. exact starts_while_owed. Qed.
Print Assumptions C06_slane_at_most_one_start_between_suspend_and_resume.

(* the same for every suspended word (covers the activation period and suspends that have committed but not returned) *)
Theorem C06_slane_no_start_while_word_suspended : forall rb ina s,
  0 <= rb < 2 -> reach rb ina s -> suspended_word (st s) = true ->
  0 <= pstarts s <= 1 /\
  (pstarts s = 1 -> plic s = true /\ forall t, licensed_pc (pcs s t) = false) /\
  (forall t, licensed_pc (pcs s t) = true -> plic s = true /\ pstarts s = 0).
Proof. exact no_start_while_suspended. Qed.
Print Assumptions C06_slane_no_start_while_word_suspended.

(* the suspending RMW defines the period; a suspend that commits while an item of the lane is inside its callout
   (in particular one issued by that item) or while nobody holds the drain lock finds no licensed drainer, so by
   the theorem above NO further item starts until the word is no longer suspended *)
Theorem C06_slane_suspend_commit_starts_period : forall rb ina s t s',
  0 <= rb < 2 -> reach rb ina s -> pcs s t = PS_rmw -> suspended_word (st s) = false -> gstep rb s t = Some s' ->
  suspended_word (st s') = true /\ plic s' = lic_now s /\ pstarts s' = 0.
Proof. exact suspend_commit_starts_period. Qed.
Print Assumptions C06_slane_suspend_commit_starts_period.
Theorem C06_slane_suspend_from_item_licenses_nothing : forall rb ina s,
  0 <= rb < 2 -> reach rb ina s -> running s <> None \/ lockh s = None -> lic_now s = false.
Proof. exact not_licensed_while_running. Qed.
Print Assumptions C06_slane_suspend_from_item_licenses_nothing.

(* 3. resume restarts.  Whenever the word is not suspended (in particular right after the commit of the last resume)
   a non-empty list has a responsible party: the enqueued token is held (lane in its target queue, or a thread about
   to push or drain it), a submitter still owes its wakeup, or somebody holds the drain lock (a drainer, or the resumer
   that brought the count to zero: it owes the hand-off) *)
Theorem C06_slane_resume_restarts : forall rb ina s,
  0 <= rb < 2 -> reach rb ina s -> suspended_word (st s) = false -> lst s <> [] ->
  token s <> None \/ wakers s <> [] \/ lockh s <> None.
Proof. exact resumed_has_responsible. Qed.
Print Assumptions C06_slane_resume_restarts.

(* ... at quiescence: N suspends need exactly N resumes (the count, split between word and side counter, equals
   susp_done), the word is suspended exactly when suspensions are owed or the lane is still inactive; with nothing owed a
   non-empty lane sits in its target queue, and if it sits nowhere every submitted item has run, in order *)
Theorem C06_slane_quiescent_suspended_iff : forall rb ina s,
  0 <= rb < 2 -> reach rb ina s -> quiescent s ->
  sc_of s + side s = susp_done s /\
  (suspended_word (st s) = true <-> 0 < susp_done s \/ hi_of s mod 4 = 3).
Proof. exact quiescent_suspended_iff. Qed.
Print Assumptions C06_slane_quiescent_suspended_iff.
Theorem C06_slane_not_stranded : forall rb ina s,
  0 <= rb < 2 -> reach rb ina s -> quiescent s -> suspended_word (st s) = false -> lst s <> [] ->
  rootq s = 1 /\ token s = Some None.
Proof. exact not_stranded. Qed.
Print Assumptions C06_slane_not_stranded.
Theorem C06_slane_quiescent_all_done : forall rb ina s,
  0 <= rb < 2 -> reach rb ina s -> quiescent s -> susp_done s = 0 -> hi_of s mod 4 <> 3 -> rootq s = 0 ->
  lst s = [] /\ rev (started s) = zrange (nextid s) /\ running s = None.
Proof. exact quiescent_all_done. Qed.
Print Assumptions C06_slane_quiescent_all_done.

(* ... while suspensions are owed a non-empty list may sit, but nothing is lost or duplicated: begun items, the item
   popped and not yet begun, and the list are exactly the submitted items in tail-exchange order *)
Theorem C06_slane_nothing_lost : forall rb ina s,
  0 <= rb < 2 -> reach rb ina s ->
  rev (started s) ++ inflight s ++ map e_id (lst s) = zrange (nextid s) /\ NoDup (started s).
Proof. exact nothing_lost. Qed.
Print Assumptions C06_slane_nothing_lost.

(* 4. inactive lanes.  A lane created inactive keeps INACTIVE and NEEDS_ACTIVATION until dispatch_activate is called and
   runs nothing before; as long as either bit is set nothing has started and nobody holds the drain lock; once every
   dispatch_activate call is past its first loop INACTIVE is clear for good.  The activation is a suspension taken by
   the activating thread ({ i:1 na:1 } -> { sc:1 }, the thread joins rpre) or, when the lane is suspended at that
   moment, left to the last dispatch_resume ({ sc:1 na:1 } -> { sc:1 }): by C06_slane_count_exact the lane becomes
   runnable with the last resume of the initial suspension, and C06_slane_resume_restarts applies *)
Theorem C06_slane_inactive : forall rb s,
  0 <= rb < 2 -> reach rb true s -> act_called s = false ->
  hi_of s mod 4 = 3 /\ started s = [] /\ running s = None /\ lockh s = None /\ suspended_word (st s) = true.
Proof. exact inactive_until_activate. Qed.
Print Assumptions C06_slane_inactive.
Theorem C06_slane_not_activated_runs_nothing : forall rb ina s,
  0 <= rb < 2 -> reach rb ina s -> hi_of s mod 4 <> 0 ->
  started s = [] /\ running s = None /\ lockh s = None /\ suspended_word (st s) = true.
Proof. exact inactive_runs_nothing. Qed.
Print Assumptions C06_slane_not_activated_runs_nothing.
Theorem C06_slane_activate_clears_inactive : forall rb ina s,
  0 <= rb < 2 -> reach rb ina s -> act_called s = true -> (forall t, pcs s t <> PC_rmw) -> hi_of s mod 4 <> 3.
Proof. exact activate_clears_inactive. Qed.
Print Assumptions C06_slane_activate_clears_inactive.

(* 5. no stuck state with suspension.  Every thread inside a call can step, or waits for ONE NAMED thread that can:
     at PW_head / PW_pop / PR_bchead for the submitter u at PA_link of an unlinked entry of the list (u's link step is
     enabled); at PS_slock / PR_slock for the holder u of the side lock (u's step is enabled unless the process has crashed
     on the nesting limit while holding it).  This is deadlock freedom with the waited-for thread named, not a bound
     on waiting (no termination measure is proved for this model).
   dispatch_suspend / dispatch_resume DO wait at exactly those points: PS_slock / PR_slock (side lock) and PR_bchead (the
   hand-off of the resume that brought the count to zero waits, as the C code does in _dispatch_wait_for_enqueuer, for
   the enqueuer of the head item); C06_slane_suspend_resume_enabled_outside_waits covers all their OTHER program points
   (susp_api_pc).  dispatch_async_f has no waiting point *)
Theorem C06_slane_no_stuck_thread : forall rb ina s t,
  0 <= rb < 2 -> reach rb ina s -> pcs s t <> Idle -> crashed_pc (pcs s t) = false ->
  enabled rb s t \/
  (link_wait_pc (pcs s t) = true /\
   exists u e w q o, u <> t /\ In e (lst s) /\ e_linked e = false /\ pcs s u = PA_link (e_id e) w q o /\ enabled rb s u) \/
  (side_wait_pc (pcs s t) = true /\
   exists u, u <> t /\ sidelock s = Some u /\ (enabled rb s u \/ crashed_pc (pcs s u) = true)).
Proof. exact no_stuck_thread_named. Qed.
Print Assumptions C06_slane_no_stuck_thread.
Theorem C06_slane_suspend_resume_enabled_outside_waits : forall rb ina s t,
  0 <= rb < 2 -> reach rb ina s -> susp_api_pc (pcs s t) = true -> enabled rb s t.
Proof. exact suspend_resume_enabled_outside_waits. Qed.
Print Assumptions C06_slane_suspend_resume_enabled_outside_waits.
Theorem C06_slane_async_never_blocks : forall rb ina s t,
  0 <= rb < 2 -> reach rb ina s ->
  (match pcs s t with PA_xchg _ _ | PA_link _ _ _ _ | PA_probe _ | PA_wake _ _ | PA_rootpush | PA_oprobe _ | PA_owake _ => true
   | _ => false end) = true ->
  enabled rb s t.
Proof. exact async_never_blocks. Qed.
Print Assumptions C06_slane_async_never_blocks.

(* exclusion carries over from SLane with the resumer as a second kind of lock holder *)
Theorem C06_slane_lock_exclusive : forall rb ina s t1 t2,
  0 <= rb < 2 -> reach rb ina s -> lock_pc (pcs s t1) = true -> lock_pc (pcs s t2) = true -> t1 = t2.
Proof. exact lock_exclusive. Qed.
Print Assumptions C06_slane_lock_exclusive.

(* non-vacuity: an executable run in which a suspend lands during a callout, an item is pushed while suspended and
   sits (susp_done = 1, word suspended, list = [item 1], nothing licensed), and after the resume the resumer's
   hand-off re-enqueues the lane and a worker runs item 1 *)
Example C06_slane_nonvacuous :
  (exists s, demo_mid = Some s /\ reach 1 false s /\ quiescent s /\
             susp_done s = 1 /\ suspended_word (st s) = true /\ map e_id (lst s) = [1] /\ started s = [0] /\
             rootq s = 0 /\ token s = None /\ plic s = false /\ pstarts s = 0) /\
  (exists s, demo_final = Some s /\ reach 1 false s /\ quiescent s /\
             susp_done s = 0 /\ suspended_word (st s) = false /\ lst s = [] /\ started s = [1; 0] /\ rootq s = 0).
Proof. split; [exact demo_mid_reach | exact demo_final_reach]. Qed.
Print Assumptions C06_slane_nonvacuous.

(* the trace replay used by the correspondence (Model/SLaneSR.v: per-thread observations against gstep) is neither
   empty nor universal: a drainer that locks, reads a non-suspended word, runs an item, then reads a SUSPENDED word must
   leave through _dispatch_queue_invoke_finish; beginning another callout instead is rejected at that observation *)
Example C06_slane_replay_discriminates :
  replay 1 7 [OSee 9005071098445824; OCas 9005071098445824 27021668631183367; OSee 27021668631183367; OBegin; OEnd;
              OSee 315252044782895111; OCas 315252044782895111 297235994858487808] = (-1, 1) /\
  replay 1 7 [OSee 9005071098445824; OCas 9005071098445824 27021668631183367; OSee 27021668631183367; OBegin; OEnd;
              OSee 315252044782895111; OBegin] = (6, 0).
Proof. split; vm_compute; reflexivity. Qed.
