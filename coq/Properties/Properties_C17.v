(* C17 — objects live while referenced or busy and are finalised exactly once.
   Model: Model/Refcnt.v — the two-level reference count of a dispatch object (os_obj_xref_cnt / os_obj_ref_cnt, both
   biased by -1) with the retain / release / retain_weak / xref_dispose / dispose paths of src/object.c,
   src/inline_internal.h, src/init.c, and the internal references of the GROUP protocol (src/semaphore.c) woven in:
   +1 while the group is non-empty, +1 while the notify list is non-empty (released once per wake batch),
   +1 on the target queue of every pending notification.  Every reference is a ghost token: in a pool between
   calls (XPOOL: the application's references, IPOOL: other internal holders, EPOOL: outstanding enters) or OWNED by
   a call in progress (a release in flight, a reference just created; priv k = sum over all threads of `held k`).
   USING the object only BORROWS: any number of threads may be inside calls through the same reference at the same
   time (priv KBX / KBI count the calls in progress that borrow an external / internal reference).

   WHAT `reach` QUANTIFIES OVER (everything else is the most general client: any number of threads, any interleaving,
   spurious weak-CAS failures included):
   (1) reference discipline (Refcnt.call_guard).  It is an ENABLING CONDITION inside gstep: a call that violates it is
       not a step of the model at all (it is NOT modelled as a crash; an over-release or an unbalanced leave simply do
       not exist here).  A call uses the object through a reference that exists in a pool; a release takes the reference
       it releases out of the pool; while calls in progress borrow a reference of a level, the owners of that level do not
       release the last reference of that level; a leave consumes an enter that has returned.
       A call may also use a group UNDER AN OUTSTANDING ENTER ONLY (an enter that has returned and whose leave has not
       begun: the group's own +1 taken for it keeps the group alive), after the last external and internal reference
       are gone — e.g. `dispatch_group_async(g, q, ^{ dispatch_group_async(g, ...); }); dispatch_release(g);`; while
       calls in progress use the group this way a leave must leave at least one outstanding enter
       (C17_use_under_enter_nonvacuous shows such a run);
   (2) bounds (Refcnt.contract_r, an explicit hypothesis on every step of a run, restated by C17_contract_is): fewer than
       2^31-2 references of each level and fewer than 2^30-1 outstanding enters; beyond them the model does what C does
       (the counter wraps / the "Too many nested calls" crash is taken);
   (3) an ASSUMPTION ABOUT THE LIBRARY, not about the client, also part of contract_r: when the group is disposed the low
       word of dg_state is non-zero only if the value or HAS_NOTIFS are, i.e. HAS_WAITERS is not left set on an empty
       group.  Generation / HAS_WAITERS / dispatch_group_wait are not part of this model (C07's subject); if the
       assumption fails the "deallocated while in use" crash is taken in the model too.
   Tie of the thread automaton to the library: per-thread trace conformance only — Refcnt.tstep does not check the values
   read against a global state and there is no global replay of recorded runs for C17.
   Generated pieces (Gen_refcnt, Gen_group): rmw-loop bodies of _os_object_retain_weak and _dispatch_group_notify,
   memory orders, constants, atomic-site lists.

   Scope.  Proved here: the object/group instance (all clauses below; "finalizer runs" = its submission to the
   target queue, its execution is C01's subject) and, in Properties_C17_lane.v, the +2 protocol of a serial lane
   over Model/SLane.v.  NOT covered by a theorem (differential harness only, see lib/props/c17.py): suspend +2,
   initially-inactive +2, references of child queues / sources on their target, timer +2 while armed, DSF_DELETED
   reference of sources, queue-specific and data destructors, semaphores, data objects, I/O channels, global
   (immortal) objects, _os_object_retain_with_resurrect. *)
From Coq Require Import ZArith Bool List.
From Verif Require Import Word Conc Gen_consts Gen_fields Gen_group Gen_refcnt Gen_lanesites Refcnt RefcntSites
  Refcnt_inv_proofs Refcnt_step_proofs Refcnt_proofs.
Import ListNotations.
Local Open Scope Z_scope.

(* the contract, restated so that it is visible here: `reach` = states reachable by steps each of which satisfies it *)
Theorem C17_contract_is : forall s t e, contractb s t e = true <->
  (regs s XREF + 1 < 2147483647 /\ regs s IREF + 2 < 2147483647 /\ regs s GVAL < 1073741823 /\
   (forall c, pcs s t = PDispose c -> nz (u32 (ea e)) = true -> 0 < regs s GVAL \/ regs s GNOT = 1)).
Proof. exact contract_is. Qed.
Print Assumptions C17_contract_is.

(* counters never fall below -1 and no crash path (over-release, resurrection, "deallocated while in use",
   unbalanced leave, too many nested enters) is taken by a client within the contract *)
Theorem C17_counters_never_below_minus1 : forall s, reach s ->
  -1 <= regs s XREF /\ -1 <= regs s IREF /\ regs s CRASH = 0 /\ forall t, pcs s t <> PCrash.
Proof. exact counters_never_below_minus1. Qed.
Print Assumptions C17_counters_never_below_minus1.

(* refs_account: in every reachable state
     ref + 1 = [external references alive] + other internal holders + [group non-empty] + [notify list non-empty]
               + references held by calls in progress (in-flight wakes) - retains owed by an enter / a notify in flight,
     xref + 1 = application's references (in pools or borrowed by calls in progress) *)
Theorem C17_refs_account : forall s, reach s ->
  let r := regs s in
  r IREF + 1 = r XALIVE + r IPOOL + (nonempty (r GVAL) - priv s KPE) + (r NTAIL - priv s KPN) + priv s KI /\
  r XREF + 1 = r XPOOL + priv s KX /\
  r GVAL = r EPOOL + priv s KE + priv s KPE /\
  0 <= priv s KPE <= nonempty (r GVAL) /\ 0 <= priv s KPN <= r NTAIL /\ r NTAIL <= 1 /\ 0 <= r XALIVE <= 1 /\
  0 <= r IPOOL /\ 0 <= r XPOOL /\ 0 <= r EPOOL /\ 0 <= priv s KI /\ 0 <= priv s KX /\ 0 <= priv s KE /\
  r QRET - r QREL = r NLEN + priv s KQ /\ r TRET - r TREL = 1 - r DISP.
Proof. exact refs_account. Qed.
Print Assumptions C17_refs_account.

Theorem C17_refs_account_quiescent : forall s, reach s -> (forall t, pcs s t = PIdle) ->
  let r := regs s in
  r IREF + 1 = r XALIVE + r IPOOL + nonempty (r GVAL) + r NTAIL /\ r XREF + 1 = r XPOOL /\ r GVAL = r EPOOL.
Proof. exact refs_account_quiescent. Qed.
Print Assumptions C17_refs_account_quiescent.

(* the object is disposed / its memory released only when no token of either level exists anywhere: not while
   the application holds a reference, not while the group is non-empty or notifications are pending (for any
   number NLEN of them), not while any call is in progress on it *)
Theorem C17_no_dispose_while_held : forall s, reach s -> regs s DISP <> 0 ->
  let r := regs s in
  r XPOOL = 0 /\ r IPOOL = 0 /\ r EPOOL = 0 /\ r GVAL = 0 /\ r NTAIL = 0 /\ r NLEN = 0 /\
  (forall k, priv s k = 0) /\ (forall t k, held k (pcs s t) (gn s t) = 0).
Proof. exact no_dispose_while_held. Qed.
Print Assumptions C17_no_dispose_while_held.

(* hence: using the object through a held reference is memory-safe — every access to its words precedes the free *)
Theorem C17_access_not_freed : forall s t e s', reach s -> gstep s t e = Some s' -> is_access e = true -> regs s FREED = 0.
Proof. exact access_not_freed. Qed.
Print Assumptions C17_access_not_freed.

(* dispose and xref_dispose run at most once; dispose implies xref_dispose ran; nothing is disposed while ref >= 0 *)
Theorem C17_dispose_at_most_once : forall s, reach s ->
  let r := regs s in
  0 <= r DISP <= 1 /\ 0 <= r XDISP <= 1 /\ r FREED = r DISP /\ (r DISP = 1 -> r XDISP = 1 /\ r XALIVE = 0) /\
  (r XALIVE = 1 -> r XDISP = 0) /\ (0 <= r IREF -> r DISP = 0).
Proof. exact dispose_at_most_once. Qed.
Print Assumptions C17_dispose_at_most_once.

(* the finalizer of an object that has a context is submitted exactly once, at dispose, to the target queue current
   at that time, with the context current at that time; never otherwise *)
Theorem C17_finalizer_exactly_once : forall s, reach s ->
  let r := regs s in
  r NFIN = (if (r DISP =? 1) && nz (r FIN) && nz (r CTX) then 1 else 0) /\
  (r NFIN = 1 -> r FINCTX = r CTX /\ r FINQ = r TQ).
Proof. exact finalizer_exactly_once. Qed.
Print Assumptions C17_finalizer_exactly_once.

(* after the last reference is dropped and pending work has finished the memory has been released (stated as an
   invariant: a quiescent state without tokens is a disposed one; xref_dispose has run exactly once) *)
Theorem C17_released_when_unreferenced : forall s, reach s -> (forall t, pcs s t = PIdle) ->
  regs s XPOOL = 0 -> regs s IPOOL = 0 -> regs s EPOOL = 0 -> regs s NTAIL = 0 ->
  regs s DISP = 1 /\ regs s FREED = 1 /\ regs s XDISP = 1.
Proof. exact released_when_unreferenced. Qed.
Print Assumptions C17_released_when_unreferenced.

(* ties: atomic sites and memory orders of the modelled functions are the source's; the global model moves threads by
   the automaton that is fed the recorded traces *)
Theorem C17_sites_match_source :
  model_sites_retain = os_object_retain_sites /\ model_sites_release = os_object_release_sites /\
  model_sites_retain_internal = os_object_retain_internal_sites /\
  model_sites_retain_internal = os_object_retain_internal_n_sites /\
  model_sites_release_internal = os_object_release_internal_sites /\
  model_sites_release_internal = os_object_release_internal_n_sites /\
  model_sites_retain_weak = os_object_retain_weak_sites /\ retain_weak_loop_order = Relaxed /\
  model_sites_xref_dispose = os_object_xref_dispose_sites /\
  model_sites_dispatch_xref_dispose = dispatch_xref_dispose_sites /\
  model_sites_dispose = os_object_dispose_sites /\
  model_sites_group_enter = rc_group_enter_sites /\ model_sites_group_wake = rc_group_wake_sites /\
  model_sites_group_leave = rc_group_leave_sites /\ model_sites_group_notify = rc_group_notify_sites /\
  group_notify_loop_order = Release.
Proof. repeat split. Qed.
Print Assumptions C17_sites_match_source.

Theorem C17_model_uses_thread_automaton : forall s t e s',
  gstep s t e = Some s' -> tstep (pcs s t) e = Some (pcs s' t).
Proof. exact gstep_tstep. Qed.
Print Assumptions C17_model_uses_thread_automaton.

(* Lane +2 protocol: the accounting invariant is Properties_C17_lane.v (ghost counter over Model/SLane.v).  What ties its
   ghost update to the source here is the ORDER of the atomic sites of the push — the queue is retained (+2, both
   branches) after the tail exchange and BEFORE the store that publishes the item (prev->do_next / head), as the comment
   at queue.c:5040 (rdar 6932776) requires.  _partial: a site-order fact, not a protocol theorem. *)
Definition last6 (l : list site) : list site := skipn (length l - 6) l.
Theorem C17_lane_push_retains_before_publish_partial :
  last6 f_dispatch_lane_push_sites =
  [ st KStore F_do_next Relaxed; st KXchg F_dq_items_tail Release;
    st KAdd F_os_obj_ref_cnt Relaxed; st KAdd F_os_obj_ref_cnt Relaxed;
    st KStore F_do_next Relaxed; st KStore F_dq_items_head Relaxed ].
Proof. reflexivity. Qed.
Print Assumptions C17_lane_push_retains_before_publish_partial.

(* PARTIAL (lane / object reference sites): the presence and position of the refcount operations the +2 protocol
   and the target-queue references rely on, read from the source:
   - the refcount releases / retains reachable from _dispatch_queue_invoke_finish are pinned (weak: the translator lists the
     sites of an inlined callee once per callee, so dropping ONE of several calls of _dispatch_release_2 is not visible
     here; the interrupted-drain histories of the differential harness (op Q) detect exactly that);
   - _dispatch_lane_suspend ends by taking its +2 (relaxed add) after the state transition;
   - _dispatch_dispose releases the target queue (its only refcount site: release, after the finalizer was submitted);
   - dispatch_set_target_queue (objects other than queues): the new target is retained BEFORE the exchange that publishes
     it, the old one released after. *)
Definition lastn (n : nat) (l : list site) : list site := skipn (length l - n) l.
Definition akind_id (k : akind) : nat :=
  match k with KLoad => 0 | KStore => 1 | KXchg => 2 | KCas => 3 | KCasWeak => 4 | KAdd => 5 | KSub => 6 | KAnd => 7 | KOr => 8
             | KXor => 9 | KFence => 10 end%nat.
Definition site_is (k : akind) (f : nat) (o : morder) (x : site) : bool :=
  Nat.eqb (akind_id (s_kind x)) (akind_id k) && Nat.eqb (s_field x) f && (mo_code (s_order x) =? mo_code o).
Theorem C17_lane_refcount_sites_partial :
  (length (filter (site_is KSub F_os_obj_ref_cnt Release) rc_invoke_finish_sites),
   length (filter (site_is KAdd F_os_obj_ref_cnt Relaxed) rc_invoke_finish_sites)) = (6, 0)%nat /\
  lastn 1 rc_lane_suspend_sites = [st KAdd F_os_obj_ref_cnt Relaxed] /\
  rc_dispatch_dispose_sites = [st KSub F_os_obj_ref_cnt Release] /\
  rc_set_target_queue_sites =
    [st KAdd F_os_obj_ref_cnt Relaxed; st KXchg F_do_targetq Release; st KSub F_os_obj_ref_cnt Release].
Proof. repeat split. Qed.
Print Assumptions C17_lane_refcount_sites_partial.

(* non-vacuity: three threads; thread 1 sets context 77 + finalizer + target queue 5, enters, registers THREE
   notifications, then drops the application's only reference while the group is non-empty (xref = -1, object alive);
   thread 2 registers a fourth notification through an internal reference it took; thread 3 (a worker) performs the
   leave: one wake batch of 4 notifications releases exactly 2 internal references; when thread 2 gives up its
   internal reference the object is disposed, finalizer submitted once with context 77 to queue 5. *)
Definition demo_calls : list (Z * Z * Z * Z) :=
  [ (1, OP_SETCTX, 0, 77); (1, OP_SETFIN, 0, 1); (1, OP_SETTQ, 0, 5); (1, OP_ENTER, 0, 0);
    (1, OP_NOTIFY, 0, 0); (1, OP_NOTIFY, 0, 0); (1, OP_NOTIFY, 0, 0); (2, OP_IRETAIN, 0, 1);
    (1, OP_RELEASE, 0, 0); (2, OP_NOTIFY, 1, 0); (3, 0, 0, 0); (2, OP_IRELEASE, 0, 1) ].
Definition demo_schedule : list (Z * event) := match sched_of init_state demo_calls with Some tr => tr | None => [] end.
Definition snap (s : gst) : list Z :=
  let r := regs s in
  [r XREF; r IREF; r NLEN; r GVAL; r DISP; r XALIVE; r IPOOL; r NFIN; r FINCTX; r FINQ; r FREED; r CRASH; r QRET - r QREL].
(* a schedule in which two threads are inside calls through the SAME (only) external reference at the same time:
   thread 1 enters dispatch_group_enter; before it has done anything thread 2 performs a whole dispatch_group_notify_f
   (non-empty list: it owes and takes the list's +1); then thread 3 starts a dispatch_retain; then thread 1 finishes *)
Definition shared_schedule : list (Z * event) :=
  let e1 := first_event init_state (1, OP_ENTER, 0, 0) in
  match gstep init_state 1 (snd e1) with
  | None => []
  | Some s1 =>
      let e2 := first_event s1 (2, OP_NOTIFY, 0, 0) in
      match gstep s1 2 (snd e2) with
      | None => []
      | Some s2 =>
          match trace_to_idle 100 s2 2 [e1; e2] with
          | None => []
          | Some (s3, tr) =>
              let e3 := first_event s3 (3, OP_RETAIN, 0, 0) in
              match gstep s3 3 (snd e3) with
              | None => []
              | Some s4 => match trace_to_idle 100 s4 1 (tr ++ [e3]) with Some (_, tr') => tr' | None => [] end
              end
          end
      end
  end.
Example C17_nonvacuous :
  length demo_schedule = 53%nat /\
  (exists s, grunc init_state (firstn 38 demo_schedule) = Some s /\ reach s /\
     (* xref = -1, object alive with ref = 2: 4 notifications pending on a non-empty group, one other internal holder *)
     snap s = [-1; 2; 4; 1; 0; 0; 1; 0; 0; 0; 0; 0; 4]) /\
  (exists s, grunc init_state (firstn 48 demo_schedule) = Some s /\ reach s /\
     (* after the leave: the batch of 4 cost 2 references in all; all 4 queue references released; not disposed *)
     snap s = [-1; 0; 0; 0; 0; 0; 1; 0; 0; 0; 0; 0; 0]) /\
  (exists s, grunc init_state demo_schedule = Some s /\ reach s /\
     (* disposed once, finalizer once with context 77 on queue 5 *)
     snap s = [-1; -1; 0; 0; 1; 0; 0; 1; 77; 5; 1; 0; 0]) /\
  (exists s, grunc init_state (firstn 14 shared_schedule) = Some s /\ reach s /\
     (* ONE external reference (xref = 0, still in the pool); threads 1 and 3 are inside calls through it at the same time and
        thread 2 has performed a whole dispatch_group_notify_f through it meanwhile *)
     [regs s XREF; regs s XPOOL; priv s KBX; priv s KX; regs s NLEN] = [0; 1; 2; 0; 0] /\
     pcs s 1 = PEnter BX /\ pcs s 2 = PIdle /\ pcs s 3 = PRetain).
Proof.
  split; [vm_compute; reflexivity|].
  assert (H1 : option_map snap (grunc init_state (firstn 38 demo_schedule)) = Some [-1; 2; 4; 1; 0; 0; 1; 0; 0; 0; 0; 0; 4])
    by (vm_compute; reflexivity).
  assert (H2 : option_map snap (grunc init_state (firstn 48 demo_schedule)) = Some [-1; 0; 0; 0; 0; 0; 1; 0; 0; 0; 0; 0; 0])
    by (vm_compute; reflexivity).
  assert (H3 : option_map snap (grunc init_state demo_schedule) = Some [-1; -1; 0; 0; 1; 0; 0; 1; 77; 5; 1; 0; 0])
    by (vm_compute; reflexivity).
  assert (H4 : option_map (fun s => ([regs s XREF; regs s XPOOL; priv s KBX; priv s KX; regs s NLEN], (pcs s 1, pcs s 2, pcs s 3)))
                 (grunc init_state (firstn 14 shared_schedule)) = Some ([0; 1; 2; 0; 0], (PEnter BX, PIdle, PRetain)))
    by (vm_compute; reflexivity).
  split; [|split; [|split]].
  - destruct (grunc init_state (firstn 38 demo_schedule)) as [s|] eqn:E; [|discriminate H1]. exists s.
    split; [reflexivity|]. split; [eapply grun_reach; [apply reach_init; reflexivity|exact E]|].
    exact (f_equal (fun o => match o with Some l => l | None => [] end) H1).
  - destruct (grunc init_state (firstn 48 demo_schedule)) as [s|] eqn:E; [|discriminate H2]. exists s.
    split; [reflexivity|]. split; [eapply grun_reach; [apply reach_init; reflexivity|exact E]|].
    exact (f_equal (fun o => match o with Some l => l | None => [] end) H2).
  - destruct (grunc init_state demo_schedule) as [s|] eqn:E; [|discriminate H3]. exists s.
    split; [reflexivity|]. split; [eapply grun_reach; [apply reach_init; reflexivity|exact E]|].
    exact (f_equal (fun o => match o with Some l => l | None => [] end) H3).
  - destruct (grunc init_state (firstn 14 shared_schedule)) as [s|] eqn:E; [|discriminate H4]. exists s.
    split; [reflexivity|]. split; [eapply grun_reach; [apply reach_init; reflexivity|exact E]|].
    pose proof (f_equal (fun o => match o with Some x => x | None => ([], (PIdle, PIdle, PIdle)) end) H4) as H5.
    cbn [option_map] in H5. split; [exact (f_equal fst H5)|].
    split; [exact (f_equal (fun x => fst (fst (snd x))) H5)|].
    split; [exact (f_equal (fun x => snd (fst (snd x))) H5)|exact (f_equal (fun x => snd (snd x)) H5)].
Qed.

(* the crash outcomes are MODELLED, not disabled: outside the contract the model crashes as C does.  Here the only
   reference is released and the dispose reads a dg_state whose low word has only HAS_WAITERS set (contract part 3
   violated): the step exists, leads to PCrash and sets CRASH *)
Example C17_crash_modelled_outside_contract :
  let tr := match sched_of init_state [(1, OP_RELEASE, 0, 0)] with Some tr => firstn 5 tr | None => [] end in
  let e := ev0 DV_LOAD MO_RELAXED OBJ_G OFF_STATE 8 1 1 1 in
  match grunc init_state tr with
  | Some s => pcs s 1 = PDispose (KApi BN) /\ contractb s 1 e = false /\
              match gstep s 1 e with Some s' => pcs s' 1 = PCrash /\ regs s' CRASH = 1 | None => False end
  | None => False
  end.
Proof. vm_compute. repeat split. Qed.

(* the idiom of using a group from inside a group block after the last release: thread 1 sets a context and a
   finalizer, enters and drops the only external reference (xref = -1, ref = 0: only the outstanding enter keeps the
   group alive); thread 2 — a block running under that enter — enters again and registers a notification THROUGH THE
   ENTER (borrow kind 2), then the two leaves are performed by workers; the last one delivers the notification,
   drops the last internal reference, the group is disposed and finalised once *)
Definition idiom_calls : list (Z * Z * Z * Z) :=
  [ (1, OP_SETCTX, 0, 9); (1, OP_SETFIN, 0, 1); (1, OP_ENTER, 0, 0); (1, OP_RELEASE, 0, 0);
    (2, OP_ENTER, 2, 0); (2, OP_NOTIFY, 2, 0); (2, 0, 0, 0); (3, 0, 0, 0) ].
Definition idiom_schedule : list (Z * event) := match sched_of init_state idiom_calls with Some tr => tr | None => [] end.
Definition isnap (s : gst) : list Z :=
  let r := regs s in [r XREF; r IREF; r XPOOL; r IPOOL; r EPOOL; priv s KBE; r NLEN; r DISP; r NFIN; r FINCTX; r CRASH].
Example C17_use_under_enter_nonvacuous :
  (exists s, grunc init_state (firstn 14 idiom_schedule) = Some s /\ reach s /\
     (* no external, no internal reference; one outstanding enter; a call in progress under it *)
     isnap s = [-1; 0; 0; 0; 1; 1; 0; 0; 0; 0; 0] /\ pcs s 2 = PEnter BE) /\
  (exists s, grunc init_state idiom_schedule = Some s /\ reach s /\ isnap s = [-1; -1; 0; 0; 0; 0; 0; 1; 1; 9; 0]).
Proof.
  assert (H1 : option_map (fun s => (isnap s, pcs s 2)) (grunc init_state (firstn 14 idiom_schedule)) =
               Some ([-1; 0; 0; 0; 1; 1; 0; 0; 0; 0; 0], PEnter BE)) by (vm_compute; reflexivity).
  assert (H2 : option_map isnap (grunc init_state idiom_schedule) = Some [-1; -1; 0; 0; 0; 0; 0; 1; 1; 9; 0]) by (vm_compute; reflexivity).
  split.
  - destruct (grunc init_state (firstn 14 idiom_schedule)) as [s|] eqn:E; [|discriminate H1]. exists s.
    split; [reflexivity|]. split; [eapply grun_reach; [apply reach_init; reflexivity|exact E]|].
    pose proof (f_equal (fun o => match o with Some x => x | None => ([], PIdle) end) H1) as H5. cbn [option_map] in H5.
    split; [exact (f_equal fst H5)|exact (f_equal snd H5)].
  - destruct (grunc init_state idiom_schedule) as [s|] eqn:E; [|discriminate H2]. exists s.
    split; [reflexivity|]. split; [eapply grun_reach; [apply reach_init; reflexivity|exact E]|].
    exact (f_equal (fun o => match o with Some l => l | None => [] end) H2).
Qed.
