(* C03 — a serial target queue (or workloop) serialises every queue targeting it.
   THIS FILE holds the one word-level mechanism with a generated body: (re)targeting sets the role bits of the queue to
   exactly the role of its new target (inner queue vs base queue), which is what the sync hand-off code tests to decide
   whether a woken waiter must first take the target's lock.  The hierarchy protocol over all interleavings (items of
   an inner lane run only inside a nested invoke of the lane on its target; global exclusion below one serial bottom;
   per-lane FIFO; nothing stranded; termination measure) is in Properties_C03_hlane.v for forests of serial lanes
   under dispatch_async; sync through levels, concurrent inner queues and workloop bottoms are decided on the
   implementation by the stress oracle (one in-flight counter per serial bottom over generated hierarchies). *)
From Coq Require Import ZArith Bool List.
From Verif Require Import Word Gen_consts Gen_dqstate Suspend_proofs Lane_iface.
Import ListNotations.
Local Open Scope Z_scope.

Theorem C03_role_follows_target_partial : forall s role,
  Z.land role ROLE_MASK = role -> Z.land role 18446743867551121407 = 0 ->
  match inherit_wlh_loop 0 0 s role with
  | Commit new _ => Z.land new ROLE_MASK = role /\ Z.land new 18446743867551121407 = Z.land s 18446743867551121407
  | NoCommit _ _ => Z.land s ROLE_MASK = role
  | _ => False
  end.
Proof. exact role_set_exactly. Qed.
Print Assumptions C03_role_follows_target_partial.

(* inner queue test used by the hand-off: role bits zero *)
Theorem C03_inner_iff_role_zero_partial : forall s,
  nz (f_dq_state_is_inner_queue s) = true <-> Z.land s ROLE_MASK = 0.
Proof.
  intros s. unfold f_dq_state_is_inner_queue, nz, b2z, ROLE_MASK.
  destruct (Z.eqb_spec (Z.land s 206158430208) 0); cbn; split; intros; congruence.
Qed.
Print Assumptions C03_inner_iff_role_zero_partial.

Example C03_nonvacuous :
  (* a base queue (BASE_ANON) retargeted onto a non-root queue becomes an inner queue, other bits untouched *)
  inherit_wlh_loop 0 0 (init_st_plain 1 + 68719476736 + 2147483648) 0 = Commit (init_st_plain 1 + 2147483648) 0 /\
  nz (f_dq_state_is_inner_queue (init_st_plain 1 + 2147483648)) = true.
Proof. split; vm_compute; reflexivity. Qed.
