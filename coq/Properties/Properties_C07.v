(* C07 — groups complete exactly when their count returns to zero.
   Model: Model/Group.v (thread automaton + memory/kernel semantics + ghost state); the rmw-loop bodies of
   dispatch_group_wait and _dispatch_group_notify, their memory orders, _dg_state_gen, the DISPATCH_GROUP_* constants and
   the atomic-site lists are Gen_group, regenerated from src/semaphore.c / semaphore_internal.h.
   All statements are about every reachable state: any number of threads, any interleaving, any number of generations,
   spurious futex returns and spurious weak-CAS failures included.
   CLIENT CONTRACT.  Every theorem is about clients that keep enter / leave balanced and below 2^30 - 1 nested enters: for a
   dispatch_group_leave at count zero and a dispatch_group_enter at the maximum count the library traps
   (DISPATCH_CLIENT_CRASH); the thread automaton accepts the trapping operation (tstep goes to PCrash, so conformance of a
   recorded trap is checked), the global model has no successor there (Group.geffect returns None), so runs of such clients
   end at the step before the trap and no reachable state contains a trapped thread (C07_no_trap_state).
   TIME.  The model has no clock.  What is proved about a non-zero result of dispatch_group_wait: it is returned only for a
   zero timeout, for a TIMED futex wait to which the kernel reported ETIMEDOUT, or when the deadline had already passed
   when the remaining time was computed; never for DISPATCH_TIME_FOREVER (the kernel semantics of the model: a futex wait
   without timeout is never told ETIMEDOUT).  That the reported timeout is the full one is measured in the stress runs with
   the library's own clock, not proved. *)
From Coq Require Import ZArith Bool List.
From Verif Require Import Word Conc Gen_consts Gen_group Group Group_iface Group_proofs GroupR_inv GroupR GroupR_proofs.
Import ListNotations.
Local Open Scope Z_scope.

(* ---- interface: the state word [gen:32 | value:30 | HAS_NOTIFS | HAS_WAITERS] ---- *)
(* enter is a 32-bit subtraction on the low half: it never borrows from the generation *)
Theorem C07_enter_no_borrow : forall x, wfw x ->
  wfw (enter_word x) /\ fg (enter_word x) = fg x /\ fv (enter_word x) = (fv x - 1) mod 1073741824 /\
  fn (enter_word x) = fn x /\ fw (enter_word x) = fw x.
Proof. exact enter_word_spec. Qed.
Print Assumptions C07_enter_no_borrow.
(* leave is a 64-bit addition: exactly the last leave (value field all ones) carries into the generation, mod 2^32 *)
Theorem C07_leave_carry : forall x, wfw x ->
  wfw (leave_word x) /\ fn (leave_word x) = fn x /\ fw (leave_word x) = fw x /\
  (if fv x =? 1073741823 then fg (leave_word x) = (fg x + 1) mod 4294967296 /\ fv (leave_word x) = 0
   else fg (leave_word x) = fg x /\ fv (leave_word x) = fv x + 1).
Proof. exact leave_word_spec. Qed.
Print Assumptions C07_leave_carry.
(* the generated body of dispatch_group_wait's loop, case by case *)
Theorem C07_wait_body : forall tmo x, wfw x ->
  wt_entry tmo x = if fv x =? 0 then PRetV 0 else if tmo =? 0 then PRetV 1
                   else if fw x =? 1 then PSlow tmo (fg x) else PWtCas tmo x (Z.lor x HW).
Proof. exact wt_entry_spec. Qed.
Print Assumptions C07_wait_body.
Theorem C07_masks : forall x, Z.land x VMASK = fv x * 4 /\ Z.land x HW = fw x /\ Z.land x HN = fn x * 2.
Proof. exact masks_all. Qed.
Print Assumptions C07_masks.

(* ---- dispatch_group_wait ---- *)
(* the 32-bit generation is the number of count->0 transitions mod 2^32, in every reachable state *)
Theorem C07_generation_counts_zero_transitions : forall s, reach s ->
  wfw (word s) /\ 0 <= gfull s /\ fg (word s) = gfull s mod 4294967296.
Proof. exact generation_counts. Qed.
Print Assumptions C07_generation_counts_zero_transitions.
(* wait returns 0 only if the count was zero at some state during the call: wz t is set to [count = 0] when the call
   begins, or-ed with [count = 0] at every read of the word by the waiter, and set by the leave that brings the count to
   zero (Group.set_call_wait / set_read / set_carry); a waiter about to return 0 has it set *)
Theorem C07_wait_zero_sound : forall s t, reach s -> pcs s t = PRetV 0 -> wz s t = true.
Proof. exact wait_zero_sound. Qed.
Print Assumptions C07_wait_zero_sound.
(* what the flag means: reset to [count = 0] by the call, it only turns true in a step next to a state with count = 0 *)
Theorem C07_wait_zero_flag_reset : forall s t e s',
  pcs s t = PIdle -> ev_kind e DVU_CALL = true -> ea e = OP_WAIT -> gstep s t e = Some s' -> wz s' t = vzero (word s).
Proof. exact wz_reset. Qed.
Print Assumptions C07_wait_zero_flag_reset.
Theorem C07_wait_zero_flag_meaning : forall s t e s' u, reach s -> gstep s t e = Some s' -> wz s' u = true ->
  wz s u = true \/ vzero (word s) = true \/ vzero (word s') = true.
Proof. exact wz_meaning. Qed.
Print Assumptions C07_wait_zero_flag_meaning.
Theorem C07_wait_zero_return_point : forall s t e s' v,
  pcs s t = PRetV v -> gstep s t e = Some s' -> ea e = 0 -> v = 0.
Proof. exact wait_ret_zero_pc. Qed.
Print Assumptions C07_wait_zero_return_point.
(* a non-zero result only through a zero timeout, the futex's ETIMEDOUT, or a deadline already passed (real duration
   is outside the model: measured in the stress runs with the library's clock) *)
Theorem C07_wait_nonzero_only_by_timeout : forall p e v, tstep p e = Some (PRetV v) -> v <> 0 ->
  match p with
  | PWtLoad tmo | PWtCas tmo _ _ => tmo = 0
  | PSlow tmo _ => tmo <> FOREVER /\ ev_kind e DV_FUTEX_WAIT = false
  | PSlowLoad _ _ rc => rc = ETIMEDOUT
  | _ => False
  end.
Proof. exact nonzero_only_by_timeout. Qed.
Print Assumptions C07_wait_nonzero_only_by_timeout.
(* ... and about reachable states of the global model, with the kernel's part: the ETIMEDOUT that makes a wait return
   non-zero was reported for a wait that had a timeout *)
Theorem C07_wait_nonzero_only_timed : forall s t e s' v,
  reach s -> gstep s t e = Some s' -> pcs s' t = PRetV v -> v <> 0 ->
  match pcs s t with
  | PWtLoad tmo | PWtCas tmo _ _ => tmo = 0
  | PSlow tmo _ => tmo <> FOREVER /\ ev_kind e DV_FUTEX_WAIT = false
  | PSlowLoad tmo _ rc => rc = ETIMEDOUT /\ tmo <> FOREVER
  | _ => False
  end.
Proof. exact wait_nonzero_only_timed. Qed.
Print Assumptions C07_wait_nonzero_only_timed.
Theorem C07_wait_forever_returns_zero : forall s t e s' v, reach s -> gstep s t e = Some s' ->
  wait_tmo (pcs s t) = Some FOREVER -> pcs s' t = PRetV v -> v = 0.
Proof. exact wait_forever_returns_zero. Qed.
Print Assumptions C07_wait_forever_returns_zero.
(* the timeout of the call is carried unchanged to the point where the result is decided *)
Theorem C07_wait_timeout_carried : forall s t e s' x, reach s -> gstep s t e = Some s' -> wait_tmo (pcs s t) = Some x ->
  wait_tmo (pcs s' t) = Some x \/ exists v, pcs s' t = PRetV v.
Proof. exact wait_tmo_stable. Qed.
Print Assumptions C07_wait_timeout_carried.

(* ---- dispatch_group_notify ---- *)
(* every notification is submitted AT MOST once and only if it was registered.  Exactly once: every registered notification is
   in exactly one place (C07_notify_accounted: listed, detached by one thread that is submitting, or submitted once); at
   quiescence every registered notification has been submitted exactly once (C07_quiescent_state).  NO LIVENESS IS PROVED: in
   between, the thread that holds the list always has SOME enabled step and one of them moves it forward (C07_no_stuck), and its
   submit loop is bounded by the list (C07_submit_loop_bounded); but the spin on a NULL dg_notify_head is in the model as a
   self-loop that is enabled in every state (Group.tstep PSnapHead accepts a NULL load and stays; the head value is not part of
   the state), so the model has fair infinite runs in which a registered notification is never submitted; that the first pusher
   stores the head before HAS_NOTIFS is set (program order in _dispatch_group_notify), so that the real spin ends, is argued
   from the source, not proved; the spin on do_next of a lagging pusher is not a step of the model at all *)
Theorem C07_notify_at_most_once : forall s i, reach s ->
  0 <= fcnt s i <= 1 /\ (fcnt s i = 1 -> 0 <= i < nreg s).
Proof. exact (fun s i R => exactly_once s i R). Qed.
Print Assumptions C07_notify_at_most_once.
(* every registered notification is in exactly one place: still on the list, detached by one thread that is in its
   submit loop, or submitted once *)
Theorem C07_notify_accounted : forall s i, reach s -> 0 <= i < nreg s ->
  (In i (ids (nq s)) /\ fcnt s i = 0) \/
  (exists t, In i (ids (held s t)) /\ cls (pcs s t) = 3 /\ fcnt s i = 0) \/ fcnt s i = 1.
Proof. exact notification_place. Qed.
Print Assumptions C07_notify_accounted.
(* the thread that clears HAS_NOTIFS, or the registering thread that sees the count at zero, is the unique one to
   detach the list (the MPSC list has a single consumer) *)
Theorem C07_notify_unique_detacher : forall s t u, reach s -> cls (pcs s t) = 2 -> cls (pcs s u) = 2 -> t = u.
Proof. exact unique_detacher. Qed.
Print Assumptions C07_notify_unique_detacher.

(* C07_notify_not_early at full strength: "forall s, reach s -> early s = false" (no notification is submitted unless
   the count was zero at some state since it was registered).  The faithful model REFUTES it, and so does the library
   (harness/c07_early.c, both variants): a dispatch_group_leave (or a registering _dispatch_group_notify) that observed the
   count at zero detaches the list later, and by then the list may hold notifications registered after a new enter. *)
Theorem C07_notify_not_early_refuted :
  exists s, reach s /\ early s = true /\ outst s = 1 /\ fcnt s 1 = 1 /\ (fv (word s) =? 0) = false.
Proof. exact not_early_refuted. Qed.
Print Assumptions C07_notify_not_early_refuted.

(* ---- nobody is left behind ---- *)
(* the value field is the number of outstanding enters (negated, mod 2^30): value = 0 iff every enter was matched *)
Theorem C07_value_is_outstanding : forall s, reach_nw s ->
  0 <= outst s < 1073741824 /\ fv (word s) = (1073741824 - outst s) mod 1073741824.
Proof. exact value_is_outstanding. Qed.
Print Assumptions C07_value_is_outstanding.
(* a thread asleep in futex_wait on dg_gen: in the current generation HAS_WAITERS is set and the count is not zero (so the
   leave that brings it to zero sees the bit); in an older generation a thread that owes the futex wake exists: one past
   its clearing CAS whose copy of the word has HAS_WAITERS (or at the wake call itself), or the bit is still in the word
   and a thread in the clearing loop of dispatch_group_leave holds it *)
Theorem C07_sleeper_has_waker : forall s t, reach_nw s -> slp s t = Sleeping ->
  (gsnap s t = gfull s /\ fw (word s) = 1 /\ fv (word s) <> 0) \/
  (gsnap s t < gfull s /\
   ((exists u, match pcs s u with
               | PSnapHead _ st | PSnapStore _ st | PSnapTail _ st | PFire _ st => fw st = 1
               | PWakeFutex _ => True | _ => False end) \/
    (fw (word s) = 1 /\ exists u, match pcs s u with PLvLoop _ old => fw old = 1 | _ => False end))).
Proof. exact sleeper_has_waker. Qed.
Print Assumptions C07_sleeper_has_waker.
(* C07_none_left_behind, full strength.  Hypothesis (explicit): the state is reached by steps that keep every wait fresh
   (Group.reach_nw: fewer than 2^32 generations elapse between a waiter's read of the word and its futex wait — the ABA the
   32-bit generation admits).  No reachable state with value = 0, no leave / notify / wake in flight (quiet: only idle
   threads, enters and waiters), and either a sleeping waiter or a registered notification that was not submitted. *)
Theorem C07_none_left_behind : forall s, reach_nw s -> fv (word s) = 0 -> (forall u, quiet (pcs s u) = true) ->
  ~ (exists t, slp s t = Sleeping /\ gsnap s t <> gfull s) /\ ~ (exists i, 0 <= i < nreg s /\ fcnt s i <> 1).
Proof. exact none_left_behind_neg. Qed.
Print Assumptions C07_none_left_behind.
(* ... in positive form, with what the quiescent state looks like: nobody sleeps on the group at all, the word is
   gen|0|0|0, the list is empty, nothing is held, every registered notification was submitted once, every enter matched *)
Theorem C07_quiescent_state : forall s, reach_nw s -> fv (word s) = 0 -> (forall u, quiet (pcs s u) = true) ->
  (forall t, slp s t <> Sleeping) /\ fn (word s) = 0 /\ fw (word s) = 0 /\ nq s = [] /\ (forall t, held s t = []) /\
  (forall i, 0 <= i < nreg s -> fcnt s i = 1) /\ outst s = 0.
Proof. exact none_left_behind. Qed.
Print Assumptions C07_quiescent_state.
(* without the value = 0 premise, when no call is in flight at all: the list is empty with HAS_NOTIFS clear, or non-empty
   with the bit set (waiting for the count to reach zero) *)
Theorem C07_idle_list_state : forall s, reach s -> (forall t, pcs s t = PIdle) ->
  ((nq s = [] /\ fn (word s) = 0) \/ (nq s <> [] /\ fn (word s) = 1)) /\ forall t, held s t = [].
Proof. exact idle_list_state. Qed.
Print Assumptions C07_idle_list_state.
(* the freshness hypothesis is satisfiable: every run of fewer than 2^32 generations is fresh *)
Theorem C07_fresh_satisfiable : forall s, reach s -> gfull s < 4294967296 -> reach_nw s.
Proof. exact small_runs_are_fresh. Qed.
Print Assumptions C07_fresh_satisfiable.

(* reuse: every theorem above is about runs over any number of generations (the witness of C07_notify_not_early_refuted and the
   stress rounds span many); the state between two generations is the one of C07_quiescent_state (word = gen|0|0|0, list empty) *)

(* ---- contract and progress ---- *)
Theorem C07_no_trap_state : forall s t, reach s -> pcs s t <> PCrash.
Proof. exact no_crash_state. Qed.
Print Assumptions C07_no_trap_state.
(* no thread inside a library call is ever stuck: it has an enabled step in every reachable state (a thread asleep in
   futex_wait may always return); the two exceptions are the client contract.  This is deadlock freedom per thread, not
   termination: the step constructed in the proof for the thread that holds the notify list is the forward one, but the NULL
   reload of dg_notify_head (PSnapHead) and the retry of the rmw / clearing loops are also enabled *)
Theorem C07_no_stuck : forall s t, reach s ->
  (pcs s t = PEnter -> fv (word s) <> 1) -> (pcs s t = PLeave -> fv (word s) <> 0) ->
  exists e s', gstep s t e = Some s'.
Proof. exact no_stuck. Qed.
Print Assumptions C07_no_stuck.
Theorem C07_submit_loop_bounded : forall s t e s' k st, pcs s t = PFire k st -> gstep s t e = Some s' ->
  (length (held s' t) + 1 = length (held s t))%nat /\ (held s' t = [] <-> pcs s' t = wake_tail k st).
Proof. exact fire_decreases. Qed.
Print Assumptions C07_submit_loop_bounded.
(* the clearing loop of dispatch_group_leave retries only if another thread changed dg_state since the value was read *)
Theorem C07_leave_loop_lock_free : forall s t e s' k old, pcs s t = PLvLoop k old -> gstep s t e = Some s' ->
  (eok e = 1 /\ word s = old /\ word s' = leave_new old /\ pcs s' t = wake_entry k old) \/
  (eok e <> 1 /\ word s <> old /\ word s' = word s /\ pcs s' t = lv_loop_entry k (word s)).
Proof. exact leave_loop_retry_means_interference. Qed.
Print Assumptions C07_leave_loop_lock_free.

(* ---- ties ---- *)
Theorem C07_sites_match_source :
  canon model_sites_enter = canon group_enter_sites /\ canon model_sites_leave = canon group_leave_sites /\
  canon model_sites_wait = canon group_wait_sites /\ canon model_sites_wait_slow = canon group_wait_slow_sites /\
  canon model_sites_notify = canon group_notify_sites /\ canon model_sites_wake = canon group_wake_sites /\
  group_wait_loop_order = Relaxed /\ group_notify_loop_order = Release.
Proof. exact sites_all. Qed.
Print Assumptions C07_sites_match_source.
Theorem C07_model_uses_thread_automaton : forall s t e s',
  gstep s t e = Some s' -> tstep (pcs s t) e = Some (pcs s' t).
Proof. exact gstep_tstep. Qed.
Print Assumptions C07_model_uses_thread_automaton.

(* the replay of whole recorded rounds on the global model (Model/GroupR.v): whatever queues and preferred order the
   scheduler is given, it only takes steps of Group.gstep, so the state it reports is reachable and the threads it was not
   given never moved; and the boolean invariant it evaluates (Model/GroupR_inv.v: the decidable clauses of Inv1, Inv2, Inv3) is
   true on that state as long as fewer than 2^32 generations elapsed *)
Theorem C07_replay_reach : forall chk period strict qs ord, qs_ok qs = true ->
  let s' := fst (fst (fst (fst (fst (sched chk period strict (S (length ord)) (length ord) init_state qs ord 0 (-1) ([], [])))))) in
  reach s' /\ others_idle (map fst qs) s'.
Proof. exact replay_reach. Qed.
Print Assumptions C07_replay_reach.
Theorem C07_inv_b_true : forall tids s,
  reach s -> gfull s < 4294967296 -> others_idle tids s -> inv_b tids s = true.
Proof. exact inv_b_true. Qed.
Print Assumptions C07_inv_b_true.

(* non-vacuity: thread 1 enters, thread 3 waits forever (sets HAS_WAITERS, sleeps on generation 0), thread 2 performs the
   last leave (carry: generation 1), clears the bit, wakes; thread 3 reloads the generation and returns 0 *)
(* the demo run below is a fresh run: its sleeping waiter is covered by C07_sleeper_has_waker / C07_none_left_behind *)
Theorem C07_demo_is_fresh :
  match grun init_state (firstn 7 demo_schedule) with
  | Some s => reach_nw s /\ slp s 3 = Sleeping /\ gsnap s 3 = gfull s | None => False end.
Proof. exact demo_is_fresh. Qed.
Print Assumptions C07_demo_is_fresh.
Example C07_nonvacuous :
  match grun init_state (firstn 7 demo_schedule) with
  | Some s => slp s 3 = Sleeping /\ word s = 4294967293 /\ outst s = 1 /\ wz s 3 = false | None => False end /\
  match grun init_state (firstn 10 demo_schedule) with
  | Some s => word s = 4294967296 /\ gfull s = 1 /\ pcs s 2 = PWakeFutex KApi /\ wz s 3 = true | None => False end /\
  match grun init_state demo_schedule with
  | Some s => pcs s 3 = PIdle /\ slp s 3 = Awake /\ outst s = 0 /\ early s = false | None => False end.
Proof. vm_compute. repeat split. Qed.
