(* C07 — groups complete exactly when their count returns to zero.
   Model: Model/Group.v (thread automaton + memory/kernel semantics + ghost state); the rmw-loop bodies of
   dispatch_group_wait and _dispatch_group_notify, their memory orders, _dg_state_gen, the DISPATCH_GROUP_* constants and
   the atomic-site lists are Gen_group, regenerated from src/semaphore.c / semaphore_internal.h.
   All statements are about every reachable state: any number of threads, any interleaving, any number of generations,
   spurious futex returns and spurious weak-CAS failures included. *)
From Coq Require Import ZArith Bool List.
From Verif Require Import Word Conc Gen_consts Gen_group Group Group_iface Group_proofs.
Import ListNotations.
Local Open Scope Z_scope.

(* ---- interface: the state word [gen:32 | value:30 | HAS_NOTIFS | HAS_WAITERS] ---- *)
(* enter is a 32-bit subtraction on the low half: it never borrows from the generation *)
Theorem C07_enter_no_borrow : forall x, wfw x ->
  wfw (enter_word x) /\ fg (enter_word x) = fg x /\ fv (enter_word x) = (fv x - 1) mod 1073741824 /\
  fn (enter_word x) = fn x /\ fw (enter_word x) = fw x.
Proof. exact enter_word_spec. Qed.
Print Assumptions C07_enter_no_borrow.
(* leave is a 64-bit addition: exactly the last leave (value field all ones) carries into the generation, mod 2^32 *)
Theorem C07_leave_carry : forall x, wfw x ->
  wfw (leave_word x) /\ fn (leave_word x) = fn x /\ fw (leave_word x) = fw x /\
  (if fv x =? 1073741823 then fg (leave_word x) = (fg x + 1) mod 4294967296 /\ fv (leave_word x) = 0
   else fg (leave_word x) = fg x /\ fv (leave_word x) = fv x + 1).
Proof. exact leave_word_spec. Qed.
Print Assumptions C07_leave_carry.
(* the generated body of dispatch_group_wait's loop, case by case *)
Theorem C07_wait_body : forall tmo x, wfw x ->
  wt_entry tmo x = if fv x =? 0 then PRetV 0 else if tmo =? 0 then PRetV 1
                   else if fw x =? 1 then PSlow tmo (fg x) else PWtCas tmo x (Z.lor x HW).
Proof. exact wt_entry_spec. Qed.
Print Assumptions C07_wait_body.
Theorem C07_masks : forall x, Z.land x VMASK = fv x * 4 /\ Z.land x HW = fw x /\ Z.land x HN = fn x * 2.
Proof. intros x. split; [apply land_vmask|split; [apply land_hw|apply land_hn]]. Qed.
Print Assumptions C07_masks.

(* ---- dispatch_group_wait ---- *)
(* the 32-bit generation is the number of count->0 transitions mod 2^32, in every reachable state *)
Theorem C07_generation_counts_zero_transitions : forall s, reach s ->
  wfw (word s) /\ 0 <= gfull s /\ fg (word s) = gfull s mod 4294967296.
Proof. intros s R. apply (inv_reach s R). Qed.
Print Assumptions C07_generation_counts_zero_transitions.
(* wait returns 0 only if the count was zero at some state during the call: wz t is set to [count = 0] when the call
   begins, or-ed with [count = 0] at every read of the word by the waiter, and set by the leave that brings the count to
   zero (Group.set_call_wait / set_read / set_carry); a waiter about to return 0 has it set *)
Theorem C07_wait_zero_sound : forall s t, reach s -> pcs s t = PRetV 0 -> wz s t = true.
Proof. exact wait_zero_sound. Qed.
Print Assumptions C07_wait_zero_sound.
Theorem C07_wait_zero_return_point : forall s t e s' v,
  pcs s t = PRetV v -> gstep s t e = Some s' -> ea e = 0 -> v = 0.
Proof. exact wait_ret_zero_pc. Qed.
Print Assumptions C07_wait_zero_return_point.
(* a non-zero result only through a zero timeout, the futex's ETIMEDOUT, or a deadline already passed (real duration
   is outside the model: measured in the stress runs with the library's clock) *)
Theorem C07_wait_nonzero_only_by_timeout : forall p e v, tstep p e = Some (PRetV v) -> v <> 0 ->
  match p with
  | PWtLoad tmo | PWtCas tmo _ _ => tmo = 0
  | PSlow tmo _ => tmo <> FOREVER /\ ev_kind e DV_FUTEX_WAIT = false
  | PSlowLoad _ _ rc => rc = ETIMEDOUT
  | _ => False
  end.
Proof. exact nonzero_only_by_timeout. Qed.
Print Assumptions C07_wait_nonzero_only_by_timeout.

(* ---- dispatch_group_notify ---- *)
(* every notification is submitted at most once and only if it was registered *)
Theorem C07_notify_exactly_once : forall s i, reach s ->
  0 <= fcnt s i <= 1 /\ (fcnt s i = 1 -> 0 <= i < nreg s).
Proof. intros s i R. apply exactly_once. exact R. Qed.
Print Assumptions C07_notify_exactly_once.
(* every registered notification is in exactly one place: still on the list, detached by one thread that is in its
   submit loop, or submitted once *)
Theorem C07_notify_accounted : forall s i, reach s -> 0 <= i < nreg s ->
  (In i (ids (nq s)) /\ fcnt s i = 0) \/
  (exists t, In i (ids (held s t)) /\ cls (pcs s t) = 3 /\ fcnt s i = 0) \/ fcnt s i = 1.
Proof. exact notification_place. Qed.
Print Assumptions C07_notify_accounted.
(* the thread that clears HAS_NOTIFS, or the registering thread that sees the count at zero, is the unique one to
   detach the list (the MPSC list has a single consumer) *)
Theorem C07_notify_unique_detacher : forall s t u, reach s -> cls (pcs s t) = 2 -> cls (pcs s u) = 2 -> t = u.
Proof. exact unique_detacher. Qed.
Print Assumptions C07_notify_unique_detacher.

(* C07_notify_not_early at full strength: "forall s, reach s -> early s = false" (no notification is submitted unless
   the count was zero at some state since it was registered).  The faithful model REFUTES it, and so does the library
   (harness/c07_early.c, both variants): a dispatch_group_leave (or a registering _dispatch_group_notify) that observed the
   count at zero detaches the list later, and by then the list may hold notifications registered after a new enter. *)
Definition ev k o off sz a b ok := mkEv k o 1 off sz a b ok.
Definition early_schedule : list (Z * event) :=
  [ (1, ev 100 0 0 0 1 0 1); (1, ev 7 2 0 4 0 4 1); (1, ev 101 0 0 0 0 0 1);                     (* enter *)
    (1, ev 100 0 0 0 4 0 1); (1, ev 3 3 16 8 0 1000 1); (1, ev 2 0 8 8 0 1000 1);                  (* notify A ... *)
    (1, ev 1 0 0 8 4294967292 4294967292 1); (1, ev 5 3 0 8 4294967292 4294967294 1); (1, ev 101 0 0 0 0 0 1);
    (2, ev 100 0 0 0 2 0 1); (2, ev 6 3 0 8 4294967294 4 1);                                       (* last leave: count -> 0 *)
    (1, ev 100 0 0 0 1 0 1); (1, ev 7 2 0 4 2 4 1); (1, ev 101 0 0 0 0 0 1);                      (* enter again *)
    (1, ev 100 0 0 0 4 1 1); (1, ev 3 3 16 8 1000 2000 1); (1, ev 101 0 0 0 0 0 1);                (* notify B behind A *)
    (2, ev 4 0 0 8 8589934590 4294967296 0); (2, ev 4 0 0 8 8589934590 8589934588 1);               (* leaver clears NOTIFS *)
    (2, ev 1 2 8 8 1000 1000 1); (2, ev 2 0 8 8 0 0 1); (2, ev 3 3 16 8 2000 0 1);                   (* detaches A and B *)
    (2, ev 3 3 24 8 0 1000 0); (2, ev 3 3 24 8 1000 2000 1) ].                                       (* submits both *)
Theorem C07_notify_not_early_refuted :
  exists s, reach s /\ early s = true /\ outst s = 1 /\ fcnt s 1 = 1 /\ (fv (word s) =? 0) = false.
Proof.
  assert (H : match grun init_state early_schedule with
              | Some s => early s = true /\ outst s = 1 /\ fcnt s 1 = 1 /\ (fv (word s) =? 0) = false
              | None => False end) by (vm_compute; repeat split).
  destruct (grun init_state early_schedule) as [s|] eqn:E; [|destruct H].
  exists s. split; [|exact H].
  apply (grun_reach early_schedule init_state s); [apply reach_init; reflexivity| |exact E].
  repeat constructor.
Qed.
Print Assumptions C07_notify_not_early_refuted.

(* C07_none_left_behind_partial.  Full statement (not proved here): for every state reachable by steps that keep every
   wait `fresh` (Group.reach_nw: fewer than 2^32 generations elapse during one wait), if the count is zero and no
   leave / notify / wake is in flight then no thread sleeps in futex_wait and every registered notification has been
   submitted.  Proved part: the notification half for states with no call in flight at all — the list is empty with
   HAS_NOTIFS clear or non-empty with HAS_NOTIFS set, and nobody holds detached continuations.  Missing: the invariant
   "value = 0 and a flag set => some leaver is in its clearing loop" and the sleeper invariant (sketched in the report). *)
Theorem C07_none_left_behind_partial : forall s, reach s -> (forall t, pcs s t = PIdle) ->
  ((nq s = [] /\ fn (word s) = 0) \/ (nq s <> [] /\ fn (word s) = 1)) /\ forall t, held s t = [].
Proof. exact idle_list_state. Qed.
Print Assumptions C07_none_left_behind_partial.
(* the freshness hypothesis is satisfiable: the initial state is fresh and so is every state without waiter *)
Theorem C07_fresh_satisfiable : fresh init_state /\ reach_nw init_state.
Proof. split; [intros t H; discriminate H|apply reach_init; reflexivity]. Qed.
Print Assumptions C07_fresh_satisfiable.

(* reuse: the invariants are about every reachable state, so they hold again in every generation *)
Theorem C07_reusable : forall s t e s', reach s -> valid_tid t -> gstep s t e = Some s' ->
  reach s' /\ Inv1 s' /\ Inv2 s'.
Proof.
  intros s t e s' R Vt Hs. assert (R' : reach s') by (eapply reach_gstep; eauto). split; [exact R'|apply inv_reach; exact R'].
Qed.
Print Assumptions C07_reusable.

(* ---- ties ---- *)
Theorem C07_sites_match_source :
  canon model_sites_enter = canon group_enter_sites /\ canon model_sites_leave = canon group_leave_sites /\
  canon model_sites_wait = canon group_wait_sites /\ canon model_sites_wait_slow = canon group_wait_slow_sites /\
  canon model_sites_notify = canon group_notify_sites /\ canon model_sites_wake = canon group_wake_sites /\
  group_wait_loop_order = Relaxed /\ group_notify_loop_order = Release.
Proof.
  split; [apply sites_enter|]. split; [apply sites_leave|]. split; [apply sites_wait|]. split; [apply sites_wait_slow|].
  split; [apply sites_notify|]. split; [apply sites_wake|]. split; reflexivity.
Qed.
Print Assumptions C07_sites_match_source.
Theorem C07_model_uses_thread_automaton : forall s t e s',
  gstep s t e = Some s' -> tstep (pcs s t) e = Some (pcs s' t).
Proof. exact gstep_tstep. Qed.
Print Assumptions C07_model_uses_thread_automaton.

(* non-vacuity: thread 1 enters, thread 3 waits forever (sets HAS_WAITERS, sleeps on generation 0), thread 2 performs the
   last leave (carry: generation 1), clears the bit, wakes; thread 3 reloads the generation and returns 0 *)
Definition demo_schedule : list (Z * event) :=
  [ (1, ev 100 0 0 0 1 0 1); (1, ev 7 2 0 4 0 4 1); (1, ev 101 0 0 0 0 0 1);
    (3, ev 100 0 0 0 3 18446744073709551615 1); (3, ev 1 0 0 8 4294967292 4294967292 1);
    (3, ev 5 0 0 8 4294967292 4294967293 1); (3, ev 32 0 4 0 0 0 1);
    (2, ev 100 0 0 0 2 0 1); (2, ev 6 3 0 8 4294967293 4 1); (2, ev 4 0 0 8 4294967297 4294967296 1);
    (2, ev 34 0 4 0 2147483647 0 1); (2, ev 101 0 0 0 0 0 1);
    (3, ev 33 0 4 0 0 0 1); (3, ev 1 2 4 4 1 1 1); (3, ev 101 0 0 0 0 0 1) ].
Example C07_nonvacuous :
  match grun init_state (firstn 7 demo_schedule) with
  | Some s => slp s 3 = Sleeping /\ word s = 4294967293 /\ outst s = 1 /\ wz s 3 = false | None => False end /\
  match grun init_state (firstn 10 demo_schedule) with
  | Some s => word s = 4294967296 /\ gfull s = 1 /\ pcs s 2 = PWakeFutex KApi /\ wz s 3 = true | None => False end /\
  match grun init_state demo_schedule with
  | Some s => pcs s 3 = PIdle /\ slp s 3 = Awake /\ outst s = 0 /\ early s = false | None => False end.
Proof. vm_compute. repeat split. Qed.
