(* C16 — cancelling a source stops its handler and runs the cancel handler once.
   Model: Model/SrcLife.v.  `phase` is _dispatch_source_invoke2 (source.c:715-887) cut at its reads of dq_atomic_flags and at
   the client callouts, `wakeup_target` is _dispatch_source_wakeup (source.c:910-979), `gstep` is the interleaving model:
   cancel (from a thread / from the handler / from an item on the serial target queue), cancel_and_wait (first rmw loop,
   try-lock, waiter CAS, futex), release, merge_data, event delivery and hang-up by the manager thread (two steps each: the
   du_state update, then ds_pending_data + _dispatch_source_merge_evt, which reads du_state again; the manager does not
   deliver while it invokes the source on the manager queue), activation, invoke on any queue, one phase of the lock owner
   per step; any number of threads.  The rmw bodies on dq_atomic_flags and the DSF_*
   constants are Gen_srclife, regenerated from src/source.c.
   `reach k ev ca rg g`: g is reachable from the initial state of a source of kind k with event / cancel / registration
   handlers installed as ev / ca / rg, by ANY interleaving of those steps.  All theorems below are about every such g
   (Proofs/SrcLife_proofs.v: Inv g := GInv g /\ forall t, TInv g t, preserved by every step).
   What kind of statements these are: all of them are SAFETY statements about reachable states and single steps, none is a
   liveness statement.  "the cancel handler runs exactly once" is: at most once in any run, and ch_count = 1 in every state in
   which the slot of a cancelled source has been released (that the slot is eventually released is not stated: it needs the
   invokes _dispatch_source_wakeup asks for, C01).  "every sleeper is woken" is: a caller sleeps only with CANCEL_WAITER set
   and DELETED clear, and the model step that sets DELETED empties the set of sleepers; finalize's flag update and its
   FUTEX_WAKE are ONE model step (source.c:594-600 are two operations of one thread: the wake cannot be lost, it can only be
   late, which no safety statement sees).  "converges" is: all TERMINAL states of a cancelled source (wakeup_target has
   nothing to ask for, nobody inside a call) are the same state; that a terminal state is reached is not stated. *)
From Coq Require Import ZArith Bool List.
From Verif Require Import Word Conc Gen_consts Gen_fields Gen_srclife SrcLife SrcLife_phase_proofs SrcLife_proofs SrcLife_mon_proofs
  SrcLifeR SrcLifeR_proofs.
Import ListNotations.
Local Open Scope Z_scope.

(* tie: the model's transitions of dq_atomic_flags are the generated rmw bodies, on every 32-bit word *)
Theorem C16_cancel_sets_canceled : forall z, dec (Z.lor z DSF_CANCELED) = set_canceled (dec z).
Proof. exact dec_or_canceled. Qed.
Print Assumptions C16_cancel_sets_canceled.
Theorem C16_cancel_and_wait_loop_is_source : forall ds z k,
  match cancel_and_wait_loop ds z (b2z (k_timer k)) (b2z (k_direct k)) with
  | Commit n _ => m_caw_loop k (dec z) = Some (dec n)
  | NoCommit _ _ => m_caw_loop k (dec z) = None
  | _ => False
  end.
Proof. exact gen_caw_loop. Qed.
Print Assumptions C16_cancel_and_wait_loop_is_source.
Theorem C16_finalize_is_source : forall dqu z,
  match flags_set_and_clear_loop dqu DSF_DELETED (Z.lor DSF_NEEDS_EVENT DSF_CANCEL_WAITER) z with
  | Commit n _ => dec n = m_finalize (dec z)
  | NoCommit _ _ => dec z = m_finalize (dec z)
  | _ => False
  end.
Proof. exact gen_finalize. Qed.
Print Assumptions C16_finalize_is_source.
Theorem C16_deferred_unregistration_loop_is_source : forall ds opts z,
  match refs_unregister_loop ds opts z with
  | Commit n _ => m_needs_event_loop (dec z) = Some (dec n)
  | NoCommit _ _ => m_needs_event_loop (dec z) = None
  | _ => False
  end.
Proof. exact gen_needs_event_loop. Qed.
Print Assumptions C16_deferred_unregistration_loop_is_source.

(* source-drift guard (NOT a tie of the model's behaviour): SrcLife.phase_sites / model_sites_* is a hand-written annotation
   table that lists, per program point of the model, the atomic operations of the source the point stands for;
   `phase`, `gstep` and `mon_step` do not use the table, so the theorem says nothing about what the model does at a point.
   What it does give: the generated site lists (_dispatch_source_invoke2 with its inlined callees, 43 sites, cut into the
   phases OA1 .. OP5; _dispatch_source_wakeup, 13; dispatch_source_cancel; dispatch_source_cancel_and_wait, 17;
   finalize_unregistration; refs_unregister) are regenerated from src/source.c on every run, so an atomic operation added,
   dropped or moved in these functions breaks the equality and the check stops until the model has been looked at again.
   The ties of the behaviour are the rmw lemmas above, the monitor and the global replay. *)
Theorem C16_sites_match_source :
  model_sites_invoke2 = f_dispatch_source_invoke2_sites /\ model_sites_wakeup = f_dispatch_source_wakeup_sites /\
  model_sites_cancel = dispatch_source_cancel_sites /\ model_sites_caw = dispatch_source_cancel_and_wait_sites /\
  rmwF = f_dispatch_source_refs_finalize_unregistration_sites /\ unreg_sites = f_dispatch_source_refs_unregister_sites /\
  filter starts_with_flags_read invoke2_points = [OA1; OP1; OP2; OP3b; OP4b].
Proof.
  exact (conj sites_match_invoke2 (conj sites_match_wakeup (conj sites_match_cancel (conj sites_match_caw
          (conj sites_match_finalize (conj sites_match_unregister flags_reading_points)))))).
Qed.
Print Assumptions C16_sites_match_source.

(* the commit point: an event handler invocation starts only from OLatch; OLatch is entered only by the phase that reads the
   flags (source.c:792), on the target queue, and only if that read saw neither CANCELED nor RELEASED (and pending data);
   the cancel handler starts only from source.c:845 on the target queue with CANCELED set now and DELETED seen (or in
   cancel_and_wait's own callout, where the API forbids a cancel handler); starting it takes the slot; no phase refills a
   slot; CANCELED / RELEASED / DELETED are never cleared; DELETED appears only through finalize_unregistration.
   (every phase, every state, every kind, every value of the inputs the model does not compute) *)
Theorem C16_commit_point : forall k q o i,
  let p := phase k q o i in let s := i_src i in let s' := res_src p in let a := res_acts p in
  (h_ca s = false -> h_ca s' = false) /\
  (canceled (fl s') = canceled (fl s) /\ released (fl s') = released (fl s) /\ (deleted (fl s) = true -> deleted (fl s') = true)) /\
  (count AChBegin a = 0 \/
   (count AChBegin a = 1 /\ h_ca s = true /\ h_ca s' = false /\ canceled (fl s) = true /\
    ((i_pc i = OP4 /\ q = QTarget /\ deleted (i_dqf i) = true) \/ (i_pc i = OCD2 /\ deleted (fl s) = true)))) /\
  (count AEhBegin a = 0 \/ (count AEhBegin a = 1 /\ i_pc i = OLatch /\ h_ev s = true)) /\
  (res_pc p = OLatch -> i_pc i = OP1 /\ q = QTarget /\ canceled (fl s) = false /\ released (fl s) = false /\ pending s = true) /\
  (deleted (fl s') = deleted (fl s) \/ (deleted (fl s) = false /\ existsb is_fin a = true)) /\
  (deleted (res_dqf' p) = true -> deleted (i_dqf i) = true \/ deleted (fl s) = true) /\
  (count AChDispose a = 0 \/ (count AChDispose a = 1 /\ h_ca s = true /\ h_ca s' = false /\ canceled (fl s) = false)).
Proof. exact phase_facts. Qed.
Print Assumptions C16_commit_point.

(* once CANCELED is set at most one more event handler invocation starts (late_starts counts the starts made while the flag is
   set): the one that had committed (OLatch, entered on a read that preceded the set, see C16_commit_point); and none at all
   when the cancel that set the flag came from the source's own handler or from an item on the serial target queue *)
Theorem C16_no_event_after_cancel_observed : forall k ev ca rg g, reach k ev ca rg g ->
  0 <= late_starts g <= 1 /\ (1 <= late_starts g -> origin g = Some CxThread) /\
  (origin g = Some CxHandler \/ origin g = Some CxTqItem -> late_starts g = 0).
Proof. exact at_most_one_late_start. Qed.
Print Assumptions C16_no_event_after_cancel_observed.

(* the cancel handler is invoked at most once in any run; once its slot has been released on a cancelled source it has been
   invoked exactly once, whether or not the last reference has been dropped meanwhile (cancel; release is the client idiom:
   the handler still runs, once, before the source is disposed of); it is disposed of without a call only on a source whose
   last reference was dropped and that was never cancelled, and such a source can never become cancelled; the final state
   (C16_converges) has the slot released *)
Theorem C16_cancel_handler_exactly_once : forall k ev ca rg g, reach k ev ca rg g ->
  0 <= ch_count g <= 1 /\ (h_ca (g_s g) = true -> ch_count g = 0) /\
  (h_ca (g_s g) = false -> ch_set g = true -> canceled (fl (g_s g)) = true -> ch_count g = 1) /\
  (ch_disposed g = true -> released (fl (g_s g)) = true /\ canceled (fl (g_s g)) = false /\ ch_count g = 0) /\
  (ch_set g = false -> ch_count g = 0).
Proof. exact cancel_handler_exactly_once. Qed.
Print Assumptions C16_cancel_handler_exactly_once.

(* the cancel handler starts only: in a phase of the thread that holds the drain lock (so no event handler invocation is in
   progress: the owner is at source.c:845), running on the target queue, with CANCELED and DELETED set and the unote no
   longer registered with the event system (epoll entry / muxnote / timer heap gone, du_state = 0), and it has not run before *)
Theorem C16_after_last_event_and_unregistration : forall k ev ca rg g t a g' acts,
  reach k ev ca rg g -> gstep g t a = Some (g', acts) -> count AChBegin acts <> 0 ->
  o_q g = QTarget /\ owner g = Some t /\ o_pc g = OP4 /\ canceled (fl (g_s g)) = true /\ deleted (fl (g_s g)) = true /\
  kreg (g_s g) = false /\ registered (g_s g) = false /\ ch_count g = 0.
Proof. exact cancel_handler_start. Qed.
Print Assumptions C16_after_last_event_and_unregistration.

(* an event handler invocation starts only from the committed point of the lock owner, on the target queue, and only while
   the cancel handler has not run: no event handler invocation starts after the cancel handler (that both callouts run on the
   target queue is the o_q g = QTarget conjunct here and above) *)
Theorem C16_no_event_after_cancel_handler : forall k ev ca rg g t a g' acts,
  reach k ev ca rg g -> gstep g t a = Some (g', acts) -> count AEhBegin acts <> 0 ->
  ch_count g = 0 /\ o_pc g = OLatch /\ o_q g = QTarget /\ owner g = Some t /\ late_starts g = 0 /\
  (canceled (fl (g_s g)) = true -> origin g = Some CxThread).
Proof. exact event_handler_start. Qed.
Print Assumptions C16_no_event_after_cancel_handler.

(* DISPATCH_INTERNAL_CRASH("Source finalized twice") is unreachable: no step finalizes a source that has DELETED set *)
Theorem C16_finalized_once : forall k ev ca rg g t a g' acts,
  reach k ev ca rg g -> gstep g t a = Some (g', acts) -> existsb is_fin_twice acts = false.
Proof. exact finalized_once. Qed.
Print Assumptions C16_finalized_once.

(* DELETED implies: nothing registered with the event system, unote state 0, source installed, no waiter bit, no NEEDS_EVENT *)
Theorem C16_deleted_means_unregistered : forall k ev ca rg g, reach k ev ca rg g -> Sinv (g_k g) (g_s g).
Proof. exact deleted_means_unregistered. Qed.
Print Assumptions C16_deleted_means_unregistered.

(* dispatch_source_cancel_and_wait: whenever a caller sleeps in futex_wait the CANCEL_WAITER bit is set and DELETED is not, so
   the finalize that sets DELETED sees the bit and wakes (model: finalize's flag update and FUTEX_WAKE are one step); a step
   after which DELETED is set leaves nobody asleep; no call returns before DELETED is set *)
Theorem C16_sleepers_woken : forall k ev ca rg g, reach k ev ca rg g ->
  (forall u, slp g u = true -> cpc g u = CWSleep /\ waiter (fl (g_s g)) = true /\ deleted (fl (g_s g)) = false) /\
  caw_early g = false.
Proof. exact sleepers_woken. Qed.
Print Assumptions C16_sleepers_woken.
Theorem C16_deletion_wakes_everyone : forall k ev ca rg g t a g' acts,
  reach k ev ca rg g -> gstep g t a = Some (g', acts) -> deleted (fl (g_s g')) = true -> forall u, slp g' u = false.
Proof. exact deletion_wakes_everyone. Qed.
Print Assumptions C16_deletion_wakes_everyone.

(* _dispatch_source_merge_evt's "event for an unregistered unote" finalize (source.c:1108-1118) never fires: between the
   manager's update of du_state and its second read in merge_evt nobody unregisters a muxed unote (it is unregistered on the
   manager queue only, source.c:788 as fixed by f0b02ae and :832, and the manager is busy), and timers are excluded by the
   code.  With source.c:788 as it was (acknowledge the deferred delete on any queue) this is false: the stress harness
   crashed with "Source finalized twice", harness/c16_hangup_confirm.c reproduces it deterministically. *)
Theorem C16_event_delivery_never_finalizes : forall k ev ca rg g t g' acts,
  reach k ev ca rg g -> gstep g t GEvMerge = Some (g', acts) -> acts = [].
Proof. exact event_delivery_never_finalizes. Qed.
Print Assumptions C16_event_delivery_never_finalizes.

(* link between the global model and the per-thread conformance monitor SrcLife.mon_step (the automaton every recorded
   thread trace of dq_atomic_flags events and callout marks is run through): every step of gstep taken by thread t, seen as
   the events SrcLife.emit, is accepted by t's monitor, and the relation mrel between the model's view of t and the monitor
   state is kept; the monitors of the other threads are not concerned.  Hence the monitor never rejects a behaviour of the
   model.  thread_ok: a thread is in one call at a time (it does not activate / invoke / cancel / release the source from inside
   cancel_and_wait's wait loop, that wait loop runs outside the drain lock, and the thread that is inside an invoke calls
   cancel only out of one of the source's callouts and does not drop the last reference there).  After its own fetch-or of
   CANCELED or RELEASED the monitor forgets what the thread had read: a callout or a write of the word needs a new read.
   The converse is NOT claimed and is false: the monitor watches one thread and one word; it accepts e.g. an event handler
   start whenever that thread's last read had no CANCELED, whatever the other words and threads did; enabling conditions that
   depend on shared state are the business of the global replay below. *)
Theorem C16_monitor_accepts_model : forall k ev ca rg g t a g' acts m,
  reach k ev ca rg g -> mrel g t m -> thread_ok g t a -> gstep g t a = Some (g', acts) ->
  exists m', mrun (g_k g) m (emit g t a acts) = Some m' /\ mrel g' t m'.
Proof. exact step_mon. Qed.
Print Assumptions C16_monitor_accepts_model.
Theorem C16_monitor_other_threads : forall g t a g' acts u m,
  gstep g t a = Some (g', acts) -> u <> t -> mrel g u m -> mrel g' u m.
Proof. exact step_mon_other. Qed.
Print Assumptions C16_monitor_other_threads.
Theorem C16_monitor_run_is_conform : forall k evs m m' i,
  mrun k m evs = Some m' -> run_trace (mon_step (b2z (k_timer k)) (b2z (k_direct k))) m evs i = (m', -1).
Proof. exact mrun_run_trace. Qed.
Print Assumptions C16_monitor_run_is_conform.

(* the global replay (Model/SrcLifeR.v, lib/props/c16r.py).  What is proved is small: C16_replay_reach is definitional
   (replay_state := grun init (acts the scheduler performed), and grun only follows gstep), so it holds for ANY list of acts and
   says nothing about the recording.  That the recorded observations ARE those steps (every observation consumed, in an
   order consistent with the recording, as a model step enabled there with the recorded values) is established by the
   executable scheduler SrcLifeR.sched / fmatch / adv (SrcLifeR.v:162-600, evaluated inside Coq, NOT proved correct) and by the
   comparison of the end state with the recorded final state in lib/props/c16r.py: that part is testing, and its trusted base
   is the scheduler.  C16_inv_b_sound: the boolean invariant is true on every reachable state; evaluated on the end state of a
   replay (the end state only) it therefore cannot fail: it is a self-check of the tooling, not evidence about the library. *)
Theorem C16_replay_reach : forall k ev ca rg ts ord g,
  replay_state k ev ca rg ts ord = Some g -> reach k ev ca rg g.
Proof. exact replay_reach. Qed.
Print Assumptions C16_replay_reach.
Theorem C16_inv_b_sound : forall k ev ca rg g tids, reach k ev ca rg g -> inv_b tids g = true.
Proof. exact inv_b_sound. Qed.
Print Assumptions C16_inv_b_sound.

(* convergence = confluence of the final state: whatever the history (cancel before activation, cancel twice, from the
   handler, cancel_and_wait by several threads, release, hang-up ...), a cancelled source on which _dispatch_source_wakeup
   has nothing more to ask for is in ONE final state: CANCELED|DELETED, no waiter, no NEEDS_EVENT, the three handler slots
   released, unote state 0, nothing registered, installed.
   reachL = reachable by steps in which unregistration succeeds, which is every step on this platform
   (_dispatch_unote_unregister returns true for custom filters, timers and muxed unotes; no direct knotes).
   C16_converges_any_backend is the same without that platform fact: the other possibility is a source parked on
   DSF_NEEDS_EVENT until the kernel delivers the delete event.
   Not covered (belongs to the lane layer, C01, and to the kernel): that the invokes _dispatch_source_wakeup asks for are
   eventually performed. *)
Theorem C16_converges : forall k ev ca rg g, reachL k ev ca rg g -> canceled (fl (g_s g)) = true ->
  (forall o, wakeup_target (g_k g) o false false (g_s g) = RNone) -> final_src (g_s g).
Proof. exact converges. Qed.
Print Assumptions C16_converges.
Theorem C16_converges_any_backend : forall k ev ca rg g, reach k ev ca rg g -> canceled (fl (g_s g)) = true ->
  (forall o, wakeup_target (g_k g) o false false (g_s g) = RNone) ->
  final_src (g_s g) \/ (needs_event (fl (g_s g)) = true /\ deleted (fl (g_s g)) = false).
Proof. exact converges_any_backend. Qed.
Print Assumptions C16_converges_any_backend.

(* non-vacuity: a read source is installed on the manager queue, an event arrives, invoke2 on the target queue commits to
   the handler (OLatch), a cancel from another thread lands in that window: exactly that one invocation still starts
   (late_starts = 1, origin = another thread); then unregistration on the manager queue sets DELETED and the cancel handler
   runs once on the target queue; the wakeup function then has nothing to ask for and the state is the final one *)
Definition o1 := mkO false false true true true true true true.
Fixpoint drain (n : nat) (g : gst) (t : Z) : gst :=
  match n with O => g | S n' => match gstep g t (GPhase o1) with Some (g', _) => drain n' g' t | None => g end end.
Definition inv (q : queue) (t : Z) (g : gst) := match gstep g t (GInvoke q) with Some (g', _) => drain 30 g' t | None => g end.
Definition st (a : act) (t : Z) (g : gst) := match gstep g t a with Some (g', _) => g' | None => g end.
Definition demo3 := drain 5 (st (GInvoke QTarget) 6 (st GEvMerge 9 (st (GEvent true) 9 (inv QMgr 5 (st (GActivate o1) 1 (init_state K_FD true true false)))))) 6.
Definition demo6 := inv QTarget 6 (inv QMgr 5 (drain 30 (st (GCancel CxThread) 2 demo3) 6)).
Example C16_nonvacuous :
  o_pc demo3 = OLatch /\ canceled (fl (g_s demo3)) = false /\
  late_starts demo6 = 1 /\ eh_count demo6 = 1 /\ ch_count demo6 = 1 /\ origin demo6 = Some CxThread /\
  wakeup_target K_FD o1 false false (g_s demo6) = RNone /\
  deleted (fl (g_s demo6)) = true /\ kreg (g_s demo6) = false /\ h_ca (g_s demo6) = false /\ Sinv K_FD (g_s demo6).
Proof.
  vm_compute. repeat split; intros; try discriminate; try reflexivity; auto.
  all: try (match goal with H : _ \/ _ |- _ => destruct H; discriminate end).
Qed.
