(* C16 — cancelling a source stops its handler and runs the cancel handler once.
   Model: Model/SrcLife.v.  `phase` is _dispatch_source_invoke2 (source.c:715-887) cut at its reads of dq_atomic_flags and at
   the client callouts, `wakeup_target` is _dispatch_source_wakeup (source.c:910-979), `gstep` is the interleaving model
   (cancel / cancel_and_wait / events / phases of the lock owner, any number of threads).  The rmw bodies on
   dq_atomic_flags and the DSF_* constants are Gen_srclife, regenerated from src/source.c.

   WHAT IS PROVED HERE: statements about every phase of invoke2 in every state (all source kinds, all values of the inputs
   the model does not compute, any flags word), and the characterisation of the final state.
   WHAT IS NOT (named _partial, full statements kept in comments): the theorems over all interleavings
   (reachable-state invariants of `gstep`): the invariant is written out in the worker report, its preservation proof was
   not completed in the time budget.  The interleaving claims are covered by the stress oracle and the trace
   conformance of lib/props/c16.py only. *)
From Coq Require Import ZArith Bool List.
From Verif Require Import Word Conc Gen_consts Gen_srclife SrcLife SrcLife_proofs.
Import ListNotations.
Local Open Scope Z_scope.

(* tie: the model's transitions of dq_atomic_flags are the generated rmw bodies, on every 32-bit word *)
Theorem C16_cancel_sets_canceled : forall z, dec (Z.lor z DSF_CANCELED) = set_canceled (dec z).
Proof. exact dec_or_canceled. Qed.
Print Assumptions C16_cancel_sets_canceled.
Theorem C16_cancel_and_wait_loop_is_source : forall ds z k,
  match cancel_and_wait_loop ds z (b2z (k_timer k)) (b2z (k_direct k)) with
  | Commit n _ => m_caw_loop k (dec z) = Some (dec n)
  | NoCommit _ _ => m_caw_loop k (dec z) = None
  | _ => False
  end.
Proof. exact gen_caw_loop. Qed.
Print Assumptions C16_cancel_and_wait_loop_is_source.
Theorem C16_finalize_is_source : forall dqu z,
  match flags_set_and_clear_loop dqu DSF_DELETED (Z.lor DSF_NEEDS_EVENT DSF_CANCEL_WAITER) z with
  | Commit n _ => dec n = m_finalize (dec z)
  | NoCommit _ _ => dec z = m_finalize (dec z)
  | _ => False
  end.
Proof. exact gen_finalize. Qed.
Print Assumptions C16_finalize_is_source.
(* the deferred-unregistration loop (source.c:618, unreachable on this platform) is modelled by m_needs_event_loop; its tie
   to the generated body refs_unregister_loop is not stated here: the current translator output for that loop treats the
   loop variable `oqf` as a free parameter (reported to the lead) *)


(* FULL: C16_no_event_after_cancel_observed : forall g, reach k ev ca rg g ->
     0 <= late_starts g <= 1 /\ (1 <= late_starts g -> origin g = Some CxThread) /\
     (o_pc g = OLatch -> late_starts g = 0 /\ o_q g = QTarget)
   i.e. once CANCELED is set at most one event handler invocation starts, and none when the cancel that set the flag came
   from the handler or from an item of the serial target queue.
   PROVED (per phase, every state): an event handler invocation starts only from the committed point OLatch; OLatch is
   entered only by the phase that reads the flags (source.c:792), on the target queue, and only if that read saw neither
   CANCELED nor RELEASED; the cancel handler starts only from source.c:845 on the target queue with CANCELED set now and
   DELETED seen (or, in cancel_and_wait's own callout, where the API forbids a cancel handler), it takes the slot
   (handler_take), and no phase ever refills the slot; CANCELED / RELEASED / DELETED are never cleared by a phase; DELETED
   appears only through _dispatch_source_refs_finalize_unregistration.
   Missing for the full statement: the induction over interleavings (counters late_starts / ch_count). *)
Theorem C16_callouts_partial : forall k q o i,
  let p := phase k q o i in let s := i_src i in let s' := res_src p in let a := res_acts p in
  (h_ca s = false -> h_ca s' = false) /\
  (canceled (fl s') = canceled (fl s) /\ released (fl s') = released (fl s) /\ (deleted (fl s) = true -> deleted (fl s') = true)) /\
  (count AChBegin a = 0 \/
   (count AChBegin a = 1 /\ h_ca s = true /\ h_ca s' = false /\ canceled (fl s) = true /\
    ((i_pc i = OP4 /\ q = QTarget /\ deleted (i_dqf i) = true) \/ (i_pc i = OCD2 /\ deleted (fl s) = true)))) /\
  (count AEhBegin a = 0 \/ (count AEhBegin a = 1 /\ i_pc i = OLatch /\ h_ev s = true)) /\
  (res_pc p = OLatch -> i_pc i = OP1 /\ q = QTarget /\ canceled (fl s) = false /\ released (fl s) = false /\ pending s = true) /\
  (deleted (fl s') = deleted (fl s) \/ (deleted (fl s) = false /\ existsb is_fin a = true)) /\
  (deleted (res_dqf' p) = true -> deleted (i_dqf i) = true \/ deleted (fl s) = true) /\
  (count AChDispose a = 0 \/ (count AChDispose a = 1 /\ h_ca s = true /\ h_ca s' = false /\ canceled (fl s) = false)).
Proof. exact phase_facts. Qed.
Print Assumptions C16_callouts_partial.

(* FULL: C16_after_last_event_and_unregistration : forall g, reach k ev ca rg g -> Sinv (g_k g) (g_s g), and every step
   that starts the cancel handler does so in a state with DELETED set and kreg = false.
   PROVED: every phase of invoke2 (and of cancel_and_wait's locked path) preserves the structural invariant: DELETED implies
   nothing is registered with the event system (kreg = false: muxnote removed from epoll / timer out of the heap), no
   waiter bit and no NEEDS_EVENT bit left, and for every kind but the custom data sources the unote state is 0 and the
   source is installed; a registration implies wlh bits, wlh bits imply installed.
   Missing: the same for the non-phase steps (activate, event delivery, cancel_and_wait's first loop), which are one-line
   updates, and the induction. *)
Theorem C16_unregistered_when_deleted_partial : forall k q o i,
  Pinv k (i_src i) (i_pc i) -> Pinv k (res_src (phase k q o i)) (res_pc (phase k q o i)).
Proof. exact phase_Pinv. Qed.
Print Assumptions C16_unregistered_when_deleted_partial.

(* C16_converges: whatever the history (cancel before activation, cancel twice, cancel_and_wait), a cancelled source on
   which _dispatch_source_wakeup finds nothing more to do is in ONE final state: DELETED, no waiter, no NEEDS_EVENT, all
   three handler slots released, nothing registered — or it is parked on DSF_NEEDS_EVENT waiting for the kernel's delete
   event (cannot happen on this platform: unregistration always succeeds; this is the part that depends on the kernel).
   partial: the hypothesis Sinv is proved preserved by phases only (see above); progress (each requested invoke
   terminates and gets closer) is not proved. *)
Theorem C16_converges_partial : forall k s,
  Sinv k s -> canceled (fl s) = true -> (forall o, wakeup_target k o false false s = RNone) ->
  (deleted (fl s) = true /\ waiter (fl s) = false /\ needs_event (fl s) = false /\ h_ev s = false /\ h_ca s = false /\
   h_reg s = false /\ kreg s = false /\ installed s = true /\ (custom k = false -> registered s = false)) \/
  (needs_event (fl s) = true /\ deleted (fl s) = false).
Proof. exact wakeup_final. Qed.
Print Assumptions C16_converges_partial.

(* non-vacuity: a read source is installed on the manager queue, an event arrives, invoke2 on the target queue commits to
   the handler (OLatch), a cancel from another thread lands in that window: exactly that one invocation still starts
   (late_starts = 1, origin = another thread); then unregistration on the manager queue sets DELETED and the cancel handler
   runs once on the target queue; the wakeup function then has nothing to ask for and the state is the final one *)
Definition o1 := mkO false false true true true true true true.
Fixpoint drain (n : nat) (g : gst) (t : Z) : gst :=
  match n with O => g | S n' => match gstep g t (GPhase o1) with Some (g', _) => drain n' g' t | None => g end end.
Definition inv (q : queue) (t : Z) (g : gst) := match gstep g t (GInvoke q) with Some (g', _) => drain 30 g' t | None => g end.
Definition st (a : act) (t : Z) (g : gst) := match gstep g t a with Some (g', _) => g' | None => g end.
Definition demo3 := drain 5 (st (GInvoke QTarget) 6 (st (GEvent true) 9 (inv QMgr 5 (st (GActivate o1) 1 (init_state K_FD true true false))))) 6.
Definition demo6 := inv QTarget 6 (inv QMgr 5 (drain 30 (st (GCancel CxThread) 2 demo3) 6)).
Example C16_nonvacuous :
  o_pc demo3 = OLatch /\ canceled (fl (g_s demo3)) = false /\
  late_starts demo6 = 1 /\ eh_count demo6 = 1 /\ ch_count demo6 = 1 /\ origin demo6 = Some CxThread /\
  wakeup_target K_FD o1 false false (g_s demo6) = RNone /\
  deleted (fl (g_s demo6)) = true /\ kreg (g_s demo6) = false /\ h_ca (g_s demo6) = false /\ Sinv K_FD (g_s demo6).
Proof.
  vm_compute. repeat split; intros; try discriminate; try reflexivity; auto.
  all: try (match goal with H : _ \/ _ |- _ => destruct H; discriminate end).
Qed.
