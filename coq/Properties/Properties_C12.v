(* C12 — dispatch_time arithmetic is monotone, clock-preserving and saturating.
   The code is Gen_time (regenerated from src/time.c + src/shims/time.h on every run); the specification
   is Model/Time.v.  Only statements here; proofs are in Proofs/Time_proofs.v. *)
From Coq Require Import ZArith.
From Verif Require Import Word Gen_consts Gen_time Time Time_proofs.
Local Open Scope Z_scope.

(* every base that denotes a time, every delta: the result denotes base+delta on the same clock, saturating *)
Theorem C12_time_shift : forall k inval delta c b,
  in64 inval -> ins64 delta -> clocks_ok k -> decode k inval = At c b ->
  decode k (dispatch_time inval delta (now_wall k) (now_up k) (now_mono k)) = shifted k c b delta.
Proof. exact dispatch_time_shift. Qed.
Print Assumptions C12_time_shift.

Theorem C12_forever_absorbing : forall delta nw nu nm, dispatch_time FOREVER delta nw nu nm = FOREVER.
Proof. exact dispatch_time_forever. Qed.
Print Assumptions C12_forever_absorbing.

Theorem C12_out_of_range_base_is_forever : forall k inval delta,
  in64 inval -> clocks_ok k -> decode k inval = Forever ->
  dispatch_time inval delta (now_wall k) (now_up k) (now_mono k) = FOREVER.
Proof. exact dispatch_time_out_of_range. Qed.
Print Assumptions C12_out_of_range_base_is_forever.

(* clock preservation, exactness, both saturations and "never wraps" are read off `shifted`; monotonicity: *)
Theorem C12_monotone : forall k c b d1 d2,
  clocks_ok k -> lo c <= b -> d1 <= d2 -> time_le k (shifted k c b d1) (shifted k c b d2).
Proof. exact shifted_monotone. Qed.
Print Assumptions C12_monotone.

Theorem C12_walltime : forall k inval ts delta,
  clocks_ok k -> ins64 delta -> (inval = 0 <-> ts = None) ->
  (forall sec nsec, ts = Some (sec, nsec) -> ins64 sec /\ ins64 nsec) ->
  decode k (dispatch_walltime inval delta (match ts with Some (s, _) => s | None => 0 end)
                              (match ts with Some (_, n) => n | None => 0 end) (now_wall k))
  = walltime_spec k ts delta.
Proof. exact dispatch_walltime_spec. Qed.
Print Assumptions C12_walltime.

(* relative timeout: clamped at zero; a past time does not block *)
Theorem C12_timeout_exact : forall k t c v,
  in64 t -> clocks_ok k -> decode k t = At c v ->
  f_dispatch_timeout t (now_wall k) (now_up k) (now_mono k) = Z.max 0 (v - now k c).
Proof. exact timeout_spec. Qed.
Print Assumptions C12_timeout_exact.

Theorem C12_underflow_is_elapsed : forall k c b delta,
  clocks_ok k -> b + delta < lo c -> elapsed k (shifted k c b delta).
Proof. exact underflow_is_elapsed. Qed.
Print Assumptions C12_underflow_is_elapsed.

Theorem C12_past_does_not_block : forall k t,
  in64 t -> clocks_ok k -> elapsed k (decode k t) ->
  f_dispatch_timeout t (now_wall k) (now_up k) (now_mono k) = 0 /\
  f_dispatch_time_nanoseconds_since_epoch t (now_wall k) (now_up k) (now_mono k) <= now_wall k.
Proof. intros; split; [apply elapsed_timeout_zero | apply since_epoch_elapsed]; assumption. Qed.
Print Assumptions C12_past_does_not_block.

(* absolute CLOCK_REALTIME deadline used by timed semaphore waits (also C08) *)
Theorem C12_since_epoch : forall k t c v,
  in64 t -> clocks_ok k -> decode k t = At c v ->
  f_dispatch_time_nanoseconds_since_epoch t (now_wall k) (now_up k) (now_mono k) =
  match c with Wall => if t =? WALLNOW then 2 else v | _ => now_wall k + Z.max 0 (v - now k c) end.
Proof. exact since_epoch_spec. Qed.
Print Assumptions C12_since_epoch.

(* non-vacuity: the hypotheses are met by concrete values of every clock *)
Definition k0 : clocks := {| now_up := 5000; now_mono := 7000; now_wall := 1700000000000000000 |}.
Example C12_nonvacuous :
  clocks_ok k0 /\ decode k0 12345 = At Up 12345 /\ decode k0 9223372036854775808 = At Mono 7000 /\
  decode k0 (18446744073709551616 - 1700000000000000001) = At Wall 1700000000000000001 /\
  decode k0 4611686018427387904 = Forever /\
  decode k0 (dispatch_time 12345 (-20000) (now_wall k0) (now_up k0) (now_mono k0)) = At Up 1 /\
  decode k0 (dispatch_time WALLNOW 9223372036854775807 (now_wall k0) (now_up k0) (now_mono k0)) = Forever.
Proof. unfold clocks_ok, MAXV. cbn. repeat split; (reflexivity || discriminate). Qed.
