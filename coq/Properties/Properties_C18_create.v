(* C18 — what a created queue reports, for every attribute and every kind of target of the model, and the constructor commutations
   that Properties_C18.v does not export (audit F17 items 2 and 3).
   Limits (audit-2 M18): the LABEL clause is definitional in the model (`c_label := label`: the theorem only records that no branch
   of the creation drops or replaces it; that the library hands back an equal, privately copied string is checked by the
   correspondence, not proved); NULL labels are excluded (hypothesis l <> 0); the `TOther` branch (a target without do_targetq that is
   not a global root: a pthread root queue) is inside the statements but UNTIED: no such queue exists on this build.
   Model: Model/Create.v (hand-written mirror of _dispatch_lane_create_with_target and the getters, on the dq_priority / dq_state /
   dq_atomic_flags WORDS), tied by harness/c18_create.c + lib/props/c18_create.py: label comparison, class and relative priority
   through the public getters, and target / width / state / flags / priority words read from the created queue, for every table
   entry x target kinds (NULL by both entry points, each of the 12 global root queues, a serial lane, a concurrent lane, a workloop,
   the main queue).  Not exercised by the harness (no such queue on this build: DISPATCH_USE_PTHREAD_ROOT_QUEUES = 0): TOther.
   `spec_report` is the statement of the clause in terms of the attribute's components only. *)
From Coq Require Import ZArith Bool List.
From Verif Require Import Word Gen_consts Gen_qos Gen_dqstate Attr Attr_proofs Create Create_proofs.
Import ListNotations.
Local Open Scope Z_scope.

(* label, target (never NULL), QoS class incl. what is inherited from the target chain, relative priority, width, initial activity,
   autorelease frequency: for every attribute of the table (and NULL), every target, both entry points; the creation is refused
   exactly when `spec_report` is None *)
Theorem C18_created_queue_reports_all : forall l a t lg, valid_attr a -> l <> 0 -> tgt_ok t ->
  match create_with_target l a t lg with
  | None => spec_report a t = None
  | Some c => get_label c = l /\ c_target c <> 0 /\ spec_report a t = Some (observed_report c)
  end.
Proof. exact create_meets_spec. Qed.
Print Assumptions C18_created_queue_reports_all.

Theorem C18_create_refused_iff : forall l a t lg, valid_attr a -> l <> 0 -> tgt_ok t ->
  (create_with_target l a t lg = None <->
   overcommit (to_info a) <> 0 /\ match t with TLane _ | TOther _ => True | _ => False end).
Proof. exact create_refused_iff. Qed.
Print Assumptions C18_create_refused_iff.

(* the word level: a QoS and a relative priority stored in dq_priority ((relpri - 1) & 0xff, read back through int8_t) come back
   unchanged under the OVERCOMMIT / INHERITED flags, and make the priority "selected by the client" (never overwritten by inheritance) *)
Theorem C18_priority_word_roundtrip : forall q rp fl, 1 <= q <= 6 -> -15 <= rp <= 0 ->
  In fl [0; PRI_FLAG_OVERCOMMIT; PRI_FLAG_INHERITED; PRI_FLAG_OVERCOMMIT + PRI_FLAG_INHERITED] ->
  priority_qos (Z.lor (priority_make q rp) fl) = q /\ priority_relpri (Z.lor (priority_make q rp) fl) = rp /\
  manually_selected (Z.lor (priority_make q rp) (Z.land fl PRI_FLAG_OVERCOMMIT)) = true.
Proof. exact priority_roundtrip. Qed.
Print Assumptions C18_priority_word_roundtrip.

(* dispatch_queue_attr_make_initially_inactive / _with_autorelease_frequency seen through the queue created from the result *)
Theorem C18_created_from_inactive_ctor : forall l a t lg c, valid_attr a -> l <> 0 -> tgt_ok t ->
  create_with_target l (make_initially_inactive a) t lg = Some c -> is_inactive c = true.
Proof. exact created_from_inactive_ctor. Qed.
Print Assumptions C18_created_from_inactive_ctor.
Theorem C18_created_from_autorelease_ctor : forall l a f t lg c, valid_attr a -> 0 <= f < AF -> l <> 0 -> tgt_ok t ->
  create_with_target l (make_with_autorelease a f) t lg = Some c ->
  autorelease_bits c = (if f =? 2 then DQF_AUTORELEASE_NEVER else if f =? 1 then DQF_AUTORELEASE_ALWAYS else 0).
Proof. exact created_from_autorelease_ctor. Qed.
Print Assumptions C18_created_from_autorelease_ctor.

(* the three constructor pairs not exported by Properties_C18.v, and "the last one wins" for each constructor *)
Theorem C18_ctors_commute_qos_autorelease : forall a cls rp f, valid_attr a -> class_valid cls rp = true -> 0 <= f < AF ->
  make_with_autorelease (make_with_qos_class a cls rp) f = make_with_qos_class (make_with_autorelease a f) cls rp.
Proof. exact ctors_commute_qos_autorelease. Qed.
Print Assumptions C18_ctors_commute_qos_autorelease.
Theorem C18_ctors_commute_inactive_autorelease : forall a f, valid_attr a -> 0 <= f < AF ->
  make_with_autorelease (make_initially_inactive a) f = make_initially_inactive (make_with_autorelease a f).
Proof. exact ctors_commute_inactive_autorelease. Qed.
Print Assumptions C18_ctors_commute_inactive_autorelease.
Theorem C18_ctors_commute_overcommit_autorelease : forall a oc f, valid_attr a -> 0 <= f < AF ->
  make_with_autorelease (make_with_overcommit a oc) f = make_with_overcommit (make_with_autorelease a f) oc.
Proof. exact ctors_commute_overcommit_autorelease. Qed.
Print Assumptions C18_ctors_commute_overcommit_autorelease.
Theorem C18_ctors_last_wins : forall a cls rp cls' rp' oc oc' f f', valid_attr a ->
  class_valid cls rp = true -> class_valid cls' rp' = true -> 0 <= f < AF -> 0 <= f' < AF ->
  make_with_qos_class (make_with_qos_class a cls rp) cls' rp' = make_with_qos_class a cls' rp' /\
  make_with_overcommit (make_with_overcommit a oc) oc' = make_with_overcommit a oc' /\
  make_with_autorelease (make_with_autorelease a f) f' = make_with_autorelease a f' /\
  make_initially_inactive (make_initially_inactive a) = make_initially_inactive a.
Proof. exact ctors_last_wins. Qed.
Print Assumptions C18_ctors_last_wins.

(* non-vacuity: a queue from (utility, -3, inactive, autorelease never) on a concurrent lane; an unspecified serial queue on the
   background overcommit root inherits its class; the same on a lane inherits nothing; overcommit + lane target is refused *)
Example C18_create_nonvacuous :
  let a := make_with_autorelease (make_initially_inactive (make_with_qos_class (-1) 17 (-3))) 2 in
  valid_attr a /\
  option_map observed_report (create_with_target 9 a (TLane 7) false) = Some [17; -3; 7; 1; 1; DQF_AUTORELEASE_NEVER] /\
  option_map observed_report (create_with_target 9 (-1) (TRoot 3) false) = Some [9; 0; root_queue_addr 3; 1; 0; 0] /\
  option_map observed_report (create_with_target 9 (-1) (TLane 7) false) = Some [0; 0; 7; 1; 0; 0] /\
  option_map observed_report (create_with_target 9 (-1) TNull true) = Some [0; 0; root_queue_addr 7; 1; 0; 0] /\
  create_with_target 9 (make_with_overcommit (-1) true) (TLane 7) false = None.
Proof. vm_compute. repeat split; try reflexivity. right. split; [discriminate|reflexivity]. Qed.
