(* Properties_C01_root.v — C01, root (global) queue and thread pool part (model: Model/RootQ.v).
   Runtime hypotheses (trusted base, never axioms): they appear as premises / as the existence of the schedule:
   - an object is pushed only while it is not enqueued (enabling condition of the first step of a push in RootQ.effect);
   - pthread_create eventually succeeds (the DVX_CREATE step of the model is enabled whenever a free thread id exists);
   - the monitor timer fires (C01_root_monitor_grows_pool talks about one pass: the schedule RootQ.mon_schedule);
   - /proc reports a thread blocked in a system call as not runnable (the bucket (true, 0) of RootQ.mon_pass);
   - fewer than 2^63 signals banked in the pool semaphore, fewer than 2^31 pending requests (no successor otherwise). *)
From Coq Require Import ZArith Bool List.
From Verif Require Import Word Conc Gen_consts Gen_rootq RootQ RootQ_proofs RootQ_pool_proofs RootQ_wake_proofs.
Import ListNotations.
Local Open Scope Z_scope.

(* every dequeue (an exchange on dq_items_head that returned an object) is the dequeue of the push at the same position of
   the push history: no double dequeue, no invented item; the histories record exactly those events *)
Theorem C01_root_pop_unique : forall oc p0 s, reach oc p0 s ->
  (exists claimed rest, hpush s = claimed ++ rest /\ map fst claimed = map fst (hpop s) /\ map fst rest = unclaimed s) /\
  (forall k x w, nth_error (hpop s) k = Some (x, w) -> exists p, nth_error (hpush s) k = Some (x, p)) /\
  (forall t e s', gstep oc s t e = Some s' ->
     (hpush s' = hpush s \/ (exists c x, pcs s t = PPushXchg c x /\ hpush s' = hpush s ++ [(x, t)])) /\
     (hpop s' = hpop s \/ (pcs s t = PDrainXchg /\ is_item (ea e) = true /\ ea e = head s /\ hpop s' = hpop s ++ [(ea e, t)])) /\
     (runs s' = runs s \/ (exists h, pcs s t = PGot h /\ runs s' = runs s ++ [(h, t)]))).
Proof. exact pop_unique. Qed.
Print Assumptions C01_root_pop_unique.

(* in every reachable state the linked structure from the head (or from the holder of the mediator / the pusher whose head
   store is in flight) through do_next to the tail, with the links whose store is in flight, is the ghost list `chain`; the
   pushed-unclaimed items are `chain` minus the item held by the mediator holder *)
Theorem C01_root_list_integrity : forall oc p0 s, reach oc p0 s ->
  structure s (chain s) /\ map fst (hpush s) = map fst (hpop s) ++ unclaimed s /\
  (forall w, holder s = Some w -> exists h r, chain s = h :: r /\ unclaimed s = r) /\ (holder s = None -> unclaimed s = chain s).
Proof. exact list_integrity. Qed.
Print Assumptions C01_root_list_integrity.

(* ... and it is exactly that: any list that starts where the concrete state says the list starts (head, or the item of the
   mediator holder, or the item whose head store is in flight) and follows do_next / in-flight links to the tail without
   repetition is the ghost list *)
Theorem C01_root_list_exact : forall oc p0 s l, reach oc p0 s ->
  fits s l -> (match l with [] => True | c :: _ => starts_at s c end) -> l = chain s.
Proof. exact chain_determined. Qed.
Print Assumptions C01_root_list_exact.

(* the queue is FIFO (dequeues happen in tail-exchange order), hence FIFO per pusher *)
Theorem C01_root_fifo_per_pusher : forall oc p0 s p, reach oc p0 s ->
  exists claimed rest, hpush s = claimed ++ rest /\ map fst claimed = map fst (hpop s) /\
    filter (pushed_by p) (hpush s) = filter (pushed_by p) claimed ++ filter (pushed_by p) rest.
Proof. exact fifo_per_pusher. Qed.
Print Assumptions C01_root_fifo_per_pusher.

(* no lost wake-up: with a pushed-unclaimed item, (a/b) some thread is at a program point that carries the duty to look or
   to wake (RootQ_wake_proofs.tok), or (c) the pool semaphore holds a signal and a worker is at / on its way to the
   semaphore and will get it, or (d) signals are banked and every thread is outside the pool protocol: the pool threads
   are inside work items (then C01_root_monitor_grows_pool applies) *)
Theorem C01_root_no_lost_wakeup : forall oc p0 s, valid_init p0 -> reach oc p0 s -> unclaimed s <> [] ->
  (exists t, tok (pcs s t) = true) \/
  (1 <= surplus s /\ exists t, sem_taker s t) \/
  (1 <= sval s /\ exists t, to_sem (pcs s t) = true) \/
  (1 <= sval s /\ forall t, parked (pcs s t) = true).
Proof. exact no_lost_wakeup. Qed.
Print Assumptions C01_root_no_lost_wakeup.

(* the monitor: (1) a bucket whose queue is not empty and whose registered workers are all reported not runnable is poked
   with floor = target - WORKQ_MAX_TRACKED_TIDS; (2) from a reachable state with an unclaimed item where nothing of the pool
   protocol is in progress, that poke, run alone with any floor below the current pool size, creates a worker and lowers
   dgq_thread_pool_size by one; (3) the pool size never leaves [-2^29, initial size] (each poke keeps it >= its floor) *)
Theorem C01_root_monitor_grows_pool :
  (forall target soft pre rest g,
     nth_error (mon_pass target soft g (pre ++ (true, 0) :: rest)) (length pre) = Some (Some (target - WORKQ_MAX_TRACKED_TIDS))) /\
  (forall p0 s m f u, valid_init p0 -> reach false p0 s -> quiescent s -> unclaimed s <> [] -> sval s < RQ_LONG_MAX ->
     floor_ok f = true -> f < pool s -> pcs s u = PNone -> u <> m ->
     exists s', grun false s (mon_schedule s m f u) = Some s' /\ reach false p0 s' /\
       pcs s' u = PWStart /\ pool s' = pool s - 1 /\ pend s' = 1 /\ sval s' = sval s + 1 /\ unclaimed s' = unclaimed s) /\
  (forall oc p0 s, valid_init p0 -> reach oc p0 s ->
     0 <= pend s <= RQ_INT_MAX /\ - FLOOR_B <= pool s <= p0 /\ (forall t, pcs s t = PWStart -> 1 <= pend s)).
Proof. exact monitor_grows_pool. Qed.
Print Assumptions C01_root_monitor_grows_pool.

(* the wake-up that only the monitor repairs: a reachable state (pool of one thread) with an unclaimed item, room in the
   pool, nothing pending and no thread in the pool protocol *)
Theorem C01_root_stall_needs_monitor :
  reach false 1 stall_state /\ unclaimed stall_state = [32] /\ pool stall_state = 1 /\ pend stall_state = 0 /\
  sval stall_state = 2 /\ quiescent stall_state.
Proof. exact stall_reachable. Qed.
Print Assumptions C01_root_stall_needs_monitor.

(* the thread automaton used for trace conformance is the thread component of the global model; its visible-event closure
   adds at most one hidden step; every atomic event it accepts is a site of the program point, and the program points'
   sites are the site lists read from the source *)
Theorem C01_root_thread_automaton :
  (forall oc s t e s', gstep oc s t e = Some s' -> tstep oc (pcs s t) e = Some (pcs s' t)) /\
  (forall oc p e p', tstep_vis oc p e = Some p' ->
     tstep oc p e = Some p' \/ exists h p1, hidden_ev h = true /\ tstep oc p h = Some p1 /\ tstep oc p1 e = Some p') /\
  (forall oc p e p', tstep oc p e = Some p' -> is_atomic_ev e = true -> existsb (site_ok e) (pc_sites oc p) = true) /\
  model_sites_push = f_dispatch_root_queue_push_inline_sites /\ model_sites_poke = f_dispatch_root_queue_poke_sites /\
  model_sites_poke_slow = f_dispatch_root_queue_poke_slow_sites /\
  model_sites_mediator_is_gone = f_dispatch_root_queue_mediator_is_gone_sites /\
  model_sites_quiesced = f_dispatch_root_queue_head_tail_quiesced_sites /\
  skipn 2 f__DISPATCH_ROOT_QUEUE_CONTENDED_WAIT___sites = model_sites_cwait_pending /\
  model_sites_drain_one = f_dispatch_root_queue_drain_one_sites /\
  model_sites_wait_for_enqueuer = f_dispatch_wait_for_enqueuer_sites /\
  model_sites_worker = f_dispatch_worker_thread_sites /\
  model_sites_sem_signal = dispatch_semaphore_signal_sites /\ model_sites_sem_wait = dispatch_semaphore_wait_sites.
Proof. exact thread_automaton. Qed.
Print Assumptions C01_root_thread_automaton.

(* non-vacuity: the hypotheses of C01_root_no_lost_wakeup and of C01_root_monitor_grows_pool (2) hold in stall_state
   (reached by RootQ.stall_schedule: two pushes, a worker that ran an item, slept, timed out and exited) *)
Example C01_root_nonvacuous :
  valid_init 1 /\ reach false 1 stall_state /\ unclaimed stall_state <> [] /\ quiescent stall_state /\
  sval stall_state < RQ_LONG_MAX /\ floor_ok (1 - WORKQ_MAX_TRACKED_TIDS) = true /\ 1 - WORKQ_MAX_TRACKED_TIDS < pool stall_state /\
  pcs stall_state 4 = PNone /\ hpop stall_state = [(16, 2)] /\ map fst (hpush stall_state) = [16; 32].
Proof. exact nonvacuous. Qed.
