(* Properties_C01_root.v — C01, root (global) queue and thread pool part (model: Model/RootQ.v).
   Runtime hypotheses (trusted base, never axioms): they appear as premises / as the existence of the schedule:
   - an object is pushed only while it is not enqueued (enabling condition of the first step of a push in RootQ.effect);
   - pthread_create eventually succeeds (the DVX_CREATE step of the model is enabled whenever a free thread id exists);
   - the monitor timer fires (C01_root_monitor_grows_pool talks about one pass: the schedule RootQ.mon_schedule);
   - /proc reports a thread blocked in a system call as not runnable (the bucket (true, 0) of RootQ.mon_pass);
   - the counters do not reach the limit of their C type (fewer than 2^63 signals banked in the pool semaphore, fewer than
     2^31 pending requests): this is NOT proved; the model has no successor at these limits (guards in RootQ.effect), and the
     theorems that need a successor carry the premise explicitly (`bounded` in C01_root_progress, sval s < RQ_LONG_MAX in
     C01_root_monitor_grows_pool / C01_root_monitor_repairs);
   - the floors passed to a poke are in [-2^29, 0] (RootQ.floor_ok: 0 from the queue code; target - 255 and
     max(-target, target - 255) from the monitor, not positive as the pool size is at most 255). *)
From Coq Require Import ZArith Bool List.
From Verif Require Import Word Conc Gen_consts Gen_rootq RootQ RootQ_proofs RootQ_pool_proofs RootQ_wake_proofs RootQ_live_proofs.
Import ListNotations.
Local Open Scope Z_scope.

(* every dequeue (an exchange on dq_items_head that returned an object) is the dequeue of the push at the same position of
   the push history: no double dequeue, no invented item; the histories record exactly those events *)
Theorem C01_root_pop_unique : forall oc p0 s, reach oc p0 s ->
  (exists claimed rest, hpush s = claimed ++ rest /\ map fst claimed = map fst (hpop s) /\ map fst rest = unclaimed s) /\
  (forall k x w, nth_error (hpop s) k = Some (x, w) -> exists p, nth_error (hpush s) k = Some (x, p)) /\
  (forall t e s', gstep oc s t e = Some s' ->
     (hpush s' = hpush s \/ (exists c x, pcs s t = PPushXchg c x /\ hpush s' = hpush s ++ [(x, t)])) /\
     (hpop s' = hpop s \/ (pcs s t = PDrainXchg /\ is_item (ea e) = true /\ ea e = head s /\ hpop s' = hpop s ++ [(ea e, t)])) /\
     (runs s' = runs s \/ (exists h, pcs s t = PGot h /\ runs s' = runs s ++ [(h, t)]))).
Proof. exact pop_unique. Qed.
Print Assumptions C01_root_pop_unique.

(* in every reachable state the linked structure from the head (or from the holder of the mediator / the pusher whose head
   store is in flight) through do_next to the tail, with the links whose store is in flight, is the ghost list `chain`; the
   pushed-unclaimed items are `chain` minus the item held by the mediator holder *)
Theorem C01_root_list_integrity : forall oc p0 s, reach oc p0 s ->
  structure s (chain s) /\ map fst (hpush s) = map fst (hpop s) ++ unclaimed s /\
  (forall w, holder s = Some w -> exists h r, chain s = h :: r /\ unclaimed s = r) /\ (holder s = None -> unclaimed s = chain s).
Proof. exact list_integrity. Qed.
Print Assumptions C01_root_list_integrity.

(* ... and it is exactly that: any list that starts where the concrete state says the list starts (head, or the item of the
   mediator holder, or the item whose head store is in flight) and follows do_next / in-flight links to the tail without
   repetition is the ghost list *)
Theorem C01_root_list_exact : forall oc p0 s l, reach oc p0 s ->
  fits s l -> (match l with [] => True | c :: _ => starts_at s c end) -> l = chain s.
Proof. exact chain_determined. Qed.
Print Assumptions C01_root_list_exact.

(* the queue is FIFO (dequeues happen in tail-exchange order), hence FIFO per pusher *)
Theorem C01_root_fifo_per_pusher : forall oc p0 s p, reach oc p0 s ->
  exists claimed rest, hpush s = claimed ++ rest /\ map fst claimed = map fst (hpop s) /\
    filter (pushed_by p) (hpush s) = filter (pushed_by p) claimed ++ filter (pushed_by p) rest.
Proof. exact fifo_per_pusher. Qed.
Print Assumptions C01_root_fifo_per_pusher.

(* the exact case split for a state with a pushed-unclaimed item (this replaces the former C01_root_no_lost_wakeup, whose
   last alternative also held in the lost-wake-up state).  Either a NAMED thread carries the duty:
   (1) a thread at a program point that obliges it to look at the list or to wake a worker (RootQ_wake_proofs.tok);
   (2) more signals than receivers are pending in the kernel semaphore / in flight and a thread is at the semaphore;
   (3) a signal is banked in dsema_value and a worker is on its way to the semaphore (it will take it);
   (4) a thread is in the rest of a push / of a poke, or just before invoking an item (it has an enabled step:
       C01_root_progress; the split applies again to the state it leaves);
   or nobody is in the pool protocol and the state has one of exactly two shapes:
   (5) STALL: the pool has a free slot, nothing is pending, the signals are banked (this IS the lost wake-up:
       C01_root_stall_needs_monitor; only not-overcommit queues: C01_root_overcommit_no_stall);
   (6) ALL-BUSY: every slot of the pool is a thread inside a work item.
   In (5) and (6) no thread of the pool protocol is responsible for the item: it is picked up when an item that is running
   returns (its worker looks again), or by the monitor: C01_root_monitor_repairs shows that a repairing schedule of the
   monitor EXISTS from such a state.  Note on (4): a pusher that has just entered (PPushCall / PPushXchg) satisfies it too;
   when it finishes, the split applies again to the state it leaves (which may again be (5)). *)
Theorem C01_root_unclaimed_item_cases : forall oc p0 s, valid_init p0 -> reach oc p0 s -> unclaimed s <> [] ->
  (exists t, tok (pcs s t) = true) \/
  (1 <= surplus s /\ exists t, sem_taker s t) \/
  (1 <= sval s /\ exists t, to_sem (pcs s t) = true) \/
  (exists t, finishing (pcs s t) = true) \/
  (oc = false /\ quiescent s /\ 1 <= pool s /\ pend s = 0 /\ ksem s = 0 /\ 1 <= sval s /\ pool0 s - pool s = cnt in_item s) \/
  (quiescent s /\ pool s <= 0 /\ pend s = 0 /\ ksem s = 0 /\ 1 <= sval s /\ pool0 s - pool s = cnt in_item s).
Proof. exact unclaimed_item_cases. Qed.
Print Assumptions C01_root_unclaimed_item_cases.

(* overcommit root queues (dgq_pending is incremented unconditionally, no cmpxchg that can be refused): with an unclaimed
   item and a free pool slot some thread is active in the pool protocol (duty to look / poke past its signal / worker at
   the semaphore): the STALL shape is unreachable.  The ALL-BUSY shape (255 threads, all inside items) has no rescue on
   an overcommit queue other than an item returning. *)
Theorem C01_root_overcommit_no_stall : forall p0 s, valid_init p0 -> reach true p0 s -> unclaimed s <> [] -> 1 <= pool s ->
  exists t, act (pcs s t) = true.
Proof. exact overcommit_active. Qed.
Print Assumptions C01_root_overcommit_no_stall.

(* EXISTENCE of a repairing schedule (not a statement about every schedule, and `runnable` is a free oracle standing for what
   /proc reports): the repair of STALL and ALL-BUSY by ONE pass of the monitor run alone, linked to the state: b is the bucket the pass computes from
   s (probe of dq_items_tail, registered workers that /proc reports runnable), d its decision for that bucket.
   (a) d is `decision` of b (RootQ_live_proofs): poke with floor target - 255 if no worker is runnable, with floor
       max(-target, target - 255) if fewer than target are and the global count is below 2 * target, else nothing
       (the machine is saturated: the item waits for a running item to return);
   (b) all registered workers blocked: poke with the hard floor;
   (c) if the floor of the decided poke is below the pool size, the poke (run alone, pthread_create succeeding) creates
       worker u and u's first look CLAIMS the oldest unclaimed item;
   (d) the floor is below the pool size always in STALL, and for the hard floor whenever fewer than 255 pool threads exist *)
Theorem C01_root_monitor_repairs : forall p0 s m u runnable pre rest g,
  valid_init p0 -> reach false p0 s -> quiescent s -> unclaimed s <> [] -> sval s < RQ_LONG_MAX -> pcs s u = PNone -> u <> m ->
  let b := bucket_of runnable s in
  let d := nth_error (mon_pass p0 (WORKQ_OVERSUBSCRIBE_FACTOR * p0) g (pre ++ b :: rest)) (length pre) in
  (fst b = true /\ exists g', d = Some (decision p0 (WORKQ_OVERSUBSCRIBE_FACTOR * p0) g' b)) /\
  ((forall t, In t (registered_workers s) -> runnable t = false) -> d = Some (Some (p0 - WORKQ_MAX_TRACKED_TIDS))) /\
  (forall f, d = Some (Some f) -> f < pool s ->
     exists s', grun false s (mon_schedule s m f u ++ claim_schedule u (hd 0 (unclaimed s))) = Some s' /\ reach false p0 s' /\
       hpop s' = hpop s ++ [(hd 0 (unclaimed s), u)] /\ unclaimed s' = tl (unclaimed s) /\ pool s' = pool s - 1 /\ pend s' = 0) /\
  (forall f, d = Some (Some f) -> 1 <= pool s -> f < pool s) /\
  (p0 - pool s < WORKQ_MAX_TRACKED_TIDS -> p0 - WORKQ_MAX_TRACKED_TIDS < pool s).
Proof. exact monitor_repairs. Qed.
Print Assumptions C01_root_monitor_repairs.

(* progress: in a reachable state whose counters are not at the limits (bounded), every thread inside the queue code has an
   enabled step, except a caller of push that owns no free object (client obligation) and a worker blocked in sem_wait
   with no signal in the kernel semaphore (parked: cases (2)-(6) above say who will signal) *)
Theorem C01_root_progress : forall oc p0 s t, valid_init p0 -> reach oc p0 s -> bounded s ->
  match pcs s t with
  | PNone | PClient _ => True
  | PPushCall _ => has_free_item s -> enabled oc s t
  | PSemBlocked => 0 < ksem s -> enabled oc s t
  | _ => enabled oc s t
  end.
Proof. exact progress. Qed.
Print Assumptions C01_root_progress.

(* the two spin waits (self-loops of the model) depend on a named thread that exists and can step:
   - (1) _dispatch_wait_for_enqueuer(&head->do_next) while the link is 0: the pusher u at its link store; its step stores the
     link, i.e. ENDS the wait;
   - (2) __DISPATCH_ROOT_QUEUE_CONTENDED_WAIT__ while dq_items_head = MEDIATOR: a worker at its cmpxchg MEDIATOR -> NULL, or the
     holder of the claimed item somewhere before its store to dq_items_head.  (2) names the thread and says it can step; it
     does NOT say that this one step replaces the marker: the holder may first have to read do_next, or itself be in wait (1) *)
Theorem C01_root_spin_waits :
  (forall oc p0 s t h f, valid_init p0 -> reach oc p0 s -> pcs s t = PDrainWaitNext h f -> nxt s h = 0 ->
     exists u c b, u <> t /\ pcs s u = PPushLink c b h /\ enabled oc s u /\
       forall e s', gstep oc s u e = Some s' -> nxt s' h = b /\ b <> 0 /\ pcs s' t = PDrainWaitNext h f) /\
  (forall oc p0 s, valid_init p0 -> reach oc p0 s -> bounded s -> head s = MED ->
     exists u, enabled oc s u /\ (pcs s u = PDrainCasNull \/ (holder s = Some u /\ is_castail (pcs s u) = false))).
Proof. exact spin_waits. Qed.
Print Assumptions C01_root_spin_waits.

(* the monitor: (1) a bucket whose queue is not empty and whose registered workers are all reported not runnable is poked
   with floor = target - WORKQ_MAX_TRACKED_TIDS; (2) from a reachable state with an unclaimed item where nothing of the pool
   protocol is in progress, that poke, run alone with any floor below the current pool size, creates a worker and lowers
   dgq_thread_pool_size by one; (3) the pool size never leaves [-2^29, initial size] (each poke keeps it >= its floor) *)
Theorem C01_root_monitor_grows_pool :
  (forall target soft pre rest g,
     nth_error (mon_pass target soft g (pre ++ (true, 0) :: rest)) (length pre) = Some (Some (target - WORKQ_MAX_TRACKED_TIDS))) /\
  (forall p0 s m f u, valid_init p0 -> reach false p0 s -> quiescent s -> unclaimed s <> [] -> sval s < RQ_LONG_MAX ->
     floor_ok f = true -> f < pool s -> pcs s u = PNone -> u <> m ->
     exists s', grun false s (mon_schedule s m f u) = Some s' /\ reach false p0 s' /\
       pcs s' u = PWStart /\ pool s' = pool s - 1 /\ pend s' = 1 /\ sval s' = sval s + 1 /\ unclaimed s' = unclaimed s) /\
  (forall oc p0 s, valid_init p0 -> reach oc p0 s ->
     0 <= pend s <= RQ_INT_MAX /\ - FLOOR_B <= pool s <= p0 /\ (forall t, pcs s t = PWStart -> 1 <= pend s)).
Proof. exact monitor_grows_pool. Qed.
Print Assumptions C01_root_monitor_grows_pool.

(* the wake-up that only the monitor repairs: a reachable state (pool of one thread) with an unclaimed item, room in the
   pool, nothing pending and no thread in the pool protocol *)
Theorem C01_root_stall_needs_monitor :
  reach false 1 stall_state /\ unclaimed stall_state = [32] /\ pool stall_state = 1 /\ pend stall_state = 0 /\
  sval stall_state = 2 /\ quiescent stall_state.
Proof. exact stall_reachable. Qed.
Print Assumptions C01_root_stall_needs_monitor.

(* the thread automaton used for trace conformance is the thread component of the global model; its visible-event closure
   adds at most one hidden step; every atomic event it accepts is a site of the program point, and the program points'
   sites are the site lists read from the source *)
Theorem C01_root_thread_automaton :
  (forall oc s t e s', gstep oc s t e = Some s' -> tstep oc (pcs s t) e = Some (pcs s' t)) /\
  (forall oc p e p', tstep_vis oc p e = Some p' ->
     tstep oc p e = Some p' \/ exists h p1, hidden_ev h = true /\ tstep oc p h = Some p1 /\ tstep oc p1 e = Some p') /\
  (forall oc p e p', tstep oc p e = Some p' -> is_atomic_ev e = true -> existsb (site_ok e) (pc_sites oc p) = true) /\
  model_sites_push = f_dispatch_root_queue_push_inline_sites /\ model_sites_poke = f_dispatch_root_queue_poke_sites /\
  model_sites_poke_slow = f_dispatch_root_queue_poke_slow_sites /\
  model_sites_mediator_is_gone = f_dispatch_root_queue_mediator_is_gone_sites /\
  model_sites_quiesced = f_dispatch_root_queue_head_tail_quiesced_sites /\
  skipn 2 f__DISPATCH_ROOT_QUEUE_CONTENDED_WAIT___sites = model_sites_cwait_pending /\
  model_sites_drain_one = f_dispatch_root_queue_drain_one_sites /\
  model_sites_wait_for_enqueuer = f_dispatch_wait_for_enqueuer_sites /\
  model_sites_worker = f_dispatch_worker_thread_sites /\
  model_sites_sem_signal = dispatch_semaphore_signal_sites /\ model_sites_sem_wait = dispatch_semaphore_wait_sites.
Proof. exact thread_automaton. Qed.
Print Assumptions C01_root_thread_automaton.

(* non-vacuity: the hypotheses of C01_root_unclaimed_item_cases, C01_root_monitor_repairs (with an empty set of registered
   workers), C01_root_monitor_grows_pool (2) and C01_root_progress hold in stall_state (reached by RootQ.stall_schedule: two
   pushes, a worker that ran an item, slept, timed out and exited): the STALL shape *)
Example C01_root_nonvacuous :
  valid_init 1 /\ reach false 1 stall_state /\ unclaimed stall_state <> [] /\ quiescent stall_state /\
  sval stall_state < RQ_LONG_MAX /\ bounded stall_state /\ pcs stall_state 4 = PNone /\
  registered_workers stall_state = [] /\ 1 <= pool stall_state /\ pool0 stall_state - pool stall_state = 0 /\
  hpop stall_state = [(16, 2)] /\ map fst (hpush stall_state) = [16; 32].
Proof. exact nonvacuous_live. Qed.
