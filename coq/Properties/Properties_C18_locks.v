(* C18 — the drain-lock disjunct of dispatch_assert_queue (audit F17).
   dispatch_assert_queue(q) passes when q's dq_state names the calling thread as drain owner OR the frame iterator finds q
   (Properties_C18.v: C18_assert_queue_exact, where the lock word and the thread id are free).  Here the lock word is tied down.
   (a) Under `lock_discipline` (every queue drain-locked by the executing thread is one the iterator finds) dispatch_assert_queue
       accepts EXACTLY what find_queue finds, and inside an item exactly the chain of the queue submitted to plus the submitting
       context.  The discipline is an explicit hypothesis here.
   (b) For hierarchies of SERIAL lanes under dispatch_async (any forest, any number of threads and workers, every interleaving)
       the discipline is proved from the protocol model Model/HLane.v (C03: C03_hlane_invariant / C03_hlane_stack_discipline;
       every dq_state transition there is the body regenerated from the source): a thread's tid is the owner field of a lane's word
       EXACTLY when the lane is one of the thread's drain frames past drain_try_lock, those frames form a path of the forest from the
       lane whose item is running down to the bottom, hence dispatch_assert_queue — with the lock words OF THE REACHABLE STATE and
       the executing thread's own tid — accepts exactly the queues of that chain and dispatch_assert_queue_not exactly the others.
   NOT proved (hypothesis (a) only, observed by the correspondence flag "drain locks within chain / context" on every probe):
   the discipline for dispatch_sync / async_and_wait hand-offs, concurrent queues and redirection, dispatch_apply, thread-bound
   queues.  `agrees F g` relates the forest of HLane.v to the queue graph of Frames.v (same target edges, 0 = NULL). *)
From Coq Require Import ZArith Bool List.
From Verif Require HLane HLane_inv HLane_proofs.
From Verif Require Import Word Gen_dqstate Frames Frames_proofs Frames_locks.
Import ListNotations.
Local Open Scope Z_scope.

Theorem C18_assert_queue_exact_disciplined : forall g mem tid th q r,
  lock_discipline g mem tid th -> lookup g q = Some r -> valid_assert_type r = true ->
  (assert_queue g (mem q) tid th q = APass <-> find_queue g th q = true) /\
  (assert_queue_not g (mem q) tid th q = APass <-> find_queue g th q = false).
Proof. exact assert_queue_exact_disciplined. Qed.
Print Assumptions C18_assert_queue_exact_disciplined.

(* PARTIAL as the other item-level theorems: frames_of_path is hand-written *)
Theorem C18_item_assert_queue_disciplined_partial : forall g p mem tid q r,
  wf_graph g = true -> path_top p <> 0 -> lock_discipline g mem tid (frames_of_path g p) ->
  lookup g q = Some r -> valid_assert_type r = true ->
  (assert_queue g (mem q) tid (frames_of_path g p) q = APass <->
     on_chain g (path_top p) q \/ match path_ctx p with Some c => find_queue g c q = true | None => False end) /\
  (assert_queue_not g (mem q) tid (frames_of_path g p) q = APass <->
     ~ (on_chain g (path_top p) q \/ match path_ctx p with Some c => find_queue g c q = true | None => False end)).
Proof. exact item_assert_queue_disciplined. Qed.
Print Assumptions C18_item_assert_queue_disciplined_partial.

(* a thread holds the drain lock exactly of the lanes of its drain frames past drain_try_lock ... *)
Theorem C18_serial_lock_iff_on_stack : forall F s t l, HLane.forest_ok F -> HLane.reach F s -> HLane.valid_tid t ->
  (locked_by_self (HLane.st s l) t = true <->
   exists p, In (l, p) (HLane_proofs.dframes (HLane.stk s t)) /\ HLane_inv.locked_pc p = true).
Proof. exact hlane_locked_iff_on_stack. Qed.
Print Assumptions C18_serial_lock_iff_on_stack.

(* ... which lie on the target chain of the lane whose item is running: the discipline holds in every reachable state *)
Theorem C18_serial_lock_discipline : forall F g s t c rest th,
  HLane.forest_ok F -> HLane.reach F s -> HLane.valid_tid t -> agrees F g -> wf_graph g = true ->
  map fst (HLane_proofs.dframes (HLane.stk s t)) = c :: rest -> c <> 0 -> t_cq th = c ->
  lock_discipline g (HLane.st s) t th.
Proof. exact hlane_lock_discipline. Qed.
Print Assumptions C18_serial_lock_discipline.

(* no free word: lock words = those of the reachable protocol state, tid = the executing thread, any frames left out *)
Theorem C18_assert_queue_exact_serial_async : forall F g s t c rest sk q r,
  HLane.forest_ok F -> HLane.reach F s -> HLane.valid_tid t -> agrees F g -> wf_graph g = true ->
  map fst (HLane_proofs.dframes (HLane.stk s t)) = c :: rest -> c <> 0 ->
  lookup g q = Some r -> valid_assert_type r = true ->
  (assert_queue g (HLane.st s q) t (frames_of_path g (PAsync c sk)) q = APass <-> on_chain g c q) /\
  (assert_queue_not g (HLane.st s q) t (frames_of_path g (PAsync c sk)) q = APass <-> ~ on_chain g c q).
Proof. exact assert_queue_exact_serial_async. Qed.
Print Assumptions C18_assert_queue_exact_serial_async.

(* non-vacuity: a reachable state of the protocol model (23 atomic steps: an item submitted to lane 11 -> 10 -> root, a worker
   that popped the bottom, nested invoke) in which thread 8 is inside the callout; it holds the locks of 11 and 10 and of
   nothing else; dispatch_assert_queue passes for 11, 10 and the root queue and fails for the sibling 12 and the unrelated 13 *)
Theorem C18_locks_nonvacuous :
  HLane.forest_ok F3 /\ agrees F3 g3 /\ wf_graph g3 = true /\
  exists s, HLane.reach F3 s /\ facts3 s = ([11; 10], (true, true, false, false)) /\
    asserts3 s = ([APass; APass; APass; AFail; AFail], [AFail; AFail; AFail; APass; APass]).
Proof. exact locks_nonvacuous. Qed.
Print Assumptions C18_locks_nonvacuous.
