(* C15 — sources coalesce without loss and never re-enter their handler.
   Model: Model/SrcData.v — dispatch_source_merge_data, the data clause of _dispatch_source_wakeup / _dispatch_source_invoke2
   and _dispatch_source_latch_and_call for DATA_ADD / DATA_OR / DATA_REPLACE sources (src/source.c, src/event/event.c:224-258),
   as a thread automaton + global model; the atomic-site lists, flag/dq_state constants and the rmw body of
   _dispatch_queue_wakeup are generated from the source (Gen_srcdata, Gen_dqstate).
   Every statement is about every reachable state: any number of threads calling merge_data with any values, any
   interleaving with the drain side (latch, handler), suspension, resumption and cancellation at any time, spurious
   weak-CAS failures of the wakeup included.  ghost state: merged = values applied to ds_pending_data (latest first),
   delivered = ds_data of the handler invocations (latest first), latched = value taken by the exchange whose handler call
   has not begun, dropped = values refused because the cancel flag was seen (source.c:205). *)
From Coq Require Import ZArith Bool List.
From Verif Require Import Word Conc Gen_consts Gen_fields Gen_dqstate Gen_srcdata SrcData SrcData_proofs.
Import ListNotations.
Local Open Scope Z_scope.

(* DATA_ADD: at every state  sum(delivered) + latched + pending = sum(merged)  (mod 2^64); hence at rest with nothing
   pending the delivered values sum to the merged values; on an uncancelled source every value passed was merged *)
Theorem C15_add_conservation : forall c s, reach c s -> ck c = KindAdd ->
  (zsum (delivered s) + latched s + pend s) mod 2 ^ 64 = zsum (merged s) mod 2 ^ 64 /\
  (quiescent s -> pend s = 0 -> zsum (delivered s) mod 2 ^ 64 = zsum (merged s) mod 2 ^ 64) /\
  (cancelled s = false -> dropped s = []).
Proof. exact add_conservation. Qed.
Print Assumptions C15_add_conservation.

(* DATA_OR: the same with bitwise or *)
Theorem C15_or_union : forall c s, reach c s -> ck c = KindOr ->
  Z.lor (zlor (delivered s)) (Z.lor (latched s) (pend s)) = zlor (merged s) /\
  (quiescent s -> pend s = 0 -> zlor (delivered s) = zlor (merged s)) /\
  (cancelled s = false -> dropped s = []).
Proof. exact or_union. Qed.
Print Assumptions C15_or_union.

(* DATA_REPLACE: every delivered (and latched, and pending) value was merged; if the latest merge is non-zero and its
   value is neither pending nor latched any more, it is the latest value delivered — in particular at rest *)
Theorem C15_replace : forall c s, reach c s -> ck c = KindReplace ->
  Forall (fun d => In d (merged s)) (delivered s) /\
  (latched s = 0 \/ In (latched s) (merged s)) /\ (pend s = 0 \/ In (pend s) (merged s)) /\
  (forall v l, merged s = v :: l -> v <> 0 -> pend s = 0 -> latched s = 0 -> exists d, delivered s = v :: d) /\
  (forall v l, quiescent s -> merged s = v :: l -> v <> 0 -> pend s = 0 -> exists d, delivered s = v :: d) /\
  (cancelled s = false -> dropped s = []).
Proof. exact replace_spec. Qed.
Print Assumptions C15_replace.

(* no handler invocation reports zero (any kind); the handler-begin step reports exactly the latched value *)
Theorem C15_never_zero : forall c s, reach c s ->
  Forall (fun d => d <> 0) (delivered s) /\ (forall t prev, pcs s t = PCall prev -> prev <> 0 /\ latched s = prev).
Proof. exact never_zero. Qed.
Print Assumptions C15_never_zero.
Theorem C15_handler_data_is_latched_value : forall c s t e s',
  reach c s -> gstep c s t e = Some s' -> ev_kind e DVU_CALLOUT_BEGIN = true ->
  ea e <> 0 /\ delivered s' = ea e :: delivered s.
Proof. exact callout_reports_latched. Qed.
Print Assumptions C15_handler_data_is_latched_value.

(* merges made while the source is suspended or its handler is running are delivered afterwards.
   FULL STATEMENT: in every fair run, data merged on an uncancelled source is eventually passed to the handler.
   PROVED (liveness as invariants of the model): (1) whenever data is pending on an uncancelled source, the source is
   enqueued-or-dirty (rq), or a merging thread is between its atomic operation and the commit of its wakeup (which sets
   DISPATCH_QUEUE_DIRTY: C15_wakeup_commits_dirty), or the holder of the drain lock stands before a re-examination of
   ds_pending_data / before re-enqueueing; in particular (2) at rest — no thread inside merge_data, nobody draining — pending
   data implies rq, whatever the suspend count; (3) from such a state, once unsuspended, a drain pass is enabled and calls
   the handler with exactly the pending value.
   MISSING (the lane's half, C01/C02/C06): that a source whose dq_state is ENQUEUED is eventually invoked by its target
   queue, and that DIRTY without ENQUEUED persists only under a drain-lock holder (whose unlock is refused) or under a
   suspension (whose final resume re-runs _dispatch_source_wakeup).  rq merges the two bits; that link is exercised by
   the stress oracle (stuck detector), not proved. *)
Theorem C15_merge_while_busy_delivered_partial : forall c s, reach c s -> quiescent s -> pend s <> 0 -> cancelled s = false ->
  rq s = true /\ owner s = None.
Proof. exact pending_is_runnable. Qed.
Print Assumptions C15_merge_while_busy_delivered_partial.
Theorem C15_pending_always_has_waker : forall c s, reach c s -> pend s <> 0 -> cancelled s = false ->
  rq s = true \/ (exists u, waking (pcs s u) = true) \/ (exists o, owner s = Some o /\ recheck (pcs s o) = true).
Proof. exact pending_has_waker. Qed.
Print Assumptions C15_pending_always_has_waker.
Theorem C15_drain_pass_delivers : forall c s t v,
  pcs s t = PIdle -> owner s = None -> susp s = 0 -> pend s = v -> v <> 0 ->
  exists s', grun c s (map (fun e => (t, e)) (drain_pass v)) = Some s' /\
             delivered s' = v :: delivered s /\ pend s' = 0 /\ pcs s' t = PInCall.
Proof. exact drain_delivers. Qed.
Print Assumptions C15_drain_pass_delivers.
Theorem C15_wakeup_commits_dirty : forall q old, exists new, wake_body q old = Commit new 0 /\ word_dirty new = true.
Proof. exact wake_body_dirty. Qed.
Print Assumptions C15_wakeup_commits_dirty.

(* the event handler is never running on two threads at once, whatever the target queue.
   FULL STATEMENT: for the real lane.  PROVED: in the model the exchange on ds_pending_data, the handler call and
   everything between them are performed only by the thread recorded as holder of the source's drain lock (ghost
   `owner`, acquired only when free), so at most one thread is inside the handler.  MISSING: that the drain lock of the
   real dq_state word excludes (C02_exclusion for the source, a serial lane: the handler is called only from
   _dispatch_source_invoke2 under _dispatch_queue_class_invoke's _dispatch_queue_drain_try_lock, inline_internal.h:1799);
   validated on every recorded run (each thread's exchange / handler marks lie between its own lock and unlock writes of
   dq_state; in-handler flag; handler stamp intervals), not proved here. *)
Theorem C15_handler_exclusive_partial : forall c s, reach c s ->
  (forall t u, pcs s t = PInCall -> pcs s u = PInCall -> t = u) /\ 0 <= running s <= 1 /\
  (forall t, drain_pc (pcs s t) = true -> owner s = Some t).
Proof. exact handler_exclusive. Qed.
Print Assumptions C15_handler_exclusive_partial.

(* ties *)
Theorem C15_sites_match_source :
  model_sites_merge_data = dispatch_source_merge_data_sites /\
  model_sites_latch_and_call = f_dispatch_source_latch_and_call_sites /\
  model_sites_get_data = dispatch_source_get_data_sites /\ wakeup_loop_order = Release.
Proof. repeat split. Qed.
Print Assumptions C15_sites_match_source.
Theorem C15_model_uses_thread_automaton : forall c s t e s',
  gstep c s t e = Some s' -> tstep c (pcs s t) e = Some (pcs s' t).
Proof. exact gstep_tstep. Qed.
Print Assumptions C15_model_uses_thread_automaton.

(* non-vacuity: thread 7 merges 5 into an idle ADD source (its wakeup enqueues it); thread 9 drains: latches 5 and enters
   the handler; meanwhile thread 8 merges 3 (its wakeup finds the drain lock held and only sets DIRTY); the handler
   returns, the drainer sees pending data and re-enqueues; a second pass delivers 3 and unlocks cleanly.  The dq_state
   words are those of a recorded run. *)
Definition demo_schedule : list (Z * event) :=
  [ (7, ev0 DVU_CALL 0 0 5 0 1); (7, ev0 DV_LOAD 0 OFF_FLAGS 4194305 4194305 1); (7, ev0 DV_ADD 0 OFF_PEND 0 5 1);
    (7, ev0 DV_LOAD 0 OFF_FLAGS 4194305 4194305 1); (7, ev0 DV_LOAD 0 OFF_PEND 5 5 1);
    (7, ev0 DV_LOAD 0 OFF_STATE 9005000231485440 9005000231485440 1);
    (7, ev0 DV_CASW 3 OFF_STATE 9005000231485440 9005552134782976 1); (7, ev0 DVU_RET 0 0 0 0 1);
    (9, ev0 DVX_LOCK 0 0 0 0 1); (9, ev0 DV_LOAD 0 OFF_PEND 5 5 1); (9, ev0 DV_XCHG 0 OFF_PEND 5 0 1);
    (9, ev0 DVU_CALLOUT_BEGIN 0 0 5 0 1);
    (8, ev0 DVU_CALL 0 0 3 0 1); (8, ev0 DV_LOAD 0 OFF_FLAGS 4194305 4194305 1); (8, ev0 DV_ADD 0 OFF_PEND 0 3 1);
    (8, ev0 DV_LOAD 0 OFF_FLAGS 4194305 4194305 1); (8, ev0 DV_LOAD 0 OFF_PEND 3 3 1);
    (8, ev0 DV_LOAD 0 OFF_STATE 27021599911728437 27021599911728437 1);
    (8, ev0 DV_CASW 3 OFF_STATE 27021599911728437 27022149667542325 1); (8, ev0 DVU_RET 0 0 0 0 1);
    (9, ev0 DVU_CALLOUT_END 0 0 5 0 1); (9, ev0 DV_LOAD 0 OFF_PEND 3 3 1); (9, ev0 DVX_UNLOCK 0 0 1 0 1);
    (9, ev0 DVX_LOCK 0 0 0 0 1); (9, ev0 DV_LOAD 0 OFF_PEND 3 3 1); (9, ev0 DV_XCHG 0 OFF_PEND 3 0 1);
    (9, ev0 DVU_CALLOUT_BEGIN 0 0 3 0 1); (9, ev0 DVU_CALLOUT_END 0 0 3 0 1); (9, ev0 DV_LOAD 0 OFF_PEND 0 0 1);
    (9, ev0 DVX_UNLOCK 0 0 0 0 1) ].
Example C15_nonvacuous :
  match grun (mkCfg KindAdd) init_state (firstn 20 demo_schedule) with
  | Some s => pcs s 9 = PInCall /\ pend s = 3 /\ rq s = true /\ delivered s = [5] /\ merged s = [3; 5] /\ owner s = Some 9
  | None => False end /\
  match grun (mkCfg KindAdd) init_state demo_schedule with
  | Some s => delivered s = [3; 5] /\ merged s = [3; 5] /\ pend s = 0 /\ owner s = None /\ rq s = false /\
              pcs s 7 = PIdle /\ pcs s 8 = PIdle /\ pcs s 9 = PIdle
  | None => False end.
Proof. vm_compute. repeat split. Qed.
