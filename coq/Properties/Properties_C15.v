(* C15 — sources coalesce without loss and never re-enter their handler.
   Model: Model/SrcData.v — dispatch_source_merge_data, the data clause of _dispatch_source_wakeup / _dispatch_source_invoke2
   and _dispatch_source_latch_and_call for DATA_ADD / DATA_OR / DATA_REPLACE sources (src/source.c, src/event/event.c:224-258),
   as a thread automaton + global model; the atomic-site lists, flag/dq_state constants and the rmw body of
   _dispatch_queue_wakeup are generated from the source (Gen_srcdata, Gen_dqstate).
   Every statement is about every reachable state: any number of threads calling merge_data with any values, any
   interleaving with the drain side (latch, handler), suspension, resumption and cancellation at any time, spurious
   weak-CAS failures of the wakeup included.  ghost state: merged = values applied to ds_pending_data (latest first),
   delivered = ds_data of the handler invocations (latest first), latched = value taken by the exchange whose handler call
   has not begun, dropped = values refused because the cancel flag was seen (source.c:205). *)
From Coq Require Import ZArith Bool List.
From Verif Require Import Word Conc Gen_consts Gen_fields Gen_dqstate Gen_srcdata DqFields SrcData SrcData_proofs.
From Verif Require SrcLane SrcLane_proofs SrcLane_measure SrcLaneR SrcLaneR_proofs.
Import ListNotations.
Local Open Scope Z_scope.

(* Two models.  (A) Model/SrcData.v: event-driven, its thread automaton is what every recorded thread trace of the
   library is replayed through; the source's lane is abstracted there (ghost owner, one enqueued-or-dirty bit).
   (B) Model/SrcLane.v: the same protocol with the source's REAL dq_state word, moved only by the generated bodies of
   _dispatch_queue_wakeup, _dispatch_queue_drain_try_lock / _try_unlock, _dispatch_queue_invoke_finish,
   _dispatch_lane_suspend / _resume, in the style of Model/SLane.v (token uniqueness, lock shape held / free,
   no-stranding and DIRTY clauses).  The data clauses are proved on both; exclusivity and "delivered afterwards" are
   proved on (B).  Section (A) first. *)

(* DATA_ADD: at every state  sum(delivered) + latched + pending = sum(merged)  (mod 2^64); hence at rest with nothing
   pending the delivered values sum to the merged values; on an uncancelled source every value passed was merged *)
Theorem C15_add_conservation : forall c s, reach c s -> ck c = KindAdd ->
  (zsum (delivered s) + latched s + pend s) mod 2 ^ 64 = zsum (merged s) mod 2 ^ 64 /\
  (quiescent s -> pend s = 0 -> zsum (delivered s) mod 2 ^ 64 = zsum (merged s) mod 2 ^ 64) /\
  (cancelled s = false -> dropped s = []).
Proof. exact add_conservation. Qed.
Print Assumptions C15_add_conservation.

(* DATA_OR: the same with bitwise or *)
Theorem C15_or_union : forall c s, reach c s -> ck c = KindOr ->
  Z.lor (zlor (delivered s)) (Z.lor (latched s) (pend s)) = zlor (merged s) /\
  (quiescent s -> pend s = 0 -> zlor (delivered s) = zlor (merged s)) /\
  (cancelled s = false -> dropped s = []).
Proof. exact or_union. Qed.
Print Assumptions C15_or_union.

(* DATA_REPLACE: every delivered (and latched, and pending) value was merged; if the latest merge is non-zero and its
   value is neither pending nor latched any more, it is the latest value delivered — in particular at rest *)
Theorem C15_replace : forall c s, reach c s -> ck c = KindReplace ->
  Forall (fun d => In d (merged s)) (delivered s) /\
  (latched s = 0 \/ In (latched s) (merged s)) /\ (pend s = 0 \/ In (pend s) (merged s)) /\
  (forall v l, merged s = v :: l -> v <> 0 -> pend s = 0 -> latched s = 0 -> exists d, delivered s = v :: d) /\
  (forall v l, quiescent s -> merged s = v :: l -> v <> 0 -> pend s = 0 -> exists d, delivered s = v :: d) /\
  (cancelled s = false -> dropped s = []).
Proof. exact replace_spec. Qed.
Print Assumptions C15_replace.

(* no handler invocation reports zero (any kind); the handler-begin step reports exactly the latched value *)
Theorem C15_never_zero : forall c s, reach c s ->
  Forall (fun d => d <> 0) (delivered s) /\ (forall t prev, pcs s t = PCall prev -> prev <> 0 /\ latched s = prev).
Proof. exact never_zero. Qed.
Print Assumptions C15_never_zero.
Theorem C15_handler_data_is_latched_value : forall c s t e s',
  reach c s -> gstep c s t e = Some s' -> ev_kind e DVU_CALLOUT_BEGIN = true ->
  ea e <> 0 /\ delivered s' = ea e :: delivered s.
Proof. exact callout_reports_latched. Qed.
Print Assumptions C15_handler_data_is_latched_value.

(* (A) liveness as invariants of the abstract model (kept because this is the model the traces are replayed through):
   pending data always has the source enqueued-or-dirty, a merger that still owes its wakeup, or a lock holder about to
   look again; a drain pass on an unlocked unsuspended source delivers exactly the pending value.  The statement at the
   strength of the real word is C15_merge_while_busy_delivered below. *)
Theorem C15_pending_always_has_waker : forall c s, reach c s -> pend s <> 0 -> cancelled s = false ->
  rq s = true \/ (exists u, waking (pcs s u) = true) \/ (exists o, owner s = Some o /\ recheck (pcs s o) = true).
Proof. exact pending_has_waker. Qed.
Print Assumptions C15_pending_always_has_waker.
Theorem C15_drain_pass_delivers : forall c s t old new v,
  lock_commits (cself c) old new = true ->
  pcs s t = PIdle -> owner s = None -> susp s = 0 -> pend s = v -> v <> 0 ->
  exists s', grun c s (map (fun e => (t, e)) (drain_pass old new v)) = Some s' /\
             delivered s' = v :: delivered s /\ pend s' = 0 /\ pcs s' t = PInCall.
Proof. exact drain_delivers. Qed.
Print Assumptions C15_drain_pass_delivers.
Theorem C15_wakeup_commits_dirty : forall q old, exists new, wake_body q old = Commit new 0 /\ word_dirty new = true.
Proof. exact wake_body_dirty. Qed.
Print Assumptions C15_wakeup_commits_dirty.

(* ties *)
Theorem C15_sites_match_source :
  model_sites_merge_data = dispatch_source_merge_data_sites /\
  model_sites_latch_and_call = f_dispatch_source_latch_and_call_sites /\
  model_sites_get_data = dispatch_source_get_data_sites /\ wakeup_loop_order = Release.
Proof. repeat split. Qed.
Print Assumptions C15_sites_match_source.
Theorem C15_model_uses_thread_automaton : forall c s t e s',
  gstep c s t e = Some s' -> tstep c (pcs s t) e = Some (pcs s' t).
Proof. exact gstep_tstep. Qed.
Print Assumptions C15_model_uses_thread_automaton.

(* ------------------------------------------------------------------------------------------------------------------
   (B) the source as the lane it is (Model/SrcLane.v).  c : kind, troot (drained from a root queue / from a lane),
   starve (avoid_starvation); rb : role bits of the activated source (0 inner, 1 base anon).  Every reachable state:
   any number of threads calling merge_data, workers of the target queue, dispatch_suspend / dispatch_resume (inline
   count), dispatch_source_cancel and spurious MAKE_DIRTY wakeups, in any interleaving.
   A run starts from the source as dispatch_source_create leaves it (inactive, not installed) or from an active installed
   source; activation (dispatch_activate, or dispatch_resume of an inactive source), the role inheritance and the
   installation by the first invoke are steps of the model.
   BOUNDARY (not part of the model): the target queue is a counter `rootq` of how many times the source sits in it, and
   any idle thread may act as its worker; that the target queue eventually invokes what sits in it is C01 for the
   target.  Not modelled: more than 62 nested suspensions (side counter), over-resume, the "invalid suspension state"
   crash, the life cycle after cancellation (a thread that gets there leaves the fragment: POut).
   POut IS ABSORBING: such a thread never becomes Idle again, so after one such call `quiescent` (every thread Idle) cannot
   hold any more and the statements with a `quiescent` hypothesis (C15_merge_while_busy_delivered,
   C15_terminal_all_delivered) say nothing about that execution; the other statements (exclusivity, responsibility,
   conservation, the potential) still hold of it. *)

(* the event handler of a source is never running on two threads at once, whatever queue it targets: the callout
   (PW_call -> PW_incall) lies inside the region protected by the drain lock of the real dq_state word; two threads in
   that region are the same thread; the word then names that thread as drain owner with the full width and IN_BARRIER
   taken and ENQUEUED held; the ghost `running` is that thread *)
Theorem C15_handler_exclusive : forall c rb s t1 t2 o1 o2,
  0 <= rb < 2 -> SrcLane.reach c rb s -> SrcLane.pcs s t1 = SrcLane.PW_incall o1 -> SrcLane.pcs s t2 = SrcLane.PW_incall o2 ->
  t1 = t2 /\ SrcLane.running s = Some t1.
Proof. exact SrcLane_proofs.handler_exclusive. Qed.
Print Assumptions C15_handler_exclusive.
Theorem C15_drain_lock_exclusive : forall c rb s t1 t2,
  0 <= rb < 2 -> SrcLane.reach c rb s -> SrcLane_proofs.locked_pc (SrcLane.pcs s t1) = true ->
  SrcLane_proofs.locked_pc (SrcLane.pcs s t2) = true -> t1 = t2.
Proof. exact SrcLane_proofs.lock_exclusive. Qed.
Print Assumptions C15_drain_lock_exclusive.
Theorem C15_locked_word_names_the_drainer : forall c rb s t,
  0 <= rb < 2 -> SrcLane.reach c rb s -> SrcLane_proofs.locked_pc (SrcLane.pcs s t) = true ->
  exists r, SrcLane.st s = enc r /\ wfr r /\ f_owner r = t /\ f_ib r = 1 /\ f_wq r = 4096 /\ f_enq r = 1 /\
            SrcLane.token s = Some (Some t).
Proof. exact SrcLane_proofs.locked_word. Qed.
Print Assumptions C15_locked_word_names_the_drainer.
Theorem C15_handler_runs_only_under_the_lock : forall c rb s t,
  0 <= rb < 2 -> SrcLane.reach c rb s -> SrcLane.running s = Some t -> exists o, SrcLane.pcs s t = SrcLane.PW_incall o.
Proof. exact SrcLane_proofs.running_is_locked. Qed.
Print Assumptions C15_handler_runs_only_under_the_lock.

(* merges made while the source is suspended or its handler is running are delivered afterwards (up to the boundary):
   (1) pending data of an uncancelled source always has somebody responsible: the holder of the ENQUEUED token (the
       target queue, or a thread about to push it / lock it / draining it), a thread that still owes its wakeup (merger
       after its atomic operation, resumer after the resume that made the source runnable), or the suspension itself;
   (2) at rest, unsuspended: the source sits in its target queue and a worker can pop it;
   (3) the drainer that has already examined ds_pending_data cannot give the lock back over pending data once the
       mergers have done their wakeups: DIRTY is set and _dispatch_queue_drain_try_unlock is refused (it looks again);
   (4) no state is stuck: every thread inside a call or a drain has an enabled step. *)
Theorem C15_merge_while_busy_delivered : forall c rb s,
  0 <= rb < 2 -> SrcLane.reach c rb s -> SrcLane.quiescent s -> SrcLane.pend s <> 0 -> SrcLane.cancelled s = false ->
  SrcLane.suspended_word (SrcLane.st s) = false ->
  SrcLane.rootq s = 1 /\ SrcLane.token s = Some None /\ forall t fl, exists s', SrcLane.begin s t (SrcLane.CWorker fl) = Some s'.
Proof. exact SrcLane_proofs.not_stranded. Qed.
Print Assumptions C15_merge_while_busy_delivered.
Theorem C15_pending_has_responsible : forall c rb s,
  0 <= rb < 2 -> SrcLane.reach c rb s -> SrcLane.pend s <> 0 -> SrcLane.cancelled s = false ->
  SrcLane.token s <> None \/ SrcLane.wakers s <> [] \/ SrcLane.rwakers s <> [] \/ SrcLane.suspended_word (SrcLane.st s) = true.
Proof. exact SrcLane_proofs.pending_has_responsible. Qed.
Print Assumptions C15_pending_has_responsible.
Theorem C15_unlock_refused_over_pending : forall c rb s t o,
  0 <= rb < 2 -> SrcLane.reach c rb s -> SrcLane.pcs s t = SrcLane.PW_unlock o -> SrcLane.pend s <> 0 ->
  SrcLane.cancelled s = false -> SrcLane.wakers s = [] -> SrcLane.suspended_word (SrcLane.st s) = false ->
  SrcLane.gstep c s t = Some (SrcLane.set_pc s t (SrcLane.PW_xor o)).
Proof. exact SrcLane_proofs.unlock_refused_over_pending. Qed.
Print Assumptions C15_unlock_refused_over_pending.
Theorem C15_no_stuck_state : forall c rb s t,
  0 <= rb < 2 -> SrcLane.reach c rb s -> SrcLane.valid_tid t -> SrcLane.pcs s t <> SrcLane.Idle ->
  SrcLane.pcs s t <> SrcLane.POut -> exists s', SrcLane.gstep c s t = Some s'.
Proof. exact SrcLane_proofs.step_enabled. Qed.
Print Assumptions C15_no_stuck_state.

(* the data clauses again, on the lane model *)
Theorem C15_lane_add_conservation : forall c rb s, 0 <= rb < 2 -> SrcLane.reach c rb s -> SrcLane.ck c = KindAdd ->
  (zsum (SrcLane.delivered s) + SrcLane.latched s + SrcLane.pend s) mod 2 ^ 64 = zsum (SrcLane.merged s) mod 2 ^ 64 /\
  (SrcLane.quiescent s -> SrcLane.pend s = 0 -> zsum (SrcLane.delivered s) mod 2 ^ 64 = zsum (SrcLane.merged s) mod 2 ^ 64) /\
  (SrcLane.cancelled s = false -> SrcLane.dropped s = []).
Proof. exact SrcLane_proofs.add_conservation. Qed.
Print Assumptions C15_lane_add_conservation.
Theorem C15_lane_or_union : forall c rb s, 0 <= rb < 2 -> SrcLane.reach c rb s -> SrcLane.ck c = KindOr ->
  Z.lor (zlor (SrcLane.delivered s)) (Z.lor (SrcLane.latched s) (SrcLane.pend s)) = zlor (SrcLane.merged s) /\
  (SrcLane.quiescent s -> SrcLane.pend s = 0 -> zlor (SrcLane.delivered s) = zlor (SrcLane.merged s)) /\
  (SrcLane.cancelled s = false -> SrcLane.dropped s = []).
Proof. exact SrcLane_proofs.or_union. Qed.
Print Assumptions C15_lane_or_union.
Theorem C15_lane_replace : forall c rb s, 0 <= rb < 2 -> SrcLane.reach c rb s -> SrcLane.ck c = KindReplace ->
  Forall (fun d => In d (SrcLane.merged s)) (SrcLane.delivered s) /\
  (SrcLane.latched s = 0 \/ In (SrcLane.latched s) (SrcLane.merged s)) /\
  (SrcLane.pend s = 0 \/ In (SrcLane.pend s) (SrcLane.merged s)) /\
  (forall v l, SrcLane.quiescent s -> SrcLane.merged s = v :: l -> v <> 0 -> SrcLane.pend s = 0 ->
               exists d, SrcLane.delivered s = v :: d) /\
  (SrcLane.cancelled s = false -> SrcLane.dropped s = []).
Proof. exact SrcLane_proofs.replace_spec. Qed.
Print Assumptions C15_lane_replace.
Theorem C15_lane_never_zero : forall c rb s, 0 <= rb < 2 -> SrcLane.reach c rb s ->
  Forall (fun d => d <> 0) (SrcLane.delivered s) /\
  (forall t o x, SrcLane.pcs s t = SrcLane.PW_call o x -> x <> 0 /\ SrcLane.latched s = x).
Proof. exact SrcLane_proofs.never_zero. Qed.
Print Assumptions C15_lane_never_zero.

(* ------------------------------------------------------------------------------------------------------------------
   termination on (B) (Proofs/SrcLane_measure.v): a potential Phi over the threads L of an execution -- a constant per
   program point, 14 per time the source sits in its target queue, 5 for NEEDS_ACTIVATION, and a term that depends on where
   the holder of the enqueued / drain token stands: DIRTY costs 16 while somebody drains (it will make the unlock fail:
   retry loop for a root target, invoke_finish + re-enqueue otherwise), pending data costs 14 between the latch and the
   starvation re-test (it will re-enqueue the source), "not suspended" costs 15 at invoke_finish (it will push), a max QoS
   above the locker's floor costs 1 (try_lock restart).  Every step of a thread inside a call or a drain and every worker
   pick-up lowers Phi by at least 1; starting a client call raises it by that call's constant (merge_data 53, suspend 1,
   resume 70, activate 75, cancel 35, a spurious wakeup 34).  So an execution with these calls has at most
   Phi(start) + sum of the constants other actions: no livelock in the DIRTY retry, the re-enqueue loop, the restart or
   the activate-then-resume loop; and where nothing is enabled any more everything merged has been delivered. *)
Theorem C15_every_step_pays : forall L, NoDup L -> forall c s t s',
  SrcLane_proofs.Inv c s -> In t L -> SrcLane.gstep c s t = Some s' -> SrcLane_measure.Phi L s' + 1 <= SrcLane_measure.Phi L s.
Proof. exact SrcLane_measure.step_decreases. Qed.
Print Assumptions C15_every_step_pays.
Theorem C15_worker_pickup_pays : forall L, NoDup L -> forall c s t f s',
  SrcLane_proofs.Inv c s -> In t L -> SrcLane.begin s t (SrcLane.CWorker f) = Some s' ->
  SrcLane_measure.Phi L s' + 1 <= SrcLane_measure.Phi L s.
Proof. exact SrcLane_measure.begin_worker_decreases. Qed.
Print Assumptions C15_worker_pickup_pays.
Theorem C15_client_call_cost : forall L, NoDup L -> forall c s t k s',
  SrcLane_proofs.Inv c s -> In t L -> (forall f, k <> SrcLane.CWorker f) -> SrcLane.begin s t k = Some s' ->
  SrcLane_measure.Phi L s' = SrcLane_measure.Phi L s + SrcLane_measure.call_cost k.
Proof. exact SrcLane_measure.begin_client_raises. Qed.
Print Assumptions C15_client_call_cost.
Theorem C15_execution_bound : forall c L rb s acts s',
  NoDup L -> 0 <= rb < 2 -> SrcLane.reach c rb s -> forallb SrcLane_measure.act_valid acts = true ->
  (forall a, In a acts -> In (SrcLane_measure.act_tid a) L) -> SrcLane.run c s acts = Some s' ->
  SrcLane_measure.n_other acts <= SrcLane_measure.Phi L s + SrcLane_measure.budget acts.
Proof. exact SrcLane_measure.no_livelock. Qed.
Print Assumptions C15_execution_bound.
Theorem C15_terminal_all_delivered : forall c rb s,
  0 <= rb < 2 -> SrcLane.reach c rb s -> SrcLane.quiescent s -> SrcLane.rootq s = 0 -> SrcLane.cancelled s = false ->
  SrcLane.suspended_word (SrcLane.st s) = false ->
  SrcLane.pend s = 0 /\ SrcLane.latched s = 0 /\ SrcLane.running s = None.
Proof. exact SrcLane_measure.terminal_all_delivered. Qed.
Print Assumptions C15_terminal_all_delivered.

(* ------------------------------------------------------------------------------------------------------------------
   the second tie of (B): every recorded round of the stress harness is replayed as a run of SrcLane.begin / SrcLane.gstep
   (Model/SrcLaneR.v, lib/props/c15_replay.py).  The abstraction of each thread's recording into model actions and the
   proposed global order are untrusted; the scheduler takes an action only if the model state holds the value the
   implementation observed, the model step is enabled, and it produces the recorded words / program point / latched and
   delivered value.  Whatever it is given, it only takes steps of the model.
   WHERE A REPLAY STARTS: from `SrcLaneR.init_from w0 inst`, the source at rest with the RECORDED first dq_state word w0
   (admissible by init_word_ok: inactive as created, or idle and active), not from a state known to be `SrcLane.reach`-able
   from init_state / init_inactive.  `reachw c w0 inst` below is reachability from that recorded start.  So a replayed
   state gets the invariant Inv (C15_replay_sound) and what follows from Inv alone; the theorems of (B) that are stated
   over `reach c rb` are not claimed of replayed states as such. *)
Theorem C15_replay_reach : forall c L depths w0 inst fuel w ns np s qs ord done ok s' done' rest ok' qs',
  SrcLaneR_proofs.reachw c w0 inst s -> SrcLaneR.sched c L depths fuel w ns np s qs ord done ok = (s', done', rest, ok', qs') ->
  SrcLaneR_proofs.reachw c w0 inst s'.
Proof. exact SrcLaneR_proofs.sched_reach. Qed.
Print Assumptions C15_replay_reach.
(* a replay starts from the source at rest with the recorded word (inactive as created, or active); such a state satisfies the invariant of (B), so every
   state a replay passes through is a reachable state of the model that satisfies it *)
Theorem C15_replay_sound : forall c w0 inst L depths fuel w qs ord s' done' rest ok' qs',
  SrcLaneR.init_word_ok w0 = true ->
  SrcLaneR.sched c L depths fuel w 0 0 (SrcLaneR.init_from w0 inst) qs ord 0 true = (s', done', rest, ok', qs') ->
  SrcLaneR_proofs.reachw c w0 inst s' /\ SrcLane_proofs.Inv c s'.
Proof. exact SrcLaneR_proofs.replay_sound. Qed.
Print Assumptions C15_replay_sound.
(* the boolean invariant the replay evaluates on every state (word fields, token / lock shape, the no-stranding and DIRTY
   clauses, waker lists, data clauses, per-thread clauses for the threads of the round) is implied by the proved invariant *)
Theorem C15_replay_invariant_is_the_proved_one : forall c L s,
  SrcLane_proofs.Inv c s -> SrcLaneR_proofs.covers L s -> SrcLaneR.inv_b c L s = true.
Proof. exact SrcLaneR_proofs.inv_b_true. Qed.
Print Assumptions C15_replay_invariant_is_the_proved_one.

(* non-vacuity: thread 7 merges 5 into an idle ADD source (its wakeup enqueues it); thread 9 drains: latches 5 and enters
   the handler; meanwhile thread 8 merges 3 (its wakeup finds the drain lock held and only sets DIRTY); the handler
   returns, the drainer sees pending data and re-enqueues; a second pass delivers 3 and unlocks cleanly.  The dq_state
   words are those of a recorded run (with 9 as the drainer's lock value); lock / unlock events carry the words and are
   checked by the generated drain_try_lock / drain_try_unlock / invoke_finish bodies. *)
Definition demo_schedule : list (Z * event) :=
  [ (7, ev0 DVU_CALL 0 0 5 0 1); (7, ev0 DV_LOAD 0 OFF_FLAGS 4194305 4194305 1); (7, ev0 DV_ADD 0 OFF_PEND 0 5 1);
    (7, ev0 DV_LOAD 0 OFF_FLAGS 4194305 4194305 1); (7, ev0 DV_LOAD 0 OFF_PEND 5 5 1);
    (7, ev0 DV_LOAD 0 OFF_STATE 9005000231485440 9005000231485440 1);
    (7, ev0 DV_CASW 3 OFF_STATE 9005000231485440 9005552134782976 1); (7, ev0 DVU_RET 0 0 0 0 1);
    (9, ev0 DVX_LOCK 0 0 9005552134782976 27021599911706633 1); (9, ev0 DV_LOAD 0 OFF_PEND 5 5 1); (9, ev0 DV_XCHG 0 OFF_PEND 5 0 1);
    (9, ev0 DVU_CALLOUT_BEGIN 0 0 5 0 1);
    (8, ev0 DVU_CALL 0 0 3 0 1); (8, ev0 DV_LOAD 0 OFF_FLAGS 4194305 4194305 1); (8, ev0 DV_ADD 0 OFF_PEND 0 3 1);
    (8, ev0 DV_LOAD 0 OFF_FLAGS 4194305 4194305 1); (8, ev0 DV_LOAD 0 OFF_PEND 3 3 1);
    (8, ev0 DV_LOAD 0 OFF_STATE 27021599911706633 27021599911706633 1);
    (8, ev0 DV_CASW 3 OFF_STATE 27021599911706633 27022149667520521 1); (8, ev0 DVU_RET 0 0 0 0 1);
    (9, ev0 DVU_CALLOUT_END 0 0 5 0 1); (9, ev0 DV_LOAD 0 OFF_PEND 3 3 1); (9, ev0 DVX_UNLOCK 0 0 27022149667520521 9005552134782976 1);
    (9, ev0 DVX_LOCK 0 0 9005552134782976 27021599911706633 1); (9, ev0 DV_LOAD 0 OFF_PEND 3 3 1); (9, ev0 DV_XCHG 0 OFF_PEND 3 0 1);
    (9, ev0 DVU_CALLOUT_BEGIN 0 0 3 0 1); (9, ev0 DVU_CALLOUT_END 0 0 3 0 1); (9, ev0 DV_LOAD 0 OFF_PEND 0 0 1);
    (9, ev0 DVX_UNLOCK 0 0 27021599911706633 9005000231485440 1) ].
Example C15_nonvacuous :
  match grun (mkCfg KindAdd 9) init_state (firstn 20 demo_schedule) with
  | Some s => pcs s 9 = PInCall /\ pend s = 3 /\ rq s = true /\ delivered s = [5] /\ merged s = [3; 5] /\ owner s = Some 9
  | None => False end /\
  match grun (mkCfg KindAdd 9) init_state demo_schedule with
  | Some s => delivered s = [3; 5] /\ merged s = [3; 5] /\ pend s = 0 /\ owner s = None /\ rq s = false /\
              pcs s 7 = PIdle /\ pcs s 8 = PIdle /\ pcs s 9 = PIdle
  | None => False end.
Proof. vm_compute. repeat split. Qed.

(* ... and the same scenario on the lane model (base-anon source drained from a non-overcommit root queue): after the
   second merge the word is locked by 9, ENQUEUED and DIRTY, and 9 is in the handler; at the end everything is delivered
   and the word is the idle word of the recorded runs (0x1ffe1000000000) *)
Definition lane_steps (t : Z) (n : nat) : list SrcLane.action := repeat (SrcLane.AStep t) n.
Definition lane_cfg := SrcLane.mkCfg KindAdd true true true true.
Definition lane_demo1 : list SrcLane.action :=
  SrcLane.ABegin 7 (SrcLane.CMerge 5 0) :: lane_steps 7 6 ++ SrcLane.ABegin 9 (SrcLane.CWorker 0) :: lane_steps 9 7 ++
  SrcLane.ABegin 8 (SrcLane.CMerge 3 0) :: lane_steps 8 5.
Definition lane_demo2 : list SrcLane.action :=
  lane_demo1 ++ lane_steps 9 5 ++ SrcLane.ABegin 9 (SrcLane.CWorker 0) :: lane_steps 9 11.
Example C15_lane_nonvacuous :
  match SrcLane.run lane_cfg (SrcLane.init_state 1) lane_demo1 with
  | Some s => (exists o, SrcLane.pcs s 9 = SrcLane.PW_incall o) /\ SrcLane.pend s = 3 /\ SrcLane.delivered s = [5] /\
              SrcLane.token s = Some (Some 9) /\ f_owner (dec (SrcLane.st s)) = 9 /\ f_d (dec (SrcLane.st s)) = 1 /\
              f_enq (dec (SrcLane.st s)) = 1 /\ SrcLane.running s = Some 9
  | None => False end /\
  match SrcLane.run lane_cfg (SrcLane.init_state 1) lane_demo2 with
  | Some s => SrcLane.delivered s = [3; 5] /\ SrcLane.merged s = [3; 5] /\ SrcLane.pend s = 0 /\ SrcLane.token s = None /\
              SrcLane.rootq s = 0 /\ SrcLane.st s = 9005068950962176 /\ SrcLane.pcs s 7 = SrcLane.Idle /\
              SrcLane.pcs s 8 = SrcLane.Idle /\ SrcLane.pcs s 9 = SrcLane.Idle
  | None => False end.
Proof. vm_compute. repeat split. eexists. reflexivity. Qed.

(* ... and the potential along that run (threads 7, 8, 9): 0 at rest, +53 at each merge_data, one or more down at every other
   action, 0 again at the end; 36 other actions against a budget of 2 * 53 *)
Fixpoint lane_phi_trace (s : SrcLane.gst) (acts : list SrcLane.action) : list Z :=
  SrcLane_measure.Phi [7; 8; 9] s ::
  match acts with
  | [] => []
  | a :: r => match SrcLane.run lane_cfg s [a] with Some s' => lane_phi_trace s' r | None => [-1] end
  end.
Example C15_measure_nonvacuous :
  lane_phi_trace (SrcLane.init_state 1) lane_demo2 =
    [0; 53; 52; 36; 35; 34; 15; 14; 12; 11; 10; 9; 8; 7; 6; 5; 58; 57; 55; 54; 53; 35; 34; 33; 16; 15; 14; 12; 11; 10; 9; 8; 7;
     6; 5; 4; 3; 2; 0] /\
  SrcLane_measure.n_other lane_demo2 = 36 /\ SrcLane_measure.budget lane_demo2 = 106.
Proof. vm_compute. repeat split. Qed.
