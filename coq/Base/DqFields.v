(* DqFields.v — the 64-bit dq_state word (src/queue_internal.h:101-447) as a record of fields, and the
   generated predicates of Gen_dqstate expressed on fields.  Field layout, low bit first:
   owner:30  sync_transfer:1  enqueued:1  max_qos:3  received_override:1  role:2  enqueued_on_mgr:1  dirty:1
   pending_barrier:1  width+full:13 (the 12 width bits and the width-full bit read as one number)  in_barrier:1
   suspend bits:9 (needs_activation, inactive, side-suspend, suspend count) *)
From Coq Require Import ZArith Bool List Lia.
From Verif Require Import Word Bits Fields Gen_consts Gen_dqstate.
Import ListNotations.
Local Open Scope Z_scope.

Definition LAY : list Z := [30; 1; 1; 3; 1; 2; 1; 1; 1; 13; 1; 9].

Record dqf := { f_owner : Z; f_tr : Z; f_enq : Z; f_mq : Z; f_ov : Z; f_role : Z; f_em : Z; f_d : Z; f_pb : Z;
                f_wq : Z; f_ib : Z; f_hi : Z }.
Definition vec (r : dqf) : list Z :=
  [f_owner r; f_tr r; f_enq r; f_mq r; f_ov r; f_role r; f_em r; f_d r; f_pb r; f_wq r; f_ib r; f_hi r].
Definition enc (r : dqf) : Z := encode LAY (vec r).
Definition of_vec (v : list Z) : dqf :=
  match v with
  | [a; b; c; d; e; f; g; h; i; j; k; l] =>
      {| f_owner := a; f_tr := b; f_enq := c; f_mq := d; f_ov := e; f_role := f; f_em := g; f_d := h; f_pb := i;
         f_wq := j; f_ib := k; f_hi := l |}
  | _ => {| f_owner := 0; f_tr := 0; f_enq := 0; f_mq := 0; f_ov := 0; f_role := 0; f_em := 0; f_d := 0; f_pb := 0;
            f_wq := 0; f_ib := 0; f_hi := 0 |}
  end.
Definition dec (s : Z) : dqf := of_vec (decode LAY s).

Definition wfr (r : dqf) : Prop :=
  0 <= f_owner r < 1073741824 /\ 0 <= f_tr r < 2 /\ 0 <= f_enq r < 2 /\ 0 <= f_mq r < 8 /\ 0 <= f_ov r < 2 /\
  0 <= f_role r < 4 /\ 0 <= f_em r < 2 /\ 0 <= f_d r < 2 /\ 0 <= f_pb r < 2 /\ 0 <= f_wq r < 8192 /\
  0 <= f_ib r < 2 /\ 0 <= f_hi r < 512.

Lemma wfr_wfv r : wfr r -> wfv LAY (vec r).
Proof.
  intros (H0 & H1 & H2 & H3 & H4 & H5 & H6 & H7 & H8 & H9 & H10 & H11). unfold LAY, vec.
  repeat (constructor; [lia | (change (2 ^ 30) with 1073741824 || change (2 ^ 1) with 2 || change (2 ^ 3) with 8
                               || change (2 ^ 2) with 4 || change (2 ^ 13) with 8192 || change (2 ^ 9) with 512); lia |]).
  constructor.
Qed.

Lemma enc_linear r :
  enc r = f_owner r + 1073741824 * f_tr r + 2147483648 * f_enq r + 4294967296 * f_mq r + 34359738368 * f_ov r +
          68719476736 * f_role r + 274877906944 * f_em r + 549755813888 * f_d r + 1099511627776 * f_pb r +
          2199023255552 * f_wq r + 18014398509481984 * f_ib r + 36028797018963968 * f_hi r.
Proof. unfold enc, vec, LAY. cbn [encode]. ring. Qed.

Lemma enc_range r : wfr r -> 0 <= enc r < 18446744073709551616.
Proof. intros H. rewrite enc_linear. unfold wfr in H. lia. Qed.

Lemma dec_enc r : wfr r -> dec (enc r) = r.
Proof. intros H. unfold dec, enc. rewrite decode_encode by (apply wfr_wfv; exact H). destruct r; reflexivity. Qed.

Lemma LAY_nonneg : Forall (fun w => 0 <= w) LAY.
Proof. unfold LAY. repeat constructor; lia. Qed.

Lemma wfv_wfr v : wfv LAY v -> wfr (of_vec v).
Proof.
  unfold LAY. intros H.
  repeat match goal with H : wfv (_ :: _) _ |- _ => inversion H; clear H; subst end.
  match goal with H : wfv [] _ |- _ => inversion H; subst end.
  unfold wfr, of_vec; cbn [f_owner f_tr f_enq f_mq f_ov f_role f_em f_d f_pb f_wq f_ib f_hi].
  change (2 ^ 30) with 1073741824 in *. change (2 ^ 1) with 2 in *. change (2 ^ 3) with 8 in *.
  change (2 ^ 2) with 4 in *. change (2 ^ 13) with 8192 in *. change (2 ^ 9) with 512 in *.
  repeat split; lia.
Qed.

Lemma wfr_dec s : wfr (dec s).
Proof. unfold dec. apply wfv_wfr. apply decode_wfv. apply LAY_nonneg. Qed.

Lemma enc_dec s : 0 <= s < 18446744073709551616 -> enc (dec s) = s.
Proof.
  intros H. unfold enc, dec.
  assert (E : vec (of_vec (decode LAY s)) = decode LAY s) by reflexivity.
  rewrite E. apply encode_decode; [apply LAY_nonneg | exact H].
Qed.

(* ---- bitwise operations with constants, field by field ---- *)
Lemma land_enc_const r c : wfr r -> 0 <= c < 18446744073709551616 ->
  Z.land (enc r) c = encode LAY (map2 Z.land (vec r) (decode LAY c)).
Proof.
  intros W C. rewrite <- (encode_decode LAY c LAY_nonneg C) at 1. unfold enc.
  apply encode_land; [apply wfr_wfv; exact W | apply decode_wfv; apply LAY_nonneg].
Qed.
Lemma lor_enc_const r c : wfr r -> 0 <= c < 18446744073709551616 ->
  Z.lor (enc r) c = encode LAY (map2 Z.lor (vec r) (decode LAY c)).
Proof.
  intros W C. rewrite <- (encode_decode LAY c LAY_nonneg C) at 1. unfold enc.
  apply encode_lor; [apply wfr_wfv; exact W | apply decode_wfv; apply LAY_nonneg].
Qed.
Lemma lxor_enc_const r c : wfr r -> 0 <= c < 18446744073709551616 ->
  Z.lxor (enc r) c = encode LAY (map2 Z.lxor (vec r) (decode LAY c)).
Proof.
  intros W C. rewrite <- (encode_decode LAY c LAY_nonneg C) at 1. unfold enc.
  apply encode_lxor; [apply wfr_wfv; exact W | apply decode_wfv; apply LAY_nonneg].
Qed.

(* field-level simplifications *)
Lemma land_all x w : 0 <= w -> 0 <= x < 2 ^ w -> Z.land x (2 ^ w - 1) = x.
Proof. intros. replace (2 ^ w - 1) with (Z.ones w) by (rewrite Z.ones_equiv; lia). rewrite Z.land_ones by lia. apply Z.mod_small. lia. Qed.
Lemma land1 x : 0 <= x < 2 -> Z.land x 1 = x.
Proof. intros. apply (land_all x 1); lia. Qed.
Lemma land7 x : 0 <= x < 8 -> Z.land x 7 = x.
Proof. intros. apply (land_all x 3); lia. Qed.
Lemma land3 x : 0 <= x < 4 -> Z.land x 3 = x.
Proof. intros. apply (land_all x 2); lia. Qed.
Lemma land8191 x : 0 <= x < 8192 -> Z.land x 8191 = x.
Proof. intros. apply (land_all x 13); lia. Qed.
Lemma land511 x : 0 <= x < 512 -> Z.land x 511 = x.
Proof. intros. apply (land_all x 9); lia. Qed.
Lemma land_owner x : 0 <= x < 1073741824 -> Z.land x 1073741823 = x.
Proof. intros. apply (land_all x 30); lia. Qed.
Lemma land4095 x : 0 <= x < 8192 -> Z.land x 4095 = x mod 4096.
Proof. intros. change 4095 with (Z.ones 12). rewrite Z.land_ones by lia. reflexivity. Qed.
Lemma lor1 x : 0 <= x < 2 -> Z.lor x 1 = 1.
Proof. intros. assert (x = 0 \/ x = 1) as [->| ->] by lia; reflexivity. Qed.
Lemma lxor1 x : 0 <= x < 2 -> Z.lxor x 1 = 1 - x.
Proof. intros. assert (x = 0 \/ x = 1) as [->| ->] by lia; reflexivity. Qed.

(* the predicates of inline_internal.h on fields *)
Ltac field_bits W :=
  let H := fresh in
  pose proof W as H; unfold wfr in H;
  repeat match goal with
  | |- context [Z.land ?x 0] => rewrite (Z.land_0_r x)
  | |- context [Z.lor ?x 0] => rewrite (Z.lor_0_r x)
  | |- context [Z.lxor ?x 0] => rewrite (Z.lxor_0_r x)
  | |- context [Z.land ?x 1] => rewrite (land1 x) by lia
  | |- context [Z.land ?x 1073741823] => rewrite (land_owner x) by lia
  | |- context [Z.land ?x 7] => rewrite (land7 x) by lia
  | |- context [Z.land ?x 3] => rewrite (land3 x) by lia
  | |- context [Z.land ?x 8191] => rewrite (land8191 x) by lia
  | |- context [Z.land ?x 511] => rewrite (land511 x) by lia
  end.

Lemma is_suspended_f r : wfr r -> nz (f_dq_state_is_suspended (enc r)) = (0 <? f_hi r).
Proof.
  intros W. unfold f_dq_state_is_suspended, nz, b2z. rewrite enc_linear. unfold wfr in W.
  destruct (Z.geb_spec (f_owner r + 1073741824 * f_tr r + 2147483648 * f_enq r + 4294967296 * f_mq r +
     34359738368 * f_ov r + 68719476736 * f_role r + 274877906944 * f_em r + 549755813888 * f_d r +
     1099511627776 * f_pb r + 2199023255552 * f_wq r + 18014398509481984 * f_ib r + 36028797018963968 * f_hi r)
     36028797018963968); destruct (Z.ltb_spec 0 (f_hi r)); cbn; try reflexivity; lia.
Qed.

Lemma bit_test_f r c (get : dqf -> Z) k :
  wfr r -> 0 <= c < 18446744073709551616 ->
  Z.land (enc r) c = k * get r -> 0 < k -> 0 <= get r ->
  nz (Z.land (enc r) c) = negb (get r =? 0).
Proof.
  intros W C E K G. rewrite E. unfold nz. destruct (Z.eqb_spec (get r) 0) as [->|N].
  - rewrite Z.mul_0_r. reflexivity.
  - destruct (Z.eqb_spec (k * get r) 0); [nia|reflexivity].
Qed.

Lemma land_dirty_f r : wfr r -> Z.land (enc r) 549755813888 = 549755813888 * f_d r.
Proof.
  intros W. rewrite land_enc_const by (assumption || lia).
  change (decode LAY 549755813888) with [0;0;0;0;0;0;0;1;0;0;0;0]. cbn [map2 vec]. field_bits W.
  cbn [encode LAY]. ring.
Qed.
Lemma is_dirty_f r : wfr r -> nz (f_dq_state_is_dirty (enc r)) = (f_d r =? 1).
Proof.
  intros W. unfold f_dq_state_is_dirty. rewrite land_dirty_f by assumption. unfold nz, b2z, wfr in *.
  assert (f_d r = 0 \/ f_d r = 1) as [->| ->] by lia; reflexivity.
Qed.

(* ---- the same at the level of explicit field vectors (what rewriting chains of operations needs) ---- *)
Lemma land_vec_const v c : wfv LAY v -> 0 <= c < 18446744073709551616 ->
  Z.land (encode LAY v) c = encode LAY (map2 Z.land v (decode LAY c)).
Proof.
  intros W C. rewrite <- (encode_decode LAY c LAY_nonneg C) at 1.
  apply encode_land; [exact W | apply decode_wfv; apply LAY_nonneg].
Qed.
Lemma lor_vec_const v c : wfv LAY v -> 0 <= c < 18446744073709551616 ->
  Z.lor (encode LAY v) c = encode LAY (map2 Z.lor v (decode LAY c)).
Proof.
  intros W C. rewrite <- (encode_decode LAY c LAY_nonneg C) at 1.
  apply encode_lor; [exact W | apply decode_wfv; apply LAY_nonneg].
Qed.
Lemma lxor_vec_const v c : wfv LAY v -> 0 <= c < 18446744073709551616 ->
  Z.lxor (encode LAY v) c = encode LAY (map2 Z.lxor v (decode LAY c)).
Proof.
  intros W C. rewrite <- (encode_decode LAY c LAY_nonneg C) at 1.
  apply encode_lxor; [exact W | apply decode_wfv; apply LAY_nonneg].
Qed.

Lemma vec_linear a b c d e f g h i j k l :
  encode LAY [a; b; c; d; e; f; g; h; i; j; k; l] =
  a + 1073741824 * b + 2147483648 * c + 4294967296 * d + 34359738368 * e + 68719476736 * f + 274877906944 * g +
  549755813888 * h + 1099511627776 * i + 2199023255552 * j + 18014398509481984 * k + 36028797018963968 * l.
Proof. unfold LAY. cbn [encode]. ring. Qed.

Lemma wfv12 a b c d e f g h i j k l :
  0 <= a < 1073741824 -> 0 <= b < 2 -> 0 <= c < 2 -> 0 <= d < 8 -> 0 <= e < 2 -> 0 <= f < 4 -> 0 <= g < 2 ->
  0 <= h < 2 -> 0 <= i < 2 -> 0 <= j < 8192 -> 0 <= k < 2 -> 0 <= l < 512 ->
  wfv LAY [a; b; c; d; e; f; g; h; i; j; k; l].
Proof.
  intros. unfold LAY.
  repeat (constructor; [lia | (change (2 ^ 30) with 1073741824 || change (2 ^ 1) with 2 || change (2 ^ 3) with 8
                               || change (2 ^ 2) with 4 || change (2 ^ 13) with 8192 || change (2 ^ 9) with 512); lia |]).
  constructor.
Qed.
Lemma enc_vec r : enc r = encode LAY [f_owner r; f_tr r; f_enq r; f_mq r; f_ov r; f_role r; f_em r; f_d r; f_pb r; f_wq r; f_ib r; f_hi r].
Proof. reflexivity. Qed.
