(* Fields.v — a 64-bit state word as a vector of bit-fields.
   `encode ws vs` packs the values vs (low field first) of widths ws; bitwise operations with constants act
   field by field, +/- are linear.  With this every rmw body of Gen_dqstate becomes arithmetic on small fields. *)
From Coq Require Import ZArith Bool List Lia.
From Verif Require Import Bits.
Import ListNotations.
Local Open Scope Z_scope.

Fixpoint encode (ws vs : list Z) : Z :=
  match ws, vs with
  | w :: ws', v :: vs' => v + 2 ^ w * encode ws' vs'
  | _, _ => 0
  end.

Fixpoint decode (ws : list Z) (s : Z) : list Z :=
  match ws with
  | w :: ws' => s mod 2 ^ w :: decode ws' (s / 2 ^ w)
  | [] => []
  end.

Inductive wfv : list Z -> list Z -> Prop :=
| wfv_nil : wfv [] []
| wfv_cons w v ws vs : 0 <= w -> 0 <= v < 2 ^ w -> wfv ws vs -> wfv (w :: ws) (v :: vs).

Fixpoint total_width (ws : list Z) : Z := match ws with w :: ws' => w + total_width ws' | [] => 0 end.

Fixpoint map2 (f : Z -> Z -> Z) (a b : list Z) : list Z :=
  match a, b with x :: a', y :: b' => f x y :: map2 f a' b' | _, _ => [] end.

Lemma encode_nonneg ws vs : wfv ws vs -> 0 <= encode ws vs.
Proof. induction 1; cbn [encode]; [lia|]. assert (0 < 2 ^ w) by (apply Z.pow_pos_nonneg; lia). nia. Qed.

Lemma wfv_widths_nonneg ws vs : wfv ws vs -> 0 <= total_width ws.
Proof. induction 1; cbn; lia. Qed.

Lemma encode_bound ws vs : wfv ws vs -> encode ws vs < 2 ^ total_width ws.
Proof.
  induction 1; cbn [encode total_width]; [cbn; lia|].
  pose proof (wfv_widths_nonneg _ _ H1). pose proof (encode_nonneg _ _ H1).
  rewrite Z.pow_add_r by lia. assert (0 < 2 ^ w) by (apply Z.pow_pos_nonneg; lia). nia.
Qed.

(* splitting a bitwise operation at position w *)
Lemma testbit_split v h w i : 0 <= w -> 0 <= v < 2 ^ w -> 0 <= h -> 0 <= i ->
  Z.testbit (v + 2 ^ w * h) i = if i <? w then Z.testbit v i else Z.testbit h (i - w).
Proof.
  intros Hw Hv Hh Hi.
  rewrite (Z.mul_comm (2 ^ w) h). rewrite <- (lor_disjoint v h w) by lia.
  rewrite Z.lor_spec. rewrite <- Z.shiftl_mul_pow2 by lia.
  destruct (Z.ltb_spec i w).
  - rewrite Z.shiftl_spec_low by lia. apply orb_false_r.
  - rewrite Z.shiftl_spec_high by lia.
    assert (Z.testbit v i = false).
    { destruct (Z.eq_dec v 0) as [->|]; [apply Z.bits_0|]. apply Z.bits_above_log2; [lia|].
      apply Z.log2_lt_pow2; [lia|]. apply Z.lt_le_trans with (2 ^ w); [lia|]. apply Z.pow_le_mono_r; lia. }
    rewrite H0. reflexivity.
Qed.

Section Bitwise.
  Variable op : Z -> Z -> Z.
  Variable bop : bool -> bool -> bool.
  Hypothesis op_spec : forall a b n, Z.testbit (op a b) n = bop (Z.testbit a n) (Z.testbit b n).
  Hypothesis op_small : forall a b w, 0 <= w -> 0 <= a < 2 ^ w -> 0 <= b < 2 ^ w -> 0 <= op a b < 2 ^ w.

  Lemma wfv_map2 ws a b : wfv ws a -> wfv ws b -> wfv ws (map2 op a b).
  Proof.
    intros Ha. revert b. induction Ha; intros b Hb; inversion Hb; subst; cbn [map2]; constructor; auto.
  Qed.

  Lemma encode_bitwise ws a b : wfv ws a -> wfv ws b ->
    op (encode ws a) (encode ws b) = encode ws (map2 op a b).
  Proof.
    intros Ha. revert b. induction Ha as [|w v ws vs Hw Hv Ha IH]; intros b Hb; inversion Hb as [|w' v' ws' vs' Hw' Hv' Hb']; subst.
    - cbn. apply Z.bits_inj'. intros n Hn. rewrite op_spec, !Z.bits_0.
      (* bop false false must be false for the operations used; obtained from op_small at width 0 *)
      pose proof (op_small 0 0 0 ltac:(lia) ltac:(cbn; lia) ltac:(cbn; lia)) as S. cbn in S.
      assert (op 0 0 = 0) by lia. rewrite <- (Z.bits_0 n) at 3. rewrite <- H at 1. rewrite op_spec, !Z.bits_0. reflexivity.
    - cbn [encode map2].
      pose proof (encode_nonneg _ _ Ha). pose proof (encode_nonneg _ _ Hb').
      pose proof (wfv_map2 _ _ _ Ha Hb') as Hm. pose proof (encode_nonneg _ _ Hm).
      pose proof (op_small v v' w Hw Hv Hv').
      apply Z.bits_inj'. intros n Hn.
      rewrite op_spec, !testbit_split by lia.
      destruct (n <? w).
      + rewrite op_spec. reflexivity.
      + rewrite <- IH by assumption. rewrite op_spec. reflexivity.
  Qed.
End Bitwise.

Lemma land_small a b w : 0 <= w -> 0 <= a < 2 ^ w -> 0 <= b < 2 ^ w -> 0 <= Z.land a b < 2 ^ w.
Proof. intros. split; [apply Z.land_nonneg; lia|]. pose proof (land_le a b ltac:(lia)). lia. Qed.
Lemma lor_small a b w : 0 <= w -> 0 <= a < 2 ^ w -> 0 <= b < 2 ^ w -> 0 <= Z.lor a b < 2 ^ w.
Proof. intros. apply lor_lt_pow2; lia. Qed.
Lemma lxor_small a b w : 0 <= w -> 0 <= a < 2 ^ w -> 0 <= b < 2 ^ w -> 0 <= Z.lxor a b < 2 ^ w.
Proof.
  intros Hw Ha Hb. split; [apply Z.lxor_nonneg; lia|].
  destruct (Z.eq_dec (Z.lxor a b) 0) as [->|Hne]; [apply Z.pow_pos_nonneg; lia|].
  assert (0 < Z.lxor a b) by (assert (0 <= Z.lxor a b) by (apply Z.lxor_nonneg; lia); lia).
  assert (0 < w). { destruct (Z.eq_dec w 0) as [->|]; [|lia]. change (2^0) with 1 in *. assert (a = 0) by lia. assert (b = 0) by lia. subst. cbn in Hne. congruence. }
  apply Z.log2_lt_pow2; [assumption|].
  eapply Z.le_lt_trans; [apply Z.log2_lxor; lia|].
  apply Z.max_lub_lt.
  - destruct (Z.eq_dec a 0) as [->|]; [cbn; lia|]. apply Z.log2_lt_pow2; lia.
  - destruct (Z.eq_dec b 0) as [->|]; [cbn; lia|]. apply Z.log2_lt_pow2; lia.
Qed.

Lemma encode_land ws a b : wfv ws a -> wfv ws b -> Z.land (encode ws a) (encode ws b) = encode ws (map2 Z.land a b).
Proof. apply (encode_bitwise Z.land andb Z.land_spec land_small). Qed.
Lemma encode_lor ws a b : wfv ws a -> wfv ws b -> Z.lor (encode ws a) (encode ws b) = encode ws (map2 Z.lor a b).
Proof. apply (encode_bitwise Z.lor orb Z.lor_spec lor_small). Qed.
Lemma encode_lxor ws a b : wfv ws a -> wfv ws b -> Z.lxor (encode ws a) (encode ws b) = encode ws (map2 Z.lxor a b).
Proof. apply (encode_bitwise Z.lxor xorb Z.lxor_spec lxor_small). Qed.

(* decode / encode round trips *)
Lemma decode_wfv ws s : Forall (fun w => 0 <= w) ws -> wfv ws (decode ws s).
Proof.
  intros H. revert s. induction H; intros s; cbn [decode]; constructor; auto.
  apply Z.mod_pos_bound. apply Z.pow_pos_nonneg; lia.
Qed.
Lemma encode_decode ws s : Forall (fun w => 0 <= w) ws -> 0 <= s < 2 ^ total_width ws -> encode ws (decode ws s) = s.
Proof.
  intros H. revert s. induction H as [|w ws Hw Hws IH]; intros s Hs; cbn [decode encode total_width] in *.
  - change (2 ^ 0) with 1 in Hs. lia.
  - assert (P : 0 < 2 ^ w) by (apply Z.pow_pos_nonneg; lia).
    rewrite IH.
    + pose proof (Z.div_mod s (2 ^ w)). lia.
    + assert (0 <= total_width ws) by (clear -Hws; induction Hws; cbn; lia).
      rewrite Z.pow_add_r in Hs by lia. split; [apply Z.div_pos; lia|]. apply Z.div_lt_upper_bound; lia.
Qed.
Lemma decode_encode ws vs : wfv ws vs -> decode ws (encode ws vs) = vs.
Proof.
  induction 1 as [|w v ws vs Hw Hv H IH]; cbn [decode encode]; [reflexivity|].
  assert (P : 0 < 2 ^ w) by (apply Z.pow_pos_nonneg; lia).
  rewrite Z.mul_comm, Z.mod_add by lia. rewrite Z.mod_small by lia.
  rewrite Z.div_add by lia. rewrite Z.div_small by lia. rewrite Z.add_0_l, IH. reflexivity.
Qed.
