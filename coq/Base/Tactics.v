(* Tactics.v — proof automation for generated (src2v) definitions:
   - `step`      : resolve the innermost `if` by lia when its condition is decided, split otherwise
   - `wrap_elim` : replace u64/s64/u32/... of an argument whose range is known by the exact value,
                   splitting into the (at most three) windows when it is not
   Wrap functions stay folded so that lia never sees div/mod. *)
From Coq Require Import ZArith Bool Lia ZifyBool.
From Verif Require Import Word.
Local Open Scope Z_scope.

Section Cases.
Local Ltac Zify.zify_post_hook ::= Z.div_mod_to_equations.

Lemma u64_cases x : -18446744073709551616 <= x < 36893488147419103232 ->
  (0 <= x < 18446744073709551616 /\ u64 x = x) \/
  ((x < 0 /\ u64 x = x + 18446744073709551616) \/
   (18446744073709551616 <= x /\ u64 x = x - 18446744073709551616)).
Proof. unfold u64; intros; lia. Qed.

Lemma s64_cases x : -27670116110564327424 <= x < 27670116110564327424 ->
  (-9223372036854775808 <= x < 9223372036854775808 /\ s64 x = x) \/
  ((x < -9223372036854775808 /\ s64 x = x + 18446744073709551616) \/
   (9223372036854775808 <= x /\ s64 x = x - 18446744073709551616)).
Proof. unfold s64; intros; lia. Qed.

Lemma u32_cases x : -4294967296 <= x < 8589934592 ->
  (0 <= x < 4294967296 /\ u32 x = x) \/
  ((x < 0 /\ u32 x = x + 4294967296) \/ (4294967296 <= x /\ u32 x = x - 4294967296)).
Proof. unfold u32; intros; lia. Qed.

Lemma s32_cases x : -6442450944 <= x < 6442450944 ->
  (-2147483648 <= x < 2147483648 /\ s32 x = x) \/
  ((x < -2147483648 /\ s32 x = x + 4294967296) \/ (2147483648 <= x /\ s32 x = x - 4294967296)).
Proof. unfold s32; intros; lia. Qed.

Lemma u16_cases x : -65536 <= x < 131072 ->
  (0 <= x < 65536 /\ u16 x = x) \/
  ((x < 0 /\ u16 x = x + 65536) \/ (65536 <= x /\ u16 x = x - 65536)).
Proof. unfold u16; intros; lia. Qed.

Lemma u8_cases x : -256 <= x < 512 ->
  (0 <= x < 256 /\ u8 x = x) \/
  ((x < 0 /\ u8 x = x + 256) \/ (256 <= x /\ u8 x = x - 256)).
Proof. unfold u8; intros; lia. Qed.
End Cases.

Ltac no_if x := lazymatch x with context [if _ then _ else _] => fail | _ => idtac end.
Ltac no_wrap x :=
  lazymatch x with
  | context [u64 _] => fail | context [s64 _] => fail
  | context [u32 _] => fail | context [s32 _] => fail
  | context [u16 _] => fail | context [s16 _] => fail
  | context [u8 _] => fail | context [s8 _] => fail
  | _ => idtac
  end.

(* evaluate comparisons between literals *)
Ltac eval_lit :=
  repeat match goal with
  | |- context [Z.eqb ?a ?b] =>
      let r := eval vm_compute in (Z.eqb a b) in
      lazymatch r with
      | true => change (Z.eqb a b) with true
      | false => change (Z.eqb a b) with false
      end
  end; cbv iota.

Ltac step_det :=
  match goal with
  | |- context [if ?b then _ else _] =>
      no_if b; no_wrap b;
      first [ assert (b = true) as -> by lia | assert (b = false) as -> by lia ]
  end; cbv iota.

Ltac step_split :=
  match goal with
  | |- context [if ?b then _ else _] =>
      no_if b; no_wrap b; destruct b eqn:?
  end; cbv iota.

Ltac wrap_cases f x :=
  lazymatch f with
  | u64 => constr:(u64_cases x)
  | s64 => constr:(s64_cases x)
  | u32 => constr:(u32_cases x)
  | s32 => constr:(s32_cases x)
  | u16 => constr:(u16_cases x)
  | u8 => constr:(u8_cases x)
  end.

Ltac wrap_with f x :=
  let L := wrap_cases f x in
  let H := fresh "Hw" in let E := fresh "Ew" in
  destruct L as [[H E]|[[H E]|[H E]]];
  [ lia | rewrite !E; try (exfalso; lia) .. ].

Ltac wrap_elim :=
  match goal with
  | |- context [u64 ?x] => no_wrap x; no_if x; wrap_with u64 x
  | |- context [s64 ?x] => no_wrap x; no_if x; wrap_with s64 x
  | |- context [u32 ?x] => no_wrap x; no_if x; wrap_with u32 x
  | |- context [s32 ?x] => no_wrap x; no_if x; wrap_with s32 x
  | |- context [u16 ?x] => no_wrap x; no_if x; wrap_with u16 x
  | |- context [u8 ?x] => no_wrap x; no_if x; wrap_with u8 x
  end.

(* one round: prefer steps that do not branch *)
Ltac crunch1 := first [ step_det | wrap_elim | step_split ].
Ltac crunch := repeat crunch1.
