(* Replay.v — replay of a whole recorded run (all threads) as a run of a GLOBAL event-driven model
   gstep : S -> tid -> event -> option S  (Once.gstep, Sema.gstep, RootQ.gstep ...).
   An action is a recorded event of a thread, or a hidden step (a plain read, a thread creation ...) whose event is built
   from the current model state; a hidden step may carry a look-ahead: the thread's next recorded event, which the model
   must accept afterwards (this is how the value a hidden read returned is known).
   `sched` executes the actions in a preferred global order (the recorder's stamps): at each point the first action, among
   the first w distinct threads of the remaining order, that is ENABLED in the model is taken; an action is enabled iff gstep
   accepts the recorded event in the current state, i.e. the values the implementation observed are the values of the model
   state and the model's thread is at a program point that can perform it.  The scheduler never invents a step and never
   skips one: the run is reproduced iff every action is consumed.  `sched_reach`: every state it passes through is
   reachable by steps of the model. *)
From Coq Require Import ZArith Bool List.
From Verif Require Import Conc.
Import ListNotations.
Local Open Scope Z_scope.

(* r_code = 0: the recorded event r_ev; r_code > 0: hidden step of that kind with argument r_arg;
   r_look: after a hidden step the thread's next recorded event r_next must be acceptable; r_id: position in the recording;
   r_obs: the action only observes shared state (a load, a failed compare-exchange, a hidden read): such an action, when
   enabled, is taken before an enabled action that writes (the recorder's stamp is taken after the operation, so a read can
   be stamped after the write that overwrote what it saw; taking an enabled observation early is always a legal
   linearisation: it changes nothing but the thread's own program point);
   r_word / r_widx: when r_word <> 0 the action writes the shared word number r_word and r_widx identifies its pair
   (old value -> new value); the caller gives, per word, the sequence of such labels along the exact old->new chain it
   reconstructed, and the scheduler takes a write only when its label is the next one of its word (writes with the same label
   are interchangeable; this only restricts the scheduler's choices) *)
Record ract := { r_tid : Z; r_code : Z; r_arg : Z; r_ev : event; r_look : bool; r_next : event; r_id : Z; r_obs : bool;
                 r_word : Z; r_widx : Z }.

(* hook events that only observe: loads and failed compare-exchanges *)
Definition ev_obs (e : event) : bool :=
  (ek e =? DV_LOAD) || (((ek e =? DV_CAS) || (ek e =? DV_CASW)) && negb (eok e =? 1)).

(* per word: the labels (an identifier of the pair old value -> new value) of its remaining writes, in chain order *)
Fixpoint wnext (w : Z) (c : list (Z * list Z)) : option Z :=
  match c with [] => None | (k, l) :: r => if k =? w then (match l with x :: _ => Some x | [] => None end) else wnext w r end.
Fixpoint wpop (w : Z) (c : list (Z * list Z)) : list (Z * list Z) :=
  match c with [] => [] | (k, l) :: r => if k =? w then (k, tl l) :: r else (k, l) :: wpop w r end.
Definition eligible (c : list (Z * list Z)) (a : ract) : bool :=
  (r_word a =? 0) || match wnext (r_word a) c with Some x => x =? r_widx a | None => true end.
Definition bump (c : list (Z * list Z)) (a : ract) : list (Z * list Z) := if r_word a =? 0 then c else wpop (r_word a) c.

Section Replay.
  Context {S : Type}.
  Variable gstep : S -> Z -> event -> option S.
  Variable hidden : S -> Z -> Z -> Z -> option event.     (* state, thread, kind, argument *)
  Variable accepts : S -> Z -> event -> bool.              (* would the thread's automaton accept this event now *)
  Variable valid : Z -> bool.                              (* admissible thread ids *)

  Definition try_act (s : S) (a : ract) : option S :=
    if valid (r_tid a) then
      if r_code a =? 0 then gstep s (r_tid a) (r_ev a)
      else match hidden s (r_tid a) (r_code a) (r_arg a) with
           | Some e => match gstep s (r_tid a) e with
                       | Some s' => if negb (r_look a) || accepts s' (r_tid a) (r_next a) then Some s' else None
                       | None => None
                       end
           | None => None
           end
    else None.

  (* scan the remaining order: actions of threads already tried in this scan are passed over (program order); at most w
     distinct threads are tried and at most d entries are looked at (stamp inversions are local: an action far ahead in the
     recording is not taken while nearer ones are only waiting for each other).  Result: the enabled next actions, each with the state after it and the order without it *)
  Fixpoint gather (c : list (Z * list Z)) (s : S) (ord : list ract) (tried : list Z) (w : nat) (d : nat) (passed : list ract)
      : list (ract * S * list ract) :=
    match ord, d with
    | [], _ | _, O => []
    | a :: r, Datatypes.S d' =>
        if existsb (Z.eqb (r_tid a)) tried then gather c s r tried w d' (a :: passed)
        else match w with
             | O => []
             | Datatypes.S w' =>
                 match (if eligible c a then try_act s a else None) with
                 | Some s' => (a, s', rev_append passed r) :: gather c s r (r_tid a :: tried) w' d' (a :: passed)
                 | None => gather c s r (r_tid a :: tried) w' d' (a :: passed)
                 end
             end
    end.
  Definition is_some {A} (o : option A) : bool := match o with Some _ => true | None => false end.
  (* c must go before the current choice cur when cur disables it and it does not disable cur (e.g. cur is a blind store whose
     stamp was taken before the stamp of an exchange that really preceded it) *)
  Definition must_precede (cur c : ract * S * list ract) : bool :=
    let '(a1, s1, _) := cur in let '(r, sr, _) := c in negb (is_some (try_act s1 r)) && is_some (try_act sr a1).
  Fixpoint refine (fuel : nat) (cur : ract * S * list ract) (cands : list (ract * S * list ract)) : ract * S * list ract :=
    match fuel with
    | O => cur
    | Datatypes.S f => match find (must_precede cur) cands with Some c => refine f c cands | None => cur end
    end.
  (* the first enabled observation wins; otherwise the first enabled action, refined by must_precede *)
  Definition pick1 (c : list (Z * list Z)) (s : S) (ord : list ract) (w d : nat) : option (ract * S * list ract) :=
    let cands := gather c s ord [] w d [] in
    match find (fun x => r_obs (fst (fst x))) cands with
    | Some x => Some x
    | None => match cands with
              | [] => None
              | c1 :: _ => Some (refine (length cands) c1 cands)
              end
    end.
  (* look ahead a little; only when nothing is enabled there, further *)
  Fixpoint pick (c : list (Z * list Z)) (s : S) (ord : list ract) (w : nat) (depths : list nat) : option (ract * S * list ract) :=
    match depths with
    | [] => None
    | d :: ds => match pick1 c s ord w d with Some r => Some r | None => pick c s ord w ds end
    end.

  Fixpoint sched (fuel : nat) (w : nat) (depths : list nat) (c : list (Z * list Z)) (s : S) (ord : list ract) (done : Z) : S * Z * list ract :=
    match fuel with
    | O => (s, done, ord)
    | Datatypes.S f =>
        match ord with
        | [] => (s, done, [])
        | _ => match pick c s ord w depths with
               | Some (a, s', ord') => sched f w depths (bump c a) s' ord' (done + 1)
               | None => (s, done, ord)
               end
        end
    end.

  Definition rstep (s : S) (a : Z * event) (s' : S) : Prop := valid (fst a) = true /\ gstep s (fst a) (snd a) = Some s'.

  Lemma try_act_step s a s' : try_act s a = Some s' -> exists act, rstep s act s'.
  Proof.
    unfold try_act. destruct (valid (r_tid a)) eqn:V; [|discriminate]. destruct (r_code a =? 0).
    - intros H. exists (r_tid a, r_ev a). split; assumption.
    - destruct (hidden s (r_tid a) (r_code a) (r_arg a)) as [e|]; [|discriminate].
      destruct (gstep s (r_tid a) e) as [s1|] eqn:G; [|discriminate].
      destruct (negb (r_look a) || accepts s1 (r_tid a) (r_next a)); [|discriminate].
      intros H. injection H as <-. exists (r_tid a, e). split; assumption.
  Qed.

  Lemma gather_step c s : forall ord tried w d passed x, In x (gather c s ord tried w d passed) -> exists act, rstep s act (snd (fst x)).
  Proof.
    induction ord as [|a r IH]; intros tried w d passed x H; destruct d as [|d']; cbn [gather] in H; try contradiction.
    destruct (existsb (Z.eqb (r_tid a)) tried); [eapply IH; exact H|].
    destruct w as [|w']; [contradiction|].
    destruct (eligible c a); [|eapply IH; exact H].
    destruct (try_act s a) as [s1|] eqn:T; [|eapply IH; exact H].
    destruct H as [<-|H]; [cbn; eapply try_act_step; exact T|eapply IH; exact H].
  Qed.
  Lemma refine_in cands : forall fuel cur, In cur cands -> In (refine fuel cur cands) cands.
  Proof.
    induction fuel as [|f IH]; intros cur H; cbn [refine]; [exact H|].
    destruct (find (must_precede cur) cands) as [x|] eqn:F; [|exact H]. apply IH. apply (find_some _ _ F).
  Qed.
  Lemma pick1_step c s ord w d a s' ord' : pick1 c s ord w d = Some (a, s', ord') -> exists act, rstep s act s'.
  Proof.
    unfold pick1. set (cands := gather c s ord [] w d []).
    destruct (find (fun x => r_obs (fst (fst x))) cands) as [x|] eqn:F.
    - intros H. injection H as ->. apply find_some in F. destruct F as [F _].
      apply (gather_step c s ord [] w d [] _ F).
    - destruct cands as [|c1 rest] eqn:C; [discriminate|].
      pose proof (refine_in (c1 :: rest) (length (c1 :: rest)) c1 (or_introl eq_refl)) as R.
      intros H. injection H as H.
      assert (R' : In (a, s', ord') (c1 :: rest)) by (rewrite <- H; exact R).
      rewrite <- C in R'. apply (gather_step c s ord [] w d [] _ R').
  Qed.
  Lemma pick_step c s ord w : forall depths a s' ord', pick c s ord w depths = Some (a, s', ord') -> exists act, rstep s act s'.
  Proof.
    induction depths as [|d ds IH]; intros a s' ord' H; cbn [pick] in H; [discriminate|].
    destruct (pick1 c s ord w d) as [[[a1 s1] o1]|] eqn:P; [|eapply IH; exact H].
    injection H as <- <- <-. eapply pick1_step; exact P.
  Qed.

  Theorem sched_reach (init : S -> Prop) : forall fuel w depths c s ord done s' done' rest,
    reachable init rstep s -> sched fuel w depths c s ord done = (s', done', rest) -> reachable init rstep s'.
  Proof.
    induction fuel as [|f IH]; intros w depths c s ord done s' done' rest R H; cbn [sched] in H.
    - injection H as <- _ _. exact R.
    - destruct ord as [|a r]; [injection H as <- _ _; exact R|].
      destruct (pick c s (a :: r) w depths) as [[[a1 s1] ord1]|] eqn:P.
      + destruct (pick_step c s _ _ _ _ _ _ P) as (act & St). eapply IH; [|exact H]. eapply reach_step; eauto.
      + injection H as <- _ _. exact R.
  Qed.
End Replay.
