(* Bits.v — the few bit-vector facts that turn masks into linear arithmetic. *)
From Coq Require Import ZArith Lia Bool.
Local Open Scope Z_scope.

Lemma land_field s n k : 0 <= n -> 0 <= k ->
  Z.land s (Z.shiftl (Z.ones n) k) = ((s / 2 ^ k) mod 2 ^ n) * 2 ^ k.
Proof.
  intros Hn Hk.
  rewrite <- Z.shiftr_div_pow2, <- Z.land_ones, <- Z.shiftl_mul_pow2 by lia.
  apply Z.bits_inj'; intros i Hi.
  rewrite Z.land_spec.
  destruct (Z.lt_ge_cases i k).
  - rewrite !Z.shiftl_spec_low by lia. now rewrite andb_false_r.
  - rewrite !Z.shiftl_spec_high by lia. rewrite Z.land_spec, Z.shiftr_spec by lia.
    f_equal. f_equal. lia.
Qed.

(* mask given as a literal m = (2^n - 1) * 2^k *)
Lemma land_mask s m n k : 0 <= n -> 0 <= k -> m = (2 ^ n - 1) * 2 ^ k ->
  Z.land s m = ((s / 2 ^ k) mod 2 ^ n) * 2 ^ k.
Proof.
  intros Hn Hk ->. rewrite <- land_field by assumption.
  f_equal. rewrite Z.shiftl_mul_pow2 by lia. f_equal. rewrite Z.ones_equiv. lia.
Qed.

Lemma land_low s n : 0 <= n -> Z.land s (2 ^ n - 1) = s mod 2 ^ n.
Proof. intros. rewrite <- Z.land_ones by lia. f_equal. rewrite Z.ones_equiv. lia. Qed.

Lemma land_bit s k : 0 <= k -> Z.land s (2 ^ k) = ((s / 2 ^ k) mod 2) * 2 ^ k.
Proof. intros. rewrite (land_mask s (2 ^ k) 1 k); try lia. reflexivity. Qed.

(* or / xor / add of disjoint parts *)
Lemma lor_disjoint a b k : 0 <= k -> 0 <= a < 2 ^ k -> 0 <= b ->
  Z.lor a (b * 2 ^ k) = a + b * 2 ^ k.
Proof.
  intros Hk Ha Hb.
  rewrite <- Z.shiftl_mul_pow2 by lia.
  assert (H : Z.land a (Z.shiftl b k) = 0).
  { apply Z.bits_inj'; intros i Hi; rewrite Z.land_spec, Z.bits_0.
    destruct (Z.lt_ge_cases i k).
    - rewrite Z.shiftl_spec_low by lia; apply andb_false_r.
    - destruct (Z.eq_dec a 0) as [->|]; [rewrite Z.bits_0; reflexivity|].
      rewrite (Z.bits_above_log2 a i); [reflexivity | lia |].
      apply Z.log2_lt_pow2; try lia.
      apply Z.lt_le_trans with (2 ^ k); try lia. apply Z.pow_le_mono_r; lia. }
  rewrite Z.add_nocarry_lxor by exact H. symmetry. apply Z.lxor_lor. exact H.
Qed.

Lemma lor_bit_clear a k : 0 <= k -> 0 <= a -> (a / 2 ^ k) mod 2 = 0 ->
  Z.lor a (2 ^ k) = a + 2 ^ k.
Proof.
  intros Hk Ha Hbit.
  assert (H : Z.land a (2 ^ k) = 0).
  { apply Z.bits_inj'; intros i Hi; rewrite Z.land_spec, Z.bits_0, Z.pow2_bits_eqb by lia.
    destruct (Z.eqb_spec k i) as [<-|]; try apply andb_false_r.
    rewrite andb_true_r. apply Z.testbit_false; [lia|exact Hbit]. }
  rewrite Z.add_nocarry_lxor by exact H. symmetry. apply Z.lxor_lor. exact H.
Qed.

Lemma lor_bit_set a k : 0 <= k -> 0 <= a -> (a / 2 ^ k) mod 2 = 1 ->
  Z.lor a (2 ^ k) = a.
Proof.
  intros Hk Ha Hbit.
  apply Z.bits_inj'; intros i Hi; rewrite Z.lor_spec, Z.pow2_bits_eqb by lia.
  destruct (Z.eqb_spec k i) as [<-|]; [|apply orb_false_r].
  rewrite orb_true_r. symmetry. apply Z.testbit_true; [lia|exact Hbit].
Qed.

Lemma lxor_bit a k : 0 <= k -> 0 <= a ->
  Z.lxor a (2 ^ k) = if Z.eqb ((a / 2 ^ k) mod 2) 1 then a - 2 ^ k else a + 2 ^ k.
Proof.
  intros Hk Ha.
  assert (Hm : (a / 2 ^ k) mod 2 = 0 \/ (a / 2 ^ k) mod 2 = 1)
    by (pose proof (Z.mod_pos_bound (a / 2 ^ k) 2); lia).
  destruct Hm as [H0|H1].
  - rewrite H0. simpl. rewrite <- Z.add_nocarry_lxor; [reflexivity|].
    apply Z.bits_inj'; intros i Hi; rewrite Z.land_spec, Z.bits_0, Z.pow2_bits_eqb by lia;
    destruct (Z.eqb_spec k i) as [<-|]; try apply andb_false_r;
    rewrite andb_true_r; apply Z.testbit_false; [lia|exact H0].
  - rewrite H1. simpl.
    assert (E : a = Z.lxor (a - 2 ^ k) (2 ^ k)).
    { rewrite <- Z.add_nocarry_lxor; [lia|].
      (* a - 2^k has bit k clear *)
      assert (Hd : ((a - 2 ^ k) / 2 ^ k) mod 2 = 0).
      { replace (a - 2 ^ k) with (a + (-1) * 2 ^ k) by lia.
        rewrite Z.div_add by lia.
        replace (a / 2 ^ k + -1) with (a / 2 ^ k - 1) by lia.
        rewrite Zminus_mod, H1. reflexivity. }
      assert (Hge : 2 ^ k <= a).
      { destruct (Z.lt_ge_cases a (2 ^ k)); [|assumption].
        rewrite Z.div_small in H1 by lia. discriminate. }
      apply Z.bits_inj'; intros i Hi; rewrite Z.land_spec, Z.bits_0, Z.pow2_bits_eqb by lia;
      destruct (Z.eqb_spec k i) as [<-|]; try apply andb_false_r;
      rewrite andb_true_r; apply Z.testbit_false; [lia|exact Hd]. }
    rewrite E at 1. rewrite Z.lxor_assoc, Z.lxor_nilpotent, Z.lxor_0_r. reflexivity.
Qed.

(* ---- bounds ---- *)
Lemma land_le a b : 0 <= a -> Z.land a b <= a.
Proof.
  intros Ha.
  assert (D : Z.land (Z.ldiff a b) (Z.land a b) = 0).
  { apply Z.bits_inj'; intros i Hi. rewrite !Z.land_spec, Z.ldiff_spec, Z.bits_0.
    destruct (Z.testbit a i), (Z.testbit b i); reflexivity. }
  pose proof (Z.lor_ldiff_and a b) as E.
  rewrite <- (Z.lxor_lor _ _ D), <- (Z.add_nocarry_lxor _ _ D) in E.
  assert (0 <= Z.ldiff a b) by (apply Z.ldiff_nonneg; left; exact Ha).
  lia.
Qed.

Lemma lor_lt_pow2 a b n : 0 <= n -> 0 <= a < 2 ^ n -> 0 <= b < 2 ^ n -> 0 <= Z.lor a b < 2 ^ n.
Proof.
  intros Hn Ha Hb. split; [apply Z.lor_nonneg; lia|].
  destruct (Z.eq_dec (Z.lor a b) 0) as [->|Hne]; [lia|].
  assert (0 < Z.lor a b) by (assert (0 <= Z.lor a b) by (apply Z.lor_nonneg; lia); lia).
  assert (Hn0 : 0 < n).
  { destruct (Z.eq_dec n 0) as [->|]; [|lia]. change (2 ^ 0) with 1 in *.
    assert (a = 0) by lia. assert (b = 0) by lia. subst. discriminate Hne || (exfalso; apply Hne; reflexivity). }
  apply Z.log2_lt_pow2; [assumption|].
  rewrite Z.log2_lor by lia.
  apply Z.max_lub_lt.
  - destruct (Z.eq_dec a 0) as [->|]; [simpl; lia|]. apply Z.log2_lt_pow2; lia.
  - destruct (Z.eq_dec b 0) as [->|]; [simpl; lia|]. apply Z.log2_lt_pow2; lia.
Qed.

Lemma land_small_pow2 x k n : 0 <= x < 2 ^ k -> 0 <= k <= n -> Z.land x (2 ^ n) = 0.
Proof.
  intros Hx Hk. apply Z.bits_inj'; intros i Hi. rewrite Z.land_spec, Z.bits_0, Z.pow2_bits_eqb by lia.
  destruct (Z.eqb_spec n i) as [<-|]; [|apply andb_false_r].
  rewrite andb_true_r. destruct (Z.eq_dec x 0) as [->|]; [apply Z.bits_0|].
  apply Z.bits_above_log2; [lia|]. apply Z.log2_lt_pow2; [lia|].
  apply Z.lt_le_trans with (2 ^ k); [lia|]. apply Z.pow_le_mono_r; lia.
Qed.

(* adding / or-ing a low bit does not change the part of the word above position k *)
Lemma lor_low_keeps_high a m k : 0 <= k -> 0 <= m < 2 ^ k -> Z.lor a m / 2 ^ k = a / 2 ^ k.
Proof.
  intros Hk Hm. rewrite <- !Z.shiftr_div_pow2 by lia. rewrite Z.shiftr_lor.
  rewrite (Z.shiftr_div_pow2 m) by lia. rewrite (Z.div_small m) by lia. apply Z.lor_0_r.
Qed.

(* and-ing with a mask that keeps every bit from position k upwards keeps the high part *)
Lemma land_keeps_high a m k : 0 <= k -> m / 2 ^ k = -1 -> Z.land a m / 2 ^ k = a / 2 ^ k.
Proof.
  intros Hk Hm. rewrite <- !Z.shiftr_div_pow2 in * by lia. rewrite Z.shiftr_land, Hm. apply Z.land_m1_r.
Qed.
