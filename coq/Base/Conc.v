(* Conc.v — common vocabulary of the concurrent protocol models.
   A protocol is modelled as (1) a per-thread automaton `tstep : L -> event -> option L` that accepts exactly the
   sequences of events one thread of the implementation may perform (events = what the DISPATCH_VERIF hook of
   src/shims/atomic.h reports: atomic operations on the object's words with the values seen and written, futex /
   semaphore calls, and harness-level call/return/callout marks), and (2) the memory semantics of those events.
   The global transition system is their product; theorems are invariants of every reachable global state, for
   any number of threads.  The correspondence check feeds each recorded per-thread trace of the real library
   to the same `tstep` (trace inclusion per thread). *)
From Coq Require Import ZArith Bool List Lia.
Import ListNotations.
Local Open Scope Z_scope.

(* event kinds: numeric codes of the C enum in src/shims/atomic.h (hook) and harness/dv_record.h *)
Definition DV_LOAD := 1. Definition DV_STORE := 2. Definition DV_XCHG := 3. Definition DV_CAS := 4.
Definition DV_CASW := 5. Definition DV_ADD := 6. Definition DV_SUB := 7. Definition DV_AND := 8.
Definition DV_OR := 9. Definition DV_XOR := 10. Definition DV_FENCE := 11.
Definition DV_FUTEX_WAIT := 32. Definition DV_FUTEX_WAIT_RET := 33. Definition DV_FUTEX_WAKE := 34.
Definition DV_SEM_WAIT := 35. Definition DV_SEM_WAIT_RET := 36. Definition DV_SEM_TIMEDWAIT_RET := 37.
Definition DV_SEM_POST := 38.
Definition DVU_CALL := 100. Definition DVU_RET := 101. Definition DVU_CALLOUT_BEGIN := 102.
Definition DVU_CALLOUT_END := 103. Definition DVU_MARK := 104.
(* memory orders as reported by the hook *)
Definition MO_RELAXED := 0. Definition MO_CONSUME := 1. Definition MO_ACQUIRE := 2. Definition MO_RELEASE := 3.
Definition MO_ACQ_REL := 4. Definition MO_SEQ_CST := 5.

(* ea / eb: LOAD: value read (both); STORE: eb = value stored; XCHG: ea = old, eb = new;
   CAS/CASW: ea = value observed, eb = value to store, eok = 1 on success; ADD..XOR: ea = old, eb = operand;
   notes and user events: free-form arguments *)
Record event := mkEv { ek : Z; eord : Z; eobj : Z; eoff : Z; esz : Z; ea : Z; eb : Z; eok : Z }.

Definition ev_is (e : event) (k ord off : Z) : bool := (ek e =? k) && (eord e =? ord) && (eoff e =? off).
Definition ev_kind (e : event) (k : Z) : bool := ek e =? k.

Definition wrapsz (sz v : Z) : Z := v mod 2 ^ (8 * sz).

(* value of a word after a fetch-op event *)
Definition rmw_result (e : event) : Z :=
  let sz := esz e in
  if ek e =? DV_ADD then wrapsz sz (ea e + eb e)
  else if ek e =? DV_SUB then wrapsz sz (ea e - eb e)
  else if ek e =? DV_AND then Z.land (ea e) (eb e)
  else if ek e =? DV_OR then Z.lor (ea e) (eb e)
  else if ek e =? DV_XOR then Z.lxor (ea e) (eb e)
  else ea e.

(* generic run of a thread automaton over a recorded trace: Some final state, or None with the index of the
   first rejected event *)
Section Run.
  Context {L : Type} (tstep : L -> event -> option L).
  Fixpoint run_trace (l : L) (tr : list event) (i : Z) : L * Z :=
    match tr with
    | [] => (l, -1)
    | e :: tr' => match tstep l e with
                  | Some l' => run_trace l' tr' (i + 1)
                  | None => (l, i)
                  end
    end.
End Run.

(* reachability and invariants of a labelled transition system *)
Section LTS.
  Context {S A : Type} (init : S -> Prop) (step : S -> A -> S -> Prop).
  Inductive reachable : S -> Prop :=
  | reach_init s : init s -> reachable s
  | reach_step s a s' : reachable s -> step s a s' -> reachable s'.
  Lemma invariant_lift (Inv : S -> Prop) :
    (forall s, init s -> Inv s) -> (forall s a s', Inv s -> step s a s' -> Inv s') ->
    forall s, reachable s -> Inv s.
  Proof. intros Hi Hs s R. induction R; eauto. Qed.
End LTS.

(* thread maps: total functions with a point update kept opaque to cbn/simpl *)
Definition upd {V : Type} (f : Z -> V) (t : Z) (v : V) : Z -> V := fun u => if u =? t then v else f u.
Lemma upd_same {V} (f : Z -> V) t v : upd f t v t = v.
Proof. unfold upd. rewrite Z.eqb_refl. reflexivity. Qed.
Lemma upd_other {V} (f : Z -> V) t v u : u <> t -> upd f t v u = f u.
Proof. unfold upd. intros H. destruct (Z.eqb_spec u t); [contradiction|reflexivity]. Qed.
Arguments upd : simpl never.
