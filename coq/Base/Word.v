(* Word.v — C integer semantics used by every generated definition.
   Values are mathematical integers (Z); each C operation whose result may
   leave the range of its C type is emitted with an explicit wrap. No proofs of
   properties here, only definitions and basic range lemmas. *)
From Coq Require Export ZArith List Bool Lia.
Export ListNotations.
Local Open Scope Z_scope.

Definition wrapu (n : Z) (x : Z) : Z := x mod 2 ^ n.
Definition wraps (n : Z) (x : Z) : Z := (x + 2 ^ (n - 1)) mod 2 ^ n - 2 ^ (n - 1).

Definition u64 (x : Z) : Z := x mod 18446744073709551616.
Definition s64 (x : Z) : Z :=
  (x + 9223372036854775808) mod 18446744073709551616 - 9223372036854775808.
Definition u32 (x : Z) : Z := x mod 4294967296.
Definition s32 (x : Z) : Z := (x + 2147483648) mod 4294967296 - 2147483648.
Definition u16 (x : Z) : Z := x mod 65536.
Definition s16 (x : Z) : Z := (x + 32768) mod 65536 - 32768.
Definition u8 (x : Z) : Z := x mod 256.
Definition s8 (x : Z) : Z := (x + 128) mod 256 - 128.

Definition b2z (b : bool) : Z := if b then 1 else 0.
Definition nz (x : Z) : bool := negb (Z.eqb x 0).

(* bitwise complement within an unsigned type of n bits *)
Definition notu (n : Z) (x : Z) : Z := 2 ^ n - 1 - x.
Definition not64 (x : Z) : Z := 18446744073709551615 - x.
Definition not32 (x : Z) : Z := 4294967295 - x.
Definition not16 (x : Z) : Z := 65535 - x.
Definition not8 (x : Z) : Z := 255 - x.
(* complement in a signed type is Z.lnot (= -x-1) *)

(* count leading/trailing zeros for the builtins (undefined at 0 in C; we
   return the width, flagged in the trusted base) *)
Definition clz (n : Z) (x : Z) : Z := if Z.eqb x 0 then n else n - 1 - Z.log2 x.
Fixpoint ctz_pos (p : positive) : Z :=
  match p with xO q => 1 + ctz_pos q | _ => 0 end.
Definition ctz (n : Z) (x : Z) : Z :=
  match x with Z0 => n | Zpos p => ctz_pos p | Zneg p => ctz_pos p end.

(* memory orders as they appear in the source *)
Inductive morder := Relaxed | Consume | Acquire | Release | AcqRel | SeqCst.

(* atomic operations that may appear in a give-up block of an rmw loop *)
Inductive aop :=
| AFence (o : morder)
| AXor (field : nat) (v : Z) (o : morder)
| AOr (field : nat) (v : Z) (o : morder)
| AAnd (field : nat) (v : Z) (o : morder)
| AAdd (field : nat) (v : Z) (o : morder)
| ASub (field : nat) (v : Z) (o : morder)
| AStore (field : nat) (v : Z) (o : morder)
| AOther (field : nat) (o : morder).

(* Result of one iteration of an os_atomic_rmw_loop, as a function of the value
   the iteration read, for a function containing exactly one such loop:
   Commit new ret  : the iteration tries CAS(old -> new); when it succeeds the
                     enclosing function returns ret (post-loop code included);
   NoCommit ret xs : the loop is left without a write (give-up); the enclosing
                     function returns ret after performing the atomic ops xs;
   Restart xs      : a give-up block performed xs and jumped back before the loop (goto retry);
   NoCommit 2 xs   : (loop-only translations) the give-up block jumped forward, past the loop;
   Crash           : a path that ends in DISPATCH_*_CRASH / __builtin_trap. *)
Inductive rmw_outcome :=
| Commit (new : Z) (ret : Z)
| NoCommit (ret : Z) (extra : list aop)
| Restart (extra : list aop)
| Crash (tag : Z).

(* an atomic site of a C function: line is informational only *)
Inductive akind := KLoad | KStore | KXchg | KCas | KCasWeak | KAdd | KSub | KAnd | KOr | KXor | KFence.
Record site := { s_kind : akind; s_field : nat; s_order : morder }.

Lemma u64_range x : 0 <= u64 x < 18446744073709551616.
Proof. unfold u64. apply Z.mod_pos_bound. lia. Qed.
Lemma s64_range x : -9223372036854775808 <= s64 x < 9223372036854775808.
Proof. unfold s64. pose proof (Z.mod_pos_bound (x + 9223372036854775808) 18446744073709551616). lia. Qed.
Lemma u64_id x : 0 <= x < 18446744073709551616 -> u64 x = x.
Proof. intros. unfold u64. apply Z.mod_small. lia. Qed.
Lemma s64_id x : -9223372036854775808 <= x < 9223372036854775808 -> s64 x = x.
Proof. intros. unfold s64. rewrite Z.mod_small; lia. Qed.
Lemma u32_range x : 0 <= u32 x < 4294967296.
Proof. unfold u32. apply Z.mod_pos_bound. lia. Qed.
Lemma u32_id x : 0 <= x < 4294967296 -> u32 x = x.
Proof. intros. unfold u32. apply Z.mod_small. lia. Qed.
