(* Heap.v — executable model of the timer double min-heap of src/event/event.c:341-764, case by case.
   Definitions only (proofs: Proofs/Heap_proofs.v).

   C data                                     model
   dth_count, dth_segments, dth_max_qos,      h_count, h_segs, h_maxqos, h_np
   dth_needs_program
   dth_min[2] + segments (array by idx)       h_slot : idx -> timer id (0 = NULL), a FLAT map; the segmented storage is
                                              modelled by slot_addr (the cell _dispatch_timer_heap_get_slot computes)
                                              and the statement that it is injective and in bounds (Heap_proofs.v)
   dt->dt_heap_entry[hid]                     h_ent hid t
   dt->dt_timer.heap_key[hid]                 key hid t  (parameter: the heap code only reads keys)
   timers are identified by non-zero integers (the C pointers); 0 is NULL.

   Index arithmetic (parent, left_child, capacity) is NOT re-typed: it is Gen_timer, translated from the source. *)
From Coq Require Import ZArith List Bool.
From Verif Require Import Word Gen_consts Gen_timer.
Import ListNotations.
Local Open Scope Z_scope.

Definition upd (f : Z -> Z) (i v : Z) : Z -> Z := fun j => if Z.eqb j i then v else f j.
Definition upd2 (f : Z -> Z -> Z) (a i v : Z) : Z -> Z -> Z :=
  fun b j => if Z.eqb b a then (if Z.eqb j i then v else f b j) else f b j.

Record heap := mkHeap {
  h_count : Z;            (* uint32_t dth_count: DTH_ID_COUNT * number of timers *)
  h_segs : Z;             (* uint8_t  dth_segments *)
  h_maxqos : Z;           (* uint8_t  dth_max_qos *)
  h_np : bool;            (* dth_needs_program *)
  h_slot : Z -> Z;        (* the array, by idx *)
  h_ent : Z -> Z -> Z     (* hid -> timer -> dt_heap_entry[hid] *)
}.

Definition empty_heap : heap :=
  mkHeap 0 0 0 false (fun _ => 0) (fun _ _ => DTH_INVALID_ID).

Definition set_count h c := mkHeap c (h_segs h) (h_maxqos h) (h_np h) (h_slot h) (h_ent h).
Definition set_segs h s := mkHeap (h_count h) s (h_maxqos h) (h_np h) (h_slot h) (h_ent h).
Definition set_np h b := mkHeap (h_count h) (h_segs h) (h_maxqos h) b (h_slot h) (h_ent h).
Definition set_maxqos h q := mkHeap (h_count h) (h_segs h) q (h_np h) (h_slot h) (h_ent h).
Definition set_slot h i v := mkHeap (h_count h) (h_segs h) (h_maxqos h) (h_np h) (upd (h_slot h) i v) (h_ent h).
Definition set_ent h hid t v := mkHeap (h_count h) (h_segs h) (h_maxqos h) (h_np h) (h_slot h) (upd2 (h_ent h) hid t v).

(* DTH_HEAP_ID(idx) = idx & (DTH_ID_COUNT - 1) *)
Definition heap_id (idx : Z) : Z := Z.land idx (DTH_ID_COUNT - 1).

Definition parent := f_dispatch_timer_heap_parent.
Definition left_child := f_dispatch_timer_heap_left_child.
Definition capacity := f_dispatch_timer_heap_capacity.

(* _dispatch_timer_heap_set (event.c:467): the slot pointer always designates cell idx *)
Definition heap_set (h : heap) (idx dt : Z) : heap :=
  mkHeap (h_count h) (h_segs h) (h_maxqos h)
         (if idx <? DTH_ID_COUNT then true else h_np h)
         (upd (h_slot h) idx dt)
         (upd2 (h_ent h) (heap_id idx) dt idx).

(* _dispatch_timer_heap_resift, first loop (event.c:634-645).  fuel: the index strictly decreases *)
Fixpoint sift_up (fuel : nat) (key : Z -> Z -> Z) (hid dt : Z) (h : heap) (idx : Z) (su : bool)
  : heap * Z * bool :=
  match fuel with
  | O => (h, idx, su)
  | S fuel' =>
    if idx >=? DTH_ID_COUNT then
      let pidx := parent idx in
      let pdt := h_slot h pidx in
      if key hid pdt <=? key hid dt then (h, idx, su)
      else sift_up fuel' key hid dt (heap_set h idx pdt) pidx true
    else (h, idx, su)
  end.

(* second loop (event.c:652-671).  fuel: the index strictly increases and stays below dth_count *)
Fixpoint sift_down (fuel : nat) (key : Z -> Z -> Z) (hid dt : Z) (h : heap) (idx : Z) : heap * Z :=
  match fuel with
  | O => (h, idx)
  | S fuel' =>
    let cidx := left_child idx in
    if cidx <? h_count h then
      let ridx := u32 (cidx + DTH_ID_COUNT) in
      let cdt := h_slot h cidx in
      let '(cidx1, cdt1) :=
        if ridx <? h_count h then
          let rdt := h_slot h ridx in
          if key hid cdt >? key hid rdt then (ridx, rdt) else (cidx, cdt)
        else (cidx, cdt) in
      if key hid dt <=? key hid cdt1 then (h, idx)
      else sift_down fuel' key hid dt (heap_set h idx cdt1) cidx1
    else (h, idx)
  end.

Definition resift (key : Z -> Z -> Z) (h : heap) (dt idx : Z) : heap :=
  let hid := heap_id idx in
  let '(h1, i1, su) := sift_up (Z.to_nat idx) key hid dt h idx false in
  if su then heap_set h1 i1 dt
  else let '(h2, i2) := sift_down (Z.to_nat (h_count h1)) key hid dt h1 i1 in
       heap_set h2 i2 dt.

(* grow / shrink (event.c:386-430): on the flat map only the segment count changes *)
Definition grow h := set_segs h (u8 (h_segs h + 1)).
Definition shrink h := set_segs h (u8 (h_segs h - 1)).

(* _dispatch_timer_heap_insert (event.c:679).  qos = MAX(priority qos, fallback qos) of the unote *)
Definition insert (key : Z -> Z -> Z) (h : heap) (dt qos : Z) : heap :=
  let idx := h_count h in
  let h0 := set_count h (u32 (idx + DTH_ID_COUNT)) in
  let h0 := if h_maxqos h0 <? qos then set_np (set_maxqos h0 (u8 qos)) true else h0 in
  if idx =? 0 then
    let h1 := set_np h0 true in
    let h1 := set_ent (set_ent h1 DTH_TARGET_ID dt DTH_TARGET_ID) DTH_DEADLINE_ID dt DTH_DEADLINE_ID in
    set_slot (set_slot h1 DTH_DEADLINE_ID dt) DTH_TARGET_ID dt
  else
    let h1 := if u32 (idx + DTH_ID_COUNT) >? capacity (h_segs h0) then grow h0 else h0 in
    let h2 := resift key h1 dt (u32 (idx + DTH_TARGET_ID)) in
    resift key h2 dt (u32 (idx + DTH_DEADLINE_ID)).

Definition clear_ent h dt :=
  set_ent (set_ent h DTH_TARGET_ID dt DTH_INVALID_ID) DTH_DEADLINE_ID dt DTH_INVALID_ID.

(* one iteration of the for loop of _dispatch_timer_heap_remove (event.c:734-742) *)
Definition remove_step (key : Z -> Z -> Z) (dt idx : Z) (h : heap) (hid : Z) : heap :=
  let l := u32 (idx + hid) in
  let last_dt := h_slot h l in
  let h' := set_slot h l 0 in
  if last_dt =? dt then h'
  else resift key h' last_dt (h_ent h' hid dt).

(* _dispatch_timer_heap_remove (event.c:713) *)
Definition remove (key : Z -> Z -> Z) (h : heap) (dt : Z) : heap :=
  let idx := u32 (h_count h - DTH_ID_COUNT) in
  let h0 := set_count h idx in
  if idx =? 0 then
    clear_ent (set_slot (set_slot (set_np h0 true) DTH_DEADLINE_ID 0) DTH_TARGET_ID 0) dt
  else
    let h1 := remove_step key dt idx h0 0 in
    let h2 := remove_step key dt idx h1 1 in
    let h3 := if idx <=? capacity (u32 (h_segs h2 - 1)) then shrink h2 else h2 in
    clear_ent h3 dt.

(* _dispatch_timer_heap_update (event.c:752): called after the keys of dt were changed *)
Definition update (key : Z -> Z -> Z) (h : heap) (dt : Z) : heap :=
  let h1 := resift key h dt (h_ent h DTH_TARGET_ID dt) in
  resift key h1 dt (h_ent h1 DTH_DEADLINE_ID dt).

(* ---- segmented storage: the cell computed by _dispatch_timer_heap_get_slot (event.c:432).
   (-1, idx) stands for dth_min[idx]; (k, off) for cell off of segment k.  C = 8 *)
Definition SEG_C : Z := 8.
Definition seg_capacity (k : Z) : Z := if k =? 0 then SEG_C else Z.shiftl SEG_C (k - 1).
Definition seg_no_of (i : Z) : Z := clz 32 (SEG_C - 1) - clz 32 (Z.lor i (SEG_C - 1)).
Definition slot_addr (idx : Z) : Z * Z :=
  if idx <? DTH_ID_COUNT then (-1, idx)
  else
    let i := u32 (idx - DTH_ID_COUNT) in
    let k := u32 (seg_no_of i) in
    (k, if nz k then u32 (i - u32 (Z.shiftl SEG_C (k - 1))) else i).
(* cells of segment k usable for timers when `segments` segments are allocated: the last segment keeps its final
   (segments - 1) cells for the pointers to the other segments *)
Definition seg_usable (segments k : Z) : Z :=
  if k =? segments - 1 then seg_capacity k - k else seg_capacity k.
(* cell of the last segment that holds the pointer to segment k < segments - 1 (event.c:455-457) *)
Definition seg_ptr_cell (segments k : Z) : Z := seg_capacity (segments - 1) - k - 1.

(* ---- observation used by the correspondence harness *)
Definition zrange (n : Z) : list Z := map Z.of_nat (seq 0 (Z.to_nat n)).
Definition dump (h : heap) (ntimers : Z) : list Z :=
  [h_count h; h_segs h; b2z (h_np h); capacity (h_segs h)]
  ++ map (h_slot h) (zrange (capacity (h_segs h)))
  ++ flat_map (fun t => [h_ent h 0 (t + 1); h_ent h 1 (t + 1)]) (zrange ntimers).

(* operations of the harness protocol *)
Inductive hop := HIns (t tgt dl : Z) | HDel (t : Z) | HUpd (t tgt dl : Z).
Definition keymap := Z -> Z -> Z.
Definition set_keys (k : keymap) (t tgt dl : Z) : keymap := upd2 (upd2 k 0 t tgt) 1 t dl.
Definition hstep (st : keymap * heap) (o : hop) : keymap * heap :=
  let '(k, h) := st in
  let h := set_np h false in
  match o with
  | HIns t a b => let k' := set_keys k t a b in (k', insert k' h t 0)
  | HDel t => (k, remove k h t)
  | HUpd t a b => let k' := set_keys k t a b in (k', update k' h t)
  end.
Fixpoint hrun (n : Z) (st : keymap * heap) (ops : list hop) : list (list Z) :=
  match ops with
  | [] => []
  | o :: r => let st' := hstep st o in dump (snd st') n :: hrun n st' r
  end.
Definition hrun0 (n : Z) (ops : list hop) := hrun n (fun _ _ => 0, empty_heap) ops.

(* comparison inside Coq: one flag per step (1 = the dump of the model equals the recorded dump of the library) *)
Fixpoint zl_eqb (a b : list Z) : bool :=
  match a, b with
  | [], [] => true
  | x :: a', y :: b' => Z.eqb x y && zl_eqb a' b'
  | _, _ => false
  end.
(* evaluation aid only: the same maps re-tabulated as lists, so that look-ups do not walk the history of updates
   (pointwise equal to the argument on every index: Heap_proofs.compact_eq) *)
Definition tab (f : Z -> Z) (n : Z) : Z -> Z :=
  let l := map f (zrange n) in
  fun i => if (0 <=? i) && (i <? n) then nth (Z.to_nat i) l 0 else f i.
Definition compact (h : heap) (n : Z) : heap :=
  let s := tab (h_slot h) (capacity (h_segs h)) in
  let e0 := tab (h_ent h 0) (n + 1) in
  let e1 := tab (h_ent h 1) (n + 1) in
  mkHeap (h_count h) (h_segs h) (h_maxqos h) (h_np h) s
         (fun hid => if hid =? 0 then e0 else if hid =? 1 then e1 else h_ent h hid).
Definition compact_keys (k : keymap) (n : Z) : keymap :=
  let k0 := tab (k 0) (n + 1) in
  let k1 := tab (k 1) (n + 1) in
  fun hid => if hid =? 0 then k0 else if hid =? 1 then k1 else k hid.
Fixpoint hcheck (n : Z) (st : keymap * heap) (ops : list (hop * list Z)) : list Z :=
  match ops with
  | [] => []
  | (o, e) :: r =>
    let st' := hstep st o in
    let st' := (compact_keys (fst st') n, compact (snd st') n) in
    b2z (zl_eqb (dump (snd st') n) e) :: hcheck n st' r
  end.
Definition hcheck0 (n : Z) (ops : list (hop * list Z)) := hcheck n (fun _ _ => 0, empty_heap) ops.
