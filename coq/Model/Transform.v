(* Transform.v — executable model of /repo/src/transform.c over REGION LISTS.
   A dispatch_data object is the list of byte regions that dispatch_data_apply presents (no region is empty: data.c
   never builds one).  Every function below follows the C function of the same name branch by branch; numbers in
   OOB/site arguments are source lines of transform.c.  Sizes are size_t (u64 where the C arithmetic can wrap).
   Outcomes:  Ok v   the C function returns v
              Null   it returns NULL / false (DISPATCH_BAD_INPUT)
              OOB n  the statement at line n reads or writes memory outside the object it addresses
                     (or hands out a data object that claims such memory)
   Definitions only; proofs are in Proofs/Transform_proofs.v. *)
From Coq Require Import ZArith List Bool.
From Verif Require Import Word.
Import ListNotations.
Local Open Scope Z_scope.

Inductive res (A : Type) : Type := Ok (a : A) | Null | OOB (site : Z).
Arguments Ok {A} a.
Arguments Null {A}.
Arguments OOB {A} site.

Definition bind {A B} (m : res A) (f : A -> res B) : res B :=
  match m with Ok a => f a | Null => Null | OOB s => OOB s end.
Notation "'do' x <- m ; f" := (bind m (fun x => f))
  (at level 200, x name, m at level 100, f at level 200, right associativity).
Notation "'do' ' p <- m ; f" := (bind m (fun ' p => f))
  (at level 200, p strict pattern, m at level 100, f at level 200, right associativity).

Definition data := list (list Z).

(* ---------------------------------------------------------------- memory access *)

(* bytes[i] of a buffer that holds exactly the list: None = outside *)
Definition rd (l : list Z) (i : Z) : option Z :=
  if i <? 0 then None else nth_error l (Z.to_nat i).

Definition rdo (site : Z) (l : list Z) (i : Z) : res Z :=
  match rd l i with Some b => Ok b | None => OOB site end.

Definition flat (d : data) : list Z := concat d.
Definition dsize (d : data) : Z := Zlength (flat d).

(* dispatch_data_create(buf, n): the empty object has no region *)
Definition data_create (l : list Z) : data := match l with [] => [] | _ => [l] end.
Definition data_concat (a b : data) : data := a ++ b.

(* rest of the region that contains absolute offset off (the memory reachable from a direct map) *)
Fixpoint region_rest (d : data) (off : Z) : list Z :=
  match d with
  | [] => []
  | r :: d' => if off <? Zlength r then skipn (Z.to_nat off) r else region_rest d' (off - Zlength r)
  end.

(* _dispatch_data_subrange_map(data, &p, off, n): None = NULL; Some m = the memory readable from p:
   dispatch_data_create_subrange clamps, the size test rejects clamped ranges; dispatch_data_create_map returns a
   pointer into the leaf when the range lies in one region (then the rest of that region is addressable memory),
   otherwise a fresh buffer of exactly n bytes. *)
Definition sub_map (d : data) (off n : Z) : option (list Z) :=
  let total := dsize d in
  if (off <? total) && (0 <? n) && (n <=? total - off) then
    let rest := region_rest d off in
    if n <=? Zlength rest then Some rest
    else Some (firstn (Z.to_nat n) (skipn (Z.to_nat off) (flat d)))
  else None.

(* output through a moving pointer into a malloc'ed buffer of cap bytes: (bytes written, bytes in reverse order) *)
Definition obuf := (Z * list Z)%type.
Definition wr (site cap : Z) (o : obuf) (b : Z) : res obuf :=
  let '(n, l) := o in if (0 <=? n) && (n <? cap) then Ok (n + 1, b :: l) else OOB site.

(* for (i = i0; i < i0 + fuel; i++) body *)
Fixpoint iter {S : Type} (fuel : nat) (i : Z) (body : Z -> S -> res S) (s : S) : res S :=
  match fuel with
  | O => Ok s
  | S f => do s' <- body i s; iter f (i + 1) body s'
  end.

Definition howmany (x y : Z) : Z := (x + (y - 1)) / y.
Definition SIZE_MAX : Z := 18446744073709551615.
Definition BUFFER_MALLOC_MAX : Z := 100 * 1024 * 1024.

(* ---------------------------------------------------------------- tables (transform.c:74-118) *)

Definition base32_encode_table : list Z :=
  [65;66;67;68;69;70;71;72;73;74;75;76;77;78;79;80;81;82;83;84;85;86;87;88;89;90;50;51;52;53;54;55].
Definition base32_decode_table : list Z :=
  [-1;-1;-1;-1;-1;-1;-1;-1;-1;-1;-1;-1;-1;-1;-1;-1;-1;
   -1;-1;-1;-1;-1;-1;-1;-1;-1;-1;-1;-1;-1;-1;-1;-1;-1;
   -1;-1;-1;-1;-1;-1;-1;-1;-1;-1;-1;-1;-1;-1;-1;-1;26;
   27;28;29;30;31;-1;-1;-1;-1;-1;-2;-1;-1;-1; 0; 1; 2;
    3; 4; 5; 6; 7; 8; 9;10;11;12;13;14;15;16;17;18;19;
   20;21;22;23;24;25].
Definition base32_decode_table_size : Z := Zlength base32_decode_table.

Definition base32hex_encode_table : list Z :=
  [48;49;50;51;52;53;54;55;56;57;65;66;67;68;69;70;71;72;73;74;75;76;77;78;79;80;81;82;83;84;85;86].
Definition base32hex_decode_table : list Z :=
  [-1;-1;-1;-1;-1;-1;-1;-1;-1;-1;-1;-1;-1;-1;-1;-1;-1;
   -1;-1;-1;-1;-1;-1;-1;-1;-1;-1;-1;-1;-1;-1;-1;-1;-1;
   -1;-1;-1;-1;-1;-1;-1;-1;-1;-1;-1;-1;-1;-1; 0; 1; 2;
    3; 4; 5; 6; 7; 8; 9;-1;-1;-1;-2;-1;-1;-1;10;11;12;
   13;14;15;16;17;18;19;20;21;22;23;24;25;26;27;28;29;
   30;31].

Definition base32hex_decode_table_size : Z := Zlength base32hex_decode_table.

Definition base64_encode_table : list Z :=
  [65;66;67;68;69;70;71;72;73;74;75;76;77;78;79;80;81;82;83;84;85;86;87;88;89;90;
   97;98;99;100;101;102;103;104;105;106;107;108;109;110;111;112;113;114;115;116;117;118;119;120;121;122;
   48;49;50;51;52;53;54;55;56;57;43;47].
Definition base64_decode_table : list Z :=
  [-1;-1;-1;-1;-1;-1;-1;-1;-1;-1;-1;-1;-1;-1;
   -1;-1;-1;-1;-1;-1;-1;-1;-1;-1;-1;-1;-1;-1;
   -1;-1;-1;-1;-1;-1;-1;-1;-1;-1;-1;-1;-1;-1;
   -1;62;-1;-1;-1;63;52;53;54;55;56;57;58;59;
   60;61;-1;-1;-1;-2;-1;-1;-1; 0; 1; 2; 3; 4;
    5; 6; 7; 8; 9;10;11;12;13;14;15;16;17;18;
   19;20;21;22;23;24;25;-1;-1;-1;-1;-1;-1;26;
   27;28;29;30;31;32;33;34;35;36;37;38;39;40;
   41;42;43;44;45;46;47;48;49;50;51].
Definition base64_decode_table_size : Z := Zlength base64_decode_table.

Definition PAD : Z := 61. (* '=' *)
Definition is_ws (b : Z) : bool := (b =? 10) || (b =? 9) || (b =? 32).

(* ---------------------------------------------------------------- dispatch_transform_buffer (transform.c:123-169) *)

Record tbuf := { tb_data : data;      (* buffer->data *)
                 tb_has : bool;        (* buffer->start != NULL *)
                 tb_cur : obuf;        (* ptr - start, bytes written since start *)
                 tb_size : Z }.        (* buffer->size *)
Definition tbuf_init : tbuf := {| tb_data := []; tb_has := false; tb_cur := (0, []); tb_size := 0 |}.

Definition buffer_new (b : tbuf) (required size : Z) : res tbuf :=
  let remaining := u64 (tb_size b - fst (tb_cur b)) in
  if (required =? 0) || (remaining <? required) then
    let d := if tb_has b && (0 <? fst (tb_cur b))
             then data_concat (tb_data b) (data_create (rev (snd (tb_cur b)))) else tb_data b in
    let nsize := u64 (required + size) in
    if 0 <? nsize then
      if BUFFER_MALLOC_MAX <? nsize then Null
      else Ok {| tb_data := d; tb_has := true; tb_cur := (0, []); tb_size := nsize |}
    else Ok {| tb_data := d; tb_has := false; tb_cur := (0, []); tb_size := 0 |}
  else Ok b.

(* *(buffer.ptr.u8)++ = v *)
Definition tb_put (site : Z) (b : tbuf) (v : Z) : res tbuf :=
  if tb_has b then
    do o <- wr site (tb_size b) (tb_cur b) v;
    Ok {| tb_data := tb_data b; tb_has := true; tb_cur := o; tb_size := tb_size b |}
  else OOB site.

(* *(buffer.ptr.u16)++ = _dispatch_transform_swap_from_host(v, byteOrder)   (host is little-endian) *)
Definition tb_put16 (site : Z) (le : bool) (b : tbuf) (v : Z) : res tbuf :=
  let v := u16 v in
  let lo := Z.land v 255 in let hi := Z.shiftr v 8 in
  do b1 <- tb_put site b (if le then lo else hi);
  tb_put site b1 (if le then hi else lo).

(* _dispatch_transform_swap_to_host applied to the uint16_t at p (bytes b0 b1), little-endian host *)
Definition get16 (le : bool) (b0 b1 : Z) : Z := if le then b0 + 256 * b1 else b0 * 256 + b1.

(* ---------------------------------------------------------------- UTF-8 helpers (transform.c:233-288) *)

Definition utf8_length (byte : Z) : Z :=
  if Z.land byte 128 =? 0 then 1
  else if Z.land byte 224 =? 192 then 2
  else if Z.land byte 240 =? 224 then 3
  else if Z.land byte 248 =? 240 then 4
  else 0.

(* the while loop of _dispatch_transform_read_utf8_sequence: k = index of *bytes, n = seq_length *)
Fixpoint read_cont (site : Z) (m : list Z) (fuel : nat) (k n wch : Z) : res Z :=
  match fuel with
  | O => Ok wch
  | S f =>
    if 0 <? n then
      do b <- rdo site m k;
      let wch := Z.lor wch (Z.land b 63) in
      let n := n - 1 in
      let wch := if 0 <? n then u32 (Z.shiftl wch 6) else wch in
      read_cont site m f (k + 1) n wch
    else Ok wch
  end.

(* m = the memory readable from `bytes` *)
Definition read_utf8_sequence (site : Z) (m : list Z) : res Z :=
  do b0 <- rdo site m 0;
  let seq_length := utf8_length b0 in
  let wch :=
    if seq_length =? 4 then Z.shiftl (Z.land b0 7) 6
    else if seq_length =? 3 then Z.shiftl (Z.land b0 15) 6
    else if seq_length =? 2 then Z.shiftl (Z.land b0 31) 6
    else if seq_length =? 1 then Z.land b0 127
    else 0 in
  let n := u8 (seq_length - 1) in   (* uint8_t seq_length-- : 0 becomes 255 *)
  read_cont site m 256 1 n wch.

(* ---------------------------------------------------------------- _dispatch_transform_to_utf16 (293-400) *)

(* loop state: i, skip, buffer.  s0 = bytes of the region consumed by `src += skip`, size = remaining size *)
Fixpoint to16_loop (d : data) (le : bool) (offset : Z) (r : list Z) (s0 size : Z) (fuel : nat)
    (i skip : Z) (b : tbuf) : res (Z * tbuf) :=
  match fuel with
  | O => Ok (skip, b)
  | S f =>
    if i <? size then
      do c <- rdo 333 r (s0 + i);
      let byte_size := utf8_length c in
      let first := u64 (offset + i) =? 0 in
      if byte_size =? 0 then Null
      else
        do '(wch, i, skip) <-
          (if size <? byte_size + i then
             match sub_map d (u64 (offset + i)) byte_size with
             | None => Null
             | Some m =>
               do wch <- read_utf8_sequence 347 m;
               Ok (wch, size, u64 (skip + (byte_size - (size - i))))
             end
           else
             do wch <- read_utf8_sequence 354 (skipn (Z.to_nat (s0 + i)) r);
             Ok (wch, i + byte_size, skip));
        let next := (size - i) * 2 in
        if SIZE_MAX <? next then Null
        else if (wch =? 65279) && first then
          to16_loop d le offset r s0 size f i skip b
        else if (55296 <=? wch) && (wch <=? 57343) then Null
        else if 65536 <=? wch then
          do b <- buffer_new b 4 next;
          let w := u32 (wch - 65536) in
          do b <- tb_put16 374 le b (Z.land (Z.shiftr w 10) 1023 + 55296);
          do b <- tb_put16 376 le b (Z.land w 1023 + 56320);
          to16_loop d le offset r s0 size f i skip b
        else
          do b <- buffer_new b 2 next;
          do b <- tb_put16 383 le b (Z.land wch 65535);
          to16_loop d le offset r s0 size f i skip b
    else Ok (skip, b)
  end.

Definition to16_region (d : data) (le : bool) (st : Z * tbuf) (offset : Z) (r : list Z) : res (Z * tbuf) :=
  let '(skip, b) := st in
  let size := Zlength r in
  do b <- (if offset =? 0 then
             let dest_size := size * 2 + 2 in
             if SIZE_MAX <? dest_size then Null
             else do b <- buffer_new b dest_size 0; tb_put16 317 le b 65279
           else Ok b);
  if size <=? skip then Ok (u64 (skip - size), b)
  else
    let '(s0, size, offset, skip) :=
      if 0 <? skip then (skip, size - skip, u64 (offset + skip), 0) else (0, size, offset, skip) in
    do '(skip, b) <- to16_loop d le offset r s0 size (Z.to_nat size) 0 skip b;
    do b <- buffer_new b 0 0;
    Ok (skip, b).

(* dispatch_data_apply: applier on each region with its offset *)
Fixpoint apply_regions {S : Type} (f : S -> Z -> list Z -> res S) (rs : data) (offset : Z) (s : S) : res S :=
  match rs with
  | [] => Ok s
  | r :: rs' => do s' <- f s offset r; apply_regions f rs' (offset + Zlength r) s'
  end.

Definition to_utf16 (le : bool) (d : data) : res data :=
  do '(sk, b) <- apply_regions (to16_region d le) d 0 (0, tbuf_init);
  Ok (tb_data b).

(* ---------------------------------------------------------------- _dispatch_transform_from_utf16 (402-544) *)

(* src[i] after `src = (uint8_t * )src + s0` *)
Definition src16 (site : Z) (le : bool) (r : list Z) (s0 i : Z) : res Z :=
  do b0 <- rdo site r (s0 + 2 * i);
  do b1 <- rdo site r (s0 + 2 * i + 1);
  Ok (get16 le b0 b1).

Definition put_utf8 (b : tbuf) (wch next : Z) : res tbuf :=
  if wch <? 128 then
    do b <- buffer_new b 1 next;
    tb_put 507 b (u8 (Z.land wch 255))
  else if wch <? 2048 then
    do b <- buffer_new b 2 next;
    do b <- tb_put 512 b (u8 (Z.lor 192 (Z.shiftr wch 6)));
    tb_put 513 b (u8 (Z.lor 128 (Z.land wch 63)))
  else if wch <? 65536 then
    do b <- buffer_new b 3 next;
    do b <- tb_put 518 b (u8 (Z.lor 224 (Z.shiftr wch 12)));
    do b <- tb_put 519 b (u8 (Z.lor 128 (Z.land (Z.shiftr wch 6) 63)));
    tb_put 520 b (u8 (Z.lor 128 (Z.land wch 63)))
  else if wch <? 2097152 then
    do b <- buffer_new b 4 next;
    do b <- tb_put 525 b (u8 (Z.lor 240 (Z.shiftr wch 18)));
    do b <- tb_put 526 b (u8 (Z.lor 128 (Z.land (Z.shiftr wch 12) 63)));
    do b <- tb_put 527 b (u8 (Z.lor 128 (Z.land (Z.shiftr wch 6) 63)));
    tb_put 528 b (u8 (Z.lor 128 (Z.land wch 63)))
  else Ok b.

Fixpoint from16_loop (d : data) (le : bool) (offset : Z) (r : list Z) (s0 size max : Z) (fuel : nat)
    (i skip : Z) (b : tbuf) : res (Z * tbuf) :=
  match fuel with
  | O => Ok (skip, b)
  | S f =>
    if i <? max then
      do '(ch, skip) <-
        (if (i =? max - 1) && (size / 2 <? max) then
           match sub_map d (u64 (offset + i * 2)) 2 with
           | None => Null
           | Some m =>
             do b0 <- rdo 455 m 0; do b1 <- rdo 455 m 1;
             Ok (get16 le b0 b1, u64 (skip + 1))
           end
         else do ch <- src16 460 le r s0 i; Ok (ch, skip));
      if (ch =? 65534) && (offset =? 0) && (i =? 0) then Null
      else if (ch =? 65279) && (offset =? 0) && (i =? 0) then
        from16_loop d le offset r s0 size max f (i + 1) skip b
      else
        do '(wch, i, skip) <-
          (if (55296 <=? ch) && (ch <=? 56319) then
             let wch := u32 (Z.shiftl (ch - 55296) 10) in
             let i := i + 1 in
             do '(ch, skip) <-
               (if size / 2 <=? i then
                  match sub_map d (u64 (offset + i * 2)) 2 with
                  | None => Null
                  | Some m =>
                    do b0 <- rdo 482 m 0; do b1 <- rdo 482 m 1;
                    Ok (get16 le b0 b1, u64 (i * 2 + 2 - size))
                  end
                else do ch <- src16 487 le r s0 i; Ok (ch, skip));
             if negb ((56320 <=? ch) && (ch <=? 57343)) then Null
             else Ok (u32 (Z.lor wch (Z.land ch 1023) + 65536), i, skip)
           else if (56320 <=? ch) && (ch <=? 57343) then Null
           else Ok (ch, i, skip));
        let next := (max - i) * 2 in
        if SIZE_MAX <? next then Null
        else
          do b <- put_utf8 b wch next;
          from16_loop d le offset r s0 size max f (i + 1) skip b
    else Ok (skip, b)
  end.

Definition from16_region (d : data) (le : bool) (st : Z * tbuf) (offset : Z) (r : list Z) : res (Z * tbuf) :=
  let '(skip, b) := st in
  let size := Zlength r in
  do b <- (if offset =? 0 then buffer_new b (howmany size 3 * 2) 0 else Ok b);
  if size <=? skip then Ok (u64 (skip - size), b)
  else
    let '(s0, size, offset, skip) :=
      if 0 <? skip then (skip, size - skip, u64 (offset + skip), 0) else (0, size, offset, skip) in
    let max := size / 2 in
    let max := if negb (size mod 2 =? 0) then max + 1 else max in
    do '(skip, b) <- from16_loop d le offset r s0 size max (Z.to_nat max) 0 skip b;
    do b <- buffer_new b 0 0;
    Ok (skip, b).

Definition from_utf16 (le : bool) (d : data) : res data :=
  do '(sk, b) <- apply_regions (from16_region d le) d 0 (0, tbuf_init);
  Ok (tb_data b).

(* ---------------------------------------------------------------- _dispatch_transform_to_utf8_without_bom (570-588) *)

Definition drop_bytes (n : nat) (d : data) : data := data_create (skipn n (flat d)).

Definition to_utf8_without_bom (d : data) : res data :=
  match sub_map d 0 3 with
  | Some m =>
    do b0 <- rdo 579 m 0; do b1 <- rdo 579 m 1; do b2 <- rdo 579 m 2;
    if (b0 =? 239) && (b1 =? 187) && (b2 =? 191)
    then Ok (drop_bytes 3 d)       (* dispatch_data_create_subrange(data, 3, size - 3): same bytes *)
    else Ok d
  | None => Ok d
  end.

(* ---------------------------------------------------------------- base32 decode (593-676) *)

(* block variables x, count, pad *)
Definition dec_st := (Z * Z * Z)%type.

(* the loop body after `bytes[i]` has been read into c *)
Definition b32d_char (table : list Z) (table_size : Z) (cap : Z) (c : Z) (s : dec_st * obuf)
    : res (dec_st * obuf) :=
  let '((x, count, pad), o) := s in
  if is_ws c then Ok s
  else
    let index := c in
    if table_size <=? index then Null
    else
      do v <- rdo 619 table index;
      if v =? -1 then Null
      else
        let count := u64 (count + 1) in
        let '(value, pad) := if v =? -2 then (0, u64 (pad + 1)) else (v, pad) in
        let x := u64 (u64 (Z.shiftl x 5) + u64 value) in
        if Z.land count 7 =? 0 then
          do o <- wr 635 cap o (Z.land (Z.shiftr x 32) 255);
          do o <- wr 636 cap o (Z.land (Z.shiftr x 24) 255);
          do o <- wr 637 cap o (Z.land (Z.shiftr x 16) 255);
          do o <- wr 638 cap o (Z.land (Z.shiftr x 8) 255);
          do o <- wr 639 cap o (Z.land x 255);
          (* switch (pad): ptr -= 1 | 2 | 3 | 4; pad = 0 *)
          let k := if pad =? 1 then 1 else if pad =? 3 then 2 else if pad =? 4 then 3 else if pad =? 6 then 4 else 0 in
          Ok ((x, count, 0), (fst o - k, skipn (Z.to_nat k) (snd o)))
        else Ok ((x, count, pad), o).

Definition b32d_body (table : list Z) (table_size : Z) (cap : Z) (r : list Z) (i : Z) (s : dec_st * obuf)
    : res (dec_st * obuf) :=
  do c <- rdo 614 r i; b32d_char table table_size cap c s.

Definition b32d_region (table : list Z) (table_size : Z) (st : dec_st * data) (offset : Z) (r : list Z)
    : res (dec_st * data) :=
  let '(s, rv) := st in
  let size := Zlength r in
  let dest_size := howmany size 8 * 5 in
  do '((x, count, pad), (n, out)) <- iter (Z.to_nat size) 0 (b32d_body table table_size dest_size r) (s, (0, []));
  let final := u64 n in
  (* dispatch_data_create(dest, final, ...): the object claims final bytes of a dest_size-byte buffer *)
  if dest_size <? final then OOB 662
  else Ok ((x, count, pad), data_concat rv (data_create (firstn (Z.to_nat final) (rev out)))).

Definition from_base32_with_table (table : list Z) (table_size : Z) (d : data) : res data :=
  do '(dst, rv) <- apply_regions (b32d_region table table_size) d 0 ((0, 0, 0), []);
  Ok rv.

(* ---------------------------------------------------------------- base32 encode (678-807) *)

(* the look-back `last` of both encoders: previous byte of the region, or a 1-byte map of offset-1 *)
Definition get_last (site : Z) (d : data) (r : list Z) (offset i : Z) : res Z :=
  if i =? 0 then
    match sub_map d (u64 (offset - 1)) 1 with
    | None => Null
    | Some m => rdo site m 0
    end
  else rdo site r (i - 1).

Definition tput (site : Z) (table : list Z) (cap : Z) (o : obuf) (k : Z) : res obuf :=
  do c <- rdo site table k; wr site cap o c.

Definition b32e_char (d : data) (table : list Z) (cap : Z) (r : list Z) (offset : Z) (i curr : Z) (s : Z * obuf)
    : res (Z * obuf) :=
  let '(count, o) := s in
  let ph := count mod 5 in
  do last <- (if ph =? 0 then Ok 0 else get_last 722 d r offset i);
  do o <-
    (if ph =? 0 then tput 732 table cap o (Z.land (Z.shiftr curr 3) 31)
     else if ph =? 1 then
       do o <- tput 736 table cap o (Z.land (Z.lor (Z.shiftl last 2) (Z.shiftr curr 6)) 31);
       tput 737 table cap o (Z.land (Z.shiftr curr 1) 31)
     else if ph =? 2 then tput 741 table cap o (Z.land (Z.lor (Z.shiftl last 4) (Z.shiftr curr 4)) 31)
     else if ph =? 3 then
       do o <- tput 745 table cap o (Z.land (Z.lor (Z.shiftl last 1) (Z.shiftr curr 7)) 31);
       tput 746 table cap o (Z.land (Z.shiftr curr 2) 31)
     else
       do o <- tput 750 table cap o (Z.land (Z.lor (Z.shiftl last 3) (Z.shiftr curr 5)) 31);
       tput 751 table cap o (Z.land curr 31));
  Ok (u64 (count + 1), o).

Definition b32e_body (d : data) (table : list Z) (cap : Z) (r : list Z) (offset : Z) (i : Z) (s : Z * obuf)
    : res (Z * obuf) :=
  do curr <- rdo 712 r i; b32e_char d table cap r offset i curr s.

Fixpoint wr_pad (site cap : Z) (n : nat) (o : obuf) : res obuf :=
  match n with O => Ok o | S n' => do o <- wr site cap o PAD; wr_pad site cap n' o end.

Definition b32e_region (d : data) (table : list Z) (total cap : Z) (st : Z * obuf) (offset : Z) (r : list Z)
    : res (Z * obuf) :=
  let size := Zlength r in
  do '(count, o) <- iter (Z.to_nat size) 0 (b32e_body d table cap r offset) st;
  if u64 (offset + size) =? total then
    let ph := count mod 5 in
    if ph =? 0 then Ok (count, o)
    else
      do lastb <- rdo 763 r (size - 1);
      do o <- tput 763 table cap o
                (if ph =? 1 then Z.land (Z.shiftl lastb 2) 28
                 else if ph =? 2 then Z.land (Z.shiftl lastb 4) 16
                 else if ph =? 3 then Z.land (Z.shiftl lastb 1) 30
                 else Z.land (Z.shiftl lastb 3) 24);
      do o <- wr_pad 782 cap (if ph =? 1 then 6%nat else if ph =? 2 then 4%nat else if ph =? 3 then 3%nat else 1%nat) o;
      Ok (count, o)
  else Ok (count, o).

Definition to_base32_with_table (table : list Z) (d : data) : res data :=
  let total := dsize d in
  let dest_size := howmany total 5 in
  if SIZE_MAX / 8 <? dest_size then Null
  else
    let dest_size := dest_size * 8 in
    do '(cnt, (n, out)) <- apply_regions (b32e_region d table total dest_size) d 0 (0, (0, []));
    (* dispatch_data_create(dest, dest_size): every byte of dest must have been written *)
    if n =? dest_size then Ok (data_create (rev out)) else OOB 805.

(* ---------------------------------------------------------------- base64 decode (839-912) *)

Definition b64d_char (cap : Z) (c : Z) (s : dec_st * obuf) : res (dec_st * obuf) :=
  let '((x, count, pad), o) := s in
  if is_ws c then Ok s
  else
    let index := c in
    if base64_decode_table_size <=? index then Null
    else
      do v <- rdo 867 base64_decode_table index;
      if v =? -1 then Null
      else
        let count := u64 (count + 1) in
        let '(value, pad) := if v =? -2 then (0, u64 (pad + 1)) else (v, pad) in
        let x := u64 (u64 (Z.shiftl x 6) + u64 value) in
        if Z.land count 3 =? 0 then
          if 2 <? pad then Null
          else
            do o <- wr 887 cap o (Z.land (Z.shiftr x 16) 255);
            do o <- wr 888 cap o (Z.land (Z.shiftr x 8) 255);
            do o <- wr 889 cap o (Z.land x 255);
            (* ptr -= pad; pad = 0 *)
            Ok ((x, count, 0), (fst o - pad, skipn (Z.to_nat pad) (snd o)))
        else Ok ((x, count, pad), o).

Definition b64d_body (cap : Z) (r : list Z) (i : Z) (s : dec_st * obuf) : res (dec_st * obuf) :=
  do c <- rdo 861 r i; b64d_char cap c s.

Definition b64d_region (st : dec_st * data) (offset : Z) (r : list Z) : res (dec_st * data) :=
  let '(s, rv) := st in
  let size := Zlength r in
  let dest_size := howmany size 4 * 3 in
  do '((x, count, pad), (n, out)) <- iter (Z.to_nat size) 0 (b64d_body dest_size r) (s, (0, []));
  let final := u64 n in
  if dest_size <? final then OOB 898
  else Ok ((x, count, pad), data_concat rv (data_create (firstn (Z.to_nat final) (rev out)))).

Definition from_base64 (d : data) : res data :=
  do '(dst, rv) <- apply_regions b64d_region d 0 ((0, 0, 0), []);
  Ok rv.

(* ---------------------------------------------------------------- base64 encode (914-1006) *)

Definition b64e_char (d : data) (cap : Z) (r : list Z) (offset : Z) (i curr : Z) (s : Z * obuf) : res (Z * obuf) :=
  let '(count, o) := s in
  let ph := count mod 3 in
  do last <- (if ph =? 0 then Ok 0 else get_last 959 d r offset i);
  do o <-
    (if ph =? 0 then tput 968 base64_encode_table cap o (Z.land (Z.shiftr curr 2) 63)
     else if ph =? 1 then
       tput 971 base64_encode_table cap o (Z.land (Z.lor (Z.shiftl last 4) (Z.shiftr curr 4)) 63)
     else
       do o <- tput 974 base64_encode_table cap o (Z.land (Z.lor (Z.shiftl last 2) (Z.shiftr curr 6)) 63);
       tput 975 base64_encode_table cap o (Z.land curr 63));
  Ok (u64 (count + 1), o).

Definition b64e_body (d : data) (cap : Z) (r : list Z) (offset : Z) (i : Z) (s : Z * obuf) : res (Z * obuf) :=
  do curr <- rdo 949 r i; b64e_char d cap r offset i curr s.

Definition b64e_region (d : data) (total cap : Z) (st : Z * obuf) (offset : Z) (r : list Z) : res (Z * obuf) :=
  let size := Zlength r in
  do '(count, o) <- iter (Z.to_nat size) 0 (b64e_body d cap r offset) st;
  if u64 (offset + size) =? total then
    let ph := count mod 3 in
    if ph =? 0 then Ok (count, o)
    else
      do lastb <- rdo 986 r (size - 1);
      if ph =? 1 then
        do o <- tput 986 base64_encode_table cap o (Z.land (Z.shiftl lastb 4) 48);
        do o <- wr_pad 987 cap 2 o; Ok (count, o)
      else
        do o <- tput 991 base64_encode_table cap o (Z.land (Z.shiftl lastb 2) 60);
        do o <- wr_pad 992 cap 1 o; Ok (count, o)
  else Ok (count, o).

Definition to_base64 (d : data) : res data :=
  let total := dsize d in
  let dest_size := howmany total 3 in
  if SIZE_MAX / 4 <? dest_size then Null
  else
    let dest_size := dest_size * 4 in
    do '(cnt, (n, out)) <- apply_regions (b64e_region d total dest_size) d 0 (0, (0, []));
    if n =? dest_size then Ok (data_create (rev out)) else OOB 1004.

(* ---------------------------------------------------------------- dispatch_data_create_with_transform (1011-1133) *)

(* format objects by index: 0 NONE 1 UTF8 2 UTF16LE 3 UTF16BE 4 UTF_ANY 5 BASE32 6 BASE32HEX 7 BASE64 *)
Definition F_NONE := 0. Definition F_UTF8 := 1. Definition F_UTF16LE := 2. Definition F_UTF16BE := 3.
Definition F_UTF_ANY := 4. Definition F_BASE32 := 5. Definition F_BASE32HEX := 6. Definition F_BASE64 := 7.

Definition M_BASE : Z := 1 + 32 + 64 + 128.     (* NONE | BASE32 | BASE32HEX | BASE64 *)
Definition M_UTF : Z := 2 + 8 + 4.              (* UTF8 | UTF16BE | UTF16LE *)

Definition f_type (f : Z) : Z :=
  if f =? 0 then 1 else if f =? 1 then 2 else if f =? 2 then 4 else if f =? 3 then 8
  else if f =? 4 then 16 else if f =? 5 then 32 else if f =? 6 then 64 else 128.
(* input_mask and output_mask are equal in every format object; ~0u is 0xffffffff in a uint64_t field *)
Definition f_mask (f : Z) : Z :=
  if f =? 0 then 4294967295 else if (f =? 1) || (f =? 2) || (f =? 3) then M_UTF
  else if f =? 4 then 0 else M_BASE.

Definition f_decode (f : Z) : option (data -> res data) :=
  if f =? 2 then Some (from_utf16 true) else if f =? 3 then Some (from_utf16 false)
  else if f =? 5 then Some (from_base32_with_table base32_decode_table base32_decode_table_size)
  else if f =? 6 then Some (from_base32_with_table base32hex_decode_table base32hex_decode_table_size)
  else if f =? 7 then Some from_base64
  else None.
Definition f_encode (f : Z) : option (data -> res data) :=
  if f =? 1 then Some to_utf8_without_bom
  else if f =? 2 then Some (to_utf16 true) else if f =? 3 then Some (to_utf16 false)
  else if f =? 5 then Some (to_base32_with_table base32_encode_table)
  else if f =? 6 then Some (to_base32_with_table base32hex_encode_table)
  else if f =? 7 then Some to_base64
  else None.

(* _dispatch_transform_detect_utf: *(const uint16_t * )p on a little-endian host *)
Definition detect_utf (d : data) : res Z :=
  match sub_map d 0 2 with
  | None => Null
  | Some m =>
    do b0 <- rdo 198 m 0; do b1 <- rdo 198 m 1;
    let ch := b0 + 256 * b1 in
    if ch =? 65279 then Ok F_UTF16LE else if ch =? 65534 then Ok F_UTF16BE else Ok F_UTF8
  end.

Definition transform (d : data) (input output : Z) : res data :=
  do input <- (if f_type input =? 16 then detect_utf d else Ok input);
  if negb (Z.land (f_type input) (Z.lxor (f_mask output) 18446744073709551615) =? 0) then Null
  else if negb (Z.land (f_type output) (Z.lxor (f_mask input) 18446744073709551615) =? 0) then Null
  else if dsize d =? 0 then Ok d
  else
    do temp1 <- (match f_decode input with Some f => f d | None => Ok d end);
    match f_encode output with Some f => f temp1 | None => Ok temp1 end.

(* result as one list for the correspondence: 0 :: bytes | [1] (NULL) | [2; line] (out-of-bounds access) *)
Definition show (r : res data) : list Z :=
  match r with Ok d => 0 :: flat d | Null => [1] | OOB s => [2; s] end.
