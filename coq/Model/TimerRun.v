(* TimerRun.v — executable model of the timer machinery around the heap (src/event/event.c:766-1246,
   src/event/event_internal.h:575, the timer branch of _dispatch_source_latch_and_call in src/source.c:505-546)
   as a sequential state machine. Definitions only.

   Build configuration (Linux): DISPATCH_HAVE_TIMER_QOS = 0 and DISPATCH_HAVE_TIMER_COALESCING = 0, hence
   DISPATCH_TIMER_QOS_COUNT = 1, tidx = clock (0 uptime, 1 monotonic, 2 wall) and three heaps.
   du_timer_flags is represented by its clock field (bits 2-3) and the AFTER bit.
   dt_heap_entry[] is kept per heap (h_ent of the heap the timer is in): a timer is in at most one heap, and the
   entries are DTH_INVALID_ID whenever it is in none.
   Reference counts and the hop of the fired source to its queue (dux_merge_evt) are not modelled: a fire
   event records the timer, the ds_pending_data it is handed over with, and the cached `now`.  Of the wlh only
   "registered or not" is kept (t_reg).

   GRANULARITY: every function below is one atomic step.  In the library the manager thread (all heap operations,
   _dispatch_timers_run, configure / resume of an armed timer), the thread draining the source (latch, handler,
   configure of a disarmed timer) and client threads (dispatch_source_set_timer) share ds_pending_data (atomic: load
   event.c:1092, or_orig :1094, stores :1062 :1105 :1109 :879, xchg source.c:534), dt_pending_config (xchg
   source.c:1320, event.c:870) and dt_timer (handler-side writes only with the DISARMED marker latched, i.e. while the
   timer is out of its heap: source.c:505-526).  That these accesses make the functions behave as atomic steps is an
   assumption of the theorems about histories (Properties_C11.v, GRANULARITY); it is checked on recorded multi-thread
   runs by the trace replay, not proved.

   Last section: the source side, i.e. the rules by which src/source.c issues these operations. *)
From Coq Require Import ZArith List Bool.
From Verif Require Import Word Gen_consts Gen_time Gen_timer Heap.
Import ListNotations.
Local Open Scope Z_scope.

(* ---- _dispatch_timer_unote_compute_missed (event_internal.h:575), every operation with its uint64 wrap.
   result: (returned count, new target, new deadline).  interval = 0 is a division by zero in C (flagged by
   compute_missed_ub); _dispatch_timer_config_create never produces it. *)
Definition compute_missed (target deadline interval now prev : Z) : Z * Z * Z :=
  let missed := u64 (now - target) / interval in
  let missed := u64 (missed + 1) in
  let missed := if u64 (missed + prev) >? LONG_MAX then u64 (LONG_MAX - prev) else missed in
  let '(tg, dl) :=
    if interval <? INT64_MAX then
      let push_by := u64 (missed * interval) in
      (u64 (target + push_by), u64 (deadline + push_by))
    else (UINT64_MAX, UINT64_MAX) in
  (u64 (prev + missed), tg, dl).
Definition compute_missed_ub (interval : Z) : bool := interval =? 0.

(* ---- _dispatch_timer_config_create (source.c:1172), every operation with its uint64 / int64 reading.
   The decoding of `start` is Gen_time.f_dispatch_time_to_clock_and_value (translated); nano2mach is the identity in this
   configuration (Gen_time.f_dispatch_time_nano2mach).  cur_clock = clock field of du_timer_flags.
   result: (clock, target, deadline, interval) = the dispatch_timer_config_s handed to dt_pending_config.
   A start with clock WALL and value 0 cannot occur (the decoder never returns it); the C code asserts. *)
Definition config_create (start interval leeway cur_clock now_wall now_up now_mono : Z) : Z * Z * Z * Z :=
  let interval := if interval =? 0 then 1 else if s64 interval <? 0 then INT64_MAX else interval in
  let leeway := if s64 leeway <? 0 then INT64_MAX else leeway in
  let '(clock, target) :=
    if start =? DISPATCH_TIME_FOREVER then (cur_clock, INT64_MAX)
    else
      let '(clock, target) := f_dispatch_time_to_clock_and_value start now_wall in
      if target =? DISPATCH_TIME_NOW then (clock, if clock =? 0 then now_up else now_mono)
      else (clock, target) in
  let '(interval, leeway) :=
    if negb (clock =? 2) then
      let interval := f_dispatch_time_nano2mach interval in
      let interval := if interval <? 1 then 1 else interval in
      (interval, f_dispatch_time_nano2mach leeway)
    else (interval, leeway) in
  let leeway := if (interval <? INT64_MAX) && (leeway >? interval / 2) then interval / 2 else leeway in
  let deadline := if u64 (target + leeway) <? INT64_MAX then u64 (target + leeway) else INT64_MAX in
  (clock, target, deadline, interval).

(* ---- _dispatch_interval_config_create (source.c:1238) for DISPATCH_SOURCE_TYPE_INTERVAL: interval in milliseconds (or
   frames of 1/60 s with DISPATCH_INTERVAL_UI_ANIMATION), leeway in permille of the interval (or UINT64_MAX = default),
   start must be DISPATCH_TIME_NOW or FOREVER.  None = DISPATCH_CLIENT_CRASH.  The first target is the next multiple of
   the interval on the uptime clock. *)
Definition NSEC_PER_FRAME : Z := 16666666.
Definition FOREVER_NSEC : Z := 31536000000000000.
Definition interval_config_create (start interval leeway : Z) (animation : bool) (now_up : Z) : option (Z * Z * Z * Z) :=
  if start =? DISPATCH_TIME_FOREVER then Some (0, INT64_MAX, INT64_MAX, INT64_MAX)
  else if negb (start =? DISPATCH_TIME_NOW) then None
  else if interval =? 0 then None
  else
    let unit := if animation then NSEC_PER_FRAME else 1000000 in
    let interval := if interval <=? FOREVER_NSEC / unit then u64 (interval * unit) else FOREVER_NSEC in
    let interval := f_dispatch_time_nano2mach interval in
    let start := u64 (now_up + interval) in
    let start := u64 (start - start mod interval) in
    let lw := if leeway <=? 1000 then Some (u64 (interval * leeway) / 1000)
              else if negb (leeway =? UINT64_MAX) then None
              else if animation then Some (f_dispatch_time_nano2mach NSEC_PER_FRAME)
              else Some (interval / 2) in
    match lw with
    | None => None
    | Some lw => Some (0, start, u64 (start + lw), interval)
    end.

(* ---- _dispatch_after (source.c:1324): what dispatch_after does with `when`.
   AfterNever: when == FOREVER, the block is dropped.  AfterNow: delta == 0, plain dispatch_async.
   AfterTimer clock target deadline: a one-shot source with DISPATCH_TIMER_AFTER, interval UINT64_MAX, activated. *)
Inductive after_result := AfterNever | AfterNow | AfterTimer (clock target deadline : Z).
Definition NSEC_PER_MSEC : Z := 1000000.
Definition dispatch_after_model (when now_wall now_up now_mono : Z) : after_result :=
  if when =? DISPATCH_TIME_FOREVER then AfterNever
  else
    let delta := f_dispatch_timeout when now_wall now_up now_mono in
    if delta =? 0 then AfterNow
    else
      let leeway := delta / 10 in
      let leeway := if leeway <? NSEC_PER_MSEC then NSEC_PER_MSEC else leeway in
      let leeway := if leeway >? 60 * NSEC_PER_SEC then 60 * NSEC_PER_SEC else leeway in
      let '(clock, target) := f_dispatch_time_to_clock_and_value when now_wall in
      let leeway := if negb (clock =? 2) then f_dispatch_time_nano2mach leeway else leeway in
      AfterTimer clock target (u64 (target + leeway)).
Definition after_obs (r : after_result) : list Z :=
  match r with AfterNever => [0] | AfterNow => [1] | AfterTimer c t d => [2; c; t; d] end.

(* ---- state *)
Record timer := mkT {
  t_clock : Z;                 (* clock field of du_timer_flags *)
  t_after : bool;              (* DISPATCH_TIMER_AFTER *)
  t_ident : Z;                 (* du_ident: tidx, or DISPATCH_TIMER_IDENT_CANCELED *)
  t_armed : bool;              (* DU_STATE_ARMED *)
  t_target : Z; t_deadline : Z; t_interval : Z;     (* dt_timer *)
  t_pending : Z;               (* ds_pending_data *)
  t_cfg : option (Z * Z * Z * Z);                   (* dt_pending_config: clock target deadline interval *)
  t_susp : bool;               (* DISPATCH_QUEUE_IS_SUSPENDED(owner) *)
  t_reg : Z                    (* du_state registration: 1 = registered (_dispatch_unote_wlh != NULL); 0 and 2 =
                                  DU_STATE_UNREGISTERED, 0 before _dispatch_source_install (ds_is_installed = 0), 2 after
                                  _dispatch_timer_unote_unregister or the one-shot fire of a dispatch_after timer
                                  (event.c:1057-1058); the source is installed once (source.c:_dispatch_source_install
                                  asserts !ds_is_installed), so 2 is final for the record's current incarnation *)
}.
Definition fresh_timer (flags : Z) : timer :=
  let clock := Z.land (Z.shiftr flags 2) 3 in
  mkT clock (nz (Z.land flags DISPATCH_TIMER_AFTER)) clock false UINT64_MAX UINT64_MAX UINT64_MAX 0 None false 0.

Record state := mkS {
  s_heaps : Z -> heap;         (* _dispatch_timers_heap[tidx] *)
  s_harmed : Z -> bool;        (* dth_armed *)
  s_ktimer : Z -> Z;           (* absolute expiry last programmed into the kernel timer of tidx; -1 = deleted / none *)
  s_dirty : bool;              (* dth[0].dth_dirty_bits != 0 *)
  s_timers : Z -> timer
}.
Definition init_state : state :=
  mkS (fun _ => empty_heap) (fun _ => false) (fun _ => -1) false (fun _ => fresh_timer 0).

Definition updf {A} (f : Z -> A) (i : Z) (v : A) : Z -> A := fun j => if Z.eqb j i then v else f j.

Definition keyof (tm : Z -> timer) : Z -> Z -> Z :=
  fun hid t => if hid =? 0 then t_target (tm t) else t_deadline (tm t).

Definition set_heap st tidx h := mkS (updf (s_heaps st) tidx h) (s_harmed st) (s_ktimer st) (s_dirty st) (s_timers st).
Definition set_timer st t v := mkS (s_heaps st) (s_harmed st) (s_ktimer st) (s_dirty st) (updf (s_timers st) t v).
Definition set_dirty st b := mkS (s_heaps st) (s_harmed st) (s_ktimer st) b (s_timers st).
Definition tm st t := s_timers st t.

Definition with_armed (x : timer) b := mkT (t_clock x) (t_after x) (t_ident x) b (t_target x) (t_deadline x) (t_interval x) (t_pending x) (t_cfg x) (t_susp x) (t_reg x).
Definition with_ident (x : timer) i := mkT (t_clock x) (t_after x) i (t_armed x) (t_target x) (t_deadline x) (t_interval x) (t_pending x) (t_cfg x) (t_susp x) (t_reg x).
Definition with_pending (x : timer) p := mkT (t_clock x) (t_after x) (t_ident x) (t_armed x) (t_target x) (t_deadline x) (t_interval x) p (t_cfg x) (t_susp x) (t_reg x).
Definition with_values (x : timer) tg dl itv := mkT (t_clock x) (t_after x) (t_ident x) (t_armed x) tg dl itv (t_pending x) (t_cfg x) (t_susp x) (t_reg x).
Definition with_cfg (x : timer) c := mkT (t_clock x) (t_after x) (t_ident x) (t_armed x) (t_target x) (t_deadline x) (t_interval x) (t_pending x) c (t_susp x) (t_reg x).
Definition with_clock (x : timer) c := mkT c (t_after x) (t_ident x) (t_armed x) (t_target x) (t_deadline x) (t_interval x) (t_pending x) (t_cfg x) (t_susp x) (t_reg x).
Definition with_susp (x : timer) b := mkT (t_clock x) (t_after x) (t_ident x) (t_armed x) (t_target x) (t_deadline x) (t_interval x) (t_pending x) (t_cfg x) b (t_reg x).
Definition with_reg (x : timer) r := mkT (t_clock x) (t_after x) (t_ident x) (t_armed x) (t_target x) (t_deadline x) (t_interval x) (t_pending x) (t_cfg x) (t_susp x) r.

(* _dispatch_timer_unote_idx: DISPATCH_TIMER_INDEX(clock, 0) with DISPATCH_TIMER_QOS_COUNT = 1 *)
Definition unote_idx (x : timer) : Z := t_clock x * DISPATCH_TIMER_QOS_COUNT + 0.

(* _dispatch_timer_unote_disarm (event.c:791) *)
Definition disarm (st : state) (t : Z) : state :=
  let tidx := t_ident (tm st t) in
  let st := set_heap st tidx (remove (keyof (s_timers st)) (s_heaps st tidx) t) in
  let st := set_dirty st true in
  set_timer st t (with_armed (tm st t) false).

(* _dispatch_timer_unote_arm (event.c:804); the unote's qos is 0 here (no QoS buckets) *)
Definition arm (st : state) (t tidx : Z) : state :=
  let st :=
    if t_armed (tm st t) then
      set_heap st tidx (update (keyof (s_timers st)) (s_heaps st tidx) t)
    else
      let st := set_timer st t (with_ident (tm st t) tidx) in
      let st := set_heap st tidx (insert (keyof (s_timers st)) (s_heaps st tidx) t 0) in
      set_timer st t (with_armed (tm st t) true) in
  set_dirty st true.

(* _dispatch_timer_unote_needs_rearm (event.c:823) *)
Definition needs_rearm (x : timer) : bool :=
  if t_susp x then false
  else negb (t_ident x =? DISPATCH_TIMER_IDENT_CANCELED) && (t_target x <? INT64_MAX).

(* _dispatch_timer_unote_resume (event.c:897) *)
Definition resume (st : state) (t : Z) : state :=
  let x := tm st t in
  let will_arm := needs_rearm x in
  let was_armed := t_armed x in
  let tidx := unote_idx x in
  let st := if was_armed && (negb will_arm || negb (t_ident x =? tidx)) then disarm st t else st in
  if will_arm then arm st t tidx else st.

(* _dispatch_timer_unote_configure (event.c:865): dispatch_source_set_timer's values replace the timer's *)
Definition configure (st : state) (t : Z) : state :=
  match t_cfg (tm st t) with
  | None => st     (* not reachable: callers test dt_pending_config first *)
  | Some (clock, tg, dl, itv) =>
    let x := tm st t in
    let x := if negb (clock =? t_clock x) then with_clock x clock else x in
    let x := with_pending (with_cfg (with_values x tg dl itv) None) 0 in
    let st := set_timer st t x in
    if t_armed x then resume st t else st
  end.

(* _dispatch_timer_unote_register for a non-background source (event.c:839) *)
Definition register (st : state) (t : Z) : state :=
  (* `if (_dispatch_unote_wlh(dt) != wlh) _dispatch_unote_state_set(dt, DISPATCH_WLH_ANON, 0)`: registered, not armed *)
  let st := if t_reg (tm st t) =? 1 then st else set_timer st t (with_armed (with_reg (tm st t) 1) false) in
  match t_cfg (tm st t) with Some _ => configure st t | None => st end.

(* _dispatch_timer_unote_unregister (event.c:921) *)
Definition unregister (st : state) (t : Z) : state :=
  let st := if t_armed (tm st t) then disarm st t else st in
  (* _dispatch_unote_state_set(dt, DU_STATE_UNREGISTERED); dt->du_ident = DISPATCH_TIMER_IDENT_CANCELED *)
  set_timer st t (with_ident (with_reg (tm st t) 2) DISPATCH_TIMER_IDENT_CANCELED).

(* dispatch_source_set_timer stores the configuration (source.c:1309) *)
Definition set_cfg (st : state) (t clock tg dl itv : Z) : state :=
  set_timer st t (with_cfg (tm st t) (Some (clock, tg, dl, itv))).

(* ---- _dispatch_timers_run (event.c:1041).  A fire event: (timer, ds_pending_data at dux_merge_evt, now).
   fuel: see TimerRun_proofs (two iterations per stored timer suffice); the boolean tells whether the loop left
   through one of its two exits (true) or ran out of fuel (false, never with the fuel used by timers_run) *)
(* 4th component (ghost, not compared): the target the loop condition read before firing *)
Definition fire := (Z * Z * Z * Z)%type.

Definition run_step (st : state) (tidx now : Z) (dr : Z) : state * list fire :=
  let x := tm st dr in
  if t_after x then
    (* event.c:1055-1062: disarm; _dispatch_wlh_release; _dispatch_unote_state_set(dr, DU_STATE_UNREGISTERED);
       ds_pending_data := 2; dux_merge_evt.  The unote is no longer registered: _dispatch_unote_needs_rearm is false
       for it from now on, so source.c never resumes it again *)
    let st := disarm st dr in
    let st := set_timer st dr (with_pending (with_reg (tm st dr) 2) 2) in
    (st, [(dr, 2, now, t_target x)])
  else match t_cfg x with
  | Some _ => (configure st dr, [])
  | None =>
    if nz (t_pending x) then
      let st := disarm st dr in
      let pending := Z.lor (t_pending x) DISPATCH_TIMER_DISARMED_MARKER in
      let st := set_timer st dr (with_pending (tm st dr) pending) in
      (st, [(dr, pending, now, t_target x)])
    else
      let '(cnt, tg, dl) := compute_missed (t_target x) (t_deadline x) (t_interval x) now 0 in
      let pending := u64 (Z.shiftl cnt 1) in
      let st := set_timer st dr (with_values x tg dl (t_interval x)) in
      if needs_rearm (tm st dr) then
        let st := arm st dr tidx in
        let st := set_timer st dr (with_pending (tm st dr) pending) in
        (st, [(dr, pending, now, t_target x)])
      else
        let st := disarm st dr in
        let pending := Z.lor pending DISPATCH_TIMER_DISARMED_MARKER in
        let st := set_timer st dr (with_pending (tm st dr) pending) in
        (st, [(dr, pending, now, t_target x)])
  end.

Fixpoint run_loop (fuel : nat) (st : state) (tidx now : Z) (ev : list fire) : state * list fire * bool :=
  match fuel with
  | O => (st, ev, false)
  | S fuel' =>
    let dr := h_slot (s_heaps st tidx) DTH_TARGET_ID in
    if dr =? 0 then (st, ev, true)
    else if t_target (tm st dr) >? now then (st, ev, true)
    else let '(st', e) := run_step st tidx now dr in run_loop fuel' st' tidx now (ev ++ e)
  end.

Definition timers_run (st : state) (tidx now : Z) : state * list fire * bool :=
  run_loop (Z.to_nat (h_count (s_heaps st tidx)) + 1) st tidx now [].

(* ---- _dispatch_timers_get_delay (event.c:1131) without coalescing: (delay, leeway) *)
Definition get_delay (st : state) (tidx now : Z) : Z * Z :=
  let h := s_heaps st tidx in
  if h_slot h DTH_TARGET_ID =? 0 then (INT64_MAX, INT64_MAX)
  else
    let target := t_target (tm st (h_slot h DTH_TARGET_ID)) in
    let deadline := t_deadline (tm st (h_slot h DTH_DEADLINE_ID)) in
    if target <=? now then (0, 0)
    else (Z.min (u64 (target - now)) INT64_MAX, Z.min (u64 (deadline - target)) INT64_MAX).

(* _dispatch_timers_program (event.c:1182) + _dispatch_event_loop_timer_arm/_delete (event_epoll.c:429-444): the
   kernel timer of tidx is set to the absolute time now + delay, or deleted.  kernel calls are returned as a list:
   (1, tidx, target, leeway) = arm, (0, tidx, 0, 0) = delete *)
Definition program (st : state) (tidx now : Z) : state * list (Z * Z * Z * Z) :=
  let '(delay, leeway) := get_delay st tidx now in
  let st := if delay =? 0 then set_dirty st true else st in
  let h := s_heaps st tidx in
  if (delay =? 0) || (delay >=? INT64_MAX) then
    let calls := if s_harmed st tidx then [(0, tidx, 0, 0)] else [] in
    let kt := if s_harmed st tidx then updf (s_ktimer st) tidx (-1) else s_ktimer st in
    (mkS (updf (s_heaps st) tidx (set_np h false)) (updf (s_harmed st) tidx false) kt (s_dirty st) (s_timers st), calls)
  else
    let target := u64 (delay + now) in
    (mkS (updf (s_heaps st) tidx (set_np h false)) (updf (s_harmed st) tidx true) (updf (s_ktimer st) tidx target)
         (s_dirty st) (s_timers st), [(1, tidx, target, leeway)]).

(* the `if (dth[tidx].dth_needs_program)` of _dispatch_event_loop_drain_timers (event.c:1232) *)
Definition program_if_needed (st : state) (tidx now : Z) : state * list (Z * Z * Z * Z) :=
  if h_np (s_heaps st tidx) then program st tidx now else (st, []).

(* _dispatch_event_merge_timer (event_epoll.c:362): the kernel timer of clock tidx expired *)
Definition kernel_expired (st : state) (tidx : Z) : state :=
  mkS (updf (s_heaps st) tidx (set_np (s_heaps st tidx) true)) (updf (s_harmed st) tidx false)
      (updf (s_ktimer st) tidx (-1)) true (s_timers st).

(* ---- _dispatch_event_loop_drain_timers (event.c:1209) for the DISPATCH_TIMER_COUNT = 3 heaps.  nows = the clock
   cache of the call: one reading per clock, constant during the call.  One pass = run every heap, clear the dirty
   bits, program every heap that needs it; repeated while a pass leaves the dirty bits set.  fuel bounds the number
   of passes (the C loop has no bound; the boolean tells whether it was left through `while (dirty)` being false) *)
Definition kcall := (Z * Z * Z * Z)%type.
Definition run_all (st : state) (nows : Z -> Z) : state * list fire * bool :=
  let '(st, e0, f0) := timers_run st 0 (nows 0) in
  let '(st, e1, f1) := timers_run st 1 (nows 1) in
  let '(st, e2, f2) := timers_run st 2 (nows 2) in
  (st, e0 ++ e1 ++ e2, f0 && f1 && f2).
Definition program_all (st : state) (nows : Z -> Z) : state * list kcall :=
  let '(st, c0) := program_if_needed st 0 (nows 0) in
  let '(st, c1) := program_if_needed st 1 (nows 1) in
  let '(st, c2) := program_if_needed st 2 (nows 2) in
  (st, c0 ++ c1 ++ c2).
Definition drain_pass (st : state) (nows : Z -> Z) : state * list fire * list kcall * bool :=
  let '(st, ev, fin) := run_all st nows in
  let st := set_dirty st false in
  let '(st, calls) := program_all st nows in
  (st, ev, calls, fin).
Fixpoint drain (fuel : nat) (st : state) (nows : Z -> Z) (ev : list fire) (calls : list kcall)
  : state * list fire * list kcall * bool :=
  match fuel with
  | O => (st, ev, calls, false)
  | S fuel' =>
    let '(st', e, c, fin) := drain_pass st nows in
    if negb fin then (st', ev ++ e, calls ++ c, false)
    else if s_dirty st' then drain fuel' st' nows (ev ++ e) (calls ++ c)
    else (st', ev ++ e, calls ++ c, true)
  end.

(* ---- the kernel side of the timer of one clock, src/event/event_epoll.c:360-444: one timerfd per clock, registered with
   epoll as a ONESHOT event.  k_value = the absolute time of the last timerfd_settime (-1: none).
   kernel calls: KCreate = timerfd_create, KSettime v = timerfd_settime(TFD_TIMER_ABSTIME, v), KCtl op = epoll_ctl
   (1 ADD, 2 DEL, 3 MOD) *)
Record ktimer := mkK { k_fd : bool; k_registered : bool; k_armed : bool; k_value : Z }.
Definition ktimer0 : ktimer := mkK false false false (-1).
Inductive kop := KCreate | KSettime (v : Z) | KCtl (op : Z).
(* _dispatch_timeout_program (event_epoll.c:373) *)
Definition timeout_program (k : ktimer) (target : Z) : ktimer * list kop :=
  if (target >=? INT64_MAX) && negb (k_registered k) then (k, [])
  else
    let c0 := if k_fd k then [] else [KCreate] in
    if target <? INT64_MAX then
      if negb (k_registered k) then (mkK true true true target, c0 ++ [KSettime target; KCtl 1])
      else if negb (k_armed k) then (mkK true true true target, c0 ++ [KSettime target; KCtl 3])
      else (mkK true (k_registered k) (k_armed k) target, c0 ++ [KSettime target])
    else (mkK true false false (k_value k), c0 ++ [KCtl 2]).
(* _dispatch_event_loop_timer_arm / _delete (event_epoll.c:431-444) *)
Definition loop_timer_arm (k : ktimer) (delay now : Z) := timeout_program k (u64 (delay + now)).
Definition loop_timer_delete (k : ktimer) := timeout_program k UINT64_MAX.
(* _dispatch_event_merge_timer (event_epoll.c:360), kernel side: the ONESHOT registration is spent *)
Definition merge_timer_k (k : ktimer) : ktimer := mkK (k_fd k) (k_registered k) false (k_value k).

(* ---- timer branch of _dispatch_source_latch_and_call (source.c:529-546) with _dispatch_source_timer_data:
   returns the value dispatch_source_get_data reports in the handler *)
Definition latch (st : state) (t now : Z) : state * Z :=
  let x := tm st t in
  let prev := t_pending x in
  let x := with_pending x 0 in
  let data := Z.shiftr prev 1 in
  if nz (Z.land prev DISPATCH_TIMER_DISARMED_MARKER) then
    if (t_target x <? INT64_MAX) && (now >=? t_target x) then
      let '(cnt, tg, dl) := compute_missed (t_target x) (t_deadline x) (t_interval x) now data in
      (set_timer st t (with_values x tg dl (t_interval x)), cnt)
    else (set_timer st t x, data)
  else (set_timer st t x, data).

(* ---- harness protocol *)
Inductive top :=
| TNew (t flags : Z) | TAfter (t tg dl : Z) | TCfg (t clock tg dl itv : Z) | TReg (t : Z) | TConfigure (t : Z)
| TResume (t : Z) | TUnreg (t : Z) | TSusp (t b : Z) | TPend (t v : Z) | TLatch (t now : Z)
| TRun (tidx now : Z) | TProg (tidx now : Z) | TDrain (n0 n1 n2 : Z) | TObs.

Definition obs_state (st : state) (n : Z) : list Z :=
  b2z (s_dirty st) ::
  flat_map (fun i => let h := s_heaps st i in
                     [h_count h; b2z (h_np h); b2z (s_harmed st i); h_slot h 0; h_slot h 1]) (zrange DISPATCH_TIMER_COUNT)
  ++ flat_map (fun i => let t := i + 1 in let x := tm st t in
                        let h := s_heaps st (t_ident x) in
                        [b2z (t_armed x); t_ident x; t_target x; t_deadline x; t_interval x; t_pending x;
                         if t_armed x then h_ent h 0 t else DTH_INVALID_ID;
                         if t_armed x then h_ent h 1 t else DTH_INVALID_ID;
                         match t_cfg x with Some _ => 1 | None => 0 end;
                         b2z (t_reg x =? 1)]) (zrange n).

(* output of one command: a tag list (events / kernel calls / value, flattened) and, for R P S, the state *)
Definition tstep (n : Z) (st : state) (o : top) : state * list Z :=
  match o with
  | TNew t flags =>
    let st := if t_armed (tm st t) then unregister st t else st in
    (set_timer st t (fresh_timer flags), [])
  | TAfter t tg dl => (set_timer st t (with_values (tm st t) tg dl UINT64_MAX), [])
  | TCfg t c tg dl itv => (set_cfg st t c tg dl itv, [])
  | TReg t => (register st t, [])
  | TConfigure t => (configure st t, [])
  | TResume t => (resume st t, [])
  | TUnreg t => (unregister st t, [])
  | TSusp t b => (set_timer st t (with_susp (tm st t) (nz b)), [])
  | TPend t v => (set_timer st t (with_pending (tm st t) v), [])
  | TLatch t now => let '(st', d) := latch st t now in (st', [d])
  | TRun tidx now =>
    let '(st', ev, fin) := timers_run st tidx now in
    (st', b2z fin :: flat_map (fun '(t, p, _, _) => [t; p]) ev ++ [-1] ++ obs_state st' n)
  | TProg tidx now =>
    let '(st', calls) := program_if_needed st tidx now in
    (st', flat_map (fun '(k, i, tg, lw) => [k; i; tg; lw]) calls ++ [-1] ++ obs_state st' n)
  | TDrain n0 n1 n2 =>
    let nows := fun c => if c =? 0 then n0 else if c =? 1 then n1 else n2 in
    (* one pass more than there are timer records always suffices (TimerSys_proofs.drain_term) *)
    let '(st', ev, calls, fin) := drain (Z.to_nat n + 1) st nows [] [] in
    (st', b2z fin :: flat_map (fun '(t, p, _, _) => [t; p]) ev ++ [-1]
          ++ flat_map (fun '(k, i, tg, lw) => [k; i; tg; lw]) calls ++ [-1; b2z (s_dirty st')] ++ obs_state st' n)
  | TObs => (st, obs_state st n)
  end.

Fixpoint trun (n : Z) (st : state) (ops : list top) : list (list Z) :=
  match ops with
  | [] => []
  | o :: r => let '(st', out) := tstep n st o in out :: trun n st' r
  end.

(* ================================================================================================ *)
(* ---- the source side (src/source.c): which of the operations above a timer source issues, and when.
   A dispatch source is a queue object: somebody calls dx_wakeup on it (_dispatch_source_wakeup, source.c:916), which
   enqueues it iff its state asks for an invoke; the lane that holds it then calls _dispatch_source_invoke2
   (source.c:715), which performs the source's actions in a fixed order.  x_enq t abstracts "source t is enqueued, or
   the thread that holds its drain lock will look at it again" (the DIRTY bit protocol of the lanes).  Boundary to the
   lane properties (C01/C04): an enqueued, unsuspended source is eventually invoked; a dx_wakeup that races with an invoke
   is not lost.  One XInvoke step performs the first applicable action of invoke2; an invoke2 call that performs
   several actions on one queue is several XInvoke steps with nothing in between.
   Suspension is single-level: t_susp is a flag (DISPATCH_QUEUE_IS_SUSPENDED), not the suspend count of dq_state;
   histories with nested dispatch_suspend are excluded by the guards of the theorems (TimerSrc_proofs.xguard) *)
Record xstate := mkX {
  x_st : state;
  x_canc : Z -> bool;          (* DSF_CANCELED *)
  x_enq : Z -> bool            (* a wakeup of the source is pending *)
}.
Definition x_init : xstate := mkX init_state (fun _ => false) (fun _ => false).

Definition has_cfg (x : timer) : bool := match t_cfg x with Some _ => true | None => false end.

(* _dispatch_source_refs_needs_rearm (source.c:489) with _du_state_needs_rearm (event_internal.h:495) *)
Definition refs_needs_rearm (x : timer) : bool :=
  if has_cfg x then true
  else (t_reg x =? 1) && negb (t_armed x) && (t_target x <? INT64_MAX).

(* _dispatch_source_wakeup (source.c:916-975) for a timer source: is there a reason to invoke the source?
   (tq != DISPATCH_QUEUE_WAKEUP_NONE; registration / cancel handler deliveries are not timer business and left out;
   DSF_DELETED of a timer source = cancelled and unregistered, unregistration of timers never being deferred) *)
Definition wake_needed (x : timer) (canc : bool) : bool :=
  if t_reg x =? 0 then true                                        (* !ds_is_installed *)
  else if negb canc && has_cfg x then true                         (* needs configuration *)
  else if negb canc && nz (t_pending x) then true                  (* pending data for the handler *)
  else if canc then negb (t_reg x =? 2)                            (* cancelled, not yet unregistered *)
  else refs_needs_rearm x.                                         (* needs a rearm on the manager queue *)

(* dx_wakeup(ds, ...) *)
Definition x_wakeup (xs : xstate) (t : Z) : xstate :=
  mkX (x_st xs) (x_canc xs) (updf (x_enq xs) t (x_enq xs t || wake_needed (tm (x_st xs) t) (x_canc xs t))).

(* _dispatch_source_latch_and_call (source.c:529-587) for a timer: latch, handler, and the configuration that arrived
   while the timer was disarmed is applied right after the handler (source.c:576-580) *)
Definition latch_and_call (st : state) (t now : Z) : state :=
  let prev := t_pending (tm st t) in
  let st := fst (latch st t now) in
  if nz (Z.land prev DISPATCH_TIMER_DISARMED_MARKER) && has_cfg (tm st t) then configure st t else st.

(* _dispatch_source_invoke2 (source.c:715-893): the first applicable action, in the order of the code *)
Definition invoke_step (xs : xstate) (t now : Z) : xstate :=
  let st := x_st xs in
  let x := tm st t in
  let canc := x_canc xs t in
  let keep st' := mkX st' (x_canc xs) (x_enq xs) in
  if t_reg x =? 0 then keep (register st t)                                      (* source.c:760 _dispatch_source_install *)
  else if t_susp x then xs                                                       (* :762-765 suspended: nothing *)
  else if negb canc && has_cfg x then keep (configure st t)                      (* :767-776 *)
  else if negb canc && nz (t_pending x) then keep (latch_and_call st t now)      (* :798-828 *)
  else if canc && negb (t_reg x =? 2) then keep (unregister st t)                (* :830-849 *)
  else if negb canc && refs_needs_rearm x then keep (resume st t)                (* :864-890, :883 _dispatch_unote_resume *)
  else mkX st (x_canc xs) (updf (x_enq xs) t false).                             (* nothing left: returns NONE *)

Inductive xop :=
| XNew (t flags : Z)                         (* dispatch_source_create / the source of _dispatch_after *)
| XAfter (t tg dl : Z)                       (* _dispatch_after stores dt_timer before activating (source.c:1378-1381) *)
| XSetTimer (t clock tg dl itv : Z)          (* dispatch_source_set_timer (source.c:1299-1322): store the configuration, dx_wakeup *)
| XActivate (t : Z)                          (* dispatch_activate: _dispatch_source_activate installs the timer (source.c:691), the lane wakes it *)
| XSuspend (t : Z)                           (* dispatch_suspend *)
| XResume (t : Z)                            (* dispatch_resume: _dispatch_lane_resume ends in dx_wakeup *)
| XCancel (t : Z)                            (* dispatch_source_cancel (source.c:988-1002): DSF_CANCELED, dx_wakeup *)
| XInvoke (t now : Z)                        (* the lane invokes the source *)
| XDrain (fuel : nat) (nows : Z -> Z)        (* the manager's timer pass; every fire ends in _dispatch_source_merge_evt's dx_wakeup (source.c:1147) *)
| XExpire (i : Z).                           (* the kernel timer of clock i expires *)

Definition top1 (st : state) (o : top) : state := fst (tstep 0 st o).
Definition fire_timer (e : fire) : Z := let '(t, _, _, _) := e in t.

Definition xstep (xs : xstate) (o : xop) : xstate * list fire :=
  let st := x_st xs in
  match o with
  | XNew t flags => (mkX (top1 st (TNew t flags)) (updf (x_canc xs) t false) (updf (x_enq xs) t false), [])
  | XAfter t tg dl => (mkX (top1 st (TAfter t tg dl)) (x_canc xs) (x_enq xs), [])
  | XSetTimer t c tg dl itv => (x_wakeup (mkX (top1 st (TCfg t c tg dl itv)) (x_canc xs) (x_enq xs)) t, [])
  | XActivate t => (x_wakeup (mkX (top1 st (TReg t)) (x_canc xs) (x_enq xs)) t, [])
  | XSuspend t => (mkX (top1 st (TSusp t 1)) (x_canc xs) (x_enq xs), [])
  | XResume t => (x_wakeup (mkX (top1 st (TSusp t 0)) (x_canc xs) (x_enq xs)) t, [])
  | XCancel t => (x_wakeup (mkX st (updf (x_canc xs) t true) (x_enq xs)) t, [])
  | XInvoke t now => (invoke_step xs t now, [])
  | XDrain fuel nows =>
    let '(st', ev, _, _) := drain fuel st nows [] [] in
    (fold_left (fun s e => x_wakeup s (fire_timer e)) ev (mkX st' (x_canc xs) (x_enq xs)), ev)
  | XExpire i => (mkX (kernel_expired st i) (x_canc xs) (x_enq xs), [])
  end.

Fixpoint xrun (xs : xstate) (l : list xop) : xstate * list fire :=
  match l with
  | [] => (xs, [])
  | o :: r => let '(xs1, e1) := xstep xs o in let '(xs2, e2) := xrun xs1 r in (xs2, e1 ++ e2)
  end.
