(* SLaneS.v — Model/SLane.v (one serial lane, dq_width = 1, targeting a root queue, dispatch_async_f from any number
   of threads, drained by any number of root-queue workers) EXTENDED with suspension:
     dispatch_suspend  = _dispatch_lane_suspend (src/queue.c:2947) + _dispatch_lane_suspend_slow (:2911, side lock,
                         dq_side_suspend_cnt),
     dispatch_resume   = _dispatch_lane_resume(dq, false) (:3020) + _dispatch_lane_resume_slow (:2969) +
                         _dispatch_lane_resume_activate (:3006) and, when the count reaches zero on an unlocked
                         lane, the full-width lock hand-off: dx_wakeup(BARRIER_COMPLETE) = _dispatch_lane_barrier_complete
                         (:1499) -> _dispatch_lane_class_barrier_complete (:1322) -> push on the target,
     dispatch_activate = _dispatch_lane_resume(dq, true) on a lane created inactive,
     the drainer's checks: `if (_dq_state_is_suspended(dq_state)) break` at the head of every iteration of
                         _dispatch_lane_drain (:3634) -> _dispatch_queue_invoke_finish (:3748); drain_try_lock /
                         drain_try_unlock / wakeup on suspended words (the generated bodies decide).
   Every dq_state transition is the body generated from the source (Gen_dqstate); an rmw loop is one atomic step.
   Plain loads of dq_state / dq_items_tail that decide a branch are separate steps (the word may change between
   the load and the next step).  dq_side_suspend_cnt is only accessed under the side lock; the lock is a model
   mutex (acquire blocks while held).
   Ghost state (never read by a step's control flow except the client-contract guard of `begin CResume`):
     lockh      who holds the drain lock,
     susp_done  dispatch_suspend calls that have RETURNED minus dispatch_resume calls that have BEGUN,
     sret/rpre  threads inside dispatch_suspend after its commit / inside a resume before its decrement committed,
     plic/pstarts  for the current suspended period (maximal interval in which the word is suspended): whether a
                drainer had passed its suspended-check and not yet begun the callout when the period began, and how
                many callouts began since,
     act_called dispatch_activate has been called.
   The push of dispatch_async_f includes the continuation found by trace conformance (and added to SLane.v as `ostep`):
   a push onto a NON-empty list may, on an unsynchronised read of the max QoS (_dispatch_queue_need_override), call
   dx_wakeup(dq, qos, CONSUME_2) = PA_oprobe / PA_owake: the wakeup loop WITHOUT MAKE_DIRTY.  Here the choice is a parameter
   of the call (`CAsync qos ovr`, chosen by the environment), which covers both continuations in every state.  The same
   program points serve the plain dx_wakeup(CONSUME_2) at the end of _dispatch_lane_resume, which a serial lane never
   reaches (SLaneS_steps_b.step_pr_rmw shows the branch dead).
   Not modelled: dispatch_sync, QoS overrides beyond the max-qos merge, reference counts (retain_2/release_2). *)
From Coq Require Import ZArith Bool List.
From Verif Require Import Word Conc Gen_consts Gen_dqstate.
Import ListNotations.
Local Open Scope Z_scope.

Definition ENQUEUED := 2147483648.
Definition DIRTY := 549755813888.
Definition SERIAL_OWNED := 18014398509481984 + 2199023255552.     (* IN_BARRIER + one WIDTH_INTERVAL *)
Definition INTERVAL := 288230376151711744.        (* DISPATCH_QUEUE_SUSPEND_INTERVAL = 2^58 *)
Definition HALF := 32.                            (* DISPATCH_QUEUE_SUSPEND_HALF *)
Definition HAS_SIDE := 144115188075855872.        (* DISPATCH_QUEUE_HAS_SIDE_SUSPEND_CNT = 2^57 *)
Definition INACTIVE := 72057594037927936.         (* 2^56 *)
Definition NEEDS_ACT := 36028797018963968.        (* 2^55 *)
Definition IN_BARRIER := 18014398509481984.
Definition WIDTH_FULL_BIT := 9007199254740992.
Definition ROLE_UNIT := 68719476736.              (* DISPATCH_QUEUE_ROLE_BASE_ANON = 2^36 *)

Record entry := { e_id : Z; e_linked : bool }.

Inductive pc :=
| Idle
(* dispatch_async_f *)
| PA_xchg (qos : Z) (ovr : bool)       (* about to exchange dq_items_tail *)
| PA_link (i : Z) (was_empty : bool) (qos : Z) (ovr : bool)  (* about to publish the link *)
| PA_probe (qos : Z)                   (* _dispatch_lane_wakeup: _dispatch_queue_class_probe *)
| PA_wake (qos : Z) (target : bool)    (* _dispatch_queue_wakeup's rmw loop with MAKE_DIRTY *)
| PA_rootpush                          (* ENQUEUED was set by this thread: _dispatch_queue_push_queue on the target *)
(* a worker of the target queue: _dispatch_queue_class_invoke + _dispatch_lane_serial_drain *)
| PW_lock (floor : Z)                  (* _dispatch_queue_drain_try_lock *)
| PW_tail (owned : Z)                  (* if (!dq->dq_items_tail) return NULL *)
| PW_head (owned : Z)                  (* _dispatch_queue_get_head: waits for the enqueuer's link *)
| PW_chk (owned : Z)                   (* first_iteration: load dq_state; suspended -> break *)
| PW_pop (owned : Z)                   (* _dispatch_queue_pop_head *)
| PW_run (owned : Z) (i : Z) (more : bool)      (* client callout begins *)
| PW_incall (owned : Z) (i : Z) (more : bool)
| PW_next (owned : Z) (more : bool)    (* loop head: next_dc known, or re-read dq_items_tail *)
| PW_unlock (owned : Z)                (* _dispatch_queue_drain_try_unlock(owned, done = true) *)
| PW_xor (owned : Z)                   (* unlock refused: xor DIRTY (acquire), drain again *)
| PW_fin (owned : Z)                   (* drain interrupted by a suspension: _dispatch_queue_invoke_finish's loop *)
(* dispatch_suspend *)
| PS_rmw                               (* _dispatch_lane_suspend's loop *)
| PS_slock                             (* _dispatch_lane_suspend_slow: _dispatch_queue_sidelock_lock *)
| PS_srmw                              (* the transfer loop, delta computed from dq_side_suspend_cnt *)
| PS_sside                             (* dq_side_suspend_cnt += HALF (overflow: client crash) *)
| PS_sunlock
| PS_sretry                            (* give_up: unlock the side lock, dispatch_suspend again *)
| PS_ret                               (* dispatch_suspend returns *)
(* dispatch_resume (and the resume that ends an activation) *)
| PR_rmw                               (* _dispatch_lane_resume(dq, false)'s loop *)
| PR_slock | PR_srmw | PR_sside | PR_sunlock | PR_sretry     (* _dispatch_lane_resume_slow *)
| PR_role                              (* _dispatch_lane_resume_activate: dq_activate -> inherit_wlh loop, then resume again *)
| PR_bctail (qos : Z)                  (* _dispatch_lane_barrier_complete: dq->dq_items_tail *)
| PR_bcsusp (qos : Z)                  (* ... && !DISPATCH_QUEUE_IS_SUSPENDED(dq) *)
| PR_bchead (qos : Z)                  (* _dispatch_queue_get_head *)
| PR_cbc (qos : Z) (target : bool)     (* _dispatch_lane_class_barrier_complete's loop *)
| PR_bcxor (qos : Z)                   (* DIRTY seen: xor (acquire), dx_wakeup(BARRIER_COMPLETE) again *)
| PA_oprobe (qos : Z)                   (* dx_wakeup(CONSUME_2) without MAKE_DIRTY: the need_override wakeup of a push *)
| PA_owake (qos : Z)
(* dispatch_activate *)
| PC_rmw                               (* _dispatch_lane_resume(dq, true)'s loop *)
| PCrash (tag : Z).                    (* DISPATCH_CLIENT_CRASH: 1 too many nested suspends, 2 over-resume, 3 invalid state *)

Record gst := {
  st : Z;                      (* dq_state *)
  lst : list entry;            (* the MPSC list, in tail-exchange order *)
  rootq : Z;                   (* how many times the lane sits in its target queue *)
  pcs : Z -> pc;
  nextid : Z;                  (* ghost: ids of submitted items are 0 .. nextid-1, in tail-exchange order *)
  started : list Z;            (* ghost: items whose callout began, most recent first *)
  running : option (Z * Z);    (* ghost: (thread, item) inside a callout *)
  token : option (option Z);   (* ghost: holder of the "enqueued" token (see SLane.v) *)
  wakers : list Z;             (* ghost: pushers that made the list non-empty and have not finished their wakeup *)
  lockh : option Z;            (* ghost: holder of the drain lock (a drainer, or a resumer doing the hand-off) *)
  side : Z;                    (* dq_side_suspend_cnt *)
  sidelock : option Z;         (* dq_sidelock *)
  susp_done : Z;               (* ghost *)
  rpre : list Z;               (* ghost *)
  sret : list Z;               (* ghost *)
  plic : bool;                 (* ghost *)
  pstarts : Z;                 (* ghost *)
  act_called : bool            (* ghost *)
}.

Definition init_word (role_bits : Z) (inactive : bool) : Z :=
  Z.shiftl (4096 - 1) 41 + (if inactive then INACTIVE + NEEDS_ACT else ROLE_UNIT * role_bits).

Definition init_state (role_bits : Z) (inactive : bool) : gst :=
  {| st := init_word role_bits inactive; lst := []; rootq := 0; pcs := fun _ => Idle; nextid := 0;
     started := []; running := None; token := None; wakers := []; lockh := None; side := 0; sidelock := None;
     susp_done := 0; rpre := []; sret := []; plic := false; pstarts := 0; act_called := false |}.

Definition set_pc (s : gst) (t : Z) (p : pc) : gst :=
  {| st := st s; lst := lst s; rootq := rootq s; pcs := upd (pcs s) t p; nextid := nextid s; started := started s;
     running := running s; token := token s; wakers := wakers s; lockh := lockh s; side := side s; sidelock := sidelock s;
     susp_done := susp_done s; rpre := rpre s; sret := sret s; plic := plic s; pstarts := pstarts s; act_called := act_called s |}.
Definition set_st (s : gst) (v : Z) : gst :=
  {| st := v; lst := lst s; rootq := rootq s; pcs := pcs s; nextid := nextid s; started := started s;
     running := running s; token := token s; wakers := wakers s; lockh := lockh s; side := side s; sidelock := sidelock s;
     susp_done := susp_done s; rpre := rpre s; sret := sret s; plic := plic s; pstarts := pstarts s; act_called := act_called s |}.
Definition set_lst (s : gst) (l : list entry) : gst :=
  {| st := st s; lst := l; rootq := rootq s; pcs := pcs s; nextid := nextid s; started := started s;
     running := running s; token := token s; wakers := wakers s; lockh := lockh s; side := side s; sidelock := sidelock s;
     susp_done := susp_done s; rpre := rpre s; sret := sret s; plic := plic s; pstarts := pstarts s; act_called := act_called s |}.
Definition set_rootq (s : gst) (n : Z) : gst :=
  {| st := st s; lst := lst s; rootq := n; pcs := pcs s; nextid := nextid s; started := started s;
     running := running s; token := token s; wakers := wakers s; lockh := lockh s; side := side s; sidelock := sidelock s;
     susp_done := susp_done s; rpre := rpre s; sret := sret s; plic := plic s; pstarts := pstarts s; act_called := act_called s |}.
Definition set_token (s : gst) (k : option (option Z)) : gst :=
  {| st := st s; lst := lst s; rootq := rootq s; pcs := pcs s; nextid := nextid s; started := started s;
     running := running s; token := k; wakers := wakers s; lockh := lockh s; side := side s; sidelock := sidelock s;
     susp_done := susp_done s; rpre := rpre s; sret := sret s; plic := plic s; pstarts := pstarts s; act_called := act_called s |}.
Definition set_wakers (s : gst) (w : list Z) : gst :=
  {| st := st s; lst := lst s; rootq := rootq s; pcs := pcs s; nextid := nextid s; started := started s;
     running := running s; token := token s; wakers := w; lockh := lockh s; side := side s; sidelock := sidelock s;
     susp_done := susp_done s; rpre := rpre s; sret := sret s; plic := plic s; pstarts := pstarts s; act_called := act_called s |}.
Definition set_lockh (s : gst) (h : option Z) : gst :=
  {| st := st s; lst := lst s; rootq := rootq s; pcs := pcs s; nextid := nextid s; started := started s;
     running := running s; token := token s; wakers := wakers s; lockh := h; side := side s; sidelock := sidelock s;
     susp_done := susp_done s; rpre := rpre s; sret := sret s; plic := plic s; pstarts := pstarts s; act_called := act_called s |}.
Definition set_side (s : gst) (n : Z) : gst :=
  {| st := st s; lst := lst s; rootq := rootq s; pcs := pcs s; nextid := nextid s; started := started s;
     running := running s; token := token s; wakers := wakers s; lockh := lockh s; side := n; sidelock := sidelock s;
     susp_done := susp_done s; rpre := rpre s; sret := sret s; plic := plic s; pstarts := pstarts s; act_called := act_called s |}.
Definition set_sidelock (s : gst) (h : option Z) : gst :=
  {| st := st s; lst := lst s; rootq := rootq s; pcs := pcs s; nextid := nextid s; started := started s;
     running := running s; token := token s; wakers := wakers s; lockh := lockh s; side := side s; sidelock := h;
     susp_done := susp_done s; rpre := rpre s; sret := sret s; plic := plic s; pstarts := pstarts s; act_called := act_called s |}.
Definition set_rpre (s : gst) (l : list Z) : gst :=
  {| st := st s; lst := lst s; rootq := rootq s; pcs := pcs s; nextid := nextid s; started := started s;
     running := running s; token := token s; wakers := wakers s; lockh := lockh s; side := side s; sidelock := sidelock s;
     susp_done := susp_done s; rpre := l; sret := sret s; plic := plic s; pstarts := pstarts s; act_called := act_called s |}.
Definition set_sret (s : gst) (l : list Z) : gst :=
  {| st := st s; lst := lst s; rootq := rootq s; pcs := pcs s; nextid := nextid s; started := started s;
     running := running s; token := token s; wakers := wakers s; lockh := lockh s; side := side s; sidelock := sidelock s;
     susp_done := susp_done s; rpre := rpre s; sret := l; plic := plic s; pstarts := pstarts s; act_called := act_called s |}.
Definition set_susp_done (s : gst) (n : Z) : gst :=
  {| st := st s; lst := lst s; rootq := rootq s; pcs := pcs s; nextid := nextid s; started := started s;
     running := running s; token := token s; wakers := wakers s; lockh := lockh s; side := side s; sidelock := sidelock s;
     susp_done := n; rpre := rpre s; sret := sret s; plic := plic s; pstarts := pstarts s; act_called := act_called s |}.
Definition set_period (s : gst) (b : bool) (n : Z) : gst :=
  {| st := st s; lst := lst s; rootq := rootq s; pcs := pcs s; nextid := nextid s; started := started s;
     running := running s; token := token s; wakers := wakers s; lockh := lockh s; side := side s; sidelock := sidelock s;
     susp_done := susp_done s; rpre := rpre s; sret := sret s; plic := b; pstarts := n; act_called := act_called s |}.
Definition set_act_called (s : gst) : gst :=
  {| st := st s; lst := lst s; rootq := rootq s; pcs := pcs s; nextid := nextid s; started := started s;
     running := running s; token := token s; wakers := wakers s; lockh := lockh s; side := side s; sidelock := sidelock s;
     susp_done := susp_done s; rpre := rpre s; sret := sret s; plic := plic s; pstarts := pstarts s; act_called := true |}.

Fixpoint remove_z (t : Z) (l : list Z) : list Z :=
  match l with [] => [] | x :: l' => if x =? t then remove_z t l' else x :: remove_z t l' end.

Fixpoint link_id (l : list entry) (i : Z) : list entry :=
  match l with
  | [] => []
  | e :: l' => if e_id e =? i then {| e_id := i; e_linked := true |} :: l' else e :: link_id l' i
  end.

(* the drainer has passed the suspended-check of this iteration and has not yet begun the callout *)
Definition licensed_pc (p : pc) : bool := match p with PW_pop _ | PW_run _ _ _ => true | _ => false end.
Definition lic_now (s : gst) : bool :=
  match lockh s with Some w => licensed_pc (pcs s w) | None => false end.
Definition suspended_word (w : Z) : bool := nz (f_dq_state_is_suspended w).

Definition lockbits (t : Z) : Z := Z.lor (Z.lor t WIDTH_FULL_BIT) IN_BARRIER.
Definition delta0 : Z := u64 (u64 (HALF * INTERVAL) - INTERVAL).

(* what a client may start on an idle thread *)
(* CAsync qos ovr: ovr = what _dispatch_queue_need_override will answer if this push finds the list non-empty; it reads
   dq_state without synchronisation (the source: "may read a stale dq_state value"), so the model lets the environment
   choose: true = the push also issues dx_wakeup(dq, qos, CONSUME_2), which may set ENQUEUED but never DIRTY *)
Inductive call := CAsync (qos : Z) (ovr : bool) | CWorker (floor : Z) | CSuspend | CResume | CActivate.

Definition begin (s : gst) (t : Z) (c : call) : option gst :=
  match pcs s t with
  | Idle =>
      match c with
      | CAsync qos ovr => if (0 <=? qos) && (qos <? 8) then Some (set_pc s t (PA_xchg qos ovr)) else None
      | CWorker floor =>
          if 0 <? rootq s then Some (set_token (set_pc (set_rootq s (rootq s - 1)) t (PW_lock floor)) (Some (Some t))) else None
      | CSuspend => Some (set_pc s t PS_rmw)
      | CResume =>
          (* client contract: every dispatch_resume balances a dispatch_suspend that has returned *)
          if 0 <? susp_done s
          then Some (set_rpre (set_susp_done (set_pc s t PR_rmw) (susp_done s - 1)) (t :: rpre s))
          else None
      | CActivate => Some (set_act_called (set_pc s t PC_rmw))
      end
  | _ => None
  end.

(* the suspension committed by thread t: the word, the ghost list, and the start of a suspended period *)
Definition commit_suspend (s : gst) (t : Z) (new : Z) (p : pc) : gst :=
  let fresh := negb (suspended_word (st s)) in
  {| st := new; lst := lst s; rootq := rootq s; pcs := upd (pcs s) t p; nextid := nextid s; started := started s;
     running := running s; token := token s; wakers := wakers s; lockh := lockh s; side := side s; sidelock := sidelock s;
     susp_done := susp_done s; rpre := rpre s; sret := t :: sret s;
     plic := if fresh then lic_now s else plic s; pstarts := if fresh then 0 else pstarts s; act_called := act_called s |}.

(* one atomic step of thread t inside a call; None = not enabled (spinning / blocked / crashed) or no such step *)
Definition gstep (rb : Z) (s : gst) (t : Z) : option gst :=
  match pcs s t with
  | Idle => None
  | PCrash _ => None
  (* ---------------- dispatch_async_f (as SLane) *)
  | PA_xchg qos ovr =>
      let i := nextid s in
      let was_empty := match lst s with [] => true | _ => false end in
      let s1 := set_pc (set_lst s (lst s ++ [{| e_id := i; e_linked := false |}])) t (PA_link i was_empty qos ovr) in
      Some {| st := st s1; lst := lst s1; rootq := rootq s1; pcs := pcs s1; nextid := i + 1; started := started s1;
              running := running s1; token := token s1; wakers := if was_empty then t :: wakers s else wakers s;
              lockh := lockh s1; side := side s1; sidelock := sidelock s1; susp_done := susp_done s1; rpre := rpre s1;
              sret := sret s1; plic := plic s1; pstarts := pstarts s1; act_called := act_called s1 |}
  | PA_link i was_empty qos ovr =>
      Some (set_pc (set_lst s (link_id (lst s) i)) t (if was_empty then PA_probe qos else if ovr then PA_oprobe qos else Idle))
  | PA_probe qos =>
      Some (match lst s with
            | [] => set_wakers (set_pc s t Idle) (remove_z t (wakers s))
            | _ => set_pc s t (PA_wake qos true)
            end)
  | PA_wake qos _ =>
      match wakeup_loop 0 qos 3 1 (st s) ENQUEUED with
      | Commit new _ =>
          let enq_set := negb (Z.land (Z.lxor (st s) new) ENQUEUED =? 0) in
          let s1 := set_wakers (set_pc (set_st s new) t (if enq_set then PA_rootpush else Idle)) (remove_z t (wakers s)) in
          Some (if enq_set then set_token s1 (Some (Some t)) else s1)
      | _ => None
      end
  | PA_rootpush => Some (set_token (set_pc (set_rootq s (rootq s + 1)) t Idle) (Some None))
  (* ---------------- the drainer *)
  | PW_lock floor =>
      match f_dispatch_queue_drain_try_lock 0 0 1 t floor (st s) 0 with
      | Commit new owned =>
          Some (if owned =? 0 then set_token (set_pc (set_st s new) t Idle) None
                else set_lockh (set_pc (set_st s new) t (PW_tail owned)) (Some t))
      | Restart _ => Some (set_pc s t (PW_lock (f_dq_state_max_qos (st s))))
      | _ => None
      end
  | PW_tail owned =>
      Some (set_pc s t (match lst s with [] => PW_unlock (Z.lor (Z.land owned ENQUEUED) SERIAL_OWNED) | _ => PW_head owned end))
  | PW_head owned =>
      match lst s with
      | e :: _ => if e_linked e then Some (set_pc s t (PW_chk owned)) else None      (* _dispatch_wait_for_enqueuer *)
      | [] => None
      end
  | PW_chk owned =>
      (* dq_state = os_atomic_load(&dq->dq_state, relaxed); if (_dq_state_is_suspended(dq_state)) break;
         the break leaves dc != NULL: _dispatch_queue_class_invoke goes to _dispatch_queue_invoke_finish *)
      Some (set_pc s t (if suspended_word (st s) then PW_fin (Z.lor (Z.land owned ENQUEUED) SERIAL_OWNED) else PW_pop owned))
  | PW_pop owned =>
      match lst s with
      | [e] => Some (set_pc (set_lst s []) t (PW_run owned (e_id e) false))
      | e :: e2 :: l' => if e_linked e2 then Some (set_pc (set_lst s (e2 :: l')) t (PW_run owned (e_id e) true)) else None
      | [] => None
      end
  | PW_run owned i more =>
      let s1 := set_pc s t (PW_incall owned i more) in
      Some {| st := st s1; lst := lst s1; rootq := rootq s1; pcs := pcs s1; nextid := nextid s1; started := i :: started s;
              running := Some (t, i); token := token s1; wakers := wakers s1; lockh := lockh s1; side := side s1;
              sidelock := sidelock s1; susp_done := susp_done s1; rpre := rpre s1; sret := sret s1; plic := plic s1;
              pstarts := if suspended_word (st s) then pstarts s + 1 else pstarts s; act_called := act_called s1 |}
  | PW_incall owned i more =>
      let s1 := set_pc s t (PW_next owned more) in
      Some {| st := st s1; lst := lst s1; rootq := rootq s1; pcs := pcs s1; nextid := nextid s1; started := started s1;
              running := None; token := token s1; wakers := wakers s1; lockh := lockh s1; side := side s1;
              sidelock := sidelock s1; susp_done := susp_done s1; rpre := rpre s1; sret := sret s1; plic := plic s1;
              pstarts := pstarts s1; act_called := act_called s1 |}
  | PW_next owned more =>
      if more then Some (set_pc s t (PW_chk owned))
      else Some (set_pc s t (match lst s with [] => PW_unlock (Z.lor (Z.land owned ENQUEUED) SERIAL_OWNED) | _ => PW_head owned end))
  | PW_unlock owned =>
      match f_dispatch_queue_drain_try_unlock 0 owned 1 (st s) with
      | Commit new _ => Some (set_lockh (set_token (set_pc (set_st s new) t Idle) None) None)
      | NoCommit _ _ => Some (set_pc s t (PW_xor owned))
      | _ => None
      end
  | PW_xor owned => Some (set_pc (set_st s (Z.lxor (st s) DIRTY)) t (PW_tail owned))
  | PW_fin owned =>
      match invoke_finish_loop 0 0 1 owned (st s) ENQUEUED with
      | Commit new _ =>
          (* old_state -= owned; if ((old_state ^ new_state) & enqueued) push on tq, else release *)
          let enq_set := nz (Z.land (Z.lxor (u64 (st s - owned)) new) ENQUEUED) in
          let s1 := set_lockh (set_st s new) None in
          Some (if enq_set then set_pc s1 t PA_rootpush else set_token (set_pc s1 t Idle) None)
      | _ => None
      end
  (* ---------------- dispatch_suspend *)
  | PS_rmw =>
      match suspend_loop 0 (st s) with
      | Commit new _ => Some (commit_suspend s t new PS_ret)
      | NoCommit _ _ => Some (set_pc s t PS_slock)
      | _ => None
      end
  | PS_slock =>
      match sidelock s with
      | None => Some (set_sidelock (set_pc s t PS_srmw) (Some t))
      | Some _ => None
      end
  | PS_srmw =>
      let delta := if side s =? 0 then u64 (delta0 - HAS_SIDE) else delta0 in
      match suspend_slow_loop 0 (st s) delta with
      | Commit new _ => Some (commit_suspend s t new PS_sside)
      | NoCommit _ _ => Some (set_pc s t PS_sretry)
      | _ => None
      end
  | PS_sside =>
      if 4294967296 <=? side s + HALF then Some (set_pc s t (PCrash 1))
      else Some (set_side (set_pc s t PS_sunlock) (side s + HALF))
  | PS_sunlock => Some (set_sidelock (set_pc s t PS_ret) None)
  | PS_sretry => Some (set_sidelock (set_pc s t PS_rmw) None)
  | PS_ret => Some (set_sret (set_susp_done (set_pc s t Idle) (susp_done s + 1)) (remove_z t (sret s)))
  (* ---------------- dispatch_resume *)
  | PR_rmw =>
      match resume_loop 0 0 (st s) 0 0 (lockbits t) with
      | Commit new _ =>
          let old := st s in
          if nz (Z.land (Z.lxor old new) NEEDS_ACT) then Some (set_pc (set_st s new) t PR_role)
          else
            let s1 := set_rpre (set_st s new) (remove_z t (rpre s)) in
            if suspended_word new then Some (set_pc s1 t Idle)
            else if nz (Z.land (Z.lxor old new) IN_BARRIER)
                 then Some (set_lockh (set_pc s1 t (PR_bctail (f_dq_state_max_qos old))) (Some t))
                 else if negb (nz (f_dq_state_is_runnable new)) then Some (set_pc s1 t Idle)
                      else Some (set_pc s1 t (PA_oprobe (f_dq_state_max_qos old)))
      | NoCommit _ _ =>
          if nz (Z.land (st s) HAS_SIDE) then Some (set_pc s t PR_slock) else Some (set_pc s t (PCrash 2))
      | _ => None
      end
  | PR_slock =>
      match sidelock s with
      | None => Some (set_sidelock (set_pc s t PR_srmw) (Some t))
      | Some _ => None
      end
  | PR_srmw =>
      if side s =? 0 then Some (set_pc s t PR_sretry)
      else
        let delta := if side s =? HALF then u64 (delta0 - HAS_SIDE) else delta0 in
        match resume_slow_loop 0 (st s) delta with
        | Commit new _ => Some (set_rpre (set_pc (set_st s new) t PR_sside) (remove_z t (rpre s)))
        | NoCommit _ _ => Some (set_pc s t PR_sretry)
        | _ => None
        end
  | PR_sside => Some (set_side (set_pc s t PR_sunlock) (side s - HALF))
  | PR_sunlock => Some (set_sidelock (set_pc s t Idle) None)
  | PR_sretry => Some (set_sidelock (set_pc s t PR_rmw) None)
  | PR_role =>
      match inherit_wlh_loop 0 0 (st s) (ROLE_UNIT * rb) with
      | Commit new _ => Some (set_pc (set_st s new) t PR_rmw)
      | NoCommit _ _ => Some (set_pc s t PR_rmw)
      | _ => None
      end
  | PR_bctail qos => Some (set_pc s t (match lst s with [] => PR_cbc qos false | _ => PR_bcsusp qos end))
  | PR_bcsusp qos => Some (set_pc s t (if suspended_word (st s) then PR_cbc qos false else PR_bchead qos))
  | PR_bchead qos =>
      match lst s with
      | e :: _ => if e_linked e then Some (set_pc s t (PR_cbc qos true)) else None
      | [] => None
      end
  | PR_cbc qos target =>
      match class_barrier_complete_loop 0 qos 1 (b2z target) SERIAL_OWNED (st s) (if target then ENQUEUED else 0) with
      | Commit new _ =>
          let enq_set := target && nz (Z.land (Z.lxor (u64 (st s - SERIAL_OWNED)) new) ENQUEUED) in
          let s1 := set_lockh (set_st s new) None in
          Some (if enq_set then set_token (set_pc s1 t PA_rootpush) (Some (Some t)) else set_pc s1 t Idle)
      | NoCommit _ _ => Some (set_pc s t (PR_bcxor qos))
      | _ => None
      end
  | PR_bcxor qos => Some (set_pc (set_st s (Z.lxor (st s) DIRTY)) t (PR_bctail qos))
  | PA_oprobe qos => Some (set_pc s t (match lst s with [] => Idle | _ => PA_owake qos end))
  | PA_owake qos =>
      match wakeup_loop 0 qos 1 1 (st s) ENQUEUED with
      | Commit new _ =>
          let enq_set := negb (Z.land (Z.lxor (st s) new) ENQUEUED =? 0) in
          Some (if enq_set then set_token (set_pc (set_st s new) t PA_rootpush) (Some (Some t)) else set_pc (set_st s new) t Idle)
      | NoCommit _ _ => Some (set_pc s t Idle)
      | _ => None
      end
  (* ---------------- dispatch_activate *)
  | PC_rmw =>
      match resume_activate_loop 0 1 (st s) with
      | Commit new _ =>
          if nz (Z.land (Z.lxor (st s) new) NEEDS_ACT)
          then Some (set_rpre (set_pc (set_st s new) t PR_role) (t :: rpre s))
          else if suspended_word new then Some (set_pc (set_st s new) t Idle)
               else Some (set_pc (set_st s new) t (PCrash 3))
      | NoCommit _ _ => Some (set_pc s t Idle)
      | _ => None
      end
  end.

Definition valid_tid (t : Z) : Prop := 0 < t < 1073741824.
Inductive action := ABegin (t : Z) (c : call) | AStep (t : Z).
Definition step (rb : Z) (s : gst) (a : action) (s' : gst) : Prop :=
  match a with
  | ABegin t c => valid_tid t /\ begin s t c = Some s'
  | AStep t => valid_tid t /\ gstep rb s t = Some s'
  end.
Definition reach (rb : Z) (inactive : bool) : gst -> Prop :=
  reachable (fun s => s = init_state rb inactive) (step rb).

Fixpoint run (rb : Z) (s : gst) (acts : list action) : option gst :=
  match acts with
  | [] => Some s
  | ABegin t c :: r => match begin s t c with Some s' => run rb s' r | None => None end
  | AStep t :: r => match gstep rb s t with Some s' => run rb s' r | None => None end
  end.
