(* GroupR.v — replay of a whole recorded round (all threads of one round of harness/c07_group.c) as a run of the GLOBAL
   model Model/Group.v.

   In Group.v a step of the global model is `gstep s t e`: thread t performs the observed event e; the model checks e
   against its own shared state (the value an atomic operation reports must be the model's dg_state; a strong CAS succeeds
   iff the word is the expected one, a weak one only if it is; the old tail an exchange on dg_notify_tail reports must be
   the last continuation the model has on its list; the continuation pushed on the target queue must be the next one of the
   list the thread detached, and the last push must exhaust it; leave at count zero / enter at the maximum have no
   successor) and updates word, list, kernel state and ghosts.  So the abstraction `mabs` of the serial-lane replay is
   the identity here: the actions of a thread are the events of its accepted trace and each carries its recorded outcome.

   `sched` executes all threads' events on gstep in a preferred order (the recorder's stamps): at each point the first
   thread, in that order and within a window, whose next event is ENABLED in the model (gstep accepts it) and consistent
   with what the kernel reported (`kernel_ok`) is taken.  The round is reproduced iff every event is consumed.  The
   scheduler never invents a model step and never skips one (GroupR_proofs.replay_reach).
   A wrong order can only make the replay fail, never succeed wrongly. *)
From Coq Require Import ZArith Bool List.
From Verif Require Import Word Conc Gen_consts Gen_group Group GroupR_inv.
Import ListNotations.
Local Open Scope Z_scope.

Definition EWOULDBLOCK := 11.

(* the result of futex_wait is the kernel's choice in gstep; the recording says what it was:
   if the model saw a different generation when the thread called futex_wait, so did the kernel later (EWOULDBLOCK);
   strict mode: rc = 0 means woken by FUTEX_WAKE, so the model must have woken the thread.  The FUTEX_WAKE note is written
   before the system call: where in [note, the waker's next event] the wake took effect is not recorded, and the order the
   checker proposes may place it wrongly; a round that does not replay in strict mode is replayed again without this one
   requirement (a futex_wait may then return 0 while the model still has the thread asleep: a spurious return in the model) *)
Definition kernel_ok (strict : bool) (s : gst) (t : Z) (e : event) : bool :=
  match pcs s t with
  | PSleep _ _ =>
      match slp s t with
      | NoSleep => eb e =? EWOULDBLOCK
      | Sleeping => negb strict || negb (eb e =? 0)
      | Woken => true
      | Awake => false
      end
  | _ => true
  end.

Definition try_ev (strict : bool) (s : gst) (t : Z) (e : event) : option gst :=
  if kernel_ok strict s t e then gstep s t e else None.

Definition queues := list (Z * list event).
Fixpoint lookup (t : Z) (qs : queues) : list event :=
  match qs with [] => [] | (u, l) :: r => if u =? t then l else lookup t r end.
Fixpoint pop_q (t : Z) (qs : queues) : queues :=
  match qs with [] => [] | (u, l) :: r => if u =? t then (u, tl l) :: r else (u, l) :: pop_q t r end.
Fixpoint remove_first (t : Z) (l : list Z) : list Z :=
  match l with [] => [] | x :: r => if x =? t then r else x :: remove_first t r end.

(* among the first w entries of the preferred order: the first thread whose next event the model accepts *)
Fixpoint pick (strict : bool) (s : gst) (qs : queues) (ord : list Z) (seen : list Z) (w : nat) : option (Z * gst) :=
  match w, ord with
  | O, _ | _, [] => None
  | S w', t :: r =>
      if existsb (Z.eqb t) seen then pick strict s qs r seen w'
      else match lookup t qs with
           | e :: _ => match try_ev strict s t e with
                       | Some s' => Some (t, s')
                       | None => pick strict s qs r (t :: seen) w'
                       end
           | [] => pick strict s qs r (t :: seen) w'
           end
  end.

(* what the replay remembers besides the state (not part of the model): for every registration, in the order in which the
   model registers them (= the ghost id), which event did it (thread, number of events the thread had left); and, for every
   continuation the model submits although the count was not zero since its registration (Group.set_fire: zreg <= id, the
   `early` flag), the registration event of that notification *)
Definition obsacc := (list (Z * Z) * list Z)%type.
Definition observe (s : gst) (t rem : Z) (acc : obsacc) : obsacc :=
  match pcs s t with
  | PNfPush => (fst acc ++ [(t, rem)], snd acc)
  | PFire _ _ =>
      match held s t with
      | (i, _) :: _ => if zreg s <=? i then (fst acc, snd acc ++ (let '(a, b) := nth (Z.to_nat i) (fst acc) (0, 0) in [a; b])) else acc
      | [] => acc
      end
  | _ => acc
  end.

(* chk: a boolean predicate evaluated on every `period`-th state and on the last one; bad = number of steps done when it
   first failed, or -1 *)
Section Sched.
  Variable chk : gst -> bool.
  Variable period : Z.
  Variable strict : bool.
  Fixpoint sched (fuel : nat) (w : nat) (s : gst) (qs : queues) (ord : list Z) (done bad : Z) (acc : obsacc)
    : gst * queues * Z * Z * list Z * obsacc :=
    match fuel with
    | O => (s, qs, done, bad, ord, acc)
    | S f =>
        match ord with
        | [] => (s, qs, done, bad, [], acc)
        | _ => match pick strict s qs ord [] w with
               | Some (t, s') =>
                   (* nested ifs: vm_compute evaluates the arguments of && eagerly, chk must only run on the chosen states *)
                   let bad' := if bad =? -1 then (if (done + 1) mod period =? 0 then (if chk s' then bad else done + 1) else bad)
                               else bad in
                   sched f w s' (pop_q t qs) (remove_first t ord) (done + 1) bad'
                         (observe s t (Z.of_nat (length (lookup t qs))) acc)
               | None => (s, qs, done, bad, ord, acc)
               end
        end
    end.
End Sched.

Definition all_idle (s : gst) (tids : list Z) : bool :=
  forallb (fun t => match pcs s t with PIdle => true | _ => false end) tids.
Definition none_asleep (s : gst) (tids : list Z) : bool :=
  forallb (fun t => match slp s t with Sleeping => false | _ => true end) tids.

Definition all_fired (s : gst) : bool := forallb (fun i => fcnt s i =? 1) (zrange (Z.to_nat (nreg s))).

(* result of the replay of one round:
   [events executed; events left; dg_state; generations; outstanding; notifications registered; length of the list;
    all threads idle; nobody asleep; every registered notification submitted once; early flag; step at which chk first failed
    or -1; chk on the final state; first blocked thread in the preferred order or -1] followed by the number of events each
   thread has left *)
(* the window is the whole preferred order: every thread's next event is considered, earliest stamp first *)
Definition replay (chk : list Z -> gst -> bool) (period : Z) (strict : bool) (qs : queues) (ord : list Z) : list Z :=
  let tids := map fst qs in
  let '(s, qs', done, bad, rest, acc) := sched (chk tids) period strict (S (length ord)) (length ord) init_state qs ord 0 (-1) ([], []) in
  [done; Z.of_nat (length rest); word s; gfull s; outst s; nreg s; Z.of_nat (length (nq s)); b2z (all_idle s tids);
   b2z (none_asleep s tids); b2z (all_fired s); b2z (early s); bad; b2z (chk tids s);
   match rest with t :: _ => t | [] => -1 end] ++ map (fun q => Z.of_nat (length (snd q))) qs' ++ [-9999] ++ snd acc.
