(* Sema.v — model of dispatch_semaphore_signal / dispatch_semaphore_wait / _dispatch_semaphore_wait_slow
   (src/semaphore.c:83-146) over the POSIX-semaphore shims _dispatch_sema4_signal/_wait/_timedwait
   (src/shims/lock.c:184-226), for any number of threads.
   Atomic sites, memory orders and LONG_MIN/LONG_MAX come from Gen_sema, the time constants from Gen_consts.
   What is NOT modelled (stated in the evidence):
   - the DISPATCH_CLIENT_CRASH of dispatch_semaphore_signal when the incremented value wraps to LONG_MIN: the
     thread automaton and the global model have no successor there (the process aborts);
   - a decrement of LONG_MIN (2^63 simultaneous waiters): the global model has no successor there;
   - sem_post/sem_wait failures other than EINTR (the library crashes); EINTR is retried inside the library, below
     the granularity of the hook, for sem_wait and sem_timedwait alike;
   - elapsed real time: sem_timedwait may report a timeout at any moment (a `choice`). *)
From Coq Require Import ZArith Bool List.
From Verif Require Import Word Conc Gen_consts Gen_fields Gen_sema.
Import ListNotations.
Local Open Scope Z_scope.

(* layout of the tracked range: the harness tracks [&dsema_value, &dsema_sema + sizeof(sem_t)) and reports
   offsetof(dsema_sema) - offsetof(dsema_value), which must be OFF_SEMA *)
Definition OFF_VALUE := 0.
Definition OFF_SEMA := 16.
(* a plain (non-atomic) read has no memory order; the hook does not see it (see tstep_vis) *)
Definition MO_PLAIN := -1.
(* DVU_CALL: ea = operation, eb = the timeout argument of dispatch_semaphore_wait *)
Definition OP_SIGNAL := 0.
Definition OP_WAIT := 1.

(* switch (timeout) of _dispatch_semaphore_wait_slow: default / case DISPATCH_TIME_NOW / case DISPATCH_TIME_FOREVER *)
Inductive wkind := WForever | WTimed | WNow.
Definition wkind_of (timeout : Z) : wkind :=
  if timeout =? DISPATCH_TIME_NOW then WNow else if timeout =? DISPATCH_TIME_FOREVER then WForever else WTimed.

(* program points of one thread *)
Inductive pc :=
| PIdle                (* not in a call *)
| PSigInc              (* dispatch_semaphore_signal entered: os_atomic_inc2o(dsema_value, release) next *)
| PSigPost             (* incremented value <= 0: _dispatch_semaphore_signal_slow -> sem_post next *)
| PSigRet (r : Z)      (* about to return r *)
| PWDec (k : wkind)    (* dispatch_semaphore_wait entered: os_atomic_dec2o(dsema_value, acquire) next *)
| PWTimed              (* _dispatch_semaphore_wait_slow, default: inside _dispatch_sema4_timedwait *)
| PWLoad               (* case DISPATCH_TIME_NOW: the plain read `orig = dsema->dsema_value` next *)
| PWUndo (orig : Z)    (* `while (orig < 0)`: loop test, then cmpxchgvw(orig -> orig+1, relaxed) *)
| PWSemWait            (* case DISPATCH_TIME_FOREVER: _dispatch_sema4_wait next *)
| PWBlocked            (* inside sem_wait *)
| PWRet0               (* about to return 0 *)
| PWRetT.              (* about to return _DSEMA4_TIMEOUT() (non-zero) *)

Definition slow_entry (k : wkind) : pc :=
  match k with WForever => PWSemWait | WTimed => PWTimed | WNow => PWLoad end.

(* the per-thread automaton over hook events. Values of the dsema_value word arrive as unsigned 64-bit numbers;
   the code computes on `long`, hence s64. *)
Definition tstep (p : pc) (e : event) : option pc :=
  match p with
  | PIdle =>
      if ev_kind e DVU_CALL then
        if ea e =? OP_SIGNAL then Some PSigInc
        else if ea e =? OP_WAIT then Some (PWDec (wkind_of (eb e))) else None
      else None
  | PSigInc =>
      if ev_is e DV_ADD MO_RELEASE OFF_VALUE && (eb e =? 1) then
        let r := s64 (s64 (ea e) + 1) in                      (* long value = os_atomic_inc2o(...) *)
        if r >? 0 then Some (PSigRet 0)                        (* likely(value > 0): return 0 *)
        else if r =? SEMA_LONG_MIN then None                   (* DISPATCH_CLIENT_CRASH: not modelled *)
        else Some PSigPost
      else None
  | PSigPost => if ev_is e DV_SEM_POST 0 OFF_SEMA && (ea e =? 1) then Some (PSigRet 1) else None
  | PSigRet r => if ev_kind e DVU_RET && (ea e =? r) then Some PIdle else None
  | PWDec k =>
      if ev_is e DV_SUB MO_ACQUIRE OFF_VALUE && (eb e =? 1) then
        let r := s64 (s64 (ea e) - 1) in                      (* long value = os_atomic_dec2o(...) *)
        if r >=? 0 then Some PWRet0 else Some (slow_entry k)
      else None
  | PWTimed =>
      (* _dispatch_sema4_timedwait returned: eb = 1 iff sem_timedwait failed with ETIMEDOUT *)
      if ev_is e DV_SEM_TIMEDWAIT_RET 0 OFF_SEMA then Some (if eb e =? 0 then PWRet0 else PWLoad) else None
  | PWLoad => if ev_is e DV_LOAD MO_PLAIN OFF_VALUE then Some (PWUndo (s64 (ea e))) else None
  | PWUndo orig =>
      if orig <? 0 then
        (* cmpxchgvw(orig -> orig + 1): on success the hook reports the expected value as the one observed *)
        if ev_is e DV_CASW MO_RELAXED OFF_VALUE && (s64 (eb e) =? orig + 1) &&
           (negb (eok e =? 1) || (s64 (ea e) =? orig))
        then Some (if eok e =? 1 then PWRetT else PWUndo (s64 (ea e))) else None
      else (* "Another thread called semaphore_signal(). Drain the wakeup." falls into _dispatch_sema4_wait *)
        if ev_is e DV_SEM_WAIT 0 OFF_SEMA then Some PWBlocked else None
  | PWSemWait => if ev_is e DV_SEM_WAIT 0 OFF_SEMA then Some PWBlocked else None
  | PWBlocked => if ev_is e DV_SEM_WAIT_RET 0 OFF_SEMA && (eb e =? 0) then Some PWRet0 else None
  | PWRet0 => if ev_kind e DVU_RET && (ea e =? 0) then Some PIdle else None
  | PWRetT => if ev_kind e DVU_RET && negb (ea e =? 0) then Some PIdle else None
  end.

(* The plain read of line 122 is not an os_atomic operation, so the hook does not report it.  For trace
   conformance the value read is inferred from the next visible event: the first cmpxchg of the loop carries
   orig + 1 as its new value; if the thread goes straight to sem_wait the value read was >= 0 (0 is used as the
   witness).  Sema_proofs.tstep_vis_sound: every step of tstep_vis is a step of tstep, preceded at PWLoad by
   exactly one plain-read step of tstep. *)
Definition plain_load (v : Z) : event := mkEv DV_LOAD MO_PLAIN 0 OFF_VALUE 8 v v 1.
Definition tstep_vis (p : pc) (e : event) : option pc :=
  match p with
  | PWLoad =>
      if ev_kind e DV_CASW then tstep (PWUndo (s64 (s64 (eb e) - 1))) e
      else if ev_kind e DV_SEM_WAIT then tstep (PWUndo 0) e
      else None
  | _ => tstep p e
  end.

(* atomic sites of the modelled functions in program order: must equal what src2v reads from the source *)
Definition model_sites_signal : list site :=
  [ {| s_kind := KAdd; s_field := F_dsema_value; s_order := Release |} ].
Definition model_sites_signal_slow : list site := [].
Definition model_sites_wait_slow : list site :=
  [ {| s_kind := KCasWeak; s_field := F_dsema_value; s_order := Relaxed |} ].
Definition model_sites_wait : list site :=
  {| s_kind := KSub; s_field := F_dsema_value; s_order := Acquire |} :: model_sites_wait_slow.

(* ------------------------------------------------------------------ global model *)
Record gst := {
  value : Z;                (* dsema_value as a C long *)
  ksem : Z;                 (* count of the kernel semaphore dsema_sema *)
  pcs : Z -> pc;            (* program point of every thread *)
  seen : list Z;            (* ghost: the threads that ever made a call (finite support of pcs) *)
  v0 : Z;                   (* ghost: the value the semaphore was created with *)
  sig_started : Z;          (* ghost: dispatch_semaphore_signal calls begun *)
  sig_finished : Z;         (* ghost: ... returned *)
  waits_started : Z;        (* ghost: dispatch_semaphore_wait calls begun *)
  successes : Z;            (* ghost: waits that returned 0 *)
  timeouts : Z;             (* ghost: waits that returned non-zero *)
  g_undo : Z -> Z;          (* ghost, per thread, current call: successful re-increments by the undo loop *)
  g_cons : Z -> Z;          (* ghost, per thread, current call: posts consumed (sem_wait / sem_timedwait successes) *)
  g_tout : Z -> bool        (* ghost, per thread, current call: entered the undo code (timed out or DISPATCH_TIME_NOW) *)
}.

(* dispatch_semaphore_create(v): dsema_value = v, sem_init(&dsema_sema, 0, 0) *)
Definition init_state (v : Z) : gst :=
  {| value := v; ksem := 0; pcs := fun _ => PIdle; seen := []; v0 := v; sig_started := 0; sig_finished := 0;
     waits_started := 0; successes := 0; timeouts := 0; g_undo := fun _ => 0; g_cons := fun _ => 0;
     g_tout := fun _ => false |}.

Definition mem (t : Z) (l : list Z) : bool := existsb (Z.eqb t) l.
Definition add_seen (t : Z) (l : list Z) : list Z := if mem t l then l else t :: l.

(* one step of thread t performing event e: the thread automaton accepts e, e is consistent with memory and the
   kernel semaphore, and memory / kernel / ghost state are updated *)
Definition gstep (s : gst) (t : Z) (e : event) : option gst :=
  match tstep (pcs s t) e with
  | None => None
  | Some p' =>
    let st val k sn ss sf ws su to gu gc gt :=
      Some {| value := val; ksem := k; pcs := upd (pcs s) t p'; seen := sn; v0 := v0 s; sig_started := ss;
              sig_finished := sf; waits_started := ws; successes := su; timeouts := to; g_undo := gu; g_cons := gc;
              g_tout := gt |} in
    (* only the word / only the kernel count / nothing but the program point changes *)
    let word val := st val (ksem s) (seen s) (sig_started s) (sig_finished s) (waits_started s) (successes s)
                       (timeouts s) (g_undo s) (g_cons s) (g_tout s) in
    let same := word (value s) in
    match pcs s t with
    | PIdle =>
        let sig := ea e =? OP_SIGNAL in
        st (value s) (ksem s) (add_seen t (seen s))
           (if sig then sig_started s + 1 else sig_started s) (sig_finished s)
           (if sig then waits_started s else waits_started s + 1) (successes s) (timeouts s)
           (upd (g_undo s) t 0) (upd (g_cons s) t 0) (upd (g_tout s) t false)
    | PSigInc => if s64 (ea e) =? value s then word (value s + 1) else None
    | PSigPost => st (value s) (ksem s + 1) (seen s) (sig_started s) (sig_finished s) (waits_started s)
                     (successes s) (timeouts s) (g_undo s) (g_cons s) (g_tout s)
    | PSigRet _ => st (value s) (ksem s) (seen s) (sig_started s) (sig_finished s + 1) (waits_started s)
                      (successes s) (timeouts s) (g_undo s) (g_cons s) (g_tout s)
    | PWDec k =>
        if (s64 (ea e) =? value s) && (SEMA_LONG_MIN <? value s) then
          st (value s - 1) (ksem s) (seen s) (sig_started s) (sig_finished s) (waits_started s) (successes s)
             (timeouts s) (g_undo s) (g_cons s)
             (match p' with PWLoad => upd (g_tout s) t true | _ => g_tout s end)
        else None
    | PWTimed =>
        if eb e =? 0 then
          (* sem_timedwait succeeded: possible only when the count is positive; it takes one *)
          if 0 <? ksem s then
            st (value s) (ksem s - 1) (seen s) (sig_started s) (sig_finished s) (waits_started s) (successes s)
               (timeouts s) (g_undo s) (upd (g_cons s) t (g_cons s t + 1)) (g_tout s)
          else None
        else (* ETIMEDOUT: may happen at any moment *)
          st (value s) (ksem s) (seen s) (sig_started s) (sig_finished s) (waits_started s) (successes s)
             (timeouts s) (g_undo s) (g_cons s) (upd (g_tout s) t true)
    | PWLoad => if s64 (ea e) =? value s then same else None
    | PWUndo orig =>
        if orig <? 0 then
          (* weak CAS(orig -> orig+1): reports the value observed; may fail spuriously; succeeds only on orig *)
          if (s64 (ea e) =? value s) && (negb (eok e =? 1) || (value s =? orig)) then
            if eok e =? 1 then
              st (orig + 1) (ksem s) (seen s) (sig_started s) (sig_finished s) (waits_started s) (successes s)
                 (timeouts s) (upd (g_undo s) t (g_undo s t + 1)) (g_cons s) (g_tout s)
            else same
          else None
        else same
    | PWSemWait => same
    | PWBlocked =>
        (* sem_wait returns only by taking one unit of a positive count *)
        if 0 <? ksem s then
          st (value s) (ksem s - 1) (seen s) (sig_started s) (sig_finished s) (waits_started s) (successes s)
             (timeouts s) (g_undo s) (upd (g_cons s) t (g_cons s t + 1)) (g_tout s)
        else None
    | PWRet0 => st (value s) (ksem s) (seen s) (sig_started s) (sig_finished s) (waits_started s) (successes s + 1)
                   (timeouts s) (g_undo s) (g_cons s) (g_tout s)
    | PWRetT => st (value s) (ksem s) (seen s) (sig_started s) (sig_finished s) (waits_started s) (successes s)
                   (timeouts s + 1) (g_undo s) (g_cons s) (g_tout s)
    end
  end.

Definition step (s : gst) (a : Z * event) (s' : gst) : Prop := gstep s (fst a) (snd a) = Some s'.
(* dispatch_semaphore_create rejects negative values; the value is an intptr_t *)
Definition valid_init (v : Z) : Prop := 0 <= v <= SEMA_LONG_MAX.
Definition reach (v : Z) : gst -> Prop := reachable (fun s => s = init_state v) step.

Fixpoint grun (s : gst) (tr : list (Z * event)) : option gst :=
  match tr with
  | [] => Some s
  | (t, e) :: tr' => match gstep s t e with Some s' => grun s' tr' | None => None end
  end.

(* the drain used by the harness after quiescence, as a schedule of the model: thread t polls (DISPATCH_TIME_NOW)
   n times successfully on a semaphore whose value is n, n-1, ..., 1, then once more on value 0: undo, non-zero *)
Definition U64_M1 := 18446744073709551615.     (* (unsigned long long)-1 *)
Definition ev_call_poll := mkEv DVU_CALL 0 0 0 0 OP_WAIT DISPATCH_TIME_NOW 1.
Definition poll_ok (t val : Z) : list (Z * event) :=
  [ (t, ev_call_poll); (t, mkEv DV_SUB MO_ACQUIRE 0 OFF_VALUE 8 val 1 1); (t, mkEv DVU_RET 0 0 0 0 0 0 1) ].
Definition poll_timeout (t : Z) : list (Z * event) :=
  [ (t, ev_call_poll); (t, mkEv DV_SUB MO_ACQUIRE 0 OFF_VALUE 8 0 1 1); (t, plain_load U64_M1);
    (t, mkEv DV_CASW MO_RELAXED 0 OFF_VALUE 8 U64_M1 0 1); (t, mkEv DVU_RET 0 0 0 0 U64_M1 0 1) ].
Fixpoint drain_schedule (t : Z) (n : nat) : list (Z * event) :=
  match n with
  | O => poll_timeout t
  | S m => poll_ok t (Z.of_nat n) ++ drain_schedule t m
  end.

(* number of threads at the program points selected by w (w p = 1 or 0), over the finite support *)
Fixpoint tsum (w : pc -> Z) (f : Z -> pc) (l : list Z) : Z :=
  match l with [] => 0 | u :: l' => w (f u) + tsum w f l' end.
Definition cnt (w : pc -> Z) (s : gst) : Z := tsum w (pcs s) (seen s).
Definition is_SigInc p := match p with PSigInc => 1 | _ => 0 end.
Definition is_SigPost p := match p with PSigPost => 1 | _ => 0 end.
Definition is_SigRet p := match p with PSigRet _ => 1 | _ => 0 end.
Definition is_WDec p := match p with PWDec _ => 1 | _ => 0 end.
(* a waiter whose decrement made the value negative and that has neither consumed a post nor undone yet *)
Definition is_Slow p := match p with PWTimed | PWLoad | PWUndo _ | PWSemWait | PWBlocked => 1 | _ => 0 end.
Definition is_WRet0 p := match p with PWRet0 => 1 | _ => 0 end.
Definition is_WRetT p := match p with PWRetT => 1 | _ => 0 end.
Definition quiescent (s : gst) : Prop := forall t, pcs s t = PIdle.

(* for the correspondence driver: run one recorded per-thread trace through tstep_vis; result (index of the first
   rejected event or -1, 1 if the thread ended outside any call) *)
Definition pc_idle (p : pc) : Z := match p with PIdle => 1 | _ => 0 end.
Definition conform (self : Z) (tr : list event) : Z * Z :=
  let '(p, i) := run_trace tstep_vis PIdle tr 0 in (i, pc_idle p).
