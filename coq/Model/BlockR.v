(* BlockR.v — replay of a whole recorded round (all threads that touched ONE block object during its life, harness
   c19_block.c) as a run of the GLOBAL model Model/Block.v, and a boolean version of the invariant evaluated on the state
   the replay ends in.  Used by lib/props/c19.py.

   Block.gstep takes the recorded event itself: the event carries what the thread observed (the value of the word before
   the operation, the success flag of a compare-exchange), Block.tstep derives the thread's branch from it and Block.gstep
   refuses the step unless the observation equals the model's word (dbpd_atomic_flags, dbpd_performed, dbpd_queue; for
   the group word: count zero / non-zero) and computes the value written.  So the abstraction of a thread's accepted
   observation sequence into global-model actions is the sequence itself, and "enabled in the model with the recorded
   outcome" is `gstep s t e = Some s'`: the chains old -> new of the shared words are enforced by the model, step by step.

   What the recording does not contain are the LATENT steps (plain reads of dbpd_atomic_flags / dbpd_thread, the plain
   store of dbpd_thread, the retain / release of the target queue, the abstract group results).  The scheduler inserts
   them with the MODEL's current values (`glatents`), as early as the model allows a latent path after which the
   thread's next recorded event is accepted by its automaton (`settle`): a plain read happened somewhere between the
   thread's previous and next recorded events, and all moments at which the value read selects the recorded branch
   are equivalent for the model.

   `sched`: at each point run `settle`, then among the first w entries of the preferred order (the recorder's stamps made
   consistent with the value chains by lib/props/c19.py) take the first thread whose next recorded event is a step of
   gstep.  The scheduler never invents a visible step and never skips one; the round is reproduced iff every recorded event
   is consumed, every thread can end idle, and the model's final words equal the recorded ones. *)
From Coq Require Import ZArith Bool List.
From Verif Require Import Word Conc Gen_consts Gen_fields Gen_group Gen_block Block.
Import ListNotations.
Local Open Scope Z_scope.

(* the latent events thread t can perform in state s, with the values the model holds *)
Definition glatents (s : gst) (t : Z) : list event :=
  match pcs s t with
  | PIdle | PInvRead _ | PTestRead => [ev0 DV_LOAD MO_PLAIN OFF_FLAGS (flags s) (flags s)]
  | PSetThread _ => [ev0 DV_STORE MO_PLAIN OFF_THREAD 0 t]
  | PSubmit _ => [ev0 DVQ_RETAIN2 0 0 0 0]
  | PSubmitRel _ | PRel _ | PWaitWake _ _ => [ev0 DVQ_RELEASE2 0 0 0 0]
  | PWaitThread _ _ => [ev0 DV_LOAD MO_PLAIN OFF_THREAD (thread s) (thread s)]
  | PWaitG _ => [evg DVG_WAITRET 0; evg DVG_WAITRET 1]
  | PNotifyG => [evg DVG_NOTIFY 0]
  | PDtorPerf => [ev0 DV_LOAD MO_PLAIN OFF_PERF (performed s) (performed s)]
  | PDtorPost => [ev0 DV_LOAD MO_PLAIN OFF_QUEUE (queue s) (queue s)]
  | PDtorRel => [ev0 DVQ_RELEASE2 0 0 0 0]
  | _ => []
  end.

(* at most n latent steps of t after which goal holds of t's program point; Some (state, steps taken).
   ent: t may take the latent step at PIdle (the entry of a worker into _dispatch_block_async_invoke2) *)
Fixpoint lat_to (ent : bool) (n : nat) (s : gst) (t : Z) (goal : pc -> bool) : option (gst * Z) :=
  if goal (pcs s t) then Some (s, 0) else
  match n with
  | O => None
  | S n' =>
      (fix try (l : list event) : option (gst * Z) :=
         match l with
         | [] => None
         | x :: r => match gstep s t x with
                     | Some s1 => match lat_to ent n' s1 t goal with
                                  | Some (s2, k) => Some (s2, k + 1)
                                  | None => try r
                                  end
                     | None => try r
                     end
         end) (if pc_idle (pcs s t) && negb ent then [] else glatents s t)
  end.
Definition accepts (t : Z) (e : event) (p : pc) : bool := match tstep t p e with Some _ => true | None => false end.

Fixpoint lookup (t : Z) (qs : list (Z * list event)) : list event :=
  match qs with [] => [] | (u, l) :: r => if u =? t then l else lookup t r end.
Fixpoint pop_q (t : Z) (qs : list (Z * list event)) : list (Z * list event) :=
  match qs with [] => [] | (u, l) :: r => if u =? t then (u, tl l) :: r else (u, l) :: pop_q t r end.
Fixpoint remove_first (t : Z) (l : list Z) : list Z :=
  match l with [] => [] | x :: r => if x =? t then r else x :: remove_first t r end.

(* the distinct elements of l in the order of their first occurrence *)
Fixpoint firsts (l seen : list Z) : list Z :=
  match l with
  | [] => []
  | x :: r => if existsb (Z.eqb x) seen then firsts r seen else x :: firsts r (x :: seen)
  end.

(* every thread performs the latent steps that its next recorded event needs, as soon as they are possible; a thread
   with nothing left goes back to PIdle when it can.
   The entry of a worker into _dispatch_block_async_invoke2 consumes a queued submission (Block.pendsub); when submissions
   are scarce the right worker must get it.  `ents` lists the threads in the order in which their invocations from a
   queue begin in the recording (by the first recorded event of each invocation; computed by lib/props/c19.py).  A thread
   may enter only when every earlier entry of `ents` belongs to a thread that is idle and cannot enter now (the flags do
   not have the value its recording needs): an earlier entry of a thread that is still busy with a previous invocation
   keeps its submission reserved. *)
Definition next_goal (t : Z) (qs : list (Z * list event)) : pc -> bool :=
  match lookup t qs with e :: _ => accepts t e | [] => pc_idle end.
Fixpoint may_enter (s : gst) (qs : list (Z * list event)) (ents : list Z) (t : Z) : bool :=
  match ents with
  | [] => false
  | w :: r =>
      if w =? t then true
      else if pc_idle (pcs s w) && match lat_to true 2 s w (next_goal w qs) with Some _ => false | None => true end
           then may_enter s qs r t else false
  end.
Fixpoint settle (s : gst) (qs : list (Z * list event)) (ents : list Z) (ths : list Z) (nl : Z) : gst * Z * list Z :=
  match ths with
  | [] => (s, nl, ents)
  | t :: r =>
      match lat_to (may_enter s qs ents t) LAT_DEPTH s t (next_goal t qs) with
      | Some (s', k) => settle s' qs (if pendsub s' <? pendsub s then remove_first t ents else ents) r (nl + k)
      | None => settle s qs ents r nl
      end
  end.

(* among the first w entries of the preferred order: the first thread whose next recorded event is a step of the model *)
Fixpoint pick (s : gst) (qs : list (Z * list event)) (ord : list Z) (seen : list Z) (w : nat) : option (Z * gst) :=
  match w, ord with
  | O, _ | _, [] => None
  | S w', t :: r =>
      if existsb (Z.eqb t) seen then pick s qs r seen w'
      else match lookup t qs with
           | e :: _ => match gstep s t e with
                       | Some s' => Some (t, s')
                       | None => pick s qs r (t :: seen) w'
                       end
           | [] => pick s qs r (t :: seen) w'
           end
  end.

Fixpoint sched (fuel : nat) (w : nat) (ths : list Z) (s : gst) (qs : list (Z * list event)) (ents : list Z) (ord : list Z)
  (done nl : Z) : gst * Z * Z * list Z * list (Z * list event) :=
  let '(s0, nl0, ents0) := settle s qs ents (firsts (ord ++ ths) []) nl in
  match fuel with
  | O => (s0, done, nl0, ord, qs)
  | S f =>
      match ord with
      | [] => (s0, done, nl0, [], qs)
      | _ => match pick s0 qs ord [] w with
             | Some (t, s') => sched f w ths s' (pop_q t qs) ents0 (remove_first t ord) (done + 1) nl0
             | None => (s0, done, nl0, ord, qs)
             end
      end
  end.

(* ------------------------------------------------------------------ the invariant as a boolean *)
Definition tinvA_b (s : gst) (t : Z) : bool :=
  match pcs s t with
  | PSetThread f | PBodyNext _ f | PInBody _ f => Bool.eqb (Z.testbit f 3) (negb (hasgrp s)) && negb (Z.testbit f 0)
  | PInc _ => (1 <=? fin s) && hasgrp s
  | PLeave _ => (1 <=? ninv s) && hasgrp s
  | _ => true
  end.
Definition invA_b (s : gst) (ths : list Z) : bool :=
  (negb (cancelled s) || Z.testbit (flags s) 0) && Bool.eqb (Z.testbit (flags s) 3) (negb (hasgrp s)) &&
  (0 <=? bodies s) && (0 <=? fin s) && (0 <=? ninv s) && ((ninv s <? 1) || (1 <=? fin s)) &&
  (performed s =? ninv s mod 4294967296) &&
  (if hasgrp s then (gcount s + leaves s =? 1) && (0 <=? leaves s) && (leaves s <=? 1) && ((leaves s <? 1) || (1 <=? ninv s) || dleave s)
   else (gcount s =? 0) && (leaves s =? 0) && (ninv s =? 0)) &&
  forallb (tinvA_b s) ths.

Definition ids (n : Z) : list Z := map Z.of_nat (seq 0 (Z.to_nat n)).
Definition invN_b (s : gst) : bool :=
  (0 <=? nreg s) &&
  forallb (fun i => (0 <=? fcnt s i) && (fcnt s i <=? 1) && (negb (fcnt s i =? 1) || (gcount s =? 0)) &&
                    (existsb (Z.eqb i) (pending s) || (fcnt s i =? 1))) (ids (nreg s)) &&
  forallb (fun i => (0 <=? i) && (i <? nreg s) && (fcnt s i =? 0)) (pending s) &&
  (negb (gcount s =? 0) || match pending s with [] => true | _ => false end) &&
  (hasgrp s || (nreg s =? 0)).

Definition waiting_pc (p : pc) : bool :=
  match p with
  | PWaitXchg _ | PWaitWake _ _ | PWaitThread _ _ | PWaitPerf _ _ _ | PWaitG _ | PWaitOut _ => true
  | _ => false
  end.
Definition is_crash (p : pc) : bool := match p with PCrash => true | _ => false end.
Definition tinvW_b (s : gst) (t : Z) : bool :=
  (negb (waiting_pc (pcs s t)) || match waiter s with Some w => w =? t | None => false end) &&
  match pcs s t with
  | PWaitOut r => ((r =? 0) || (r =? 1)) && (negb (r =? 0) || ((gcount s =? 0) && hasgrp s))
  | _ => true
  end.
Definition invW_b (s : gst) (ths : list Z) : bool :=
  Bool.eqb (Z.testbit (flags s) 1) (match waiter s with Some _ => true | None => false end || Z.testbit (flags s) 2) &&
  (negb (Z.testbit (flags s) 2) ||
   ((gcount s =? 0) && hasgrp s && match waiter s with None => true | Some _ => false end)) &&
  match waiter s with Some w => waiting_pc (pcs s w) || is_crash (pcs s w) | None => true end &&
  forallb (tinvW_b s) ths.

Definition holding_pc (p : pc) : bool :=
  match p with PSubmitCas _ | PSubmitRel _ | PRel _ | PWaitWake _ _ | PDtorRel => true | _ => false end.
Fixpoint nodupb (l : list Z) : bool :=
  match l with [] => true | x :: r => negb (existsb (Z.eqb x) r) && nodupb r end.
Definition invQ_b (s : gst) (ths : list Z) : bool :=
  (qref s =? 2 * ((if queue s =? 0 then 0 else 1) + Z.of_nat (length (hands s)))) && nodupb (hands s) &&
  forallb (fun u => Bool.eqb (existsb (Z.eqb u) (hands s)) (holding_pc (pcs s u))) (ths ++ hands s).

Definition dtor_pcb (p : pc) : bool := match p with PDtorPerf | PDtorLeave | PDtorPost | PDtorRel => true | _ => false end.
Definition dtor_okb (p : pc) : bool := dtor_pcb p || match p with PRet _ | PIdle | PCrash => true | _ => false end.
Definition invD_b (s : gst) (ths : list Z) : bool :=
  nodupb (active s) &&
  forallb (fun u => Bool.eqb (existsb (Z.eqb u) (active s)) (negb (pc_idle (pcs s u)))) (ths ++ active s) &&
  (negb (disposed s) ||
   match dtor s with Some d => dtor_okb (pcs s d) && forallb (fun u => (u =? d) || pc_idle (pcs s u)) ths | None => false end) &&
  (disposed s || (negb (dleave s) && forallb (fun u => negb (dtor_pcb (pcs s u))) ths)) &&
  (negb (dleave s) || ((performed s =? 0) && negb (Z.testbit (flags s) 2))) &&
  (0 <=? pendsub s) &&
  forallb (fun u => negb (match pcs s u with PDtorLeave => true | _ => false end) || (performed s =? 0)) ths.

Definition inv_b (s : gst) (ths : list Z) : bool :=
  invA_b s ths && invN_b s && invW_b s ths && invQ_b s ths && invD_b s ths.

(* ------------------------------------------------------------------ the replay of one round *)
Definition sumf (f : Z -> Z) (n : Z) : Z := fold_left (fun a i => a + f i) (ids n) 0.
Definition all_idle (s : gst) (ths : list Z) : bool := forallb (fun t => pc_idle (pcs s t)) ths.
(* pf: the object is a DBF_PERFORM record.  pre: events that precede the recording (the white-box preset of DBF_CANCELED
   on a DBF_PERFORM record is replayed as a dispatch_block_cancel by a thread of its own).
   result: [recorded events executed; left; latent steps inserted; next stuck thread or -1; all threads idle; inv_b;
            flags; performed; queue <> NULL; gcount; bodies; fin; ninv; leaves; nreg; notifications submitted; qref;
            cancelled; program-point tag of the stuck thread; its recorded events not yet executed; disposed; dleave;
            pendsub] *)
Definition replay (pf : bool) (w : nat) (qs : list (Z * list event)) (ents ord : list Z) : list Z :=
  let ths := map fst qs in
  let '(s, done, nl, rest, qs') := sched (S (length ord)) w ths (init_state pf) qs ents ord 0 0 in
  [done; Z.of_nat (length rest); nl; match rest with t :: _ => t | [] => -1 end; b2z (all_idle s ths); b2z (inv_b s ths);
   flags s; performed s; b2z (negb (queue s =? 0)); gcount s; bodies s; fin s; ninv s; leaves s; nreg s;
   sumf (fcnt s) (nreg s); qref s; b2z (cancelled s); match rest with t :: _ => pc_tag (pcs s t) | [] => -1 end;
   match rest with t :: _ => Z.of_nat (length (lookup t qs')) | [] => 0 end;
   b2z (disposed s); b2z (dleave s); pendsub s].
