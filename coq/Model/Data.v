(* Data.v — hand model of dispatch_data (src/data.c, src/data_internal.h), case by case.
   Definitions only (proofs: Proofs/Data_proofs.v).  Executable: extracted by Extract/Extract_data.v and run
   against the library by lib/props/c13.py + harness/c13_data.c.

   Representation (data_internal.h:58-71, comment data.c:23-93):
     LEAF       num_records == 0, buf -> the represented memory          DLeaf {id; bytes}
     composite  num_records >= 1, records[i] = {data_object, from, length}; data_object is always a LEAF
                (depth <= 1 is carried by the type: r_obj : leaf)       DComp id flat size records
     flat       composite whose buf holds a contiguous copy (only dispatch_data_get_flattened_bytes_4libxpc sets it)
     empty      the global singleton _dispatch_data_empty (a LEAF of size 0, global refcount)
   size_t arithmetic is u64 (mod 2^64) wherever the C code computes on size_t.
   Memory is read only through `read` and written only through `write`, which fail (None) outside the block;
   DISPATCH_INTERNAL_CRASH paths are None as well.  Proofs show None never happens on well-formed objects. *)
From Coq Require Import ZArith List Bool.
From Verif Require Import Word.
Import ListNotations.
Local Open Scope Z_scope.

Definition byte := Z.

Record leaf := mkLeaf { l_id : Z; l_bytes : list byte }.
Definition leaf_size (l : leaf) : Z := Z.of_nat (length (l_bytes l)).

Record rrec := mkRec { r_obj : leaf; r_from : Z; r_len : Z }.

Inductive data :=
| DLeaf (l : leaf)
| DComp (id : Z) (flat : bool) (sz : Z) (recs : list rrec).

Definition EMPTY_ID : Z := 0.
Definition empty_leaf : leaf := mkLeaf EMPTY_ID [].
Definition empty : data := DLeaf empty_leaf.

Definition obj_id (d : data) : Z := match d with DLeaf l => l_id l | DComp id _ _ _ => id end.
(* dispatch_data_get_size: dd->size *)
Definition size (d : data) : Z := match d with DLeaf l => leaf_size l | DComp _ _ sz _ => sz end.
Definition is_leaf (d : data) : bool := match d with DLeaf _ => true | _ => false end.
(* _dispatch_data_num_records: num_records ?: 1, with the leaf seen as one record {dd, 0, size} (concat, data.c:340) *)
Definition records_of (d : data) : list rrec :=
  match d with DLeaf l => [mkRec l 0 (leaf_size l)] | DComp _ _ _ rs => rs end.

(* ---------------------------------------------------------------- memory *)
(* a pointer is (block contents, offset into the block) *)
Definition ptr := (list byte * Z)%type.

Definition slice (buf : list byte) (from len : Z) : list byte :=
  firstn (Z.to_nat len) (skipn (Z.to_nat from) buf).

Definition read (buf : list byte) (from len : Z) : option (list byte) :=
  if (0 <=? from) && (0 <=? len) && (from + len <=? Z.of_nat (length buf))
  then Some (slice buf from len) else None.

(* memcpy(buf + off, bs, |bs|) into a block *)
Definition write (buf : list byte) (off : Z) (bs : list byte) : option (list byte) :=
  if (0 <=? off) && (off + Z.of_nat (length bs) <=? Z.of_nat (length buf))
  then Some (firstn (Z.to_nat off) buf ++ bs ++ skipn (Z.to_nat off + length bs) buf) else None.

(* ---------------------------------------------------------------- denotation (specification side) *)
Definition denote_rec (r : rrec) : list byte := slice (l_bytes (r_obj r)) (r_from r) (r_len r).
Definition denote (d : data) : list byte :=
  match d with DLeaf l => l_bytes l | DComp _ _ _ recs => flat_map denote_rec recs end.

(* ---------------------------------------------------------------- representation invariant (data.c:23-93) *)
Definition M64 : Z := 18446744073709551616.
(* a buffer's size fits in size_t; size 0 <-> the singleton *)
Definition wf_leaf (l : leaf) : Prop := leaf_size l < M64 /\ (l_bytes l = [] <-> l_id l = EMPTY_ID).
(* a record is non-empty and lies within its leaf *)
Definition wf_rec (r : rrec) : Prop :=
  wf_leaf (r_obj r) /\ 0 <= r_from r /\ 0 < r_len r /\ r_from r + r_len r <= leaf_size (r_obj r).
Definition sum_len (rs : list rrec) : Z := fold_right (fun r a => r_len r + a) 0 rs.
Definition wf (d : data) : Prop :=
  match d with
  | DLeaf l => wf_leaf l
  | DComp id flat sz recs =>
      id <> EMPTY_ID /\ recs <> [] /\ Forall wf_rec recs /\ sz = sum_len recs /\ sz < M64 /\
      (flat = true -> (2 <= length recs)%nat)
  end.

(* ---------------------------------------------------------------- dispatch_data_create_concat (data.c:317-361) *)
(* None = DISPATCH_OUT_OF_MEMORY (NULL): the total size does not fit in size_t (os_add_overflow, data.c:336) *)
Definition concat (fresh : Z) (dd1 dd2 : data) : option data :=
  if size dd1 =? 0 then Some dd2
  else if size dd2 =? 0 then Some dd1
  else if M64 <=? size dd1 + size dd2 then None
  else Some (DComp fresh false (size dd1 + size dd2) (records_of dd1 ++ records_of dd2)).

(* ---------------------------------------------------------------- dispatch_data_create_subrange (data.c:363-458) *)
(* while (i < n && offset >= records[i].length) offset -= records[i++].length;  returns records[i..], offset *)
Fixpoint skip_records (recs : list rrec) (offset : Z) : list rrec * Z :=
  match recs with
  | [] => ([], offset)
  | r :: rest => if offset >=? r_len r then skip_records rest (u64 (offset - r_len r)) else (recs, offset)
  end.

(* the loop at data.c:426-439 over records[i+1..]; None = DISPATCH_INTERNAL_CRASH *)
Fixpoint find_last (rest : list rrec) (count : nat) (last_length : Z) : option (nat * Z) :=
  match rest with
  | [] => Some (count, last_length)
  | r :: rest' =>
      let count := S count in
      if last_length <=? r_len r then Some (count, last_length)
      else let last_length := u64 (last_length - r_len r) in
           match rest' with [] => None | _ => find_last rest' count last_length end
  end.

(* if (offset) { records[0].from += offset; records[0].length -= offset; } *)
Definition upd_first (offset : Z) (rs : list rrec) : list rrec :=
  if offset =? 0 then rs else
  match rs with
  | r :: t => mkRec (r_obj r) (u64 (r_from r + offset)) (u64 (r_len r - offset)) :: t
  | [] => []
  end.
(* records[count - 1].length = last_length *)
Fixpoint set_last_len (ll : Z) (rs : list rrec) : list rrec :=
  match rs with
  | [] => []
  | [r] => [mkRec (r_obj r) (r_from r) ll]
  | r :: t => r :: set_last_len ll t
  end.

(* the part after `// Subrange of a composite dispatch data object` (data.c:394-457); `self` is the recursive call on
   records[i].data_object (a leaf); sz = dd->size *)
Definition subrange_comp (self : Z -> leaf -> Z -> Z -> option data)
    (fresh : Z) (sz : Z) (recs : list rrec) (offset len : Z) : option data :=
  let to_the_end := u64 (offset + len) =? sz in
  let '(rs, offset) := skip_records recs offset in
  match rs with
  | [] => None
  | r :: rest =>
      if u64 (offset + len) <=? r_len r
      then self fresh (r_obj r) (u64 (r_from r + offset)) len
      else
        let cl := if to_the_end then Some (length rs, 0)
                  else find_last rest 1%nat (u64 (len - u64 (r_len r - offset))) in
        match cl with
        | None => None
        | Some (count, last_length) =>
            let rs1 := firstn count rs in
            let rs2 := upd_first offset rs1 in
            let rs3 := if to_the_end then rs2 else set_last_len last_length rs2 in
            Some (DComp fresh false len rs3)
        end
  end.

(* the function body *)
Definition subrange_body (self : Z -> leaf -> Z -> Z -> option data)
    (fresh : Z) (dd : data) (offset len : Z) : option data :=
  let sz := size dd in
  if (offset >=? sz) || (len =? 0) then Some empty else
  let clamp := len >? u64 (sz - offset) in
  let len := if clamp then u64 (sz - offset) else len in
  if negb clamp && (len =? sz) then Some dd else
  match dd with
  | DLeaf l => Some (DComp fresh false len [mkRec l offset len])
  | DComp _ _ _ recs => subrange_comp self fresh sz recs offset len
  end.

Definition subrange_leaf (fresh : Z) (l : leaf) (offset len : Z) : option data :=
  subrange_body (fun _ _ _ _ => None) fresh (DLeaf l) offset len.
Definition subrange (fresh : Z) (dd : data) (offset len : Z) : option data :=
  subrange_body subrange_leaf fresh dd offset len.

(* ---------------------------------------------------------------- apply / flatten / map *)
(* what the applier sees: region object, logical offset, the bytes at (buffer, size) *)
Record region := mkRegion { g_obj : Z; g_off : Z; g_bytes : list byte }.

(* _dispatch_data_apply on a leaf: map_direct gives buf; one callout (data.c:570-574) *)
Definition apply_leaf (l : leaf) (offset from sz : Z) (applier : region -> bool) : option (bool * list region) :=
  match read (l_bytes l) from sz with
  | None => None
  | Some bs => let g := mkRegion (l_id l) offset bs in Some (applier g, [g])
  end.

(* for (i = 0; i < n && result; ++i) { result = _dispatch_data_apply(records[i]...); offset += records[i].length; } *)
Fixpoint apply_records (recs : list rrec) (offset : Z) (applier : region -> bool) : option (bool * list region) :=
  match recs with
  | [] => Some (true, [])
  | r :: rest =>
      match apply_leaf (r_obj r) offset (r_from r) (r_len r) applier with
      | None => None
      | Some (false, vis) => Some (false, vis)
      | Some (true, vis) =>
          match apply_records rest (u64 (offset + r_len r)) applier with
          | None => None
          | Some (res, vis') => Some (res, vis ++ vis')
          end
      end
  end.

(* _dispatch_data_flatten (data.c:460-475): malloc(size), then memcpy(buffer + off, buf, len) per region.
   Fresh memory is modelled as zeros. *)
Definition flatten_recs (sz : Z) (recs : list rrec) : option (list byte) :=
  match apply_records recs 0 (fun _ => true) with
  | None => None
  | Some (_, gs) =>
      fold_left (fun acc g => match acc with None => None | Some b => write b (g_off g) (g_bytes g) end)
                gs (Some (repeat 0 (Z.to_nat sz)))
  end.

(* _dispatch_data_map_direct(dd, offset, &dd_out, &from_out) (data_internal.h:124-149):
   returns (dd_out, from_out, buffer); buffer None = NULL *)
Definition map_direct (dd : data) (offset : Z) : option (data * Z * option ptr) :=
  let '(dd1, off1) := match dd with
                      | DComp _ _ _ [r] => (DLeaf (r_obj r), u64 (offset + r_from r))
                      | _ => (dd, offset)
                      end in
  match dd1 with
  | DLeaf l => Some (dd1, off1, Some (l_bytes l, off1))
  | DComp _ true sz recs =>
      match flatten_recs sz recs with None => None | Some fb => Some (dd1, off1, Some (fb, off1)) end
  | DComp _ false _ _ => Some (dd1, off1, None)
  end.

(* _dispatch_data_apply(dd, offset, from, size, applier) (data.c:563-584) *)
Definition apply_obj (dd : data) (offset from sz : Z) (applier : region -> bool) : option (bool * list region) :=
  match map_direct dd 0 with
  | None => None
  | Some (_, _, Some (buf, base)) =>
      match read buf (u64 (base + from)) sz with
      | None => None
      | Some bs => let g := mkRegion (obj_id dd) offset bs in Some (applier g, [g])
      end
  | Some (dd1, _, None) => apply_records (records_of dd1) offset applier
  end.

(* dispatch_data_apply (data.c:596-604): result and the regions handed to the applier, in order *)
Definition apply (dd : data) (applier : region -> bool) : option (bool * list region) :=
  if size dd =? 0 then Some (true, []) else apply_obj dd 0 0 (size dd) applier.

Definition regions (dd : data) : option (list region) :=
  match apply dd (fun _ => true) with None => None | Some (_, gs) => Some gs end.

(* the applier used by the correspondence: say "stop" (false) at the region whose logical offset is k *)
Definition stop_at (k : Z) (g : region) : bool := negb (g_off g =? k).

Definition flatten (dd : data) : option (list byte) := flatten_recs (size dd) (records_of dd).

(* dispatch_data_create_map (data.c:481-517): (returned object, buffer, size); fresh = id of the new leaf *)
Definition map (fresh : Z) (dd : data) : option (data * option ptr * Z) :=
  let sz := size dd in
  if sz =? 0 then Some (empty, None, 0) else
  match map_direct dd 0 with
  | None => None
  | Some (_, _, Some p) => Some (dd, Some p, sz)
  | Some (_, _, None) =>
      match flatten dd with
      | None => None
      | Some buf => Some (DLeaf (mkLeaf fresh buf), Some (buf, 0), sz)
      end
  end.

(* the sz bytes the client may read through the returned pointer *)
Definition map_bytes (fresh : Z) (dd : data) : option (data * list byte) :=
  match map fresh dd with
  | None => None
  | Some (d, None, _) => Some (d, [])
  | Some (d, Some (buf, base), sz) => match read buf base sz with None => None | Some bs => Some (d, bs) end
  end.

(* dispatch_data_get_flattened_bytes_4libxpc (data.c:519-548): the object afterwards *)
Definition flatten_priv (dd : data) : data :=
  if size dd =? 0 then dd else
  match dd with
  | DComp id false sz recs => match recs with [_] => dd | _ => DComp id true sz recs end
  | _ => dd
  end.

(* specification-side notions for dispatch_data_apply (used in the theorems only) *)
(* consecutive non-empty regions starting at logical offset off *)
Fixpoint tiles (off : Z) (gs : list region) : Prop :=
  match gs with
  | [] => True
  | g :: t => g_off g = off /\ g_bytes g <> [] /\ tiles (off + Z.of_nat (length (g_bytes g))) t
  end.
(* the regions an applier gets to see: up to and including the first one at which it says stop *)
Fixpoint take_until (f : region -> bool) (gs : list region) : list region :=
  match gs with [] => [] | g :: t => if f g then g :: take_until f t else [g] end.
Fixpoint rec_regions (off : Z) (recs : list rrec) : list region :=
  match recs with
  | [] => []
  | r :: t => mkRegion (l_id (r_obj r)) off (denote_rec r) :: rec_regions (off + r_len r) t
  end.

(* ---------------------------------------------------------------- dispatch_data_copy_region (data.c:606-674) *)
(* the record loop; `self` = recursive call on records[i].data_object; None = DISPATCH_INTERNAL_CRASH *)
Fixpoint copy_walk (self : Z -> leaf -> Z -> Z -> Z -> Z -> option (data * Z)) (fresh : Z)
    (recs : list rrec) (from offset location off_acc : Z) : option (data * Z) :=
  match recs with
  | [] => None
  | r :: rest =>
      let len := r_len r in
      if from >=? len then copy_walk self fresh rest (u64 (from - len)) offset location off_acc
      else
        let len := u64 (len - from) in
        if location >=? u64 (offset + len) then copy_walk self fresh rest 0 (u64 (offset + len)) location off_acc
        else self fresh (r_obj r) (u64 (from + r_from r)) len (u64 (location - offset)) (u64 (off_acc + offset))
  end.

Definition copy_region_body (self : Z -> leaf -> Z -> Z -> Z -> Z -> option (data * Z)) (fresh : Z)
    (dd : data) (from sz location off_acc : Z) : option (data * Z) :=
  let reusable := (from =? 0) && (sz =? size dd) in
  match map_direct dd from with
  | None => None
  | Some (dd1, from1, Some _) =>
      if reusable then Some (dd, off_acc)
      else if (from1 =? 0) && (sz =? size dd1) then Some (dd1, off_acc)
      else match dd1 with
           | DLeaf l => Some (DComp fresh false sz [mkRec l from1 sz], off_acc)
           | DComp _ _ _ _ => None   (* a record pointing at a composite: not representable (r_obj : leaf) *)
           end
  | Some (dd1, from1, None) => copy_walk self fresh (records_of dd1) from1 0 location off_acc
  end.

Definition copy_region_leaf (fresh : Z) (l : leaf) (from sz location off_acc : Z) : option (data * Z) :=
  copy_region_body (fun _ _ _ _ _ _ => None) fresh (DLeaf l) from sz location off_acc.

(* returns (region object, *offset_ptr) *)
Definition copy_region (fresh : Z) (dd : data) (location : Z) : option (data * Z) :=
  if location >=? size dd then Some (empty, size dd)
  else copy_region_body copy_region_leaf fresh dd 0 (size dd) location 0.

(* every object a client can obtain: any tree of create / concat / subrange / map / copy_region / flatten, of any
   depth and fragmentation, with any offsets, lengths and locations in size_t *)
Inductive built : data -> Prop :=
| b_empty : built empty
| b_leaf : forall id bytes, id <> EMPTY_ID -> bytes <> [] -> Z.of_nat (length bytes) < M64 -> built (DLeaf (mkLeaf id bytes))
| b_concat : forall f a b d, built a -> built b -> f <> EMPTY_ID -> concat f a b = Some d -> built d
| b_subrange : forall f a off len d, built a -> f <> EMPTY_ID -> 0 <= off < M64 -> 0 <= len < M64 ->
    subrange f a off len = Some d -> built d
| b_map : forall f a d bs, built a -> f <> EMPTY_ID -> map_bytes f a = Some (d, bs) -> built d
| b_copy_region : forall f a loc d off, built a -> f <> EMPTY_ID -> 0 <= loc < M64 ->
    copy_region f a loc = Some (d, off) -> built d
| b_flatten : forall a, built a -> built (flatten_priv a).

(* ---------------------------------------------------------------- ownership: objects, reference counts, destructors *)
(* One count per object (the external count: _dispatch_data_retain = dispatch_retain; the internal count stays 1
   while the external one is positive and disposal is synchronous: object.c _dispatch_dispose -> _dispatch_data_dispose).
   The empty singleton has a global refcount: retain/release are no-ops on it and it is not in the heap. *)
Record entry := mkEntry { e_obj : data; e_rc : nat }.
Record state := mkState {
  heap : Z -> option entry;
  dlog : list Z;     (* leaf ids whose buffer destructor has been called, oldest first *)
  flog : list Z      (* object ids deallocated, oldest first *)
}.
Definition st0 : state := mkState (fun _ => None) [] [].

Definition hupd (h : Z -> option entry) (id : Z) (e : option entry) : Z -> option entry :=
  fun k => if k =? id then e else h k.

Definition retain_id (st : state) (id : Z) : state :=
  if id =? EMPTY_ID then st else
  match heap st id with
  | Some e => mkState (hupd (heap st) id (Some (mkEntry (e_obj e) (S (e_rc e))))) (dlog st) (flog st)
  | None => st
  end.

(* release of a leaf: at zero _dispatch_data_dispose calls _dispatch_data_destroy_buffer *)
Definition release_leaf (st : state) (id : Z) : state :=
  if id =? EMPTY_ID then st else
  match heap st id with
  | Some e =>
      match e_rc e with
      | S (S n) => mkState (hupd (heap st) id (Some (mkEntry (e_obj e) (S n)))) (dlog st) (flog st)
      | _ => mkState (hupd (heap st) id None) (dlog st ++ [id]) (flog st ++ [id])
      end
  | None => st
  end.

(* dispatch_release; at zero: leaf -> destructor; composite -> release every records[i].data_object in order *)
Definition release_id (st : state) (id : Z) : state :=
  if id =? EMPTY_ID then st else
  match heap st id with
  | Some e =>
      match e_rc e with
      | S (S n) => mkState (hupd (heap st) id (Some (mkEntry (e_obj e) (S n)))) (dlog st) (flog st)
      | _ =>
          match e_obj e with
          | DLeaf _ => release_leaf st id
          | DComp _ _ _ recs =>
              fold_left (fun s r => release_leaf s (l_id (r_obj r))) recs
                        (mkState (hupd (heap st) id None) (dlog st) (flog st ++ [id]))
          end
      end
  | None => st
  end.

(* the object returned by a deriving call: either an existing object, retained, or a new object whose
   records' leaves are retained (data.c:357-359, 390, 454-456, 496, 619-623) *)
Definition adopt (st : state) (d : data) : state :=
  let id := obj_id d in
  if id =? EMPTY_ID then st else
  match heap st id with
  | Some _ => retain_id st id
  | None =>
      let st1 := mkState (hupd (heap st) id (Some (mkEntry d 1%nat))) (dlog st) (flog st) in
      match d with
      | DLeaf _ => st1
      | DComp _ _ _ recs => fold_left (fun s r => retain_id s (l_id (r_obj r))) recs st1
      end
  end.

Definition get (st : state) (id : Z) : option data :=
  if id =? EMPTY_ID then Some empty else
  match heap st id with Some e => Some (e_obj e) | None => None end.

Inductive op :=
| OCreate (id : Z) (bytes : list byte)          (* dispatch_data_create with a destructor *)
| OConcat (fresh a b : Z)
| OSubrange (fresh a off len : Z)
| OMap (fresh a : Z)
| OCopyRegion (fresh a loc : Z)
| OFlatten (a : Z)                               (* dispatch_data_get_flattened_bytes_4libxpc *)
| ORetain (a : Z)
| ORelease (a : Z).

(* dispatch_data_create (data.c:181-218): empty request -> destructor at once, the singleton is returned *)
Definition create (st : state) (id : Z) (bytes : list byte) : state * data :=
  match bytes with
  | [] => (mkState (heap st) (dlog st ++ [id]) (flog st), empty)
  | _ => let d := DLeaf (mkLeaf id bytes) in
         (mkState (hupd (heap st) id (Some (mkEntry d 1%nat))) (dlog st) (flog st), d)
  end.

(* one API call: new state and the returned object (for retain/release: the operand).
   None = operand not live (client error), a model fault (out-of-block access / internal crash), or no object
   returned (concat: DISPATCH_OUT_OF_MEMORY). *)
Definition step (st : state) (o : op) : option (state * data) :=
  match o with
  | OCreate id bytes => Some (create st id bytes)
  | OConcat fresh a b =>
      match get st a, get st b with
      | Some da, Some db => match concat fresh da db with Some d => Some (adopt st d, d) | None => None end
      | _, _ => None
      end
  | OSubrange fresh a off len =>
      match get st a with
      | Some da => match subrange fresh da off len with Some d => Some (adopt st d, d) | None => None end
      | None => None
      end
  | OMap fresh a =>
      match get st a with
      | Some da => match map fresh da with Some (d, _, _) => Some (adopt st d, d) | None => None end
      | None => None
      end
  | OCopyRegion fresh a loc =>
      match get st a with
      | Some da => match copy_region fresh da loc with Some (d, _) => Some (adopt st d, d) | None => None end
      | None => None
      end
  | OFlatten a =>
      match get st a with
      | Some da =>
          if a =? EMPTY_ID then Some (st, da) else
          match heap st a with
          | Some e => let d := flatten_priv da in
                      Some (mkState (hupd (heap st) a (Some (mkEntry d (e_rc e)))) (dlog st) (flog st), d)
          | None => None
          end
      | None => None
      end
  | ORetain a => match get st a with Some da => Some (retain_id st a, da) | None => None end
  | ORelease a => match get st a with Some da => Some (release_id st a, da) | None => None end
  end.

Fixpoint run (st : state) (ops : list op) : option state :=
  match ops with
  | [] => Some st
  | o :: rest => match step st o with Some (st', _) => run st' rest | None => None end
  end.

(* ---------------------------------------------------------------- histories with the client's bookkeeping (ghost) *)
(* records of a composite, and the ids of the leaves they point at *)
Definition crecs (d : data) : list rrec := match d with DLeaf _ => [] | DComp _ _ _ rs => rs end.
Definition rids (d : data) : list Z := List.map (fun r => l_id (r_obj r)) (crecs d).

(* g_held k    : number of references the client holds on object k (results +1, retain +1, release -1)
   g_created   : the buffers that were given a destructor: dispatch_data_create calls and map's flattened copies *)
Record gstate := mkG { g_st : state; g_held : Z -> nat; g_created : list Z }.
Definition g0 : gstate := mkG st0 (fun _ => 0%nat) [].

Definition hinc (held : Z -> nat) (k : Z) : Z -> nat := fun j => if j =? k then S (held j) else held j.
Definition hdec (held : Z -> nat) (k : Z) : Z -> nat := fun j => if j =? k then pred (held j) else held j.
Definition hinc0 (held : Z -> nat) (k : Z) : Z -> nat := if k =? EMPTY_ID then held else hinc held k.
Definition hdec0 (held : Z -> nat) (k : Z) : Z -> nat := if k =? EMPTY_ID then held else hdec held k.

Definition new_leaf (st : state) (d : data) : bool :=
  match d with
  | DLeaf l => negb (l_id l =? EMPTY_ID) && match heap st (l_id l) with None => true | Some _ => false end
  | DComp _ _ _ _ => false
  end.

Definition gstep (g : gstate) (o : op) : option gstate :=
  match step (g_st g) o with
  | None => None
  | Some (st', d) =>
      Some (match o with
            | OCreate id _ => mkG st' (hinc0 (g_held g) (obj_id d)) (g_created g ++ [id])
            | OConcat _ _ _ | OSubrange _ _ _ _ | OMap _ _ | OCopyRegion _ _ _ =>
                mkG st' (hinc0 (g_held g) (obj_id d))
                    (if new_leaf (g_st g) d then g_created g ++ [obj_id d] else g_created g)
            | OFlatten _ => mkG st' (g_held g) (g_created g)
            | ORetain a => mkG st' (hinc0 (g_held g) a) (g_created g)
            | ORelease a => mkG st' (hdec0 (g_held g) a) (g_created g)
            end)
  end.

(* what a well-behaved client does: it passes only objects it holds a reference to (or the empty singleton),
   releases only references it holds, arguments are size_t values, and a new object gets an identity that was
   never used before (in C: a new allocation) *)
Definition holds (g : gstate) (a : Z) : Prop := a = EMPTY_ID \/ (0 < g_held g a)%nat.
Definition fresh_id (g : gstate) (id : Z) : Prop :=
  id <> EMPTY_ID /\ heap (g_st g) id = None /\ ~ In id (dlog (g_st g)) /\ ~ In id (flog (g_st g)).
Definition legal (g : gstate) (o : op) : Prop :=
  match o with
  | OCreate id bytes => fresh_id g id /\ Z.of_nat (length bytes) < M64
  | OConcat f a b => fresh_id g f /\ holds g a /\ holds g b
  | OSubrange f a off len => fresh_id g f /\ holds g a /\ 0 <= off < M64 /\ 0 <= len < M64
  | OMap f a => fresh_id g f /\ holds g a
  | OCopyRegion f a loc => fresh_id g f /\ holds g a /\ 0 <= loc < M64
  | OFlatten a => holds g a
  | ORetain a => holds g a
  | ORelease a => holds g a
  end.

Fixpoint grun (g : gstate) (ops : list op) : option gstate :=
  match ops with
  | [] => Some g
  | o :: rest => match gstep g o with Some g' => grun g' rest | None => None end
  end.
Fixpoint glegal (g : gstate) (ops : list op) : Prop :=
  match ops with
  | [] => True
  | o :: rest => legal g o /\ match gstep g o with Some g' => glegal g' rest | None => True end
  end.
