(* Attr.v — hand model of the queue attribute table (src/init.c:431-552), of the normalisation in
   _dispatch_lane_create_with_target (src/queue.c:2660) for a NULL / default target, and of what the getters
   report.  Executable; tied to the code by an EXHAUSTIVE correspondence over all table entries (ATTR_COUNT = 4032 on this build: Gen_qos, regenerated) and NULL. *)
From Coq Require Import ZArith Bool List.
From Verif Require Import Gen_consts Gen_qos.
Import ListNotations.
Local Open Scope Z_scope.

Record info := { qos : Z; relpri : Z; overcommit : Z; autorelease : Z; concurrent : bool; inactive : bool }.

(* radices and table size: the values the compiler computed for this build (Gen_consts, regenerated) *)
Definition OC := DISPATCH_QUEUE_ATTR_OVERCOMMIT_COUNT. Definition AF := DISPATCH_QUEUE_ATTR_AUTORELEASE_FREQUENCY_COUNT.
Definition QC := DISPATCH_QUEUE_ATTR_QOS_COUNT. Definition PC := DISPATCH_QUEUE_ATTR_PRIO_COUNT.
Definition CC := DISPATCH_QUEUE_ATTR_CONCURRENCY_COUNT. Definition IC := DISPATCH_QUEUE_ATTR_INACTIVE_COUNT.
Definition ATTR_COUNT := DISPATCH_QUEUE_ATTR_COUNT.

(* an attribute is NULL (-1) or an index into _dispatch_queue_attrs *)
Definition info_zero : info := {| qos := 0; relpri := 0; overcommit := 0; autorelease := 0; concurrent := false; inactive := false |}.

Definition to_info (a : Z) : info :=
  if a <? 0 then info_zero else
  let idx := a in
  let ina := idx mod IC in let idx := idx / IC in
  let con := negb (idx mod CC =? 0) in let idx := idx / CC in   (* C: dqai_concurrent = !(idx % 2) *)
  let rp := - (idx mod PC) in let idx := idx / PC in
  let q := idx mod QC in let idx := idx / QC in
  let af := idx mod AF in let idx := idx / AF in
  let oc := idx mod OC in
  {| qos := q; relpri := rp; overcommit := oc; autorelease := af; concurrent := negb con; inactive := negb (ina =? 0) |}.

Definition from_info (i : info) : Z :=
  let idx := 0 in
  let idx := idx * OC + overcommit i in
  let idx := idx * AF + autorelease i in
  let idx := idx * QC + qos i in
  let idx := idx * PC + (- relpri i) in
  let idx := idx * CC + (if concurrent i then 0 else 1) in
  let idx := idx * IC + (if inactive i then 1 else 0) in
  idx.

Definition wf_info (i : info) : bool :=
  (0 <=? qos i) && (qos i <? QC) && (1 - PC <=? relpri i) && (relpri i <=? 0) &&
  (0 <=? overcommit i) && (overcommit i <? OC) && (0 <=? autorelease i) && (autorelease i <? AF).

(* public QoS classes *)
Definition qos_of_class (cls : Z) : Z :=
  if cls =? 33 then 6 else if cls =? 25 then 5 else if cls =? 21 then 4 else if cls =? 17 then 3
  else if cls =? 9 then 2 else if cls =? 5 then 1 else 0.
Definition class_of_qos (q : Z) : Z :=
  if q =? 6 then 33 else if q =? 5 then 25 else if q =? 4 then 21 else if q =? 3 then 17
  else if q =? 2 then 9 else if q =? 1 then 5 else 0.
Definition class_valid (cls rp : Z) : bool :=
  ((cls =? 33) || (cls =? 25) || (cls =? 21) || (cls =? 17) || (cls =? 9) || (cls =? 5) || (cls =? 0)) &&
  (1 - PC <=? rp) && (rp <=? 0).

(* the constructors *)
Definition set_qos (i : info) (q rp : Z) := {| qos := q; relpri := rp; overcommit := overcommit i; autorelease := autorelease i; concurrent := concurrent i; inactive := inactive i |}.
Definition set_inactive (i : info) := {| qos := qos i; relpri := relpri i; overcommit := overcommit i; autorelease := autorelease i; concurrent := concurrent i; inactive := true |}.
Definition set_overcommit (i : info) (oc : Z) := {| qos := qos i; relpri := relpri i; overcommit := oc; autorelease := autorelease i; concurrent := concurrent i; inactive := inactive i |}.
Definition set_autorelease (i : info) (af : Z) := {| qos := qos i; relpri := relpri i; overcommit := overcommit i; autorelease := af; concurrent := concurrent i; inactive := inactive i |}.

Definition make_with_qos_class (a cls rp : Z) : Z :=
  if class_valid cls rp then from_info (set_qos (to_info a) (qos_of_class cls) rp) else a.
Definition make_initially_inactive (a : Z) : Z := from_info (set_inactive (to_info a)).
Definition make_with_overcommit (a : Z) (oc : bool) : Z := from_info (set_overcommit (to_info a) (if oc then 1 else 2)).
Definition make_with_autorelease (a : Z) (f : Z) : Z := from_info (set_autorelease (to_info a) f).

(* what a queue created from the attribute (label l, default target) reports:
   (qos class, relative priority, width, initially inactive) *)
Definition WIDTH_MAX := DISPATCH_QUEUE_WIDTH_MAX.
Definition clamp_qos (q : Z) : Z := if q =? 6 then 5 else if q =? 1 then 2 else q.
Definition report (a : Z) : Z * Z * Z * bool :=
  let i := to_info a in
  let q := clamp_qos (qos i) in
  (class_of_qos q, (if q =? 0 then 0 else relpri i), (if concurrent i then WIDTH_MAX else 1), inactive i).

Definition info_eqb (x y : info) : bool :=
  (qos x =? qos y) && (relpri x =? relpri y) && (overcommit x =? overcommit y) && (autorelease x =? autorelease y) &&
  Bool.eqb (concurrent x) (concurrent y) && Bool.eqb (inactive x) (inactive y).

Definition info_tuple (i : info) : list Z :=
  [qos i; relpri i; overcommit i; autorelease i; if concurrent i then 1 else 0; if inactive i then 1 else 0].

(* one line of the exhaustive correspondence (harness/c18_attr.c prints the same vector from the library) *)
Definition CLS_GRID : list Z := [33; 25; 21; 17; 9; 5; 0; 1; 34; 277].
Definition RP_GRID : list Z := [0; -1; -7; -15; -16; 1].
Definition attr_line (a : Z) : list Z :=
  info_tuple (to_info a) ++
  [make_initially_inactive a; make_with_overcommit a true; make_with_overcommit a false] ++
  map (make_with_autorelease a) [0; 1; 2] ++
  flat_map (fun c => map (fun r => make_with_qos_class a c r) RP_GRID) CLS_GRID ++
  (let '(cls, rp, w, ia) := report a in [cls; rp; w; if ia then 1 else 0; 1]).
Fixpoint zlist_eqb (x y : list Z) : bool :=
  match x, y with
  | [], [] => true
  | a :: x', b :: y' => (a =? b) && zlist_eqb x' y'
  | _, _ => false
  end.
