(* RefcntSites.v — the atomic sites (kind, field, memory order) the model Refcnt.v assumes for the retain / release
   family and the group functions, in source order; Properties_C17 states that they equal what src2v reads from the
   source (Gen_refcnt).  Kept apart from Refcnt.v because Gen_fields (global field numbering) changes whenever any
   module is added to the translator's target list. *)
From Coq Require Import ZArith List.
From Verif Require Import Word Gen_fields.
Import ListNotations.

(* atomic sites of the modelled functions, in source order: must equal what src2v reads from the source *)
Definition st (k : akind) (f : nat) (o : morder) : site := {| s_kind := k; s_field := f; s_order := o |}.
Definition model_sites_retain := [st KAdd F_os_obj_xref_cnt Relaxed].
Definition model_sites_release := [st KSub F_os_obj_xref_cnt Release].
Definition model_sites_retain_internal := [st KAdd F_os_obj_ref_cnt Relaxed].
Definition model_sites_release_internal := [st KSub F_os_obj_ref_cnt Release].
Definition model_sites_retain_weak := [st KLoad F_os_obj_xref_cnt Relaxed; st KCasWeak F_os_obj_xref_cnt Relaxed].
Definition model_sites_xref_dispose := [st KLoad F_os_obj_xref_cnt Acquire].
Definition model_sites_dispatch_xref_dispose := [st KSub F_os_obj_ref_cnt Release].
Definition model_sites_dispose := [st KLoad F_os_obj_ref_cnt Acquire].
Definition model_sites_group_enter := [st KSub F_dg_bits Acquire; st KAdd F_os_obj_ref_cnt Relaxed].
Definition model_sites_group_wake :=
  [st KLoad F___n Acquire; st KStore F_dg_notify_head Relaxed; st KXchg F_dg_notify_tail Release;
   st KLoad F_do_next Acquire; st KSub F_os_obj_ref_cnt Release (* dsn_queue *); st KSub F_os_obj_ref_cnt Release (* dg, refs *)].
Definition model_sites_group_leave :=
  [st KAdd F_dg_state Release; st KCas F_dg_state Relaxed] ++ model_sites_group_wake.
Definition model_sites_group_notify :=
  [st KAdd F_os_obj_ref_cnt Relaxed (* dq *); st KStore F_do_next Relaxed; st KXchg F_dg_notify_tail Release;
   st KAdd F_os_obj_ref_cnt Relaxed (* dg *); st KStore F_do_next Relaxed; st KStore F_dg_notify_head Relaxed;
   st KLoad F_dg_state Relaxed] ++ model_sites_group_wake ++ [st KCasWeak F_dg_state Release].

