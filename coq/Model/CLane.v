(* CLane.v — one concurrent lane (DISPATCH_QUEUE_CONCURRENT, 2 <= dq_width <= DISPATCH_QUEUE_WIDTH_MAX, role BASE_ANON:
   targeting a global root queue directly) under dispatch_sync, dispatch_barrier_sync, dispatch_async,
   dispatch_barrier_async from any number of threads, drained by any number of root-queue workers.

   Program points follow the C code (src/queue.c, src/inline_internal.h), one per atomic access of the lane:
     dispatch_sync          _dispatch_sync_f_inline: _dispatch_queue_try_reserve_sync_width (tail test, rmw loop),
                            callout, _dispatch_lane_non_barrier_complete (rmw loop, _finish: barrier_complete / push)
     dispatch_barrier_sync  _dispatch_barrier_sync_f_inline: _dispatch_queue_try_acquire_barrier_sync (tail test, rmw loop), callout,
                            _dispatch_lane_barrier_sync_invoke_and_complete -> (dq_width > 1) _dispatch_lane_barrier_complete
     slow path of both      _dispatch_sync_f_slow -> __DISPATCH_WAIT_FOR_QUEUE__ -> _dispatch_lane_push_waiter (MPSC push,
                            rmw loop that may take the lock and run _dispatch_lane_barrier_complete), thread-event wait,
                            callout, completion as above
     dispatch_[barrier_]async  _dispatch_lane_concurrent_push: (non-barrier, list empty) _dispatch_queue_try_acquire_async +
                            redirect to the root queue; else _dispatch_lane_push (MPSC push, _dispatch_lane_wakeup ->
                            _dispatch_queue_wakeup rmw loop, push of the lane on its target)
     worker on the lane     _dispatch_queue_class_invoke: _dispatch_queue_drain_try_lock, _dispatch_lane_drain (concurrent,
                            redirecting): _dispatch_queue_try_upgrade_full_width / xor IN_BARRIER / reserve for a waiter /
                            _dispatch_queue_try_acquire_async, pop, redirect or wake or run a barrier item inline,
                            _dispatch_queue_drain_try_unlock (+ xor DIRTY and retry), out_with_barrier_waiter ->
                            _dispatch_queue_invoke_finish -> _dispatch_lane_drain_barrier_waiter
     worker on a redirected item  _dispatch_async_redirect_invoke: callout, _dispatch_lane_non_barrier_complete
     _dispatch_lane_barrier_complete: head test, _dispatch_lane_drain_barrier_waiter (pop, transfer rmw loop, wake),
                            _dispatch_lane_drain_non_barriers (and ~IN_BARRIER, per item: owned width / room test + reserve
                            for a waiter / try_acquire_async, pop, redirect or wake; final rmw loop; xor DIRTY and again),
                            _dispatch_lane_class_barrier_complete (rmw loop; xor DIRTY and again; push of the lane)
   Every dq_state read-modify-write is the body generated from the source (Gen_dqstate) applied to the current word; an
   rmw loop is one atomic step (its successful compare-exchange; the failed attempts and the initial load change nothing).
   Plain atomic operations (xor IN_BARRIER, and ~IN_BARRIER, add WIDTH_INTERVAL, xor DIRTY) use the constants below; they
   are tied to the source by the trace check (operand recorded at the source line = constant used here).

   Abstractions (all enlarge the set of behaviours, none removes one):
   - the MPSC list is a FIFO of (id, barrier?, waiter tid); tail exchange and link are one step (a popper never waits for
     the enqueuer's link); pop + redirect push to the root queue is one step; the root queue is a counter of how many
     times the lane sits in it plus the set of redirected items, any idle thread may act as a worker;
   - QoS: the max-qos merge of the asynchronous wakeup is modelled (any dispatch_qos_t), the sync waiters push with
     qos 0 (what _dispatch_qos_from_pp gives without pthread QoS support), the override-only wakeups that change
     nothing but max_qos / RECEIVED_OVERRIDE are not modelled; reference counts are not modelled;
   Scope: FLAT CLIENTS.  A call (dispatch_sync, dispatch_barrier_sync, dispatch_[barrier_]async, a worker picking up the lane or
   a redirected item) begins only on a thread that is outside any call (`begin` needs pc Idle), and a callout is one step
   from *_call to *_incall to its completion: an item never submits to its own queue from inside its callout (no drainer that
   is at the same time an enqueuer, no nested dispatch_sync on the same queue).  "All interleavings" in the theorems means all
   interleavings of such flat clients.  Also: because tail exchange and link are one step, the drainer's wait for an enqueuer
   that has exchanged the tail but not yet linked its item (os_mpsc_get_next) has no counterpart here.
   Not modelled (stated in the theorems' scope): suspension / inactive queues (C06), DISPATCH_BLOCK_BARRIER blocks, target-queue hierarchies (C03:
   do_targetq is a root queue, so there is no recursion and drains are redirecting), dispatch_async_and_wait,
   workloops, the manager queue, dispatch_apply's extra reservations (C10: they only take available width). *)
From Coq Require Import ZArith Bool List.
From Verif Require Import Word Conc Gen_consts Gen_dqstate.
Import ListNotations.
Local Open Scope Z_scope.

Definition INTERVAL := 2199023255552.            (* DISPATCH_QUEUE_WIDTH_INTERVAL *)
Definition IN_BARRIER := 18014398509481984.      (* DISPATCH_QUEUE_IN_BARRIER *)
Definition FULL_BIT := 9007199254740992.         (* DISPATCH_QUEUE_WIDTH_FULL_BIT *)
Definition PENDING := 1099511627776.             (* DISPATCH_QUEUE_PENDING_BARRIER *)
Definition DIRTY := 549755813888.                (* DISPATCH_QUEUE_DIRTY *)
Definition ENQUEUED := 2147483648.               (* DISPATCH_QUEUE_ENQUEUED *)
Definition ENQ_BITS := 277025390592.             (* DISPATCH_QUEUE_ENQUEUED | DISPATCH_QUEUE_ENQUEUED_ON_MGR *)
Definition WIDTH_MASK := 18012199486226432.      (* DISPATCH_QUEUE_WIDTH_MASK *)
Definition ROLE_BASE_ANON := 68719476736.        (* DISPATCH_QUEUE_ROLE_BASE_ANON *)
Definition NOT_IN_BARRIER := 18428729675200069631.  (* ~DISPATCH_QUEUE_IN_BARRIER *)

Record item := { i_id : Z; i_bar : bool; i_wt : Z }.   (* i_wt: 0 = continuation, else tid of the sync waiter *)

(* where a thread that ran _dispatch_lane_barrier_complete on behalf of its own push_waiter continues *)
Inductive ret := RIdle | RWait (i : Z) (b : bool).

Inductive pc :=
| Idle
(* reader paths *)
| S_tail                         (* _dispatch_queue_try_reserve_sync_width: if (dq->dq_items_tail) return false *)
| S_rsv (tl : Z)                 (* ... its rmw loop, tl = the tail value read before *)
| R_call (i : Z)                 (* holds one width interval: _dispatch_client_callout next *)
| R_incall (i : Z)
| NBC                            (* _dispatch_lane_non_barrier_complete: rmw loop *)
| X_rootpush (k : ret)           (* this thread set ENQUEUED: dx_push(dq->do_targetq, dq) *)
(* barrier sync fast path *)
| B_tail                         (* _dispatch_queue_try_acquire_barrier_sync: if (dq->dq_items_tail) return false *)
| B_acq                          (* ... the rmw loop of _dispatch_queue_try_acquire_barrier_sync_and_suspend *)
| B_call (i : Z)
| B_incall (i : Z)
(* _dispatch_lane_barrier_complete and what it calls *)
| BC_tail (k : ret)
| BC_class (k : ret) (enq : Z)
| BC_xor (k : ret)
| DBW_pop (k : ret) (enqb : Z)
| DBW_xfer (k : ret) (enqb : Z) (u : Z) (i : Z)
| DBW_wake (k : ret) (u : Z)
| DN_and (k : ret)
| DN_loop (k : ret) (ow : Z)
| DN_add (k : ret)
| DN_acq (k : ret)
| DN_pop (k : ret) (ow : Z)
| DN_wake (k : ret) (ow : Z) (u : Z) (nx : Z)
| DN_fin (k : ret) (ow : Z) (nx : Z)   (* nx: 0 no next item, 1 next is a non-barrier without width, 2 next is a barrier *)
| DN_xor (k : ret) (ow : Z)
(* dispatch_async / dispatch_barrier_async *)
| A_tail (b : bool) (q : Z) (ovr : bool)
| A_acq (q : Z) (ovr : bool)
| A_xchg (b : bool) (q : Z) (ovr : bool)
| A_probe (q : Z) (fl : Z)
| A_wake (q : Z) (fl : Z)
(* slow path of dispatch_sync / dispatch_barrier_sync *)
| SW_xchg (b : bool)
| SW_rmw (i : Z) (b : bool)
| SW_wait (i : Z) (b : bool)
(* worker that popped the lane from the root queue *)
| W_lock (floor : Z)
| W_tail (op : Z)                 (* op = *owned_ptr of _dispatch_queue_class_invoke *)
| W_head (op : Z) (owned : Z)
| W_upg (op : Z) (owned : Z)
| W_xorib (op : Z)
| W_addw (op : Z)
| W_acq (op : Z)
| W_popn (op : Z) (owned : Z)
| W_wake (op : Z) (owned : Z) (u : Z)
| W_popb (op : Z)
| W_call (op : Z) (i : Z)
| W_incall (op : Z) (i : Z)
| W_next (op : Z) (owned : Z)
| W_unlock (op : Z) (done : Z)
| W_xor (op : Z).

(* ghost: what a parked sync waiter has been handed while it still sleeps *)
Inductive grantst := GNone | GReader | GOwner.

Record gst := mkG {
  st : Z;
  lst : list item;
  rootq : Z;
  rq : list Z;
  pcs : Z -> pc;
  woken : Z -> bool;
  grant : Z -> grantst;
  lockh : option Z;
  bmode : bool;
  dw : Z;
  holders : list Z;
  tokh : option Z;
  nextid : Z;
  kinds : Z -> bool;
  pushed : list Z;
  popped : list Z;
  started : list Z;
  finished : list Z
}.

Definition set_st (s : gst) (v : Z) : gst :=
  {| st := v; lst := lst s; rootq := rootq s; rq := rq s; pcs := pcs s; woken := woken s; grant := grant s; lockh := lockh s; bmode := bmode s; dw := dw s; holders := holders s; tokh := tokh s; nextid := nextid s; kinds := kinds s; pushed := pushed s; popped := popped s; started := started s; finished := finished s |}.
Definition set_lst (s : gst) (v : list item) : gst :=
  {| st := st s; lst := v; rootq := rootq s; rq := rq s; pcs := pcs s; woken := woken s; grant := grant s; lockh := lockh s; bmode := bmode s; dw := dw s; holders := holders s; tokh := tokh s; nextid := nextid s; kinds := kinds s; pushed := pushed s; popped := popped s; started := started s; finished := finished s |}.
Definition set_rootq (s : gst) (v : Z) : gst :=
  {| st := st s; lst := lst s; rootq := v; rq := rq s; pcs := pcs s; woken := woken s; grant := grant s; lockh := lockh s; bmode := bmode s; dw := dw s; holders := holders s; tokh := tokh s; nextid := nextid s; kinds := kinds s; pushed := pushed s; popped := popped s; started := started s; finished := finished s |}.
Definition set_rq (s : gst) (v : list Z) : gst :=
  {| st := st s; lst := lst s; rootq := rootq s; rq := v; pcs := pcs s; woken := woken s; grant := grant s; lockh := lockh s; bmode := bmode s; dw := dw s; holders := holders s; tokh := tokh s; nextid := nextid s; kinds := kinds s; pushed := pushed s; popped := popped s; started := started s; finished := finished s |}.
Definition set_pcs (s : gst) (v : Z -> pc) : gst :=
  {| st := st s; lst := lst s; rootq := rootq s; rq := rq s; pcs := v; woken := woken s; grant := grant s; lockh := lockh s; bmode := bmode s; dw := dw s; holders := holders s; tokh := tokh s; nextid := nextid s; kinds := kinds s; pushed := pushed s; popped := popped s; started := started s; finished := finished s |}.
Definition set_woken (s : gst) (v : Z -> bool) : gst :=
  {| st := st s; lst := lst s; rootq := rootq s; rq := rq s; pcs := pcs s; woken := v; grant := grant s; lockh := lockh s; bmode := bmode s; dw := dw s; holders := holders s; tokh := tokh s; nextid := nextid s; kinds := kinds s; pushed := pushed s; popped := popped s; started := started s; finished := finished s |}.
Definition set_grant (s : gst) (v : Z -> grantst) : gst :=
  {| st := st s; lst := lst s; rootq := rootq s; rq := rq s; pcs := pcs s; woken := woken s; grant := v; lockh := lockh s; bmode := bmode s; dw := dw s; holders := holders s; tokh := tokh s; nextid := nextid s; kinds := kinds s; pushed := pushed s; popped := popped s; started := started s; finished := finished s |}.
Definition set_lockh (s : gst) (v : option Z) : gst :=
  {| st := st s; lst := lst s; rootq := rootq s; rq := rq s; pcs := pcs s; woken := woken s; grant := grant s; lockh := v; bmode := bmode s; dw := dw s; holders := holders s; tokh := tokh s; nextid := nextid s; kinds := kinds s; pushed := pushed s; popped := popped s; started := started s; finished := finished s |}.
Definition set_bmode (s : gst) (v : bool) : gst :=
  {| st := st s; lst := lst s; rootq := rootq s; rq := rq s; pcs := pcs s; woken := woken s; grant := grant s; lockh := lockh s; bmode := v; dw := dw s; holders := holders s; tokh := tokh s; nextid := nextid s; kinds := kinds s; pushed := pushed s; popped := popped s; started := started s; finished := finished s |}.
Definition set_dw (s : gst) (v : Z) : gst :=
  {| st := st s; lst := lst s; rootq := rootq s; rq := rq s; pcs := pcs s; woken := woken s; grant := grant s; lockh := lockh s; bmode := bmode s; dw := v; holders := holders s; tokh := tokh s; nextid := nextid s; kinds := kinds s; pushed := pushed s; popped := popped s; started := started s; finished := finished s |}.
Definition set_holders (s : gst) (v : list Z) : gst :=
  {| st := st s; lst := lst s; rootq := rootq s; rq := rq s; pcs := pcs s; woken := woken s; grant := grant s; lockh := lockh s; bmode := bmode s; dw := dw s; holders := v; tokh := tokh s; nextid := nextid s; kinds := kinds s; pushed := pushed s; popped := popped s; started := started s; finished := finished s |}.
Definition set_tokh (s : gst) (v : option Z) : gst :=
  {| st := st s; lst := lst s; rootq := rootq s; rq := rq s; pcs := pcs s; woken := woken s; grant := grant s; lockh := lockh s; bmode := bmode s; dw := dw s; holders := holders s; tokh := v; nextid := nextid s; kinds := kinds s; pushed := pushed s; popped := popped s; started := started s; finished := finished s |}.
Definition set_nextid (s : gst) (v : Z) : gst :=
  {| st := st s; lst := lst s; rootq := rootq s; rq := rq s; pcs := pcs s; woken := woken s; grant := grant s; lockh := lockh s; bmode := bmode s; dw := dw s; holders := holders s; tokh := tokh s; nextid := v; kinds := kinds s; pushed := pushed s; popped := popped s; started := started s; finished := finished s |}.
Definition set_kinds (s : gst) (v : Z -> bool) : gst :=
  {| st := st s; lst := lst s; rootq := rootq s; rq := rq s; pcs := pcs s; woken := woken s; grant := grant s; lockh := lockh s; bmode := bmode s; dw := dw s; holders := holders s; tokh := tokh s; nextid := nextid s; kinds := v; pushed := pushed s; popped := popped s; started := started s; finished := finished s |}.
Definition set_pushed (s : gst) (v : list Z) : gst :=
  {| st := st s; lst := lst s; rootq := rootq s; rq := rq s; pcs := pcs s; woken := woken s; grant := grant s; lockh := lockh s; bmode := bmode s; dw := dw s; holders := holders s; tokh := tokh s; nextid := nextid s; kinds := kinds s; pushed := v; popped := popped s; started := started s; finished := finished s |}.
Definition set_popped (s : gst) (v : list Z) : gst :=
  {| st := st s; lst := lst s; rootq := rootq s; rq := rq s; pcs := pcs s; woken := woken s; grant := grant s; lockh := lockh s; bmode := bmode s; dw := dw s; holders := holders s; tokh := tokh s; nextid := nextid s; kinds := kinds s; pushed := pushed s; popped := v; started := started s; finished := finished s |}.
Definition set_started (s : gst) (v : list Z) : gst :=
  {| st := st s; lst := lst s; rootq := rootq s; rq := rq s; pcs := pcs s; woken := woken s; grant := grant s; lockh := lockh s; bmode := bmode s; dw := dw s; holders := holders s; tokh := tokh s; nextid := nextid s; kinds := kinds s; pushed := pushed s; popped := popped s; started := v; finished := finished s |}.
Definition set_finished (s : gst) (v : list Z) : gst :=
  {| st := st s; lst := lst s; rootq := rootq s; rq := rq s; pcs := pcs s; woken := woken s; grant := grant s; lockh := lockh s; bmode := bmode s; dw := dw s; holders := holders s; tokh := tokh s; nextid := nextid s; kinds := kinds s; pushed := pushed s; popped := popped s; started := started s; finished := v |}.

Definition after (k : ret) : pc := match k with RIdle => Idle | RWait i b => SW_wait i b end.
Definition kind_of_head (l : list item) : Z :=
  match l with [] => 0 | x :: _ => if i_bar x then 2 else 1 end.
Definition is_nil {A} (l : list A) : bool := match l with [] => true | _ => false end.
Fixpoint remove_z (t : Z) (l : list Z) : list Z :=
  match l with [] => [] | x :: l' => if x =? t then l' else x :: remove_z t l' end.
Fixpoint mem_z (t : Z) (l : list Z) : bool :=
  match l with [] => false | x :: l' => (x =? t) || mem_z t l' end.
Definition set_pc (s : gst) (t : Z) (p : pc) : gst := set_pcs s (upd (pcs s) t p).
Definition changed (old new mask : Z) : bool := nz (Z.land (Z.lxor old new) mask).

Definition init_state (W : Z) : gst :=
  {| st := (4096 - W) * INTERVAL + ROLE_BASE_ANON; lst := []; rootq := 0; rq := []; pcs := fun _ => Idle;
     woken := fun _ => false; grant := fun _ => GNone; lockh := None; bmode := false; dw := 0; holders := []; tokh := None;
     nextid := 0; kinds := fun _ => false; pushed := []; popped := []; started := []; finished := [] |}.

(* what a client (or the root queue) may start on an idle thread *)
Inductive call :=
| CSync                                   (* dispatch_sync *)
| CBarrierSync                            (* dispatch_barrier_sync *)
| CAsync (b : bool) (q : Z) (ovr : bool)  (* dispatch_async / dispatch_barrier_async; ovr: _dispatch_queue_need_override *)
| CWorkerLane (floor : Z)                 (* a root-queue worker pops the lane *)
| CWorkerItem (i : Z).                    (* a root-queue worker pops the redirected item i *)

Section Lane.
Variable W : Z.

(* a new item id for thread t: fast-path items and pushed items share one counter *)
Definition new_item (s : gst) (b : bool) : gst :=
  set_kinds (set_nextid s (nextid s + 1)) (upd (kinds s) (nextid s) b).

Definition begin (s : gst) (t : Z) (c : call) : option gst :=
  match pcs s t with
  | Idle =>
      match c with
      | CSync => Some (set_pc s t S_tail)
      | CBarrierSync => Some (set_pc s t B_tail)
      | CAsync b q ovr => if (0 <=? q) && (q <? 8) then Some (set_pc s t (A_tail b q ovr)) else None
      | CWorkerLane floor =>
          if 0 <? rootq s then Some (set_pc (set_tokh (set_rootq s (rootq s - 1)) (Some t)) t (W_lock floor)) else None
      | CWorkerItem i =>
          if mem_z i (rq s)
          then Some (set_pc (set_holders (set_rq s (remove_z i (rq s))) (t :: holders s)) t (R_call i))
          else None
      end
  | _ => None
  end.

(* continuation of _dispatch_lane_drain_non_barriers after an item was handed out: nx is what pop_head returned *)
Definition dn_cont (k : ret) (ow nx : Z) : pc :=
  if nx =? 1 then DN_loop k ow else DN_fin k ow nx.

Definition push_item (s : gst) (b : bool) (wt : Z) : gst :=
  let i := nextid s in
  set_pushed (new_item (set_lst s (lst s ++ [{| i_id := i; i_bar := b; i_wt := wt |}])) b) (i :: pushed s).

(* one atomic step of thread t inside a call; None = blocked or no such step *)
Definition gstep (s : gst) (t : Z) : option gst :=
  match pcs s t with
  | Idle => None
  (* ---------------- dispatch_sync, fast path *)
  | S_tail => Some (set_pc s t (S_rsv (if is_nil (lst s) then 0 else 1)))
  | S_rsv tl =>
      match f_dispatch_queue_try_reserve_sync_width 0 tl (st s) W with
      | Commit new _ =>
          let i := nextid s in
          Some (set_pc (new_item (set_holders (set_st s new) (t :: holders s)) false) t (R_call i))
      | NoCommit _ _ => Some (set_pc s t (SW_xchg false))
      | _ => None
      end
  | R_call i => Some (set_pc (set_started s (i :: started s)) t (R_incall i))
  | R_incall i => Some (set_pc (set_finished s (i :: finished s)) t NBC)
  | NBC =>
      match non_barrier_complete_loop 0 0 (st s) t W with
      | Commit new _ =>
          let s1 := set_holders (set_st s new) (remove_z t (holders s)) in
          if changed (st s) new IN_BARRIER
          then Some (set_pc (set_dw (set_bmode (set_lockh s1 (Some t)) true) W) t (BC_tail RIdle))
          else if changed (st s) new ENQUEUED
          then Some (set_pc (set_tokh s1 (Some t)) t (X_rootpush RIdle))
          else Some (set_pc s1 t Idle)
      | _ => None
      end
  | X_rootpush k => Some (set_pc (set_tokh (set_rootq s (rootq s + 1)) None) t (after k))
  (* ---------------- dispatch_barrier_sync, fast path *)
  | B_tail => Some (set_pc s t (if is_nil (lst s) then B_acq else SW_xchg true))
  | B_acq =>
      match f_dispatch_queue_try_acquire_barrier_sync_and_suspend 0 t 0 W (st s) with
      | Commit new _ =>
          let i := nextid s in
          Some (set_pc (new_item (set_dw (set_bmode (set_lockh (set_st s new) (Some t)) true) W) true) t (B_call i))
      | NoCommit _ _ => Some (set_pc s t (SW_xchg true))
      | _ => None
      end
  | B_call i => Some (set_pc (set_started s (i :: started s)) t (B_incall i))
  | B_incall i => Some (set_pc (set_finished s (i :: finished s)) t (BC_tail RIdle))
  (* ---------------- _dispatch_lane_barrier_complete *)
  | BC_tail k =>
      Some (set_pc s t (match lst s with
                        | [] => BC_class k 0
                        | x :: _ => if i_bar x then (if i_wt x =? 0 then BC_class k ENQUEUED else DBW_pop k 0)
                                    else DN_and k
                        end))
  | BC_class k enq =>
      match class_barrier_complete_loop 0 0 0 (if enq =? 0 then 0 else 1) (IN_BARRIER + W * INTERVAL) (st s) enq with
      | Commit new _ =>
          let s1 := set_dw (set_bmode (set_lockh (set_st s new) None) false) 0 in
          if negb (enq =? 0) && changed (st s) new enq
          then Some (set_pc (set_tokh s1 (Some t)) t (X_rootpush k))
          else Some (set_pc s1 t (after k))
      | NoCommit _ _ => Some (set_pc s t (BC_xor k))
      | _ => None
      end
  | BC_xor k => Some (set_pc (set_st s (Z.lxor (st s) DIRTY)) t (BC_tail k))
  | DBW_pop k enqb =>
      match lst s with
      | x :: l' => Some (set_pc (set_popped (set_lst s l') (i_id x :: popped s)) t (DBW_xfer k enqb (i_wt x) (i_id x)))
      | [] => None
      end
  | DBW_xfer k enqb u i =>
      match drain_barrier_waiter_loop 0 1 0 enqb (st s) (f_dispatch_lock_value_from_tid u) (kind_of_head (lst s)) with
      | Commit new _ =>
          let s1 := set_grant (set_lockh (set_st s new) (Some u)) (upd (grant s) u GOwner) in
          Some (set_pc (if enqb =? 0 then s1 else set_tokh s1 None) t (DBW_wake k u))
      | _ => None
      end
  | DBW_wake k u => Some (set_pc (set_woken s (upd (woken s) u true)) t (after k))
  (* ---------------- _dispatch_lane_drain_non_barriers *)
  | DN_and k => Some (set_pc (set_bmode (set_st s (Z.land (st s) NOT_IN_BARRIER)) false) t (DN_loop k W))
  | DN_loop k ow =>
      match lst s with
      | x :: _ =>
          Some (set_pc s t (if 0 <? ow then DN_pop k (ow - 1)
                            else if negb (i_wt x =? 0)
                                 then (if nz (f_dq_state_has_sync_width_room (st s) W) then DN_add k else DN_fin k 0 1)
                                 else DN_acq k))
      | [] => None
      end
  | DN_add k => Some (set_pc (set_dw (set_st s (u64 (st s + INTERVAL))) (dw s + 1)) t (DN_pop k 0))
  | DN_acq k =>
      match f_dispatch_queue_try_acquire_async 0 (st s) with
      | Commit new _ => Some (set_pc (set_dw (set_st s new) (dw s + 1)) t (DN_pop k 0))
      | NoCommit _ _ => Some (set_pc s t (DN_fin k 0 1))
      | _ => None
      end
  | DN_pop k ow =>
      match lst s with
      | x :: l' =>
          let s1 := set_dw (set_popped (set_lst s l') (i_id x :: popped s)) (dw s - 1) in
          let nx := kind_of_head l' in
          if i_wt x =? 0
          then Some (set_pc (set_rq s1 (i_id x :: rq s)) t (dn_cont k ow nx))
          else Some (set_pc (set_grant (set_holders s1 (i_wt x :: holders s)) (upd (grant s) (i_wt x) GReader)) t
                            (DN_wake k ow (i_wt x) nx))
      | [] => None
      end
  | DN_wake k ow u nx => Some (set_pc (set_woken s (upd (woken s) u true)) t (dn_cont k ow nx))
  | DN_fin k ow nx =>
      let owned := if nx =? 2 then f_dispatch_queue_adjust_owned 0 (ow * INTERVAL) 1 W 1 else ow * INTERVAL in
      match drain_non_barriers_loop 0 (if nx =? 0 then 0 else 1) 0 (st s) owned t W with
      | Commit new _ =>
          let old' := u64 (st s - owned) in
          if changed old' new IN_BARRIER
          then Some (set_pc (set_dw (set_bmode (set_st s new) true) W) t (BC_tail k))
          else
            let s1 := set_dw (set_lockh (set_st s new) None) 0 in
            if changed old' new ENQUEUED
            then Some (set_pc (set_tokh s1 (Some t)) t (X_rootpush k))
            else Some (set_pc s1 t (after k))
      | Restart _ => Some (set_pc s t (DN_xor k ow))
      | _ => None
      end
  | DN_xor k ow => Some (set_pc (set_st s (Z.lxor (st s) DIRTY)) t (dn_cont k ow (kind_of_head (lst s))))
  (* ---------------- dispatch_async / dispatch_barrier_async *)
  | A_tail b q ovr => Some (set_pc s t (if negb b && is_nil (lst s) then A_acq q ovr else A_xchg b q ovr))
  | A_acq q ovr =>
      match f_dispatch_queue_try_acquire_async 0 (st s) with
      | Commit new _ => Some (set_pc (new_item (set_rq (set_st s new) (nextid s :: rq s)) false) t Idle)
      | NoCommit _ _ => Some (set_pc s t (A_xchg false q ovr))
      | _ => None
      end
  | A_xchg b q ovr =>
      Some (set_pc (push_item s b 0) t (if is_nil (lst s) then A_probe q 3 else if ovr then A_probe q 1 else Idle))
  | A_probe q fl => Some (set_pc s t (if is_nil (lst s) then Idle else A_wake q fl))
  | A_wake q fl =>
      if (0 <=? q) && (q <? 8) then   (* dispatch_qos_t values; checked when the call began *)
        match wakeup_loop 0 q fl 1 (st s) ENQUEUED with
        | Commit new _ =>
            if changed (st s) new ENQUEUED
            then Some (set_pc (set_tokh (set_st s new) (Some t)) t (X_rootpush RIdle))
            else Some (set_pc (set_st s new) t Idle)
        | NoCommit _ _ => Some (set_pc s t Idle)
        | _ => None
        end
      else None
  (* ---------------- slow path of the sync calls *)
  | SW_xchg b =>
      Some (set_pc (push_item s b t) t (if is_nil (lst s) then SW_rmw (nextid s) b else SW_wait (nextid s) b))
  | SW_rmw i b =>
      match push_waiter_loop 0 0 0 (st s) (u64 (u64 (s32 (W - 1)) * INTERVAL))
                             (Z.lor (Z.lor t FULL_BIT) IN_BARRIER) with
      | Commit new _ =>
          if changed (st s) new IN_BARRIER
          then Some (set_pc (set_dw (set_bmode (set_lockh (set_st s new) (Some t)) true) W) t (BC_tail (RWait i b)))
          else Some (set_pc (set_st s new) t (SW_wait i b))
      | _ => None
      end
  | SW_wait i b =>
      if woken s t then
        match grant s t with
        | GReader => Some (set_pc (set_grant (set_woken s (upd (woken s) t false)) (upd (grant s) t GNone)) t (R_call i))
        | GOwner => Some (set_pc (set_grant (set_woken s (upd (woken s) t false)) (upd (grant s) t GNone)) t (B_call i))
        | GNone => None
        end
      else None
  (* ---------------- a worker drains the lane *)
  | W_lock floor =>
      match f_dispatch_queue_drain_try_lock 0 0 W t floor (st s) 0 with
      | Commit new owned =>
          if owned =? 0 then Some (set_pc (set_tokh (set_st s new) None) t Idle)
          else
            let ib := nz (f_dq_state_is_in_barrier owned) in
            Some (set_pc (set_dw (set_bmode (set_lockh (set_st s new) (Some t)) ib)
                                 (if ib then W else Z.land owned WIDTH_MASK / INTERVAL)) t (W_tail owned))
      | Restart _ => Some (set_pc s t (W_lock (f_dq_state_max_qos (st s))))
      | _ => None
      end
  | W_tail op =>
      Some (set_pc s t (if is_nil (lst s) then W_unlock op 1
                        else W_head op (if nz (f_dq_state_is_in_barrier op) then IN_BARRIER else Z.land op WIDTH_MASK)))
  | W_head op owned =>
      match lst s with
      | x :: _ =>
          Some (set_pc s t
            (if i_bar x then
               if negb (owned =? IN_BARRIER) then W_upg op owned
               else if negb (i_wt x =? 0) then DBW_pop RIdle (Z.land op ENQ_BITS)
               else W_popb op
             else
               if (owned =? 0) && negb (i_wt x =? 0) && negb (nz (f_dq_state_has_sync_width_room (st s) W))
               then W_unlock (Z.land op ENQ_BITS) 0
               else if owned =? IN_BARRIER then W_xorib op
               else if owned =? 0 then (if negb (i_wt x =? 0) then W_addw op else W_acq op)
               else W_popn op owned))
      | [] => None
      end
  | W_upg op owned =>
      match f_dispatch_queue_try_upgrade_full_width 0 owned W (st s) with
      | Commit new r =>
          if nz r then Some (set_pc (set_dw (set_bmode (set_st s new) true) W) t (W_head op IN_BARRIER))
          else Some (set_pc (set_dw (set_st s new) 0) t (W_unlock (Z.land op ENQ_BITS) 0))
      | _ => None
      end
  | W_xorib op => Some (set_pc (set_bmode (set_st s (Z.lxor (st s) IN_BARRIER)) false) t (W_head op (u64 (W * INTERVAL))))
  | W_addw op => Some (set_pc (set_dw (set_st s (u64 (st s + INTERVAL))) (dw s + 1)) t (W_popn op INTERVAL))
  | W_acq op =>
      match f_dispatch_queue_try_acquire_async 0 (st s) with
      | Commit new _ => Some (set_pc (set_dw (set_st s new) (dw s + 1)) t (W_popn op INTERVAL))
      | NoCommit _ _ => Some (set_pc s t (W_unlock (Z.land op ENQ_BITS) 0))
      | _ => None
      end
  | W_popn op owned =>
      match lst s with
      | x :: l' =>
          let s1 := set_dw (set_popped (set_lst s l') (i_id x :: popped s)) (dw s - 1) in
          let owned' := u64 (owned - INTERVAL) in
          if i_wt x =? 0
          then Some (set_pc (set_rq s1 (i_id x :: rq s)) t (W_next op owned'))
          else Some (set_pc (set_grant (set_holders s1 (i_wt x :: holders s)) (upd (grant s) (i_wt x) GReader)) t
                            (W_wake op owned' (i_wt x)))
      | [] => None
      end
  | W_wake op owned u => Some (set_pc (set_woken s (upd (woken s) u true)) t (W_next op owned))
  | W_popb op =>
      match lst s with
      | x :: l' => Some (set_pc (set_popped (set_lst s l') (i_id x :: popped s)) t (W_call op (i_id x)))
      | [] => None
      end
  | W_call op i => Some (set_pc (set_started s (i :: started s)) t (W_incall op i))
  | W_incall op i => Some (set_pc (set_finished s (i :: finished s)) t (W_next op IN_BARRIER))
  | W_next op owned =>
      Some (set_pc s t (if is_nil (lst s)
                        then W_unlock (Z.lor (Z.land op ENQ_BITS)
                                             (if owned =? IN_BARRIER then u64 (owned + u64 (W * INTERVAL)) else owned)) 1
                        else W_head op owned))
  | W_unlock op done =>
      match f_dispatch_queue_drain_try_unlock 0 op done (st s) with
      | Commit new _ => Some (set_pc (set_tokh (set_dw (set_bmode (set_lockh (set_st s new) None) false) 0) None) t Idle)
      | NoCommit _ _ => Some (set_pc s t (W_xor op))
      | _ => None
      end
  | W_xor op => Some (set_pc (set_st s (Z.lxor (st s) DIRTY)) t (W_tail op))
  end.

Definition valid_tid (t : Z) : Prop := 0 < t < 1073741824.
Inductive action := ABegin (t : Z) (c : call) | AStep (t : Z).
Definition step (s : gst) (a : action) (s' : gst) : Prop :=
  match a with
  | ABegin t c => valid_tid t /\ begin s t c = Some s'
  | AStep t => valid_tid t /\ gstep s t = Some s'
  end.
Definition reach : gst -> Prop := reachable (fun s => s = init_state W) step.

Fixpoint run (s : gst) (acts : list action) : option gst :=
  match acts with
  | [] => Some s
  | ABegin t c :: r => match begin s t c with Some s' => run s' r | None => None end
  | AStep t :: r => match gstep s t with Some s' => run s' r | None => None end
  end.
End Lane.

(* ---- atomic sites on dq_state of the modelled functions, in program order, as the program points above use them;
   compared in Proofs/CLane_main.v with the lists src2v reads from the source (Gen_lanesites, inlined callees included) ---- *)
Definition st_site (k : akind) (o : morder) : site := {| s_kind := k; s_field := 0; s_order := o |}.
Definition dq_sites (l : list site) : list site := filter (fun x => Nat.eqb (s_field x) 0) l.

(* S_rsv *)
Definition model_sites_try_reserve_sync_width := [st_site KLoad Relaxed; st_site KCasWeak Relaxed].
(* A_acq / DN_acq / W_acq *)
Definition model_sites_try_acquire_async := [st_site KLoad Relaxed; st_site KCasWeak Acquire].
(* DN_add / W_addw *)
Definition model_sites_reserve_sync_width := [st_site KAdd Relaxed].
(* W_upg *)
Definition model_sites_try_upgrade_full_width := [st_site KLoad Relaxed; st_site KCasWeak Acquire].
(* NBC (what follows in the generated list are the inlined _dispatch_lane_barrier_complete and its callees) *)
Definition model_sites_non_barrier_complete := [st_site KLoad Relaxed; st_site KCasWeak Relaxed].
(* BC_class, BC_xor *)
Definition model_sites_class_barrier_complete := [st_site KLoad Relaxed; st_site KXor Acquire; st_site KCasWeak Release].
(* DBW_xfer (the xor belongs to the workloop branch, never taken for role BASE_ANON) *)
Definition model_sites_drain_barrier_waiter := [st_site KLoad Relaxed; st_site KXor Acquire; st_site KCasWeak Release].
(* DN_and; DN_loop (room test); DN_add; DN_acq; [_dispatch_non_barrier_waiter_redirect_or_wake: a load, and the reservation on
   an inner queue's target, never taken here]; DN_fin with DN_xor *)
Definition model_sites_drain_non_barriers :=
  [st_site KAnd Release; st_site KLoad Relaxed; st_site KAdd Relaxed; st_site KLoad Relaxed; st_site KCasWeak Acquire;
   st_site KLoad Relaxed; st_site KLoad Relaxed; st_site KCasWeak Relaxed;
   st_site KLoad Relaxed; st_site KXor Acquire; st_site KCasWeak Relaxed].
(* _dispatch_lane_drain (concurrent): W_head (first_iteration load); W_upg; W_xorib; W_addw; W_acq;
   [_dispatch_non_barrier_waiter_redirect_or_wake as above] *)
Definition model_sites_concurrent_drain :=
  [st_site KLoad Relaxed; st_site KLoad Relaxed; st_site KCasWeak Acquire; st_site KXor Release; st_site KAdd Relaxed;
   st_site KLoad Relaxed; st_site KCasWeak Acquire; st_site KLoad Relaxed; st_site KLoad Relaxed; st_site KCasWeak Relaxed].
(* _dispatch_lane_concurrent_push: A_acq, then _dispatch_lane_push -> _dispatch_lane_wakeup -> _dispatch_queue_wakeup: A_wake *)
Definition model_sites_concurrent_push_head := [st_site KLoad Relaxed; st_site KCasWeak Acquire].
(* SW_rmw: _dispatch_lane_push_waiter (a load in _dispatch_lane_push_waiter_should_wakeup's sibling test, then the rmw loop) *)
Definition model_sites_push_waiter_head := [st_site KLoad Relaxed; st_site KLoad Relaxed; st_site KCasWeak Release].
