(* SemaR.v — replay of one whole recorded round of harness/c08_sema.c (every thread working on one semaphore, the main
   thread's rescue signals and its final drain included) as a run of the GLOBAL model Model/Sema.v, with Base/Replay.v:
   1. `abstract`: one thread's recorded events -> its model actions: every recorded event, plus the hidden plain read
      `orig = dsema->dsema_value` of _dispatch_semaphore_wait_slow (Sema.PWLoad) placed right after the thread's previous event,
      with the thread's next recorded event as look-ahead (the compare-exchange orig -> orig + 1, or sem_wait);
   2. `replay`: Replay.sched on Sema.gstep from Sema.init_state v over the actions of all threads merged by the recorder's
      stamps: an action is taken only if Sema.gstep accepts it in the current global state: the values the library observed
      in dsema_value are the model's values, and a sem_wait / successful sem_timedwait returns only when the model's kernel
      count (reconstructed from the sem_post calls and the returns seen so far) is positive;
   3. `inv_b`: the boolean version of Sema_proofs.Inv (SemaR_proofs.inv_b_reach: true on every reachable state), evaluated on
      the state the replay ends in. *)
From Coq Require Import ZArith Bool List.
From Verif Require Import Word Conc Replay Gen_consts Gen_fields Gen_sema Sema.
Import ListNotations.
Local Open Scope Z_scope.

Definition H_LOAD := 1.
Definition sema_hidden (s : gst) (t code arg : Z) : option event :=
  if code =? H_LOAD then Some (plain_load (value s)) else None.
Definition sema_accepts (s : gst) (t : Z) (e : event) : bool :=
  match tstep (pcs s t) e with Some _ => true | None => false end.
Definition sema_valid (t : Z) : bool := true.

Definition null_ev := mkEv 0 0 0 0 0 0 0 0.
Definition is_load (p : pc) : bool := match p with PWLoad => true | _ => false end.
(* tr: (key, event), key = 2 * stamp.  Result: (key, action) in program order; stops at the first event Sema.tstep_vis rejects *)
Fixpoint abstract (t : Z) (p : pc) (prevk i : Z) (tr : list (Z * event)) (acc : list (Z * ract)) : list (Z * ract) :=
  match tr with
  | [] => rev acc
  | (k, e) :: r =>
      match tstep_vis p e with
      | None => rev acc
      | Some p' =>
          let ev := {| r_tid := t; r_code := 0; r_arg := 0; r_ev := e; r_look := false; r_next := null_ev; r_id := i; r_obs := ev_obs e;
                       r_word := 0; r_widx := 0 |} in
          if is_load p then
            let hid := {| r_tid := t; r_code := H_LOAD; r_arg := 0; r_ev := null_ev; r_look := true; r_next := e; r_id := i; r_obs := true;
                          r_word := 0; r_widx := 0 |} in
            abstract t p' k (i + 1) r ((k, ev) :: (prevk + 1, hid) :: acc)
          else abstract t p' k (i + 1) r ((k, ev) :: acc)
      end
  end.

(* merge by key, stable (program order of a thread is kept: its keys increase) *)
Fixpoint insert (x : Z * ract) (l : list (Z * ract)) : list (Z * ract) :=
  match l with
  | [] => [x]
  | y :: r => if fst x <? fst y then x :: l else y :: insert x r
  end.
(* every thread's list is sorted: merging from the back keeps the insertions short *)
Definition merge (ls : list (list (Z * ract))) : list (Z * ract) :=
  fold_left (fun acc l => fold_right insert acc l) ls [].

(* ------------------------------------------------------------------ boolean invariant *)
Fixpoint nodupb (l : list Z) : bool := match l with [] => true | x :: r => negb (mem x r) && nodupb r end.
Definition balance_b (s : gst) : bool :=
  (0 <=? ksem s) && (SEMA_LONG_MIN <=? value s) && (value s <=? SEMA_LONG_MAX) &&
  (cnt is_Slow s =? Z.max 0 (- value s) + cnt is_SigPost s + ksem s) &&
  (value s + cnt is_Slow s + cnt is_WRet0 s + cnt is_SigInc s =? v0 s + sig_started s - successes s) &&
  (sig_started s =? sig_finished s + cnt is_SigInc s + cnt is_SigPost s + cnt is_SigRet s) &&
  (waits_started s =? successes s + timeouts s + cnt is_WDec s + cnt is_Slow s + cnt is_WRet0 s + cnt is_WRetT s).
Definition thread_inv_b (s : gst) (t : Z) : bool :=
  match pcs s t with
  | PWDec _ | PWTimed | PWSemWait => (g_undo s t =? 0) && (g_cons s t =? 0) && negb (g_tout s t)
  | PWLoad | PWUndo _ => (g_undo s t =? 0) && (g_cons s t =? 0) && g_tout s t
  | PWBlocked => (g_undo s t =? 0) && (g_cons s t =? 0)
  | PWRet0 => (g_undo s t =? 0) && (0 <=? g_cons s t) && (g_cons s t <=? 1) && implb (g_tout s t) (g_cons s t =? 1)
  | PWRetT => (g_undo s t =? 1) && (g_cons s t =? 0) && g_tout s t
  | _ => true
  end.
Definition pc_idleb (p : pc) : bool := match p with PIdle => true | _ => false end.
Definition inv_b (v : Z) (tids : list Z) (s : gst) : bool :=
  (v0 s =? v) && nodupb (seen s) && forallb (fun t => pc_idleb (pcs s t) || mem t (seen s)) tids &&
  balance_b s && forallb (thread_inv_b s) (seen s) && forallb (thread_inv_b s) tids.

(* ------------------------------------------------------------------ the replay *)
Definition b2z (b : bool) : Z := if b then 1 else 0.
Definition all_idle (s : gst) (tids : list Z) : bool := forallb (fun t => pc_idleb (pcs s t)) tids.
Definition depths (n : nat) : list nat := [8%nat; 32%nat; 128%nat; 512%nat; n].
(* v: the value the semaphore was created with; threads: (thread number, its recorded events with keys).
   Result: [actions executed; actions left; recorded events not abstracted (a thread automaton rejected its trace);
            stuck thread; stuck event index; stuck hidden kind;
            dsema_value; kernel count; signals started; signals finished; waits started; waits returned 0; waits returned
            non-zero; inv_b; all threads idle] *)
Definition replay (v : Z) (threads : list (Z * list (Z * event))) : list Z :=
  let per := map (fun '(t, tr) => abstract t PIdle 0 0 tr []) threads in
  let ord := map snd (merge per) in
  let nvis := fold_left (fun n l => n + Z.of_nat (length (filter (fun x => r_code (snd x) =? 0) l))) per 0 in
  let nev := fold_left (fun n th => n + Z.of_nat (length (snd th))) threads 0 in
  let tids := map fst threads in
  let '(s, done, rest) :=
    sched gstep sema_hidden sema_accepts sema_valid (S (length ord)) (S (length threads)) (depths (length ord)) [] (init_state v) ord 0 in
  [ done; Z.of_nat (length rest); nev - nvis;
    match rest with a :: _ => r_tid a | [] => -1 end; match rest with a :: _ => r_id a | [] => -1 end;
    match rest with a :: _ => r_code a | [] => -1 end;
    value s; ksem s; sig_started s; sig_finished s; waits_started s; successes s; timeouts s; b2z (inv_b v tids s);
    b2z (all_idle s tids) ].
