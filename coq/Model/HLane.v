(* HLane.v — a TARGET-QUEUE HIERARCHY of serial lanes (dq_width = 1) under dispatch_async_f from any number of threads
   (also from inside work items), drained by any number of root-queue workers.  Generalises Model/SLane.v (one lane
   on a root queue) to a forest given by `target : Z -> option Z` (None = the lane targets a root queue: a "bottom").

     dispatch_async_f(l)     = _dispatch_lane_push (src/queue.c:5052) on lane l: MPSC push in two steps, then
                               dx_wakeup(MAKE_DIRTY) when the push made the list non-empty, or — on this build, where the
                               submitted qos is 0 — dx_wakeup without MAKE_DIRTY when _dispatch_queue_need_override says
                               so (a plain, possibly stale load of dq_state: an oracle bit of the step);
     _dispatch_queue_wakeup  = (:4851) the rmw loop that sets ENQUEUED / DIRTY and merges the qos; the wakeup that sets
                               ENQUEUED of lane l pushes THE LANE ITSELF: _dispatch_queue_push_queue(tq, dq) ->
                               dx_push(tq, dq, max_qos) -> _dispatch_lane_push on its target (the same path again, one
                               level down), or onto the root queue (abstract: a counter per bottom) when target l = None;
     a worker that popped a bottom from its root queue runs _dispatch_queue_class_invoke (inline_internal.h:1788):
                               drain_try_lock, _dispatch_lane_serial_drain (queue.c:3739: tail test, get_head with the
                               wait for a lagging enqueuer, pop_head, _dispatch_continuation_pop_inline), drain_try_unlock;
     when the popped entry is a LANE l' (it has a vtable) pop_inline calls dx_invoke(l') = _dispatch_lane_invoke ->
                               _dispatch_queue_class_invoke NESTED on the same thread: a new frame on the thread's stack;
     a refused unlock (DIRTY)  clears DIRTY (xor, acquire) and then: a bottom drains again (goto
                               attempt_running_slow_head, because _dispatch_queue_get_current() is a root queue); an
                               INNER lane does NOT loop: tq = the current queue = its target, and
                               _dispatch_queue_invoke_finish (queue.c:3748) releases the drain lock, keeps ENQUEUED, sets
                               DIRTY and pushes the lane on its target again (tail of the target's list), then returns
                               into the target's drain loop.

   Every dq_state transition is the body generated from the source (Gen_dqstate) — same functions and arguments as SLane,
   plus invoke_finish_loop and wakeup_loop without MAKE_DIRTY; an rmw loop is one atomic step (its successful
   compare-exchange).  A thread's control is a STACK of frames (lane, pc), top active; frames are pushed by the nested
   invoke and by a dispatch_async_f issued from inside a callout, a tail call replaces the top frame.
   Invoke flags: only STEALING / MANAGER_DRAIN are tested by the generated lock body and neither is set here (root
   workers pass WORKER_DRAIN | REDIRECTING_DRAIN, the nested invoke passes flags & _DISPATCH_INVOKE_PROPAGATE_MASK), so 0
   is passed as in SLane; the override floor of a nested lock is passed as 0: the body ignores it for role INNER
   (HLane_proofs.inner_lock_ignores_floor).
   Out of scope: concurrent inner queues, dispatch_sync / barrier / waiters through levels, workloop bottoms,
   retargeting (also before activation), suspension, QoS overrides beyond the max-qos merge
   (HAVE_PTHREAD_WORKQUEUE_QOS = 0 here), reference counts. *)
From Coq Require Import ZArith Bool List.
From Verif Require Import Word Conc Gen_consts Gen_dqstate.
Import ListNotations.
Local Open Scope Z_scope.

Definition ENQUEUED := 2147483648.
Definition DIRTY := 549755813888.
Definition SERIAL_OWNED := 18014398509481984 + 2199023255552.     (* IN_BARRIER + one WIDTH_INTERVAL *)

(* ---------------------------------------------------------------- the forest *)
Record forest := {
  target : Z -> option Z;       (* do_targetq: None = a root queue *)
  depth : Z -> nat;             (* well-foundedness witness of the target relation *)
  rolebits : Z -> Z;            (* dq_state role set at activation: 0 = INNER, 1 = BASE_ANON *)
  prio : Z -> Z;                (* _dispatch_priority_qos(dq_priority) *)
  fallback : Z -> Z             (* _dispatch_priority_fallback_qos(dq_priority) *)
}.

Definition forest_ok (F : forest) : Prop :=
  (forall l p, target F l = Some p -> (depth F p < depth F l)%nat /\ rolebits F l = 0) /\
  (forall l, target F l = None -> 0 <= rolebits F l < 2) /\
  (forall l, 0 <= prio F l < 8 /\ 0 <= fallback F l < 8).

(* the serial bottom a lane's target chain ends in *)
Fixpoint bottom_n (F : forest) (n : nat) (l : Z) : Z :=
  match n with
  | O => l
  | S n' => match target F l with None => l | Some p => bottom_n F n' p end
  end.
Definition bottom (F : forest) (l : Z) : Z := bottom_n F (depth F l) l.

(* ---------------------------------------------------------------- lists, program points, state *)
Inductive ent := Item (i : Z) | Lane (l : Z).
Record entry := { e_ent : ent; e_linked : bool }.
Definition ent_eqb (a b : ent) : bool :=
  match a, b with Item i, Item j => i =? j | Lane l, Lane k => l =? k | _, _ => false end.

(* what _dispatch_lane_push is pushing: a fresh continuation (its id is issued by the tail exchange) or a lane *)
Inductive what := WItem | WLane (l : Z).

Inductive pc :=
| PA_xchg (w : what) (qos : Z)          (* _dispatch_lane_push: about to exchange dq_items_tail; qos after _dispatch_queue_push_qos *)
| PA_link (e : ent) (was_empty : bool) (qos : Z)  (* about to publish the link (dq_items_head or prev->do_next) *)
| PA_probe (qos : Z) (dirty : bool)     (* dx_wakeup(dq, qos, CONSUME_2 [| MAKE_DIRTY]) -> _dispatch_lane_wakeup: _dispatch_queue_class_probe *)
| PA_wake (qos : Z) (dirty : bool)      (* _dispatch_queue_wakeup: the rmw loop; qos after _dispatch_queue_wakeup_qos *)
| PA_tpush (qos : Z)                    (* ENQUEUED was set by this thread: _dispatch_queue_push_queue(tq, dq, new_state) *)
| PW_lock (floor : Z)                   (* _dispatch_queue_class_invoke: _dispatch_queue_drain_try_lock *)
| PW_tail (owned : Z)                   (* serial drain entry: if (!dq->dq_items_tail) return NULL *)
| PW_head (owned : Z)                   (* _dispatch_queue_get_head: waits for the enqueuer's link *)
| PW_pop (owned : Z)                    (* _dispatch_queue_pop_head *)
| PW_run (owned : Z) (e : ent) (more : bool)        (* _dispatch_continuation_pop_inline *)
| PW_incall (owned : Z) (i : Z) (more : bool)       (* inside the client callout of item i *)
| PW_invoking (owned : Z) (l' : Z) (more : bool)    (* inside dx_invoke(l'): the frame above *)
| PW_next (owned : Z) (more : bool)     (* loop head: next_dc known, or re-read dq_items_tail *)
| PW_unlock (owned : Z)                 (* _dispatch_queue_drain_try_unlock(owned, done = true) *)
| PW_xor (owned : Z)                    (* unlock refused: xor DIRTY (acquire) *)
| PW_finish (owned : Z).                (* inner lane: _dispatch_queue_invoke_finish's rmw loop *)

Definition frame := (Z * pc)%type.

Record gst := {
  st : Z -> Z;                       (* dq_state of every lane *)
  lst : Z -> list entry;             (* the MPSC list of every lane, in tail-exchange order *)
  rootq : Z -> Z;                    (* how many times a bottom sits in its root queue *)
  stk : Z -> list frame;             (* control stack of every thread, top first; [] = idle *)
  nextid : Z -> Z;                   (* ghost, per lane: ids of submitted items are 0 .. nextid-1 in tail-exchange order *)
  started : Z -> list Z;             (* ghost, per lane: items whose callout began, most recent first *)
  token : Z -> option (option Z);    (* ghost, per lane: who holds its single "enqueued" token: None = nobody (ENQUEUED
                                        clear), Some None = it sits in its target (list of the target lane / root queue),
                                        Some (Some t) = thread t (about to push it, just popped it, or draining it) *)
  wakers : Z -> list Z               (* ghost, per lane: pushers that made the list non-empty and owe their wakeup *)
}.

Definition set_st (s : gst) (l v : Z) : gst :=
  {| st := upd (st s) l v; lst := lst s; rootq := rootq s; stk := stk s; nextid := nextid s; started := started s;
     token := token s; wakers := wakers s |}.
Definition set_lst (s : gst) (l : Z) (v : list entry) : gst :=
  {| st := st s; lst := upd (lst s) l v; rootq := rootq s; stk := stk s; nextid := nextid s; started := started s;
     token := token s; wakers := wakers s |}.
Definition set_rootq (s : gst) (l v : Z) : gst :=
  {| st := st s; lst := lst s; rootq := upd (rootq s) l v; stk := stk s; nextid := nextid s; started := started s;
     token := token s; wakers := wakers s |}.
Definition set_stk (s : gst) (t : Z) (v : list frame) : gst :=
  {| st := st s; lst := lst s; rootq := rootq s; stk := upd (stk s) t v; nextid := nextid s; started := started s;
     token := token s; wakers := wakers s |}.
Definition set_nextid (s : gst) (l v : Z) : gst :=
  {| st := st s; lst := lst s; rootq := rootq s; stk := stk s; nextid := upd (nextid s) l v; started := started s;
     token := token s; wakers := wakers s |}.
Definition set_started (s : gst) (l : Z) (v : list Z) : gst :=
  {| st := st s; lst := lst s; rootq := rootq s; stk := stk s; nextid := nextid s; started := upd (started s) l v;
     token := token s; wakers := wakers s |}.
Definition set_token (s : gst) (l : Z) (v : option (option Z)) : gst :=
  {| st := st s; lst := lst s; rootq := rootq s; stk := stk s; nextid := nextid s; started := started s;
     token := upd (token s) l v; wakers := wakers s |}.
Definition set_wakers (s : gst) (l : Z) (v : list Z) : gst :=
  {| st := st s; lst := lst s; rootq := rootq s; stk := stk s; nextid := nextid s; started := started s;
     token := token s; wakers := upd (wakers s) l v |}.

Fixpoint remove_z (t : Z) (l : list Z) : list Z :=
  match l with [] => [] | x :: l' => if x =? t then remove_z t l' else x :: remove_z t l' end.

(* os_mpsc_push_update_prev: the pusher publishes the link of ITS entry (the first unlinked entry that names it) *)
Fixpoint link_ent (l : list entry) (e : ent) : list entry :=
  match l with
  | [] => []
  | x :: l' => if ent_eqb (e_ent x) e && negb (e_linked x) then {| e_ent := e; e_linked := true |} :: l' else x :: link_ent l' e
  end.

(* the dq_state steps: the generated bodies, with the arguments the code passes at that program point *)
Definition w_lock (self floor old : Z) : rmw_outcome := f_dispatch_queue_drain_try_lock 0 0 1 self floor old 0.
Definition w_unlock (owned old : Z) : rmw_outcome := f_dispatch_queue_drain_try_unlock 0 owned 1 old.
Definition w_xor (old : Z) : Z := Z.lxor old DIRTY.
Definition w_wake (qos : Z) (dirty : bool) (old : Z) : rmw_outcome := wakeup_loop 0 qos (if dirty then 3 else 1) 1 old ENQUEUED.
Definition w_finish (owned old : Z) : rmw_outcome := invoke_finish_loop 0 0 0 owned old ENQUEUED.
Definition enq_flipped (a b : Z) : bool := negb (Z.land (Z.lxor a b) ENQUEUED =? 0).

(* returning into the frame below: dx_invoke(l') has returned into the drain loop of the target *)
Definition ret (k : list frame) : list frame :=
  match k with (p, PW_invoking o _ m) :: r => (p, PW_next o m) :: r | _ => k end.

Definition in_callout (k : list frame) : bool :=
  match k with [] => true | (_, PW_incall _ _ _) :: _ => true | _ => false end.

(* what a client may start: dispatch_async_f on lane l from an idle thread or from inside a callout; a worker thread of
   the root queue popping bottom b *)
Inductive call := CAsync (l : Z) (qos : Z) | CWorker (b : Z) (floor : Z).

(* the qos plumbing of a push: _dispatch_queue_push_qos, then (in _dispatch_queue_wakeup) _dispatch_queue_wakeup_qos *)
Definition push_qos_of (prio q : Z) : Z := if prio <? q then q else 0.
Definition wakeup_qos_of (prio fb q : Z) : Z := Z.max (if q =? 0 then fb else q) prio.

(* for the correspondence check (lib/props/c03_hlane.py): the word the model writes at a program point, given the old
   word and what the thread knows there; -1 = the model does not write at this point for this old word *)
Definition OWNED := SERIAL_OWNED + ENQUEUED.
Definition outcome_new (o : rmw_outcome) : Z := match o with Commit new _ => new | _ => -1 end.
Definition word_step (code a b c d old : Z) : Z :=
  match code with
  | 1 => match w_lock a b old with Commit new owned => if owned =? OWNED then new else -3 | _ => -1 end   (* a = tid, b = floor *)
  | 2 => outcome_new (w_unlock OWNED old)
  | 3 => w_xor old
  | 4 => outcome_new (w_wake (wakeup_qos_of a b (push_qos_of a c)) (0 <? d) old)     (* a = prio, b = fallback, c = qos pushed, d = MAKE_DIRTY *)
  | 5 => outcome_new (w_finish OWNED old)
  | _ => -2
  end.

Section Model.
  Variable F : forest.

  Definition push_qos (l q : Z) : Z := push_qos_of (prio F l) q.
  Definition wakeup_qos (l q : Z) : Z := wakeup_qos_of (prio F l) (fallback F l) q.

  Definition init_state : gst :=
    {| st := fun l => Z.shiftl (4096 - 1) 41 + 68719476736 * rolebits F l; lst := fun _ => []; rootq := fun _ => 0;
       stk := fun _ => []; nextid := fun _ => 0; started := fun _ => []; token := fun _ => None; wakers := fun _ => [] |}.

  Definition begin (s : gst) (t : Z) (c : call) : option gst :=
    match c with
    | CAsync l q =>
        if (0 <=? q) && (q <? 8) && in_callout (stk s t)
        then Some (set_stk s t ((l, PA_xchg WItem (push_qos l q)) :: stk s t)) else None
    | CWorker b floor =>
        match stk s t, target F b with
        | [], None =>
            if 0 <? rootq s b
            then Some (set_token (set_stk (set_rootq s b (rootq s b - 1)) t [(b, PW_lock floor)]) b (Some (Some t)))
            else None
        | _, _ => None
        end
    end.

  (* one atomic step of thread t; o = what _dispatch_queue_need_override's plain load of dq_state made of it (used by
     PA_link only); None = not enabled (spinning / blocked) or no such step *)
  Definition gstep (s : gst) (t : Z) (o : bool) : option gst :=
    match stk s t with
    | [] => None
    | (l, p) :: r =>
      let goto := fun (s0 : gst) (p' : pc) => set_stk s0 t ((l, p') :: r) in
      let leave := fun (s0 : gst) => set_stk s0 t (ret r) in
      match p with
      | PA_xchg w qos =>
          (* os_mpsc_push_update_tail: xchg(dq_items_tail, item, release) *)
          let was_empty := match lst s l with [] => true | _ => false end in
          let e := match w with WItem => Item (nextid s l) | WLane l' => Lane l' end in
          let s1 := set_lst s l (lst s l ++ [{| e_ent := e; e_linked := false |}]) in
          let s2 := match w with WItem => set_nextid s1 l (nextid s l + 1) | WLane l' => set_token s1 l' (Some None) end in
          let s3 := set_wakers s2 l (if was_empty then t :: wakers s l else wakers s l) in
          Some (goto s3 (PA_link e was_empty qos))
      | PA_link e was_empty qos =>
          (* os_mpsc_push_update_prev; then dx_wakeup if flags != 0 *)
          let s1 := set_lst s l (link_ent (lst s l) e) in
          Some (if was_empty then goto s1 (PA_probe qos true)
                else if o then goto s1 (PA_probe qos false) else leave s1)
      | PA_probe qos dirty =>
          (* tail = load(dq_items_tail, seq_cst); target = tail ? TARGET : NONE; with NONE nothing else happens here *)
          Some (match lst s l with
                | [] => leave (set_wakers s l (if dirty then remove_z t (wakers s l) else wakers s l))
                | _ => goto s (PA_wake (wakeup_qos l qos) dirty)
                end)
      | PA_wake qos dirty =>
          match w_wake qos dirty (st s l) with
          | Commit new _ =>
              let s1 := set_st s l new in
              let s2 := set_wakers s1 l (if dirty then remove_z t (wakers s l) else wakers s l) in
              Some (if enq_flipped (st s l) new
                    then goto (set_token s2 l (Some (Some t))) (PA_tpush (f_dq_state_max_qos new))
                    else leave s2)
          | NoCommit _ _ => if dirty then None else Some (leave s)
          | _ => None
          end
      | PA_tpush qos =>
          (* _dispatch_queue_push_queue(tq, dq, new_state) -> dx_push(tq, dq, _dq_state_max_qos(new_state)): a tail call *)
          Some (match target F l with
                | None => leave (set_token (set_rootq s l (rootq s l + 1)) l (Some None))
                | Some p => set_stk s t ((p, PA_xchg (WLane l) (push_qos p qos)) :: r)
                end)
      | PW_lock floor =>
          match w_lock t floor (st s l) with
          | Commit new owned =>
              Some (if owned =? 0 then leave (set_token (set_st s l new) l None)
                    else goto (set_st s l new) (PW_tail owned))
          | Restart _ => Some (goto s (PW_lock (f_dq_state_max_qos (st s l))))
          | _ => None
          end
      | PW_tail owned =>
          Some (goto s (match lst s l with [] => PW_unlock (Z.lor (Z.land owned ENQUEUED) SERIAL_OWNED) | _ => PW_head owned end))
      | PW_head owned =>
          match lst s l with
          | e :: _ => if e_linked e then Some (goto s (PW_pop owned)) else None      (* _dispatch_wait_for_enqueuer *)
          | [] => None
          end
      | PW_pop owned =>
          let take := fun (e : entry) (s0 : gst) => match e_ent e with Lane l' => set_token s0 l' (Some (Some t)) | Item _ => s0 end in
          match lst s l with
          | [e] => Some (goto (take e (set_lst s l [])) (PW_run owned (e_ent e) false))     (* cmpxchg(tail, head, NULL) succeeded *)
          | e :: e2 :: l' => if e_linked e2 then Some (goto (take e (set_lst s l (e2 :: l'))) (PW_run owned (e_ent e) true)) else None
          | [] => None
          end
      | PW_run owned e more =>
          Some (match e with
                | Item i => goto (set_started s l (i :: started s l)) (PW_incall owned i more)     (* the client callout begins *)
                | Lane l' => set_stk s t ((l', PW_lock 0) :: (l, PW_invoking owned l' more) :: r)  (* dx_invoke(l') *)
                end)
      | PW_incall owned i more => Some (goto s (PW_next owned more))                           (* the callout returns *)
      | PW_invoking _ _ _ => None                                                              (* only ever below another frame *)
      | PW_next owned more =>
          if more then Some (goto s (PW_pop owned))
          else Some (goto s (match lst s l with [] => PW_unlock (Z.lor (Z.land owned ENQUEUED) SERIAL_OWNED) | _ => PW_head owned end))
      | PW_unlock owned =>
          match w_unlock owned (st s l) with
          | Commit new _ => Some (leave (set_token (set_st s l new) l None))
          | NoCommit _ _ => Some (goto s (PW_xor owned))
          | _ => None
          end
      | PW_xor owned =>
          (* tq = _dispatch_queue_get_current(): a root queue -> attempt_running_slow_head; the target lane -> invoke_finish *)
          Some (goto (set_st s l (w_xor (st s l))) (match target F l with None => PW_tail owned | Some _ => PW_finish owned end))
      | PW_finish owned =>
          match w_finish owned (st s l) with
          | Commit new _ =>
              Some (if enq_flipped (u64 (st s l - owned)) new
                    then goto (set_st s l new) (PA_tpush (f_dq_state_max_qos new))
                    else leave (set_token (set_st s l new) l None))
          | _ => None
          end
      end
    end.

  Definition valid_tid (t : Z) : Prop := 0 < t < 1073741824.
  Inductive action := ABegin (t : Z) (c : call) | AStep (t : Z) (o : bool).
  Definition step (s : gst) (a : action) (s' : gst) : Prop :=
    match a with
    | ABegin t c => valid_tid t /\ begin s t c = Some s'
    | AStep t o => valid_tid t /\ gstep s t o = Some s'
    end.
  Definition reach : gst -> Prop := reachable (fun s => s = init_state) step.

  Fixpoint run (s : gst) (acts : list action) : option gst :=
    match acts with
    | [] => Some s
    | ABegin t c :: r => match begin s t c with Some s' => run s' r | None => None end
    | AStep t o :: r => match gstep s t o with Some s' => run s' r | None => None end
    end.
End Model.
