(* SLane.v — a serial lane (dq_width = 1, role BASE_ANON, targeting a root queue) under dispatch_async_f from any
   number of threads and drained by any number of root-queue workers:
     _dispatch_lane_push (src/queue.c:5027)  = MPSC push in two steps + wakeup(MAKE_DIRTY) when it made the list
                                               non-empty,
     _dispatch_queue_wakeup (:4826)          = the rmw loop that sets ENQUEUED / DIRTY, then push on the target,
     _dispatch_queue_class_invoke (inline_internal.h:1773) + _dispatch_lane_serial_drain (queue.c:3566)
                                             = drain_try_lock, pop/run items, drain_try_unlock, retry when DIRTY.
   Every dq_state transition is the body generated from the source (Gen_dqstate); an rmw loop is one atomic step
   (its successful compare-exchange; failed attempts and the initial load do not change shared state).
   The root queue is abstract: a counter of how many times the lane sits in it; any idle thread may act as a
   worker that pops it.  Not modelled here: suspension, dispatch_sync, reference counts.  A push onto a non-empty
   list may take the override continuation (`ostep`: wakeup without MAKE_DIRTY), found missing by the trace
   conformance of recorded runs (Model/SLaneT.v) and added. *)
From Coq Require Import ZArith Bool List.
From Verif Require Import Word Conc Gen_consts Gen_dqstate.
Import ListNotations.
Local Open Scope Z_scope.

Definition ENQUEUED := 2147483648.
Definition DIRTY := 549755813888.
Definition SERIAL_OWNED := 18014398509481984 + 2199023255552.     (* IN_BARRIER + one WIDTH_INTERVAL *)

Record entry := { e_id : Z; e_linked : bool }.

Inductive pc :=
| Idle
| PA_xchg (i : Z)                      (* dispatch_async_f: about to exchange dq_items_tail *)
| PA_link (i : Z) (was_empty : bool) (qos : Z)  (* about to publish the link (dq_items_head or prev->do_next) *)
| PA_probe (qos : Z)                   (* dx_wakeup -> _dispatch_lane_wakeup: _dispatch_queue_class_probe *)
| PA_wake (qos : Z) (target : bool)    (* _dispatch_queue_wakeup: the rmw loop (only when a target was chosen) *)
| PA_rootpush                          (* this wakeup set ENQUEUED: push the lane on its target *)
| PA_oprobe (qos : Z)                  (* push onto a non-empty list that decided to override: _dispatch_queue_class_probe *)
| PA_owake (qos : Z)                   (* ... _dispatch_queue_wakeup's rmw loop WITHOUT MAKE_DIRTY (flags = CONSUME_2) *)
| PW_lock (floor : Z)                  (* worker popped the lane: _dispatch_queue_drain_try_lock *)
| PW_tail (owned : Z)                  (* serial drain entry: if (!dq->dq_items_tail) return NULL *)
| PW_head (owned : Z)                  (* _dispatch_queue_get_head: waits for the enqueuer's link *)
| PW_pop (owned : Z)                   (* _dispatch_queue_pop_head *)
| PW_run (owned : Z) (i : Z) (more : bool)   (* _dispatch_continuation_pop_inline: client callout begins *)
| PW_incall (owned : Z) (i : Z) (more : bool)
| PW_next (owned : Z) (more : bool)    (* loop head: next_dc known, or re-read dq_items_tail *)
| PW_unlock (owned : Z)                (* _dispatch_queue_drain_try_unlock(owned, done = true) *)
| PW_xor (owned : Z).                  (* unlock refused: xor DIRTY (acquire), then drain again *)

Record gst := {
  st : Z;                      (* dq_state *)
  lst : list entry;            (* the MPSC list, in tail-exchange order *)
  rootq : Z;                   (* how many times the lane sits in its target queue *)
  pcs : Z -> pc;
  nextid : Z;                  (* ghost: ids of submitted items are 0 .. nextid-1, in tail-exchange order *)
  started : list Z;            (* ghost: items whose callout began, most recent first *)
  running : option (Z * Z);    (* ghost: (thread, item) inside a callout *)
  token : option (option Z);   (* ghost: who holds the lane's single "enqueued" token: None = nobody (ENQUEUED clear),
                                  Some None = it sits in the root queue, Some (Some t) = thread t (about to push it,
                                  just popped it, or draining) *)
  wakers : list Z              (* ghost: pushers that made the list non-empty and have not finished their wakeup *)
}.

Definition init_state (role_bits : Z) : gst :=
  {| st := Z.shiftl (4096 - 1) 41 + 68719476736 * role_bits; lst := []; rootq := 0; pcs := fun _ => Idle; nextid := 0;
     started := []; running := None; token := None; wakers := [] |}.

Definition set_pc (s : gst) (t : Z) (p : pc) : gst :=
  {| st := st s; lst := lst s; rootq := rootq s; pcs := upd (pcs s) t p; nextid := nextid s; started := started s;
     running := running s; token := token s; wakers := wakers s |}.
Definition set_st (s : gst) (v : Z) : gst :=
  {| st := v; lst := lst s; rootq := rootq s; pcs := pcs s; nextid := nextid s; started := started s; running := running s;
     token := token s; wakers := wakers s |}.
Definition set_lst (s : gst) (l : list entry) : gst :=
  {| st := st s; lst := l; rootq := rootq s; pcs := pcs s; nextid := nextid s; started := started s; running := running s;
     token := token s; wakers := wakers s |}.
Definition set_rootq (s : gst) (n : Z) : gst :=
  {| st := st s; lst := lst s; rootq := n; pcs := pcs s; nextid := nextid s; started := started s; running := running s;
     token := token s; wakers := wakers s |}.

Definition set_token (s : gst) (k : option (option Z)) : gst :=
  {| st := st s; lst := lst s; rootq := rootq s; pcs := pcs s; nextid := nextid s; started := started s; running := running s;
     token := k; wakers := wakers s |}.
Definition set_wakers (s : gst) (w : list Z) : gst :=
  {| st := st s; lst := lst s; rootq := rootq s; pcs := pcs s; nextid := nextid s; started := started s; running := running s;
     token := token s; wakers := w |}.
Fixpoint remove_z (t : Z) (l : list Z) : list Z :=
  match l with [] => [] | x :: l' => if x =? t then remove_z t l' else x :: remove_z t l' end.

Fixpoint link_id (l : list entry) (i : Z) : list entry :=
  match l with
  | [] => []
  | e :: l' => if e_id e =? i then {| e_id := i; e_linked := true |} :: l' else e :: link_id l' i
  end.

(* what a client may start on an idle thread *)
Inductive call := CAsync (qos : Z) | CWorker (floor : Z).

Definition begin (s : gst) (t : Z) (c : call) : option gst :=
  match pcs s t with
  | Idle =>
      match c with
      | CAsync qos => if (0 <=? qos) && (qos <? 8) then Some (set_pc s t (PA_xchg qos)) else None
      | CWorker floor =>
          (* a worker thread of the target root queue pops the lane *)
          if 0 <? rootq s then Some (set_token (set_pc (set_rootq s (rootq s - 1)) t (PW_lock floor)) (Some (Some t))) else None
      end
  | _ => None
  end.

(* one atomic step of thread t inside a call; None = not enabled (spinning / blocked) or no such step *)
Definition gstep (s : gst) (t : Z) : option gst :=
  match pcs s t with
  | Idle => None
  | PA_xchg qos =>
      (* os_mpsc_push_update_tail: xchg(dq_items_tail, item, release) *)
      let i := nextid s in
      let was_empty := match lst s with [] => true | _ => false end in
      Some {| st := st s; lst := lst s ++ [{| e_id := i; e_linked := false |}]; rootq := rootq s;
              pcs := upd (pcs s) t (PA_link i was_empty qos);
              nextid := i + 1; started := started s; running := running s; token := token s;
              wakers := if was_empty then t :: wakers s else wakers s |}
  | PA_link i was_empty qos =>
      (* os_mpsc_push_update_prev *)
      let s1 := set_lst s (link_id (lst s) i) in
      Some (set_pc s1 t (if was_empty then PA_probe qos else Idle))
  | PA_probe qos =>
      (* tail = load(dq_items_tail, seq_cst); target = tail ? TARGET : NONE; with NONE only the +2 is dropped *)
      Some (match lst s with
            | [] => set_wakers (set_pc s t Idle) (remove_z t (wakers s))
            | _ => set_pc s t (PA_wake qos true)
            end)
  | PA_wake qos _ =>
      match wakeup_loop 0 qos 3 1 (st s) ENQUEUED with
      | Commit new _ =>
          let enq_set := negb (Z.land (Z.lxor (st s) new) ENQUEUED =? 0) in
          let s1 := set_wakers (set_pc (set_st s new) t (if enq_set then PA_rootpush else Idle)) (remove_z t (wakers s)) in
          Some (if enq_set then set_token s1 (Some (Some t)) else s1)
      | _ => None
      end
  | PA_rootpush => Some (set_token (set_pc (set_rootq s (rootq s + 1)) t Idle) (Some None))
  | PA_oprobe qos => Some (match lst s with [] => set_pc s t Idle | _ => set_pc s t (PA_owake qos) end)
  | PA_owake qos =>
      (* no MAKE_DIRTY: merges the QoS, sets ENQUEUED when allowed, gives up when that changes nothing *)
      match wakeup_loop 0 qos 1 1 (st s) ENQUEUED with
      | Commit new _ =>
          let enq_set := negb (Z.land (Z.lxor (st s) new) ENQUEUED =? 0) in
          let s1 := set_pc (set_st s new) t (if enq_set then PA_rootpush else Idle) in
          Some (if enq_set then set_token s1 (Some (Some t)) else s1)
      | NoCommit _ _ => Some (set_pc s t Idle)
      | _ => None
      end
  | PW_lock floor =>
      match f_dispatch_queue_drain_try_lock 0 0 1 t floor (st s) 0 with
      | Commit new owned =>
          Some (if owned =? 0 then set_token (set_pc (set_st s new) t Idle) None
                else set_pc (set_st s new) t (PW_tail owned))
      | Restart _ => Some (set_pc s t (PW_lock (f_dq_state_max_qos (st s))))
      | _ => None
      end
  | PW_tail owned => Some (set_pc s t (match lst s with [] => PW_unlock (Z.lor (Z.land owned ENQUEUED) SERIAL_OWNED) | _ => PW_head owned end))
  | PW_head owned =>
      match lst s with
      | e :: _ => if e_linked e then Some (set_pc s t (PW_pop owned)) else None      (* _dispatch_wait_for_enqueuer *)
      | [] => None
      end
  | PW_pop owned =>
      match lst s with
      | [e] => Some (set_pc (set_lst s []) t (PW_run owned (e_id e) false))           (* cmpxchg(tail, head, NULL) succeeded *)
      | e :: e2 :: l' => if e_linked e2 then Some (set_pc (set_lst s (e2 :: l')) t (PW_run owned (e_id e) true)) else None
      | [] => None
      end
  | PW_run owned i more =>
      Some {| st := st s; lst := lst s; rootq := rootq s; pcs := upd (pcs s) t (PW_incall owned i more); nextid := nextid s;
              started := i :: started s; running := Some (t, i); token := token s; wakers := wakers s |}
  | PW_incall owned i more =>
      Some {| st := st s; lst := lst s; rootq := rootq s; pcs := upd (pcs s) t (PW_next owned more); nextid := nextid s;
              started := started s; running := None; token := token s; wakers := wakers s |}
  | PW_next owned more =>
      if more then Some (set_pc s t (PW_pop owned))
      else Some (set_pc s t (match lst s with [] => PW_unlock (Z.lor (Z.land owned ENQUEUED) SERIAL_OWNED) | _ => PW_head owned end))
  | PW_unlock owned =>
      match f_dispatch_queue_drain_try_unlock 0 owned 1 (st s) with
      | Commit new _ => Some (set_token (set_pc (set_st s new) t Idle) None)
      | NoCommit _ _ => Some (set_pc s t (PW_xor owned))
      | _ => None
      end
  | PW_xor owned => Some (set_pc (set_st s (Z.lxor (st s) DIRTY)) t (PW_tail owned))
  end.

(* the other continuation of a push onto a non-empty list (queue.c:5077 `else if (_dispatch_queue_need_override(dq, qos))`):
   the decision is taken on a plain, possibly stale read of the queue's max QoS, so the model allows it whenever the
   normal continuation is allowed: publish the link, then go and wake the queue with flags = CONSUME_2 only *)
Definition ostep (s : gst) (t : Z) : option gst :=
  match pcs s t with
  | PA_link i false qos => Some (set_pc (set_lst s (link_id (lst s) i)) t (PA_oprobe qos))
  | _ => None
  end.

Definition valid_tid (t : Z) : Prop := 0 < t < 1073741824.
Inductive action := ABegin (t : Z) (c : call) | AStep (t : Z) | AStepO (t : Z).
Definition step (s : gst) (a : action) (s' : gst) : Prop :=
  match a with
  | ABegin t c => valid_tid t /\ begin s t c = Some s'
  | AStep t => valid_tid t /\ gstep s t = Some s'
  | AStepO t => valid_tid t /\ ostep s t = Some s'
  end.
Definition reach (role_bits : Z) : gst -> Prop := reachable (fun s => s = init_state role_bits) step.

Fixpoint run (s : gst) (acts : list action) : option gst :=
  match acts with
  | [] => Some s
  | ABegin t c :: r => match begin s t c with Some s' => run s' r | None => None end
  | AStep t :: r => match gstep s t with Some s' => run s' r | None => None end
  | AStepO t :: r => match ostep s t with Some s' => run s' r | None => None end
  end.
