(* SrcLane.v — a custom data source (DISPATCH_SOURCE_TYPE_DATA_ADD / _OR / _REPLACE) AS THE LANE IT IS: the model of
   Model/SrcData.v with the ghost drain-lock owner and the merged "enqueued-or-dirty" bit replaced by the source's REAL
   dq_state word, moved only by the bodies generated from the source (Gen_dqstate), exactly as Model/SLane.v does for a
   serial lane (an rmw loop is one atomic step: its successful compare-exchange):
     dispatch_source_merge_data (source.c:199)   flag test, add / or / store on ds_pending_data, then
       dx_wakeup(ds, 0, MAKE_DIRTY) = _dispatch_source_wakeup (:909: flag test, ds_pending_data test) +
       _dispatch_queue_wakeup's loop (queue.c:4860, wakeup_loop with flags = MAKE_DIRTY|CONSUME_2) + push on the target;
     _dispatch_source_invoke (:890) = _dispatch_queue_class_invoke (inline_internal.h:1773):
       _dispatch_queue_drain_try_lock, _dispatch_source_invoke2's data clause (:763 suspended test, :792 flag test,
       :794 ds_pending_data test, _dispatch_source_latch_and_call :528, :814 re-test when avoid_starvation),
       _dispatch_queue_drain_try_unlock with the DIRTY retry (xor, then invoke2 again on a root queue, re-enqueue
       through _dispatch_queue_invoke_finish on a lane target), _dispatch_queue_invoke_finish (queue.c:3723);
     dispatch_suspend = _dispatch_lane_suspend's loop (queue.c:2951); dispatch_resume = _dispatch_lane_resume's loop
       with is_source = 1 (:3075: a source never takes the lock hand-off) followed, when the source became runnable, by
       dx_wakeup(ds, max_qos, CONSUME_2): _dispatch_source_wakeup + _dispatch_queue_wakeup's loop WITHOUT MAKE_DIRTY;
     dispatch_source_cancel (:981): sets DSF_CANCELED, then dx_wakeup(MAKE_DIRTY);
     any other wakeup of the source with MAKE_DIRTY and a target (the other clauses of _dispatch_source_wakeup) may
       happen at any time (call CWake).
   The target queue is abstract, as in SLane: a counter of how many times the source sits in it; any idle thread may
   act as the worker that pops it (call CWorker).  "The target queue invokes what sits in it" is the boundary (C01 for
   the target).
   cfg: kind; troot = the thread that drains the source runs a ROOT queue (after a refused unlock it re-runs invoke2
   under the lock, inline_internal.h:1846) or a lane (it re-enqueues through invoke_finish); starve = avoid_starvation
   (source.c:810: false only for an overcommit root target).
   Activation and installation are modelled: a source is created inactive ({INACTIVE, NEEDS_ACTIVATION}); dispatch_activate
   = _dispatch_lane_resume(ds, true)'s loop (queue.c:3053), _dispatch_lane_resume_activate (role inheritance loop :2431),
   then the ordinary resume; dispatch_resume on an inactive source activates it (the is_source clause of the resume loop);
   until the first invoke has installed the source (ds_is_installed, source.c:751) every wakeup chooses a target without
   looking at ds_pending_data (:926).
   Not modelled (a thread that gets there goes to POut and stays): the side suspend counter (more than 62 nested
   suspensions), over-resume and the "invalid suspension state" crash of dispatch_activate; the life cycle after
   cancellation (C16); reference counts; QoS overrides beyond the max-qos merge. *)
From Coq Require Import ZArith Bool List.
From Verif Require Import Word Conc Gen_consts Gen_dqstate.
From Verif Require SLane SrcData.
Import ListNotations.
Local Open Scope Z_scope.

Definition ENQUEUED := 2147483648.
Definition DIRTY := 549755813888.
Definition SERIAL_OWNED := 18014398509481984 + 2199023255552.     (* IN_BARRIER + one WIDTH_INTERVAL *)
Notation dkind := SrcData.dkind.
Notation remove_z := SLane.remove_z.

Record cfg := mkCfg { ck : dkind; troot : bool; starve : bool; canon : bool; early : bool }.
(* canon: the role the source inherits at activation (_dispatch_lane_inherit_wlh_from_target): BASE_ANON when it targets a
   root queue, INNER otherwise;
   early: _dispatch_source_activate can compute the priority and installs the source itself (source.c:674; a root target),
   otherwise the first invoke installs it *)
Definition role_bits (c : cfg) : Z := if canon c then 1 else 0.

Inductive pc :=
| Idle
| POut                                 (* left the modelled fragment (side suspend counter, over-resume) *)
(* dispatch_source_merge_data(ds, v); q = _dispatch_queue_wakeup_qos(ds, 0) *)
| PM_flags (v q : Z)                   (* source.c:202 load of dq_atomic_flags *)
| PM_op (v q : Z)                      (* :211/:214/:217 the atomic operation on ds_pending_data *)
| PS_flags (q : Z)                     (* _dispatch_source_wakeup: :919 load of dq_atomic_flags *)
| PS_pend (q : Z)                      (* :941 load of ds_pending_data *)
| PS_wake (q : Z)                      (* _dispatch_queue_wakeup's loop with MAKE_DIRTY, target chosen *)
| PS_rootpush                          (* this thread set ENQUEUED: _dispatch_queue_push_queue on the target *)
(* dispatch_source_cancel *)
| PC_set (q : Z)                       (* :991 or of DSF_CANCELED into dq_atomic_flags *)
(* dispatch_suspend / dispatch_resume *)
| PU_rmw                               (* _dispatch_lane_suspend's loop *)
| PR_rmw (q : Z)                       (* _dispatch_lane_resume's loop (is_source) *)
| PR_flags (q : Z)                     (* the resume made the source runnable: dx_wakeup(CONSUME_2): flags *)
| PR_pend (q : Z)                      (* ... ds_pending_data *)
| PR_wake (q : Z)                      (* ... _dispatch_queue_wakeup's loop without MAKE_DIRTY *)
(* dispatch_activate *)
| PA_rmw (q : Z)                       (* _dispatch_lane_resume(ds, true)'s loop *)
| PA_role (q : Z)                      (* _dispatch_lane_resume_activate: dq_activate -> _dispatch_lane_activate: role inheritance loop *)
| PA_inst (q : Z)                      (* _dispatch_source_activate: install now when the priority is known (source.c:674), then resume *)
(* a worker of the target queue: _dispatch_source_invoke *)
| PW_lock (floor : Z)                  (* _dispatch_queue_drain_try_lock *)
| PW_inst (owned : Z)                  (* invoke2: if (!ds->ds_is_installed) _dispatch_source_install (source.c:751) *)
| PW_susp (owned : Z)                  (* invoke2: DISPATCH_QUEUE_IS_SUSPENDED(ds) (source.c:763) *)
| PW_flags (owned : Z)                 (* :792 load of dq_atomic_flags *)
| PW_pend (owned : Z)                  (* :794 load of ds_pending_data *)
| PW_latch (owned : Z)                 (* latch_and_call: xchg(ds_pending_data, 0) (:534) *)
| PW_call (owned : Z) (prev : Z)       (* handler callout begins with ds_data = prev *)
| PW_incall (owned : Z)
| PW_post (owned : Z)                  (* :800 flags again; avoid_starvation *)
| PW_post2 (owned : Z)                 (* :814 re-test of ds_pending_data *)
| PW_unlock (owned : Z)                (* _dispatch_queue_drain_try_unlock(owned, done = true) *)
| PW_xor (owned : Z)                   (* refused: xor DIRTY (acquire) *)
| PW_fin (owned : Z).                  (* _dispatch_queue_invoke_finish's loop *)

Record gst := {
  st : Z;                      (* dq_state of the source *)
  pend : Z;                    (* ds_pending_data *)
  cancelled : bool;            (* DSF_CANCELED in dq_atomic_flags *)
  installed : bool;            (* ds_is_installed *)
  rootq : Z;                   (* how many times the source sits in its target queue *)
  pcs : Z -> pc;
  token : option (option Z);   (* ghost: holder of the source's "enqueued" token, as in SLane *)
  wakers : list Z;             (* ghost: threads that owe a wakeup WITH MAKE_DIRTY (mergers after their operation, cancel, CWake) *)
  rwakers : list Z;            (* ghost: resumers that owe the wakeup without MAKE_DIRTY *)
  latched : Z;                 (* ghost: value taken by the exchange whose handler call has not begun (0: none) *)
  running : option Z;          (* ghost: thread inside the handler *)
  merged : list Z;             (* ghost: values applied to ds_pending_data, latest first *)
  dropped : list Z;            (* ghost: values refused at source.c:205 *)
  delivered : list Z           (* ghost: ds_data of the handler invocations, latest first *)
}.

(* the activated, installed source at rest; role_bits: DISPATCH_QUEUE_ROLE_* (0 inner, 1 base anon) *)
Definition init_state (role_bits : Z) : gst :=
  {| st := Z.shiftl (4096 - 1) 41 + 68719476736 * role_bits; pend := 0; cancelled := false; installed := true; rootq := 0;
     pcs := fun _ => Idle;
     token := None; wakers := []; rwakers := []; latched := 0; running := None; merged := []; dropped := []; delivered := [] |}.

(* a source as dispatch_source_create leaves it: inactive, needs activation, not installed, no role yet *)
Definition init_inactive : gst :=
  {| st := Z.shiftl (4096 - 1) 41 + 36028797018963968 * 3; pend := 0; cancelled := false; installed := false; rootq := 0;
     pcs := fun _ => Idle; token := None; wakers := []; rwakers := []; latched := 0; running := None; merged := []; dropped := [];
     delivered := [] |}.

Definition set_pc (s : gst) (t : Z) (p : pc) : gst :=
  {| st := st s; pend := pend s; cancelled := cancelled s; installed := installed s; rootq := rootq s; pcs := upd (pcs s) t p; token := token s;
     wakers := wakers s; rwakers := rwakers s; latched := latched s; running := running s; merged := merged s;
     dropped := dropped s; delivered := delivered s |}.
Definition set_st (s : gst) (v : Z) : gst :=
  {| st := v; pend := pend s; cancelled := cancelled s; installed := installed s; rootq := rootq s; pcs := pcs s; token := token s;
     wakers := wakers s; rwakers := rwakers s; latched := latched s; running := running s; merged := merged s;
     dropped := dropped s; delivered := delivered s |}.
Definition set_rootq (s : gst) (n : Z) : gst :=
  {| st := st s; pend := pend s; cancelled := cancelled s; installed := installed s; rootq := n; pcs := pcs s; token := token s;
     wakers := wakers s; rwakers := rwakers s; latched := latched s; running := running s; merged := merged s;
     dropped := dropped s; delivered := delivered s |}.
Definition set_token (s : gst) (k : option (option Z)) : gst :=
  {| st := st s; pend := pend s; cancelled := cancelled s; installed := installed s; rootq := rootq s; pcs := pcs s; token := k;
     wakers := wakers s; rwakers := rwakers s; latched := latched s; running := running s; merged := merged s;
     dropped := dropped s; delivered := delivered s |}.
Definition set_wakers (s : gst) (w : list Z) : gst :=
  {| st := st s; pend := pend s; cancelled := cancelled s; installed := installed s; rootq := rootq s; pcs := pcs s; token := token s;
     wakers := w; rwakers := rwakers s; latched := latched s; running := running s; merged := merged s;
     dropped := dropped s; delivered := delivered s |}.
Definition set_rwakers (s : gst) (w : list Z) : gst :=
  {| st := st s; pend := pend s; cancelled := cancelled s; installed := installed s; rootq := rootq s; pcs := pcs s; token := token s;
     wakers := wakers s; rwakers := w; latched := latched s; running := running s; merged := merged s;
     dropped := dropped s; delivered := delivered s |}.

Definition set_installed (s : gst) (b : bool) : gst :=
  {| st := st s; pend := pend s; cancelled := cancelled s; installed := b; rootq := rootq s; pcs := pcs s; token := token s;
     wakers := wakers s; rwakers := rwakers s; latched := latched s; running := running s; merged := merged s;
     dropped := dropped s; delivered := delivered s |}.

Definition suspended_word (w : Z) : bool := nz (f_dq_state_is_suspended w).
Definition qos_ok (q : Z) : bool := (0 <=? q) && (q <? 8).

(* what a client (or the target queue) may start on an idle thread *)
Inductive call :=
| CMerge (v q : Z)          (* dispatch_source_merge_data(ds, v); q: the source's wakeup qos *)
| CWorker (floor : Z)       (* a worker of the target queue pops the source *)
| CSuspend | CResume (q : Z) | CActivate (q : Z)
| CCancel (q : Z)
| CWake (q : Z).            (* any other wakeup with MAKE_DIRTY and a target *)

Definition begin (s : gst) (t : Z) (c : call) : option gst :=
  match pcs s t with
  | Idle =>
      match c with
      | CMerge v q => if qos_ok q then Some (set_pc s t (PM_flags (u64 v) q)) else None
      | CWorker floor =>
          if 0 <? rootq s then Some (set_token (set_pc (set_rootq s (rootq s - 1)) t (PW_lock floor)) (Some (Some t))) else None
      | CSuspend => Some (set_pc s t PU_rmw)
      | CResume q => if qos_ok q then Some (set_pc s t (PR_rmw q)) else None
      | CActivate q => if qos_ok q then Some (set_pc s t (PA_rmw q)) else None
      | CCancel q => if qos_ok q then Some (set_pc s t (PC_set q)) else None
      | CWake q => if qos_ok q then Some (set_wakers (set_pc s t (PS_wake q)) (t :: wakers s)) else None
      end
  | _ => None
  end.

(* source.c:534-562 for dst_action = PASS_DATA (the same case split as SrcData.latch_next) *)
Definition latch_next (k : dkind) (owned prev : Z) : pc :=
  if (prev =? 0) && SrcData.is_replace k then PW_post owned
  else if prev =? 0 then PW_post owned
  else PW_call owned prev.

Definition owned_unlock (owned : Z) : Z := Z.lor (Z.land owned ENQUEUED) SERIAL_OWNED.

Definition gstep (c : cfg) (s : gst) (t : Z) : option gst :=
  match pcs s t with
  | Idle => None
  | POut => None
  (* ---------------- merge_data *)
  | PM_flags v q =>
      Some (if cancelled s
            then {| st := st s; pend := pend s; cancelled := cancelled s; installed := installed s; rootq := rootq s; pcs := upd (pcs s) t Idle;
                    token := token s; wakers := wakers s; rwakers := rwakers s; latched := latched s; running := running s;
                    merged := merged s; dropped := v :: dropped s; delivered := delivered s |}
            else set_pc s t (PM_op v q))
  | PM_op v q =>
      Some {| st := st s; pend := SrcData.apply_merge (ck c) (pend s) v; cancelled := cancelled s; installed := installed s; rootq := rootq s;
              pcs := upd (pcs s) t (PS_flags q); token := token s; wakers := t :: wakers s; rwakers := rwakers s;
              latched := latched s; running := running s; merged := v :: merged s; dropped := dropped s;
              delivered := delivered s |}
  | PS_flags q =>
      (* a cancelled source is woken by the cancellation clauses of _dispatch_source_wakeup (see CWake), not by this one *)
      Some (if negb (installed s) then set_pc s t (PS_wake q)                       (* :926 tq = dkq, whatever is pending *)
            else if cancelled s then set_wakers (set_pc s t Idle) (remove_z t (wakers s)) else set_pc s t (PS_pend q))
  | PS_pend q =>
      Some (if pend s =? 0 then set_wakers (set_pc s t Idle) (remove_z t (wakers s)) else set_pc s t (PS_wake q))
  | PS_wake q =>
      match wakeup_loop 0 q 3 1 (st s) ENQUEUED with
      | Commit new _ =>
          let enq_set := negb (Z.land (Z.lxor (st s) new) ENQUEUED =? 0) in
          let s1 := set_wakers (set_pc (set_st s new) t (if enq_set then PS_rootpush else Idle)) (remove_z t (wakers s)) in
          Some (if enq_set then set_token s1 (Some (Some t)) else s1)
      | _ => None
      end
  | PS_rootpush => Some (set_token (set_pc (set_rootq s (rootq s + 1)) t Idle) (Some None))
  (* ---------------- cancel *)
  | PC_set q =>
      Some {| st := st s; pend := pend s; cancelled := true; installed := installed s; rootq := rootq s; pcs := upd (pcs s) t (PS_wake q);
              token := token s; wakers := t :: wakers s; rwakers := rwakers s; latched := latched s; running := running s;
              merged := merged s; dropped := dropped s; delivered := delivered s |}
  (* ---------------- suspend / resume *)
  | PU_rmw =>
      match suspend_loop 0 (st s) with
      | Commit new _ => Some (set_pc (set_st s new) t Idle)
      | _ => Some (set_pc s t POut)                       (* _dispatch_lane_suspend_slow: side counter *)
      end
  | PR_rmw q =>
      match resume_loop 0 0 (st s) 1 0 0 with
      | Commit new _ =>
          let s1 := set_st s new in
          (* :3126 NEEDS_ACTIVATION cleared -> _dispatch_lane_resume_activate *)
          if nz (Z.land (Z.lxor (st s) new) 36028797018963968) then Some (set_pc s1 t (PA_role q))
          else if suspended_word new then Some (set_pc s1 t Idle)
          (* :3152 IN_BARRIER changed -> BARRIER_COMPLETE hand-off (never taken by a source) *)
          else if nz (Z.land (Z.lxor (st s) new) 18014398509481984) then Some (set_pc s1 t POut)
          else if negb (nz (f_dq_state_is_runnable new)) then Some (set_pc s1 t Idle)
               else Some (set_rwakers (set_pc s1 t (PR_flags q)) (t :: rwakers s))
      | _ => Some (set_pc s t POut)                       (* over-resume, or _dispatch_lane_resume_slow *)
      end
  | PR_flags q =>
      Some (if negb (installed s) then set_pc s t (PR_wake q)
            else if cancelled s then set_rwakers (set_pc s t Idle) (remove_z t (rwakers s)) else set_pc s t (PR_pend q))
  | PR_pend q =>
      Some (if pend s =? 0 then set_rwakers (set_pc s t Idle) (remove_z t (rwakers s)) else set_pc s t (PR_wake q))
  | PR_wake q =>
      match wakeup_loop 0 q 1 1 (st s) ENQUEUED with
      | Commit new _ =>
          let enq_set := negb (Z.land (Z.lxor (st s) new) ENQUEUED =? 0) in
          let s1 := set_rwakers (set_pc (set_st s new) t (if enq_set then PS_rootpush else Idle)) (remove_z t (rwakers s)) in
          Some (if enq_set then set_token s1 (Some (Some t)) else s1)
      | NoCommit _ _ => Some (set_rwakers (set_pc s t Idle) (remove_z t (rwakers s)))
      | _ => None
      end
  (* ---------------- activation *)
  | PA_rmw q =>
      match resume_activate_loop 0 1 (st s) with
      | Commit new _ =>
          let s1 := set_st s new in
          if nz (Z.land (Z.lxor (st s) new) 36028797018963968) then Some (set_pc s1 t (PA_role q))
          else if suspended_word new then Some (set_pc s1 t Idle)
          else Some (set_pc s1 t POut)                       (* DISPATCH_CLIENT_CRASH "Invalid suspension state" *)
      | NoCommit _ _ => Some (set_pc s t Idle)                (* already active *)
      | _ => None
      end
  | PA_role q =>
      match inherit_wlh_loop 0 0 (st s) (68719476736 * role_bits c) with
      | Commit new _ => Some (set_pc (set_st s new) t (PA_inst q))
      | NoCommit _ _ => Some (set_pc s t (PA_inst q))
      | _ => None
      end
  | PA_inst q => Some (set_pc (set_installed s (installed s || early c)) t (PR_rmw q))
  (* ---------------- the drain *)
  | PW_lock floor =>
      match f_dispatch_queue_drain_try_lock 0 0 1 t floor (st s) 0 with
      | Commit new owned =>
          Some (if owned =? 0 then set_token (set_pc (set_st s new) t Idle) None
                else set_pc (set_st s new) t (PW_inst owned))
      | Restart _ => Some (set_pc s t (PW_lock (f_dq_state_max_qos (st s))))
      | _ => None
      end
  | PW_inst owned => Some (set_pc (set_installed s true) t (PW_susp owned))
  | PW_susp owned => Some (set_pc s t (if suspended_word (st s) then PW_fin (owned_unlock owned) else PW_flags owned))
  | PW_flags owned => Some (set_pc s t (if cancelled s then PW_unlock (owned_unlock owned) else PW_pend owned))
  | PW_pend owned => Some (set_pc s t (if pend s =? 0 then PW_unlock (owned_unlock owned) else PW_latch owned))
  | PW_latch owned =>
      let prev := pend s in
      let p' := latch_next (ck c) owned prev in
      Some {| st := st s; pend := 0; cancelled := cancelled s; installed := installed s; rootq := rootq s; pcs := upd (pcs s) t p'; token := token s;
              wakers := wakers s; rwakers := rwakers s; latched := (match p' with PW_call _ x => x | _ => 0 end);
              running := running s; merged := merged s; dropped := dropped s; delivered := delivered s |}
  | PW_call owned prev =>
      Some {| st := st s; pend := pend s; cancelled := cancelled s; installed := installed s; rootq := rootq s; pcs := upd (pcs s) t (PW_incall owned);
              token := token s; wakers := wakers s; rwakers := rwakers s; latched := 0; running := Some t; merged := merged s;
              dropped := dropped s; delivered := prev :: delivered s |}
  | PW_incall owned =>
      Some {| st := st s; pend := pend s; cancelled := cancelled s; installed := installed s; rootq := rootq s; pcs := upd (pcs s) t (PW_post owned);
              token := token s; wakers := wakers s; rwakers := rwakers s; latched := latched s; running := None;
              merged := merged s; dropped := dropped s; delivered := delivered s |}
  | PW_post owned =>
      Some (set_pc s t (if cancelled s || negb (starve c) then PW_unlock (owned_unlock owned) else PW_post2 owned))
  | PW_post2 owned => Some (set_pc s t (if pend s =? 0 then PW_unlock (owned_unlock owned) else PW_fin (owned_unlock owned)))
  | PW_unlock owned =>
      match f_dispatch_queue_drain_try_unlock 0 owned 1 (st s) with
      | Commit new _ => Some (set_token (set_pc (set_st s new) t Idle) None)
      | NoCommit _ _ => Some (set_pc s t (PW_xor owned))
      | _ => None
      end
  | PW_xor owned =>
      Some (set_pc (set_st s (Z.lxor (st s) DIRTY)) t (if troot c then PW_susp owned else PW_fin owned))
  | PW_fin owned =>
      match invoke_finish_loop 0 0 1 owned (st s) ENQUEUED with
      | Commit new _ =>
          (* old_state -= owned; if ((old_state ^ new_state) & enqueued) push on tq, else release *)
          let enq_set := nz (Z.land (Z.lxor (u64 (st s - owned)) new) ENQUEUED) in
          Some (if enq_set then set_pc (set_st s new) t PS_rootpush else set_token (set_pc (set_st s new) t Idle) None)
      | _ => None
      end
  end.

Definition valid_tid (t : Z) : Prop := 0 < t < 1073741824.
Inductive action := ABegin (t : Z) (c : call) | AStep (t : Z).
Definition step (c : cfg) (s : gst) (a : action) (s' : gst) : Prop :=
  match a with
  | ABegin t k => valid_tid t /\ begin s t k = Some s'
  | AStep t => valid_tid t /\ gstep c s t = Some s'
  end.
(* start: the source as created (inactive), or already activated and installed with the given role *)
Definition reach (c : cfg) (role_bits : Z) : gst -> Prop :=
  reachable (fun s => s = init_state role_bits \/ s = init_inactive) (step c).

Fixpoint run (c : cfg) (s : gst) (acts : list action) : option gst :=
  match acts with
  | [] => Some s
  | ABegin t k :: r => match begin s t k with Some s' => run c s' r | None => None end
  | AStep t :: r => match gstep c s t with Some s' => run c s' r | None => None end
  end.

Definition quiescent (s : gst) : Prop := forall t, pcs s t = Idle.
