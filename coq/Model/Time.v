(* Time.v — hand-written SPECIFICATION of the dispatch_time_t encoding (not a
   model of the code: the code is Gen_time.v, generated).  ~40 lines, meant to
   be read against dispatch/time.h and the comment at src/shims/time.h:240. *)
From Coq Require Import ZArith Bool.
Local Open Scope Z_scope.

Inductive clock := Up | Mono | Wall.
Inductive dtime := Forever | At (c : clock) (v : Z).

Definition MAXV : Z := 4611686018427387903.          (* 2^62 - 1: first unrepresentable value *)
Definition FOREVER : Z := 18446744073709551615.      (* ~0 *)
Definition WALLNOW : Z := 18446744073709551614.      (* ~1 *)

Record clocks := { now_up : Z; now_mono : Z; now_wall : Z }.
Definition now (k : clocks) (c : clock) : Z :=
  match c with Up => now_up k | Mono => now_mono k | Wall => now_wall k end.
(* any real clock reading for the next 146 years *)
Definition clocks_ok (k : clocks) : Prop :=
  1 <= now_up k < MAXV /\ 1 <= now_mono k < MAXV /\ 3 <= now_wall k < MAXV.

(* what a 64-bit dispatch_time_t denotes *)
Definition decode (k : clocks) (t : Z) : dtime :=
  if t =? FOREVER then Forever
  else if t <? 9223372036854775808 then                (* top bit clear: uptime *)
    (if t =? 0 then At Up (now_up k) else if t <=? MAXV then At Up t else Forever)
  else if t <? 13835058055282163712 then               (* 10: monotonic *)
    (if t =? 9223372036854775808 then At Mono (now_mono k) else At Mono (t - 9223372036854775808))
  else                                                 (* 11: wall clock, negated *)
    (if t =? WALLNOW then At Wall (now_wall k)
     else if 18446744073709551616 - t <=? MAXV then At Wall (18446744073709551616 - t) else Forever).

(* smallest value the encoding of a clock can carry *)
Definition lo (c : clock) : Z := match c with Wall => 3 | _ => 1 end.
(* the already-elapsed time the API returns when the sum precedes the representable past *)
Definition past (k : clocks) (c : clock) : Z := match c with Wall => now_wall k | _ => 1 end.

(* the specification of base + delta *)
Definition shifted (k : clocks) (c : clock) (b delta : Z) : dtime :=
  let s := b + delta in
  if s >=? MAXV then Forever else if s <? lo c then At c (past k c) else At c s.

(* "a is not later than b": times are compared by the instant at which a wait until them ends, i.e. an
   already-elapsed time counts as `now` (the property lets an underflowing shift return any elapsed time of
   the clock, so two elapsed times are indistinguishable) *)
Definition time_le (k : clocks) (a b : dtime) : Prop :=
  match a, b with
  | _, Forever => True
  | Forever, At _ _ => False
  | At c v, At c' v' => c = c' /\ Z.max v (now k c) <= Z.max v' (now k c)
  end.

Definition same_clock_or_forever (c : clock) (d : dtime) : Prop :=
  match d with Forever => True | At c' _ => c' = c end.

Definition elapsed (k : clocks) (d : dtime) : Prop :=
  match d with Forever => False | At c v => v <= now k c end.

(* dispatch_walltime: what the timespec (or NULL = now) denotes as a base, as exact integers.  A timespec
   whose nanosecond count does not fit 64 signed bits (stepwise: tv_sec*10^9, then + tv_nsec) is itself
   outside every representable time: the far future (FOREVER) or the far past (an elapsed wall time),
   like the out-of-range bases of dispatch_time. *)
Definition fits64 (x : Z) : bool := (-9223372036854775808 <=? x) && (x <? 9223372036854775808).
Definition walltime_spec (k : clocks) (ts : option (Z * Z)) (delta : Z) : dtime :=
  match ts with
  | None => shifted k Wall (now_wall k) delta
  | Some (sec, nsec) =>
      if fits64 (sec * 1000000000) && fits64 (sec * 1000000000 + nsec)
      then shifted k Wall (sec * 1000000000 + nsec) delta
      else if sec <? 0 then At Wall (now_wall k) else Forever
  end.
