(* SLaneT.v — per-thread OBSERVATION automaton of the serial-lane protocol of Model/SLane.v.
   `tstep c p e` accepts exactly the sequences of atomic operations on ONE lane's words that one thread may perform in
   a dispatch_async_f call onto the lane and in a drain of the lane, as the DISPATCH_VERIF hook reports them
   (src/shims/atomic.h): dq_state, dq_items_tail, dq_items_head, do_targetq of the lane, the do_next of the items and
   of the lane itself, and the tail exchange / link store of the push on the target root queue.
   It follows SLane's program points one to one (PA_* for the submitter incl. the need_override continuation PA_oprobe /
   PA_owake of a push onto a non-empty list, PW_* for the drainer) and ADDS everything SLane
   abstracts as "no shared effect": the initial relaxed load and the failed compare-exchanges of every
   os_atomic_rmw_loop, the spin of _dispatch_wait_for_enqueuer, the seq_cst load of dq_items_tail in
   _dispatch_queue_class_probe, the loads of _dispatch_queue_get_head / os_mpsc_get_next, the relaxed load of dq_state
   at the top of every iteration of _dispatch_lane_drain.
   Every successful (and every attempted) compare-exchange on dq_state must write the value computed by the SAME
   generated body SLane.gstep uses (Gen_dqstate: wakeup_loop, f_dispatch_queue_drain_try_lock,
   f_dispatch_queue_drain_try_unlock), applied to the value the thread observed.
   Kinds and memory orders are the hand-written expectations S_* below; Proofs/SLaneT_proofs.v proves them equal to
   the site lists src2v reads from the source (Gen_lanesites, Gen_dqstate), so a weakened order in the source breaks
   both that proof and the trace conformance.

   Events (Base/Conc.v) are normalised by lib/props/c01_slane.py: eobj = ADDRESS of the object that contains the word
   (the lane, an item, the target root queue), eoff = field number of Gen_fields (F_dq_state ...), esz = 8,
   DVU_CALL: ea = wakeup qos, eb = push qos; DVU_CALLOUT_BEGIN/END: ea = address of the item that runs.
   Not observed (plain, non-atomic accesses of the source): `dq->dq_items_tail` in _dispatch_lane_drain (queue.c:3588,
   3607), `dq->dq_state_bits` in _dispatch_queue_need_override (inline_internal.h:2267); the automaton is
   nondeterministic there (it accepts both continuations).  Not followed: reference counts, dq_atomic_flags. *)
From Coq Require Import ZArith Bool List.
From Verif Require Import Word Conc Gen_consts Gen_fields Gen_dqstate SLane.
Import ListNotations.
Local Open Scope Z_scope.

Definition smo (o : morder) : Z :=
  match o with Relaxed => MO_RELAXED | Consume => MO_CONSUME | Acquire => MO_ACQUIRE | Release => MO_RELEASE
             | AcqRel => MO_ACQ_REL | SeqCst => MO_SEQ_CST end.
Definition skind (k : akind) : Z :=
  match k with KLoad => DV_LOAD | KStore => DV_STORE | KXchg => DV_XCHG | KCas => DV_CAS | KCasWeak => DV_CASW
             | KAdd => DV_ADD | KSub => DV_SUB | KAnd => DV_AND | KOr => DV_OR | KXor => DV_XOR | KFence => DV_FENCE end.
Definition mks (k : akind) (f : nat) (o : morder) : site := {| s_kind := k; s_field := f; s_order := o |}.

(* ------------------------------------------------------------------ expected atomic sites, in program order *)
(* os_mpsc_push_item = _dispatch_queue_push_item (inline_internal.h:1539-1567), used by _dispatch_lane_push *)
Definition S_push_init := mks KStore F_do_next Relaxed.           (* tail->do_next = NULL *)
Definition S_push_xchg := mks KXchg F_dq_items_tail Release.      (* prev = xchg(dq_items_tail, tail) *)
Definition S_push_link_next := mks KStore F_do_next Relaxed.      (* prev->do_next = head *)
Definition S_push_link_head := mks KStore F_dq_items_head Relaxed. (* dq_items_head = head *)
Definition model_sites_push_item : list site := [S_push_init; S_push_xchg; S_push_link_next; S_push_link_head].
(* _dispatch_queue_class_probe (inline_internal.h:1886) *)
Definition S_probe := mks KLoad F_dq_items_tail SeqCst.
Definition model_sites_class_probe : list site := [S_probe].
(* _dispatch_queue_wakeup (queue.c:4885-4917): the rmw loop, then the dependency-ordered load of do_targetq *)
Definition S_wake_load := mks KLoad F_dq_state Relaxed.
Definition S_wake_cas := mks KCasWeak F_dq_state Release.
Definition S_wake_fence := mks KFence F_fence Acquire.            (* os_atomic_thread_fence(dependency): not reported by the hook *)
Definition S_wake_tq := mks KLoad F_do_targetq Relaxed.
Definition model_sites_wakeup_loop : list site := [S_wake_load; S_wake_cas].
Definition model_sites_wakeup_tail : list site := [S_wake_load; S_wake_cas; S_wake_fence; S_wake_tq].
(* _dispatch_root_queue_push_inline = os_mpsc_push_list on the root queue (inline_internal.h:1743) *)
Definition model_sites_root_push : list site := [S_push_init; S_push_xchg; S_push_link_next; S_push_link_head].
(* _dispatch_queue_drain_try_lock (inline_internal.h:1250) *)
Definition S_lock_load := mks KLoad F_dq_state Relaxed.
Definition S_lock_cas := mks KCasWeak F_dq_state Acquire.
Definition model_sites_try_lock : list site := [S_lock_load; S_lock_cas].
(* _dispatch_queue_get_head = os_mpsc_get_head (inline_internal.h:1576); _dispatch_wait_for_enqueuer (yield.c) *)
Definition S_get_head := mks KLoad F_dq_items_head Acquire.
Definition S_wait := mks KLoad F_ptr Relaxed.                     (* on the word it is given: dq_items_head or do_next *)
(* _dispatch_lane_drain, first_iteration (queue.c:3634) *)
Definition S_drain_state := mks KLoad F_dq_state Relaxed.
(* os_mpsc_pop_head = _dispatch_queue_pop_head (inline_internal.h:1596-1608) *)
Definition S_pop_next := mks KLoad F_do_next Acquire.
Definition S_pop_head := mks KStore F_dq_items_head Relaxed.
Definition S_pop_cas := mks KCas F_dq_items_tail Release.
Definition model_sites_pop_head : list site := [S_pop_next; S_pop_head; S_pop_cas; S_pop_next; S_pop_head].
Definition model_sites_drain_head : list site := [S_get_head; S_get_head; S_drain_state].
(* _dispatch_queue_drain_try_unlock (inline_internal.h:1496-1515) *)
Definition S_unlock_load := mks KLoad F_dq_state Relaxed.
Definition S_unlock_xor := mks KXor F_dq_state Acquire.
Definition S_unlock_cas := mks KCasWeak F_dq_state Release.
Definition model_sites_try_unlock : list site := [S_unlock_load; S_unlock_xor; S_unlock_cas].

(* ------------------------------------------------------------------ events against sites *)
Definition ev_site_f (e : event) (s : site) (obj : Z) (fld : nat) : bool :=
  (ek e =? skind (s_kind s)) && (eord e =? smo (s_order s)) && (eobj e =? obj) && (eoff e =? Z.of_nat fld) && (esz e =? 8).
Definition ev_site (e : event) (s : site) (obj : Z) : bool := ev_site_f e s obj (s_field s).

(* what the checker knows about the thread and the lane *)
Record cfg := { c_self : Z;     (* the thread's lock value: gettid & DLOCK_OWNER_MASK *)
                c_dq : Z;       (* address of the lane *)
                c_rq : Z;       (* address of its target root queue *)
                c_floor : Z     (* _dispatch_get_basepri_override_qos_floor() of a worker entering try_lock *) }.

Definition ENQUEUED_ON_MGR := 274877906944.
(* _dispatch_lane_drain at the end of the loop: *owned_ptr &= ENQUEUED | ENQUEUED_ON_MGR; *owned_ptr |= IN_BARRIER + width *)
Definition after_loop_owned (o : Z) : Z := Z.lor (Z.land o (ENQUEUED + ENQUEUED_ON_MGR)) SERIAL_OWNED.
Definition FL_CONSUME_2 := 1.
Definition FL_PUSH := 3.        (* DISPATCH_WAKEUP_CONSUME_2 | DISPATCH_WAKEUP_MAKE_DIRTY *)

Inductive tpc :=
| TIdle
  (* dispatch_async_f -> _dispatch_lane_push *)
| TA_init (q : Z)                    (* PA_xchg: item->do_next = NULL comes first *)
| TA_xchg (q item : Z)               (* PA_xchg: the tail exchange *)
| TA_link (q item prev : Z)          (* PA_link *)
| TA_linked (q : Z)                  (* PA_link false done: return (gstep), or PA_oprobe: dx_wakeup(CONSUME_2) if need_override (ostep) *)
| TA_probe (q fl : Z)                (* PA_probe (PA_oprobe is observed from TA_linked) *)
| TA_wake_load (q fl : Z)            (* PA_wake (fl = 3) / PA_owake (fl = 1): initial load of the rmw loop *)
| TA_wake_body (q fl old : Z)        (* PA_wake / PA_owake: one iteration on `old` *)
| TA_push_tq                         (* PA_rootpush: load do_targetq *)
| TA_push_init                       (* PA_rootpush: lane->do_next = NULL *)
| TA_push_xchg                       (* PA_rootpush: exchange of the root queue's tail *)
| TA_push_link (prev : Z)            (* PA_rootpush: link *)
| TA_ret
  (* _dispatch_lane_invoke *)
| TW_lock_body (floor old : Z)       (* PW_lock: one iteration of try_lock on `old` *)
| TW_tail (o : Z)                    (* PW_tail / PW_head: plain read of dq_items_tail on entry of the drain *)
| TW_again (o : Z)                   (* PW_next with next_dc = NULL: plain read of dq_items_tail *)
| TW_wait_head (o : Z)               (* PW_head: _dispatch_wait_for_enqueuer(&dq_items_head) *)
| TW_first (o h : Z)                 (* PW_pop: first_iteration, relaxed load of dq_state *)
| TW_pop (o h : Z)                   (* PW_pop: next = head->do_next *)
| TW_pop_store (o h n : Z)           (* PW_pop: dq_items_head = next *)
| TW_pop_cas (o h : Z)               (* PW_pop: cmpxchg(dq_items_tail, head, NULL) *)
| TW_pop_next (o h : Z)              (* PW_pop: the exchange failed: os_mpsc_get_next *)
| TW_pop_wait (o h : Z)              (* PW_pop: _dispatch_wait_for_enqueuer(&head->do_next) *)
| TW_pop_store2 (o h n : Z)
| TW_run (o h n : Z)                 (* PW_run *)
| TW_incall (o h n : Z)              (* PW_incall *)
| TW_unlock_body (o old : Z).        (* PW_unlock / PW_xor: one iteration of try_unlock on `old` *)

(* The DIRTY hand-shake, stated independently of the generated bodies (the bodies are regenerated from whatever the source says;
   these three rules are what SLane's invariant needs from them, so a source that drops one of them is rejected by the
   replay itself and not only by the proofs about the bodies):
     - the wakeup of a push that made the list non-empty (DISPATCH_WAKEUP_MAKE_DIRTY) writes a word with DIRTY set,
     - taking the drain lock writes a word with DIRTY clear,
     - the drain lock is given back only over a word that is not DIRTY (or is suspended). *)
Definition dirty_rule_wake (fl new : Z) : bool := (Z.land fl 2 =? 0) || nz (f_dq_state_is_dirty new).
Definition dirty_rule_lock (owned new : Z) : bool := (owned =? 0) || negb (nz (f_dq_state_is_dirty new)).
Definition dirty_rule_unlock (old : Z) : bool := negb (nz (f_dq_state_is_dirty old)) || nz (f_dq_state_is_suspended old).

Definition probe_step (c : cfg) (q fl : Z) (e : event) : option tpc :=
  if ev_site e S_probe (c_dq c) then Some (if ea e =? 0 then TA_ret else TA_wake_load q fl) else None.
Definition lock_entry (c : cfg) (floor : Z) (e : event) : option tpc :=
  if ev_site e S_lock_load (c_dq c) then Some (TW_lock_body floor (ea e)) else None.
Definition ret_step (e : event) : option tpc := if ev_kind e DVU_RET then Some TIdle else None.
(* the plain read of dq_items_tail: non-NULL -> _dispatch_queue_get_head, NULL -> _dispatch_queue_drain_try_unlock(o') *)
Definition tail_step (c : cfg) (o o' : Z) (e : event) : option tpc :=
  if ev_site e S_get_head (c_dq c) then Some (if ea e =? 0 then TW_wait_head o else TW_first o (ea e))
  else if ev_site e S_unlock_load (c_dq c) then Some (TW_unlock_body o' (ea e))
  else None.

Definition tstep (c : cfg) (p : tpc) (e : event) : option tpc :=
  let dq := c_dq c in
  match p with
  | TIdle =>
      if ev_kind e DVU_CALL
      then (if (0 <=? ea e) && (ea e <? 8) && (eb e =? 0) then Some (TA_init (ea e)) else None)
      else if ev_site e S_pop_next dq || ev_site_f e S_wait dq F_do_next
      then Some TIdle          (* a root-queue worker reading the lane's own do_next (os_mpsc_get_next in the root drain) *)
      else lock_entry c (c_floor c) e
  | TA_init q =>
      if ev_site e S_push_init (eobj e) && (eb e =? 0) && negb (eobj e =? 0) then Some (TA_xchg q (eobj e)) else None
  | TA_xchg q item =>
      if ev_site e S_push_xchg dq && (eb e =? item) then Some (TA_link q item (ea e)) else None
  | TA_link q item prev =>
      if prev =? 0
      then (if ev_site e S_push_link_head dq && (eb e =? item) then Some (TA_probe q FL_PUSH) else None)
      else (if ev_site e S_push_link_next prev && (eb e =? item) then Some (TA_linked q) else None)
  | TA_linked q =>
      if ev_kind e DVU_RET then Some TIdle else probe_step c q FL_CONSUME_2 e
  | TA_probe q fl => probe_step c q fl e
  | TA_wake_load q fl =>
      if ev_site e S_wake_load dq then Some (TA_wake_body q fl (ea e)) else None
  | TA_wake_body q fl old =>
      match wakeup_loop 0 q fl 1 old ENQUEUED with
      | Commit new _ =>
          if ev_site e S_wake_cas dq && (eb e =? new) && dirty_rule_wake fl new
          then (if eok e =? 1
                then (if ea e =? old
                      then Some (if negb (Z.land (Z.lxor old new) ENQUEUED =? 0) then TA_push_tq else TA_ret)
                      else None)
                else Some (TA_wake_body q fl (ea e)))
          else None
      | NoCommit _ _ => ret_step e            (* os_atomic_rmw_loop_give_up(goto done) *)
      | _ => None
      end
  | TA_push_tq => if ev_site e S_wake_tq dq && (ea e =? c_rq c) then Some TA_push_init else None
  | TA_push_init => if ev_site e S_push_init dq && (eb e =? 0) then Some TA_push_xchg else None
  | TA_push_xchg => if ev_site e S_push_xchg (c_rq c) && (eb e =? dq) then Some (TA_push_link (ea e)) else None
  | TA_push_link prev =>
      if prev =? 0
      then (if ev_site e S_push_link_head (c_rq c) && (eb e =? dq) then Some TA_ret else None)
      else (if ev_site e S_push_link_next prev && (eb e =? dq) then Some TA_ret else None)
  | TA_ret => ret_step e
  | TW_lock_body floor old =>
      match f_dispatch_queue_drain_try_lock 0 0 1 (c_self c) floor old 0 with
      | Restart _ => lock_entry c (f_dq_state_max_qos old) e      (* oq_floor = _dispatch_queue_override_self(old); goto retry *)
      | Commit new owned =>
          if ev_site e S_lock_cas dq && (eb e =? new) && dirty_rule_lock owned new
          then (if eok e =? 1
                then (if ea e =? old then Some (if owned =? 0 then TIdle else TW_tail owned) else None)
                else Some (TW_lock_body floor (ea e)))
          else None
      | _ => None
      end
  | TW_tail o => tail_step c o o e
  | TW_again o => tail_step c o (after_loop_owned o) e
  | TW_wait_head o =>
      if ev_site_f e S_wait dq F_dq_items_head then Some (if ea e =? 0 then TW_wait_head o else TW_first o (ea e)) else None
  | TW_first o h =>
      if ev_site e S_drain_state dq && negb (nz (f_dq_state_is_suspended (ea e))) then Some (TW_pop o h) else None
  | TW_pop o h => if ev_site e S_pop_next h then Some (TW_pop_store o h (ea e)) else None
  | TW_pop_store o h n =>
      if ev_site e S_pop_head dq && (eb e =? n) then Some (if n =? 0 then TW_pop_cas o h else TW_run o h n) else None
  | TW_pop_cas o h =>
      if ev_site e S_pop_cas dq && (eb e =? 0)
      then (if eok e =? 1 then (if ea e =? h then Some (TW_run o h 0) else None)
            else (if ea e =? h then None else Some (TW_pop_next o h)))
      else None
  | TW_pop_next o h =>
      if ev_site e S_pop_next h then Some (if ea e =? 0 then TW_pop_wait o h else TW_pop_store2 o h (ea e)) else None
  | TW_pop_wait o h =>
      if ev_site_f e S_wait h F_do_next then Some (if ea e =? 0 then TW_pop_wait o h else TW_pop_store2 o h (ea e)) else None
  | TW_pop_store2 o h n => if ev_site e S_pop_head dq && (eb e =? n) then Some (TW_run o h n) else None
  | TW_run o h n => if ev_kind e DVU_CALLOUT_BEGIN && (ea e =? h) then Some (TW_incall o h n) else None
  | TW_incall o h n =>
      if ev_kind e DVU_CALLOUT_END && (ea e =? h) then Some (if n =? 0 then TW_again o else TW_first o n) else None
  | TW_unlock_body o old =>
      match f_dispatch_queue_drain_try_unlock 0 o 1 old with
      | Commit new _ =>
          if ev_site e S_unlock_cas dq && (eb e =? new) && dirty_rule_unlock old
          then (if eok e =? 1 then (if ea e =? old then Some TIdle else None) else Some (TW_unlock_body o (ea e)))
          else None
      | NoCommit _ _ =>          (* DIRTY seen: os_atomic_xor2o(dq, dq_state, DISPATCH_QUEUE_DIRTY, acquire); drain again *)
          if ev_site e S_unlock_xor dq && (eb e =? DIRTY) then Some (TW_tail o) else None
      | _ => None
      end
  end.

(* ------------------------------------------------------------------ which branch a transition took (for the
   distribution the correspondence check reports) *)
Definition tag (p : tpc) (e : event) (p' : tpc) : Z :=
  match p, p' with
  | TA_xchg _ _, TA_link _ _ prev => if prev =? 0 then 1 else 2           (* was_empty true / false *)
  | TA_linked _, TIdle => 3                                                (* non-empty push, no wakeup *)
  | TA_linked _, _ => 4                                                    (* non-empty push, need_override wakeup *)
  | TA_probe _ _, TA_ret => 5                                              (* probe saw an empty list *)
  | TA_probe _ _, TA_wake_load _ _ => 6
  | TA_wake_body _ _ _, TA_wake_body _ _ _ => 7                            (* wakeup compare-exchange failed *)
  | TA_wake_body _ fl _, TA_push_tq => if fl =? FL_PUSH then 8 else 32     (* enq_set true (32: by a need_override wakeup) *)
  | TA_wake_body _ fl _, TA_ret => if fl =? FL_PUSH then 9 else 33         (* enq_set false *)
  | TA_wake_body _ _ _, TIdle => 10                                        (* wakeup gave up (nothing to change) *)
  | TA_push_link prev, _ => if prev =? 0 then 11 else 12                   (* root queue was empty / not *)
  | TIdle, TW_lock_body _ _ => 13                                          (* drain begins *)
  | TIdle, TIdle => 14                                                     (* root worker reading the lane's do_next *)
  | TW_lock_body _ _, TW_lock_body f _ => if ek e =? DV_LOAD then 15 else 16   (* lock Restart / lock cas failed *)
  | TW_lock_body _ _, TIdle => 17                                          (* lock refused: ENQUEUED given back *)
  | TW_lock_body _ _, TW_tail _ => 18
  | TW_tail _, TW_unlock_body _ _ => 19                                    (* list empty on entry of the drain *)
  | TW_tail _, TW_wait_head _ | TW_again _, TW_wait_head _ => 20           (* head not published yet *)
  | TW_wait_head _, TW_wait_head _ => 21                                   (* spin in _dispatch_wait_for_enqueuer (head) *)
  | TW_again _, TW_unlock_body _ _ => 22                                   (* list empty after the last item *)
  | TW_again _, TW_first _ _ => 23                                         (* new items after the last one: get_head again *)
  | TW_pop_store _ _ _, TW_run _ _ _ => 24                                 (* pop: more items linked *)
  | TW_pop_cas _ _, TW_run _ _ _ => 25                                     (* pop of the last item *)
  | TW_pop_cas _ _, TW_pop_next _ _ => 26                                  (* pop raced a push: tail moved *)
  | TW_pop_next _ _, TW_pop_wait _ _ => 27                                 (* the enqueuer lags: next not linked *)
  | TW_pop_wait _ _, TW_pop_wait _ _ => 28                                 (* spin in _dispatch_wait_for_enqueuer (next) *)
  | TW_unlock_body _ _, TIdle => 29                                        (* unlocked *)
  | TW_unlock_body _ _, TW_unlock_body _ _ => 30                           (* unlock compare-exchange failed *)
  | TW_unlock_body _ _, TW_tail _ => 31                                    (* unlock refused (DIRTY): xor, drain again *)
  | _, _ => 0
  end.
Definition NTAGS : nat := 34.

Fixpoint bump (l : list Z) (k : nat) : list Z :=
  match l, k with
  | x :: r, O => (x + 1) :: r
  | x :: r, S k' => x :: bump r k'
  | [], _ => []
  end.

(* run a recorded per-thread trace: (index of the first rejected event or -1, 1 if the thread ended outside any call,
   how often each branch was taken) *)
Fixpoint trun (c : cfg) (p : tpc) (tr : list event) (i : Z) (cnt : list Z) : tpc * Z * list Z :=
  match tr with
  | [] => (p, -1, cnt)
  | e :: r => match tstep c p e with
              | Some p' => trun c p' r (i + 1) (bump cnt (Z.to_nat (tag p e p')))
              | None => (p, i, cnt)
              end
  end.
Definition tpc_idle (p : tpc) : Z := match p with TIdle => 1 | _ => 0 end.
Definition conform (c : cfg) (tr : list event) : list Z :=
  let '(p, i, cnt) := trun c TIdle tr 0 (repeat 0 NTAGS) in i :: tpc_idle p :: cnt.

(* acceptance of a finite event sequence (used by the simulation lemma) *)
Fixpoint taccept (c : cfg) (p : tpc) (tr : list event) : option tpc :=
  match tr with
  | [] => Some p
  | e :: r => match tstep c p e with Some p' => taccept c p' r | None => None end
  end.

(* what a sequence of one thread's events does to the dq_state word: every event on it must have read the current
   value; a successful compare-exchange / the xor replace it *)
Fixpoint state_obs (c : cfg) (v : Z) (tr : list event) : option Z :=
  match tr with
  | [] => Some v
  | e :: r =>
      if (eobj e =? c_dq c) && (eoff e =? Z.of_nat F_dq_state) && (ek e <? 32)
      then (if ea e =? v
            then state_obs c (if ek e =? DV_CASW then (if eok e =? 1 then eb e else v)
                              else if ek e =? DV_XOR then Z.lxor v (eb e) else v) r
            else None)
      else state_obs c v r
  end.
