(* MainQT.v — per-thread OBSERVATION automaton of the main-queue protocol of Model/MainQ.v.
   `tstep c p e` accepts exactly the sequences of events one thread may perform on the words of &_dispatch_main_q and on
   the thread events of synchronous callers, as the DISPATCH_VERIF hook reports them, plus the marks of
   harness/c02_mainq.c.  It follows MainQ's program points (push, _dispatch_main_queue_wakeup / _dispatch_runloop_queue_wakeup /
   _dispatch_runloop_queue_poke, the synchronous caller, the bound thread's callback and drain, _dispatch_queue_cleanup2)
   and, for the ordinary-lane phase, the lane wakeup of a push and a worker's drain of the lane; it ADDS what the
   global model abstracts as "no shared effect" (initial loads and failed compare-exchanges of rmw loops, the spin of
   _dispatch_wait_for_enqueuer, plain reads the hook cannot see are nondeterministic choices).
   Every compare-exchange on dq_state must write the value computed by the generated body (Gen_dqstate) of that
   program point applied to the value the thread observed; the QoS argument is existential (0..7).
   Events are normalised by lib/props/c02_mainq.py: eobj = 0 for the queue's words with eoff = 0 dq_state, 8 dq_items_tail,
   16 dq_items_head, 24 dq_atomic_flags, 32 do_next, 40 do_targetq; eobj = lock value of a thread (> 0) for words on that
   thread's stack (esz 4: dte_value of its dispatch_sync_context_s; esz 8: the do_next of that context) and for futex
   calls; marks keep the harness code in eobj: CALL (1 sync, 2 barrier_sync, 3 async_and_wait, 6 barrier_async_and_wait,
   4 async, 5 barrier_async), RET, CALLOUT_BEGIN / END (eb = lock value of the waiter, 0 for asynchronous items),
   MARK 1 eventfd read, 2 callback returned, 3 dispatch_main(), 4 nested read, 5 eventfd_write, 6 callback without read. *)
From Coq Require Import ZArith Bool List.
From Verif Require Import Word Conc Gen_consts Gen_dqstate SLane MainQ.
Import ListNotations.
Local Open Scope Z_scope.

Definition O_ST := 0. Definition O_TAIL := 8. Definition O_HEAD := 16. Definition O_FLAGS := 24. Definition O_NEXT := 32.
Definition O_TQ := 40.
Definition DQF_THREAD_BOUND := 262144.
Definition qoss : list Z := [0; 1; 2; 3; 4; 5; 6; 7].
Definition ex_commit (f : Z -> rmw_outcome) (new : Z) : bool :=
  existsb (fun q => match f q with Commit n _ => n =? new | _ => false end) qoss.
Definition ex_giveup (f : Z -> rmw_outcome) : bool :=
  existsb (fun q => match f q with NoCommit _ _ => true | _ => false end) qoss.

(* event shapes *)
Definition is_q (e : event) (k ord off sz : Z) : bool :=
  (ek e =? k) && (eord e =? ord) && (eobj e =? 0) && (eoff e =? off) && (esz e =? sz).
Definition is_stk (e : event) (k sz : Z) : bool := (ek e =? k) && (0 <? eobj e) && (esz e =? sz).
Definition is_mark (e : event) (code : Z) : bool := (ek e =? DVU_MARK) && (eobj e =? code).
Definition is_call (e : event) : bool := ek e =? DVU_CALL.
Definition sync_kind (k : Z) : bool := (k =? 1) || (k =? 2) || (k =? 3) || (k =? 6).
Definition async_kind (k : Z) : bool := (k =? 4) || (k =? 5).

(* the atomic sites of the queue's words the automaton expects (kind, memory order, word); Proofs/MainQT_sites.v proves that
   they are, in program order, the sites src2v reads from the source of the functions involved *)
Record msite := { ms_kind : akind; ms_order : morder; ms_off : Z; ms_sz : Z }.
Definition skind (k : akind) : Z :=
  match k with KLoad => DV_LOAD | KStore => DV_STORE | KXchg => DV_XCHG | KCas => DV_CAS | KCasWeak => DV_CASW
             | KAdd => DV_ADD | KSub => DV_SUB | KAnd => DV_AND | KOr => DV_OR | KXor => DV_XOR | KFence => DV_FENCE end.
Definition smo (o : morder) : Z :=
  match o with Relaxed => MO_RELAXED | Consume => MO_CONSUME | Acquire => MO_ACQUIRE | Release => MO_RELEASE
             | AcqRel => MO_ACQ_REL | SeqCst => MO_SEQ_CST end.
Definition is_s (e : event) (s : msite) : bool :=
  (ek e =? skind (ms_kind s)) && (eord e =? smo (ms_order s)) && (eobj e =? 0) && (eoff e =? ms_off s) && (esz e =? ms_sz s).
Definition S_cas_acq := {| ms_kind := KCasWeak; ms_order := Acquire; ms_off := O_ST; ms_sz := 8 |}.
Definition S_cas_rel := {| ms_kind := KCasWeak; ms_order := Release; ms_off := O_ST; ms_sz := 8 |}.
Definition S_cas_rlx := {| ms_kind := KCasWeak; ms_order := Relaxed; ms_off := O_ST; ms_sz := 8 |}.
Definition S_dirty_or := {| ms_kind := KOr; ms_order := Release; ms_off := O_ST; ms_sz := 8 |}.
Definition S_dirty_xor := {| ms_kind := KXor; ms_order := Acquire; ms_off := O_ST; ms_sz := 8 |}.
Definition S_flags := {| ms_kind := KLoad; ms_order := Relaxed; ms_off := O_FLAGS; ms_sz := 4 |}.
Definition S_flags_clr := {| ms_kind := KAnd; ms_order := Relaxed; ms_off := O_FLAGS; ms_sz := 4 |}.
Definition S_get_head := {| ms_kind := KLoad; ms_order := Acquire; ms_off := O_HEAD; ms_sz := 8 |}.
Definition S_ld_state := {| ms_kind := KLoad; ms_order := Relaxed; ms_off := O_ST; ms_sz := 8 |}.
Definition S_ld_tq := {| ms_kind := KLoad; ms_order := Relaxed; ms_off := O_TQ; ms_sz := 8 |}.
Definition S_pop_cas := {| ms_kind := KCas; ms_order := Release; ms_off := O_TAIL; ms_sz := 8 |}.
Definition S_probe := {| ms_kind := KLoad; ms_order := SeqCst; ms_off := O_TAIL; ms_sz := 8 |}.
Definition S_reset := {| ms_kind := KAnd; ms_order := Relaxed; ms_off := O_ST; ms_sz := 8 |}.
Definition S_spin_head := {| ms_kind := KLoad; ms_order := Relaxed; ms_off := O_HEAD; ms_sz := 8 |}.
Definition S_st_head := {| ms_kind := KStore; ms_order := Relaxed; ms_off := O_HEAD; ms_sz := 8 |}.
Definition S_st_next := {| ms_kind := KStore; ms_order := Relaxed; ms_off := O_NEXT; ms_sz := 8 |}.
Definition S_xchg_tail := {| ms_kind := KXchg; ms_order := Release; ms_off := O_TAIL; ms_sz := 8 |}.
(* sites on other objects: the do_next of an item / context, the dte_value of a synchronous caller's context *)
Definition S_item_next_st : akind * morder := (KStore, Relaxed).
Definition S_item_next_ld : akind * morder := (KLoad, Acquire).
Definition S_dte_sub : akind * morder := (KSub, Acquire).
Definition S_dte_ld : akind * morder := (KLoad, Acquire).
Definition S_dte_add : akind * morder := (KAdd, Release).

Record cfg := { c_self : Z; c_ismain : bool; c_floor : Z; c_main : Z (* lock value of the bound thread *);
                c_p2 : bool (* the run calls dispatch_main(): the handle is closed at some point *) }.

Inductive tcont := TRet | TWait | TLoop | TExit | TVia    (* after push + wakeup: return / park / back in the drain loop / end of drain /
                                                              back in a call that goes through a queue targeting the main queue *)
  | TIn (w : Z)                                             (* ... / back in the callout of a work item on the bound thread that submitted *)
  | TKIn (o : Z) (more : bool).                             (* ... / back in the callout of a work item on a worker (after dispatch_main()) *)

Inductive tpc :=
| TIdle
| TP_xchg (k : tcont)
| TP_link (k : tcont) (prev item : Z)
| TP_after (k : tcont) (we : bool)
| TW_flags2 (k : tcont) (d : bool)
| TW_or (k : tcont)
| TW_probe (k : tcont)
| TW_mload (k : tcont)
| TW_mbody (k : tcont) (old : Z)
| TW_poke (k : tcont) (old : Z)
| TW_reset (k : tcont)
| TW_owner (k : tcont)
| TW_probe2 (k : tcont)
| TL_probe (k : tcont) (d : bool)
| TL_wload (k : tcont) (d : bool)
| TL_wbody (k : tcont) (d : bool) (old : Z)
| TL_tq (k : tcont)
| TL_next (k : tcont)
| TDone (k : tcont)
| TV                                (* a call onto a serial queue that TARGETS the main queue: what reaches the main queue's words *)
| TV_load | TV_futex | TV_sleep
(* synchronous caller *)
| TS_aaw | TS_fast | TS_prep
| TS_dec | TS_load | TS_futex | TS_sleep | TS_ret
(* bound thread *)
| TB_enter | TB_state | TB_head | TB_headwait | TB_clr | TB_snap | TB_loop | TB_in (w : Z) | TB_sig (w : Z) | TB_fwake (w : Z)
(* cleanup2 *)
| TC_load | TC_body (old : Z) | TC_clr | TC_tail | TC_t2 (old : Z) | TC_headwait | TC_cload (tgt : bool) | TC_cbody (tgt : bool) (old : Z)
| TC_flags | TGone_next | TGone
(* worker of the root queue draining the lane *)
| TK_lock (floor old : Z)
| TK_flags (o : Z)
| TK_tail (o o' : Z)
| TK_headwait (o : Z)
| TK_state (o : Z)
| TK_pop (o : Z)
| TK_cas (o : Z)
| TK_pop2 (o : Z)
| TK_run (o : Z) (more : bool)
| TK_in (o : Z) (more : bool)
| TK_unlock (o old : Z).

Definition done (k : tcont) : tpc :=
  match k with TRet => TDone TRet | TWait => TS_dec | TLoop => TB_loop | TExit => TDone TExit | TVia => TV
  | TIn w => TDone (TIn w) | TKIn o more => TDone (TKIn o more) end.

(* the first load of dq_atomic_flags of _dispatch_main_queue_wakeup decides the way *)
Definition wake_entry (k : tcont) (d : bool) (e : event) : option tpc :=
  if is_s e S_flags
  then Some (if nz (Z.land (ea e) DQF_THREAD_BOUND) then TW_flags2 k d else TL_probe k d)
  else None.

Definition lock_entry (c : cfg) (floor : Z) (e : event) : option tpc :=
  if is_s e S_ld_state then Some (TK_lock floor (ea e)) else None.

Definition after_loop_owned (o : Z) : Z := Z.lor (Z.land o (ENQUEUED + 274877906944)) SERIAL_OWNED.

(* after the plain read of dq_items_tail in the lane drain: _dispatch_queue_get_head, or the unlock's first load *)
Definition tail_step (o o' : Z) (e : event) : option tpc :=
  if is_s e S_get_head then Some (if ea e =? 0 then TK_headwait o else TK_state o)
  else if is_s e S_ld_state then Some (TK_unlock o' (ea e))
  else None.


(* _dispatch_lane_class_barrier_complete's rmw loop on the value `old`: the compare-exchange of the generated body, or its
   give-up (DIRTY seen: xor, then dx_wakeup(BARRIER_COMPLETE)) *)
Definition tstep_cbody (tgt : bool) (old : Z) (e : event) : option tpc :=
  let body := fun q => class_barrier_complete_loop 0 q 0 (if tgt then 1 else 0) SERIAL_OWNED old (if tgt then ENQUEUED else 0) in
  if is_s e S_cas_rel
  then (if ex_commit body (eb e)
        then (if eok e =? 1
              then (if ea e =? old
                    then Some (if negb (Z.land (Z.lxor old (eb e)) ENQUEUED =? 0) then TGone_next else TGone)
                    else None)
              else Some (TC_cbody tgt (ea e)))
        else None)
  else if is_s e S_dirty_xor && (eb e =? DIRTY) && ex_giveup body then Some TC_flags
  else None.

Definition tstep0 (c : cfg) (p : tpc) (e : event) : option tpc :=
  match p with
  | TIdle =>
      if is_call e
      then (if negb (eb e =? 0) then (if c_ismain c then None else Some TV)
            else if async_kind (eobj e) then Some (TP_xchg TRet)
            else if sync_kind (eobj e) && negb (c_ismain c) then Some (if (eobj e =? 3) || (eobj e =? 6) then TS_aaw else TS_fast)
            else None)
      else if c_ismain c
      then (if is_mark e 1 || is_mark e 6 then Some TB_enter
            else if is_mark e 3 then Some TC_load
            else None)
      else lock_entry c (c_floor c) e
  (* ---- _dispatch_queue_push_item ---- *)
  | TP_xchg k =>
      if is_stk e DV_STORE 8 && (eobj e =? c_self c) && (eb e =? 0) then Some (TP_xchg k)     (* context->do_next = NULL *)
      else if is_s e S_xchg_tail && negb (eb e =? 0) then Some (TP_link k (ea e) (eb e))
      else None
  | TP_link k prev item =>
      if prev =? 0
      then (if is_s e S_st_head && (eb e =? item) then Some (TP_after k true) else None)
      else (if is_stk e DV_STORE 8 && (eb e =? item) then Some (TP_after k false)   (* prev lives on a tracked stack *)
            else None)                                                              (* otherwise the link is not observed: eps *)
  | TP_after k we => wake_entry k we e
  (* ---- _dispatch_runloop_queue_wakeup ---- *)
  | TW_flags2 k d =>
      if is_s e S_flags then Some (if d then TW_or k else TW_probe k) else None
  | TW_or k =>
      match runloop_wakeup_dirty_op 0 with
      | Commit v _ => if is_s e S_dirty_or && (eb e =? v) then Some (TW_probe k) else None
      | _ => None
      end
  | TW_probe k =>
      if is_s e S_probe then Some (if ea e =? 0 then TW_reset k else TW_mload k) else None
  | TW_mload k => if is_s e S_ld_state then Some (TW_mbody k (ea e)) else None
  | TW_mbody k old =>
      if is_s e S_cas_rlx
      then (if ex_commit (fun q => runloop_queue_poke_loop 0 q 0 old) (eb e)
            then (if eok e =? 1 then (if ea e =? old then Some (TW_poke k old) else None) else Some (TW_mbody k (ea e)))
            else None)
      else if is_mark e 5 && ex_giveup (fun q => runloop_queue_poke_loop 0 q 0 old) then Some (done k)
      else None
  | TW_poke k old => if is_mark e 5 then Some (done k) else None
  | TW_reset k =>
      match runloop_reset_max_qos_op QOS_BITS 18446744073709551615 with
      | Commit mask _ =>
          if is_s e S_reset && (eb e =? mask)
          then Some (if f_dq_state_max_qos (ea e) =? 0 then done k else TW_owner k) else None
      | _ => None
      end
  | TW_owner k => if is_s e S_ld_state then Some (TW_probe2 k) else None     (* DISPATCH_QUEUE_DRAIN_OWNER(dq) *)
  | TW_probe2 k =>
      if is_s e S_probe then Some (if ea e =? 0 then done k else TW_mload k) else None
  (* ---- not thread-bound any more: _dispatch_lane_wakeup / _dispatch_queue_wakeup ---- *)
  | TL_probe k d =>
      if is_s e S_probe then Some (if ea e =? 0 then done k else TL_wload k d) else None
  | TL_wload k d => if is_s e S_ld_state then Some (TL_wbody k d (ea e)) else None
  | TL_wbody k d old =>
      let body := fun q => wakeup_loop 0 q (if d then 2 else 0) 1 old ENQUEUED in
      if is_s e S_cas_rel
      then (if ex_commit body (eb e) && (negb d || nz (f_dq_state_is_dirty (eb e)))
            then (if eok e =? 1
                  then (if ea e =? old
                        then Some (if negb (Z.land (Z.lxor old (eb e)) ENQUEUED =? 0) then TL_tq k else done k)
                        else None)
                  else Some (TL_wbody k d (ea e)))
            else None)
      else None                                                             (* give-up: eps *)
  | TL_tq k => if is_s e S_ld_tq then Some (TL_next k) else None
  | TL_next k => if is_s e S_st_next && (eb e =? 0) then Some (done k) else None
  | TDone k =>
      match k with
      | TRet => if ek e =? DVU_RET then Some TIdle else None
      | TExit => if is_mark e 2 then Some TIdle else None
      | TIn w => if ek e =? DVU_RET then Some (TB_in w) else None
      | TKIn o more => if ek e =? DVU_RET then Some (TK_in o more) else None
      | _ => None
      end
  (* ---- a call through a queue that targets the main queue (permissive: the queue's own words are not observed):
          loads of the main queue's dq_state by the recursive lock attempts, pushes of contexts / of the queue itself
          onto the main queue (also on behalf of other callers: redirected waiters), the caller's own wait ---- *)
  | TV =>
      if ek e =? DVU_RET then Some TIdle
      else if is_s e S_ld_state then Some TV
      else if is_stk e DV_STORE 8 || is_stk e DV_LOAD 8 then Some TV     (* the targeting queue's own list, through contexts on tracked stacks *)
      else if is_s e S_xchg_tail && negb (eb e =? 0) then Some (TP_link TVia (ea e) (eb e))
      else if is_stk e (skind (fst S_dte_sub)) 4 && (eobj e =? c_self c) && (eord e =? smo (snd S_dte_sub)) && (eb e =? 1)
      then Some (if (ea e - 1) mod 4294967296 =? 0 then TV else TV_load)
      else None
  | TV_load =>
      if is_stk e (skind (fst S_dte_ld)) 4 && (eobj e =? c_self c) && (eord e =? smo (snd S_dte_ld))
      then (if ea e =? 0 then Some TV else if ea e =? MAXV then Some TV_futex else None) else None
  | TV_futex => if (ek e =? DV_FUTEX_WAIT) && (eobj e =? c_self c) && (ea e =? MAXV) then Some TV_sleep else None
  | TV_sleep => if (ek e =? DV_FUTEX_WAIT_RET) && (eobj e =? c_self c) then Some TV_load else None
  (* ---- dispatch_sync_f / dispatch_async_and_wait_f ---- *)
  | TS_aaw => if is_s e S_ld_state then Some TS_fast else None
  | TS_fast =>
      (* _dispatch_queue_try_acquire_barrier_sync: a plain (unobserved) test of dq_items_tail skips the rmw loop when the list
         is not empty, so this load is the fast path's (then _dispatch_wait_prepare's follows) or already _dispatch_wait_prepare's:
         both bodies must give up on the value read *)
      if is_s e S_ld_state
      then (match f_dispatch_queue_try_acquire_barrier_sync_and_suspend 0 (c_self c) 0 1 (ea e), wait_prepare_loop 0 (ea e) with
            | NoCommit _ _, NoCommit _ _ => Some TS_prep
            | _, _ => None
            end)
      else None
  | TS_prep =>
      if is_s e S_ld_state
      then (match wait_prepare_loop 0 (ea e) with NoCommit _ _ => Some (TP_xchg TWait) | _ => None end)
      else None                                                            (* eps: the fast path's loop was skipped *)
  | TS_dec =>
      if is_stk e (skind (fst S_dte_sub)) 4 && (eobj e =? c_self c) && (eord e =? smo (snd S_dte_sub)) && (eb e =? 1)
      then Some (if (ea e - 1) mod 4294967296 =? 0 then TS_ret else TS_load) else None
  | TS_load =>
      if is_stk e (skind (fst S_dte_ld)) 4 && (eobj e =? c_self c) && (eord e =? smo (snd S_dte_ld))
      then (if ea e =? 0 then Some TS_ret else if ea e =? MAXV then Some TS_futex else None) else None
  | TS_futex => if (ek e =? DV_FUTEX_WAIT) && (eobj e =? c_self c) && (ea e =? MAXV) then Some TS_sleep else None
  | TS_sleep => if (ek e =? DV_FUTEX_WAIT_RET) && (eobj e =? c_self c) then Some TS_load else None
  | TS_ret => if ek e =? DVU_RET then Some TIdle else None
  (* ---- _dispatch_main_queue_callback_4CF on the bound thread ---- *)
  | TB_enter =>
      if is_mark e 2 then Some TIdle                                     (* dq_items_tail == NULL: nothing to drain *)
      else if is_s e S_flags && nz (Z.land (ea e) DQF_THREAD_BOUND) then Some TB_state
      else None
  | TB_state =>
      if is_s e S_ld_state && nz (f_dq_state_drain_locked_by (ea e) (c_self c)) then Some TB_head else None
  | TB_head =>
      if is_s e S_get_head then Some (if ea e =? 0 then TB_headwait else TB_clr) else None
  | TB_headwait =>
      if is_s e S_spin_head then Some (if ea e =? 0 then TB_headwait else TB_clr) else None
  | TB_clr => if is_s e S_st_head && (eb e =? 0) then Some TB_snap else None
  | TB_snap => if is_s e S_xchg_tail && (eb e =? 0) && negb (ea e =? 0) then Some TB_loop else None
  | TB_loop =>
      if is_stk e DV_LOAD 8 then Some TB_loop                           (* os_mpsc_get_next on a stack-resident context *)
      else if (ek e =? DVU_CALLOUT_BEGIN) then Some (TB_in (eb e))
      else if is_s e S_xchg_tail && negb (eb e =? 0) then Some (TP_link TLoop (ea e) (eb e))  (* an item re-enqueues a queue *)
      else wake_entry TExit false e                                      (* dx_wakeup(dq, 0, 0) at the end of the drain *)
  | TB_in w =>
      if is_mark e 4 then Some (TB_in w)                                 (* nested run loop: read; its callback returns at once *)
      else if is_call e && (eb e =? 0) && async_kind (eobj e) then Some (TP_xchg (TIn w))   (* the work item submits to the main queue *)
      else if (ek e =? DVU_CALLOUT_END) && (eb e =? w) then Some (if w =? 0 then TB_loop else TB_sig w)
      else None
  | TB_sig w =>
      if is_stk e (skind (fst S_dte_add)) 4 && (eobj e =? w) && (eord e =? smo (snd S_dte_add)) && (eb e =? 1)
      then Some (if ea e =? 0 then TB_loop else TB_fwake w) else None
  | TB_fwake w => if (ek e =? DV_FUTEX_WAKE) && (eobj e =? w) then Some TB_loop else None
  (* ---- _dispatch_queue_cleanup2 ---- *)
  | TC_load => if is_s e S_ld_state then Some (TC_body (ea e)) else None
  | TC_body old =>
      match queue_cleanup2_loop old with
      | Commit new _ =>
          if is_s e S_cas_acq && (eb e =? new)
          then (if eok e =? 1 then (if ea e =? old then Some TC_clr else None) else Some (TC_body (ea e))) else None
      | _ => None
      end
  | TC_clr =>
      if is_s e S_flags_clr && (eb e =? 4294967295 - DQF_THREAD_BOUND) && nz (Z.land (ea e) DQF_THREAD_BOUND)
      then Some TC_tail else None
  | TC_tail => if is_s e S_ld_state then Some (TC_t2 (ea e)) else None
  | TC_t2 old =>
      (* that load was DISPATCH_QUEUE_IS_SUSPENDED (list not empty): _dispatch_queue_get_head follows;
         or it was the first load of the class_barrier_complete loop (list empty) *)
      if is_s e S_get_head && negb (nz (f_dq_state_is_suspended old))
      then Some (if ea e =? 0 then TC_headwait else TC_cload true)
      else None                                                             (* eps: it was the loop's own load *)
  | TC_headwait =>
      if is_s e S_spin_head then Some (if ea e =? 0 then TC_headwait else TC_cload true) else None
  | TC_cload tgt => if is_s e S_ld_state then Some (TC_cbody tgt (ea e)) else None
  | TC_cbody tgt old => tstep_cbody tgt old e
  | TC_flags =>
      if is_s e S_flags && negb (nz (Z.land (ea e) DQF_THREAD_BOUND)) then Some TC_tail else None
  | TGone_next => if is_s e S_st_next && (eb e =? 0) then Some TGone else None
  | TGone => None
  (* ---- a worker drains the lane: _dispatch_lane_invoke ---- *)
  | TK_lock floor old =>
      match f_dispatch_queue_drain_try_lock 0 0 1 (c_self c) floor old 0 with
      | Restart _ => lock_entry c (f_dq_state_max_qos old) e
      | Commit new owned =>
          if is_s e S_cas_acq && (eb e =? new)
          then (if eok e =? 1 then (if ea e =? old then Some (if owned =? 0 then TIdle else TK_flags owned) else None)
                else Some (TK_lock floor (ea e)))
          else None
      | _ => None
      end
  | TK_flags o => if is_s e S_flags then Some (TK_tail o o) else None
  | TK_tail o o' => tail_step o o' e
  | TK_headwait o =>
      if is_s e S_spin_head then Some (if ea e =? 0 then TK_headwait o else TK_state o) else None
  | TK_state o =>
      if is_s e S_ld_state && negb (nz (f_dq_state_is_suspended (ea e))) then Some (TK_pop o) else None
  | TK_pop o =>
      if is_s e S_st_head then Some (if eb e =? 0 then TK_cas o else TK_run o true) else None
  | TK_cas o =>
      if is_s e S_pop_cas && (eb e =? 0)
      then Some (if eok e =? 1 then TK_run o false else TK_pop2 o) else None
  | TK_pop2 o => if is_s e S_st_head && negb (eb e =? 0) then Some (TK_run o true) else None
  | TK_run o more => if (ek e =? DVU_CALLOUT_BEGIN) && (eb e =? 0) then Some (TK_in o more) else None
  | TK_in o more =>
      if (ek e =? DVU_CALLOUT_END) && (eb e =? 0)
      then Some (if more then TK_state o else TK_tail o (after_loop_owned o))
      else if is_call e && (eb e =? 0) && async_kind (eobj e) then Some (TP_xchg (TKIn o more))
      else None
  | TK_unlock o old =>
      match f_dispatch_queue_drain_try_unlock 0 o 1 old with
      | Commit new _ =>
          if is_s e S_cas_rel && (eb e =? new) && negb (nz (f_dq_state_is_dirty old))
          then (if eok e =? 1 then (if ea e =? old then Some TIdle else None) else Some (TK_unlock o (ea e))) else None
      | NoCommit _ _ => if is_s e S_dirty_xor && (eb e =? DIRTY) then Some (TK_tail o o) else None
      | _ => None
      end
  end.

(* silent moves: plain (unobservable) accesses and give-ups of rmw loops *)
(* the handle is disposed at the end of cleanup2: from then on _dispatch_runloop_queue_class_poke finds it invalid and a stale
   thread-bound wakeup returns without writing it (MainQ.mstep at MW_write with hopen = false).  A thread cannot see that
   moment in its own events (the dq_state it observed may be older), so the skip is accepted in runs that call
   dispatch_main(); lib/props/c02_mainq.py checks with the global stamps that no skip happens before that call *)
Definition released (c : cfg) (old : Z) : bool := c_p2 c.

Definition eps (c : cfg) (p : tpc) : option tpc :=
  match p with
  | TW_mbody k old =>
      if released c old && ex_giveup (fun q => runloop_queue_poke_loop 0 q 0 old) then Some (done k) else None
  | TW_poke k old => if released c old then Some (done k) else None
  | TP_link k prev item => if prev =? 0 then None else Some (TP_after k false)
  | TP_after k false => Some (done k)                      (* _dispatch_queue_need_override said no *)
  | TL_wbody k d old =>
      if ex_giveup (fun q => wakeup_loop 0 q (if d then 2 else 0) 1 old ENQUEUED) then Some (done k) else None
  | TC_t2 old => Some (TC_cbody false old)
  | TS_prep => Some (TP_xchg TWait)
  | _ => None
  end.

Definition tstep (c : cfg) (p : tpc) (e : event) : option tpc :=
  match tstep0 c p e with
  | Some p' => Some p'
  | None =>
      match eps c p with
      | Some p1 =>
          match tstep0 c p1 e with
          | Some p' => Some p'
          | None => match eps c p1 with Some p2 => tstep0 c p2 e | None => None end
          end
      | None => None
      end
  end.

(* which branch a transition took, for the distribution the correspondence check reports *)
Definition tag (p : tpc) (e : event) (p' : tpc) : Z :=
  match p, p' with
  | TP_xchg _, TP_link _ prev _ => if prev =? 0 then 1 else 2           (* push: list was empty / not *)
  | TP_after _ false, TW_flags2 _ _ | TP_link _ _ _, TW_flags2 _ false => 3   (* override wakeup, thread-bound way *)
  | TP_after _ false, TL_probe _ _ | TP_link _ _ _, TL_probe _ false => 4     (* override wakeup, lane way *)
  | TP_after _ true, TW_flags2 _ _ => 5                                 (* MAKE_DIRTY wakeup, thread-bound way *)
  | TP_after _ true, TL_probe _ _ => 6                                  (* MAKE_DIRTY wakeup, lane way *)
  | TW_probe _, TW_reset _ => 7                                         (* probe saw an empty list: no poke *)
  | TW_probe _, TW_mload _ => 8
  | TW_mbody _ _, TW_mbody _ _ => 9                                     (* poke loop compare-exchange failed *)
  | TW_mbody _ _, TW_poke _ _ => 10                                       (* poke loop merged a QoS *)
  | TW_reset _, TW_owner _ => 11                                       (* reset cleared a QoS: probe again *)
  | TL_probe _ _, TL_wload _ _ => 12
  | TL_wbody _ _ _, TL_tq _ => 13                                       (* lane wakeup set ENQUEUED *)
  | TL_wbody _ _ _, TL_wbody _ _ _ => 14                                (* lane wakeup compare-exchange failed *)
  | TS_dec, TS_ret => 15                                                (* wait: already signalled *)
  | TS_dec, TS_load => 16
  | TS_load, TS_futex => 17
  | TS_sleep, TS_load => 18
  | TB_enter, TIdle => 19                                               (* callback: nothing queued *)
  | TB_head, TB_headwait | TB_headwait, TB_headwait => 20               (* head not published yet *)
  | TB_snap, TB_loop => 21                                              (* snapshot captured *)
  | TB_loop, TP_link _ _ _ => 22                                        (* the bound thread pushes from inside the drain *)
  | TB_in _, TB_in _ => 23                                              (* nested read inside a work item *)
  | TB_sig _, TB_loop => 24                                             (* signal: waiter had not decremented yet *)
  | TB_sig _, TB_fwake _ => 25                                          (* signal needs futex_wake *)
  | TB_loop, TW_flags2 _ _ => 26                                        (* exit wakeup *)
  | TC_body _, TC_clr => 27
  | TC_t2 _, TC_cload _ | TC_t2 _, TC_headwait => 28                    (* cleanup2: list not empty *)
  | TC_t2 _, TGone | TC_t2 _, TGone_next | TC_cbody false _, TGone => 29 (* cleanup2: list empty, released *)
  | TC_cbody _ _, TC_flags | TC_t2 _, TC_flags => 30                    (* cleanup2 saw DIRTY *)
  | TC_cbody true _, TGone_next => 31                                   (* cleanup2 enqueued the lane *)
  | TIdle, TK_lock _ _ => 32
  | TK_lock _ _, TK_flags _ => 33
  | TK_lock _ _, TIdle => 34
  | TK_cas _, TK_run _ _ => 35                                          (* pop of the last item *)
  | TK_cas _, TK_pop2 _ => 36                                           (* pop raced a push *)
  | TK_unlock _ _, TIdle => 37
  | TK_unlock _ _, TK_tail _ _ => 38                                    (* unlock refused: DIRTY *)
  | TK_tail _ _, TK_headwait _ | TK_headwait _, TK_headwait _ => 39
  | TB_in _, TP_xchg _ => 41                                            (* a work item on the bound thread submits to the main queue *)
  | TK_in _ _, TP_xchg _ => 42                                          (* a work item on a worker submits to the main queue *)
  | TW_mbody _ _, TDone _ | TW_poke _ _, TDone _ | TW_mbody _ _, TIdle | TW_poke _ _, TIdle | TW_mbody _ _, TS_dec | TW_poke _ _, TS_dec => if ek e =? DVU_MARK then 0 else 40   (* poke skipped: handle closed *)
  | _, _ => 0
  end.
Definition NTAGS : nat := 43.

Fixpoint bump (l : list Z) (k : nat) : list Z :=
  match l, k with
  | x :: r, O => (x + 1) :: r
  | x :: r, S k' => x :: bump r k'
  | [], _ => []
  end.

Fixpoint trun (c : cfg) (p : tpc) (tr : list event) (i : Z) (cnt : list Z) : tpc * Z * list Z :=
  match tr with
  | [] => (p, -1, cnt)
  | e :: r => match tstep c p e with
              | Some p' => trun c p' r (i + 1) (bump cnt (Z.to_nat (tag p e p')))
              | None => (p, i, cnt)
              end
  end.
Definition tpc_idle (p : tpc) : Z := match p with TIdle | TGone => 1 | _ => 0 end.
(* (index of the first rejected event or -1, 1 if the thread ended outside any call, how often each branch fired) *)
Definition conform (self ismain floor main p2 : Z) (tr : list event) : list Z :=
  let c := {| c_self := self; c_ismain := negb (ismain =? 0); c_floor := floor; c_main := main; c_p2 := negb (p2 =? 0) |} in
  let '(p, i, cnt) := trun c TIdle tr 0 (repeat 0 NTAGS) in i :: tpc_idle p :: cnt.
