(* SyncOrder.v — ghost history for the real-time order of submissions on the serial lane of Model/SyncWait.v, for any
   mix of dispatch_async_f, dispatch_sync_f / dispatch_barrier_sync_f and dispatch_async_and_wait_f.
   The steps of SyncWait.v are unchanged (xreach projects onto reach); every submission CALL gets a number, and the
   history records which calls have returned, what had returned when a call began (pre), which call's item every list
   element / the popped item / the running callout belongs to, and which items' callouts have begun and ended.
   The update is a function of the actions of the step alone, so it also runs on top of the old fast path
   (tstep_old), which is how the overtake defect fixed by libdispatch 43b9c73 is replayed (SyncOrder_example.v). *)
From Coq Require Import ZArith Bool List.
From Verif Require Import Word Conc Gen_consts SyncWait.
Import ListNotations.
Local Open Scope Z_scope.

Record hist := {
  nextc : Z;                   (* number of the next submission call *)
  callno : Z -> Z;             (* the current (or last) call of each thread; -1 = none yet *)
  caller : Z -> Z;             (* the thread that made each call *)
  returned : list Z;           (* calls that have returned *)
  pre : Z -> list Z;           (* pre b = the calls that had returned when call b began *)
  glst : list Z;               (* the call each element of the list belongs to (parallel to lst) *)
  gcur : option Z;             (* ... the popped item (parallel to cur) *)
  grun : option Z;             (* ... the running callout (parallel to running) *)
  started : list Z;            (* calls whose item's callout has begun, most recent first *)
  finished : list Z            (* calls whose item's callout has ended *)
}.

Definition h0 : hist :=
  {| nextc := 0; callno := fun _ => -1; caller := fun _ => 0; returned := []; pre := fun _ => []; glst := []; gcur := None; grun := None;
     started := []; finished := [] |}.

Definition h_call (h : hist) (t : Z) : hist :=
  {| nextc := nextc h + 1; callno := upd (callno h) t (nextc h); caller := upd (caller h) (nextc h) t; returned := returned h;
     pre := upd (pre h) (nextc h) (returned h); glst := glst h; gcur := gcur h; grun := grun h; started := started h;
     finished := finished h |}.
Definition h_ret (h : hist) (t : Z) : hist :=
  {| nextc := nextc h; callno := callno h; caller := caller h; returned := callno h t :: returned h; pre := pre h; glst := glst h;
     gcur := gcur h; grun := grun h; started := started h; finished := finished h |}.
Definition h_list (h : hist) (g : list Z) (c : option Z) : hist :=
  {| nextc := nextc h; callno := callno h; caller := caller h; returned := returned h; pre := pre h; glst := g; gcur := c; grun := grun h;
     started := started h; finished := finished h |}.
Definition h_begin (h : hist) (c : option Z) (b : Z) : hist :=
  {| nextc := nextc h; callno := callno h; caller := caller h; returned := returned h; pre := pre h; glst := glst h; gcur := c;
     grun := Some b; started := b :: started h; finished := finished h |}.
Definition h_end (h : hist) (b : Z) : hist :=
  {| nextc := nextc h; callno := callno h; caller := caller h; returned := returned h; pre := pre h; glst := glst h; gcur := gcur h;
     grun := None; started := started h; finished := b :: finished h |}.

(* what one action of thread t does to the history *)
Definition hact (a : act) (h : hist) (t : Z) (e : event) : hist :=
  match a with
  | ACall _ => h_call h t
  | ARetS | ARetA => h_ret h t
  | AXchgT _ => h_list h (glst h ++ [callno h t]) (gcur h)
  | APop1 _ => match glst h with b :: g => h_list h g (Some b) | [] => h end
  | ACasQ _ (QXfer _) => if eok e =? 1 then h_list h (glst h) None else h
  | ABeginSelf => h_begin h (gcur h) (callno h t)
  | ABeginCur _ => match gcur h with Some b => h_begin h None b | None => h end
  | AEndSelf | AEndCur _ => match grun h with Some b => h_end h b | None => h end
  | _ => h
  end.
Definition hacts (l : list act) (h : hist) (t : Z) (e : event) : hist := fold_left (fun h a => hact a h t e) l h.

Definition hstep_with (ts : Z -> pc -> event -> option (pc * list act)) (s : gst) (h : hist) (t : Z) (e : event) : hist :=
  match ts t (pcs s t) e with Some (_, acts) => hacts acts h t e | None => h end.
Definition hstep := hstep_with tstep.

(* reachable (state, history) pairs: the state component moves by the unchanged steps of SyncWait.v *)
Inductive xreach : gst -> hist -> Prop :=
| xr_init : xreach init_state h0
| xr_step s h t e s' : xreach s h -> valid_tid t -> gstep s t e = Some s' -> xreach s' (hstep s h t e).

(* executable runs, over either automaton *)
Fixpoint xrun_with (ts : Z -> pc -> event -> option (pc * list act)) (s : gst) (h : hist) (tr : list (Z * (gst -> event)))
  : option (gst * hist) :=
  match tr with
  | [] => Some (s, h)
  | (t, f) :: tr' =>
      match gstep_with ts s t (f s) with
      | Some s' => xrun_with ts s' (hstep_with ts s h t (f s)) tr'
      | None => None
      end
  end.

Definition fin (h : hist) (a : Z) : Prop := In a (finished h).
(* "B starts only after everything that had returned before B's call began has finished" *)
Definition order_ok (h : hist) : Prop := forall b, In b (started h) -> forall a, In a (pre h b) -> fin h a.
Definition order_okb (h : hist) : bool :=
  forallb (fun b => forallb (fun a => existsb (Z.eqb a) (finished h)) (pre h b)) (started h).

(* ---- whole-run replay of a recorded, globally ordered trace (the fixed overtake schedule of harness/c05_sync.c):
   the hook does not report the tau steps, so they are searched for: the acting thread's own taus right before its
   event, and -- only when the event is not possible otherwise -- taus of another thread (a push on the root queue, the
   store that links a pushed item).  Returns (-1, b) when the whole trace is a run of the model, b = no item started before
   what it had to follow had finished; else (index of the deepest event that could not be matched, false). ---- *)
Definition xst := (gst * hist)%type.
Definition xstep_with (ts : Z -> pc -> event -> option (pc * list act)) (x : xst) (t : Z) (e : event) : option xst :=
  match gstep_with ts (fst x) t e with Some s' => Some (s', hstep_with ts (fst x) (snd x) t e) | None => None end.
Fixpoint tau_states (ts : Z -> pc -> event -> option (pc * list act)) (n : nat) (x : xst) (t : Z) : list xst :=
  x :: match n with
       | O => []
       | S n' => (match xstep_with ts x t (tau 0) with Some x0 => tau_states ts n' x0 t | None => [] end) ++
                 (match xstep_with ts x t (tau 1) with Some x1 => tau_states ts n' x1 t | None => [] end)
       end.
Definition after_own ts (x : xst) (t : Z) (e : event) : list xst :=
  flat_map (fun x0 => match xstep_with ts x0 t e with Some x' => [x'] | None => [] end) (tau_states ts 3 x t).
Definition after_foreign ts (ths : list Z) (x : xst) (t : Z) (e : event) : list xst :=
  flat_map (fun u => if u =? t then [] else flat_map (fun x0 => after_own ts x0 t e) (tl (tau_states ts 2 x u))) ths.
(* the item that started last has everything it must follow finished (checked after every step: exact, since finished grows) *)
Definition head_ok (h : hist) : bool :=
  match started h with b :: _ => forallb (fun a => existsb (Z.eqb a) (finished h)) (pre h b) | [] => true end.
Fixpoint xreplay ts (ths : list Z) (x : xst) (tr : list (Z * event)) (i : Z) (ok : bool) : Z * bool :=
  match tr with
  | [] => (-1, ok)
  | (t, e) :: tr' =>
      let cands := match after_own ts x t e with [] => after_foreign ts ths x t e | l => l end in
      fold_left (fun acc x' => if fst acc =? -1 then acc
                               else let r := xreplay ts ths x' tr' (i + 1) (ok && head_ok (snd x')) in
                                    if fst r =? -1 then r else (Z.max (fst acc) (fst r), false))
                cands (i, false)
  end.
