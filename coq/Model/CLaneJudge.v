(* CLaneJudge.v — executable judges for the trace check of C04 (lib/props/c04.py):
   tr_ok    : a successful dq_state write recorded at a source site (old value, new value) is what the body generated
              from that site (Gen_dqstate) computes from the old value, for some admissible value of the locals that
              are not visible in the trace (qos, flags, the width a drainer owns);
   word_ok  : the word-level projection of the invariant proved in Proofs/CLane_main.v (width accounting);
   owner_ok : the word a barrier owner sees when it gives the lock back;
   acct_ok  : the width accounting on a word and the ghost state reconstructed from the run.
   Definitions only. *)
From Coq Require Import ZArith Bool List.
From Verif Require Import Word Gen_consts Gen_dqstate DqFields CLane.
Import ListNotations.
Local Open Scope Z_scope.

Definition commits_to (o : rmw_outcome) (new : Z) : bool :=
  match o with Commit n _ => n =? new | _ => false end.

Definition qoses : list Z := [0; 1; 2; 3; 4; 5; 6; 7].

(* amounts a drainer may own, given candidate interval counts: k intervals, with or without the ENQUEUED bit it took
   over, or IN_BARRIER + the whole width *)
Definition owned_cands (W : Z) (ks : list Z) : list Z :=
  flat_map (fun k => [k * INTERVAL; ENQUEUED + k * INTERVAL]) ks ++
  [IN_BARRIER + W * INTERVAL; ENQUEUED + IN_BARRIER + W * INTERVAL].

(* site codes (lib/props/c04.py maps (function, kind of atomic) to them) *)
Definition tr_ok (code W self old new : Z) (ks : list Z) : bool :=
  match code with
  | 1 => commits_to (f_dispatch_queue_try_reserve_sync_width 0 0 old W) new
  | 2 => commits_to (f_dispatch_queue_try_acquire_async 0 old) new
  | 3 => new =? u64 (old + INTERVAL)                                   (* _dispatch_queue_reserve_sync_width *)
  | 4 => commits_to (non_barrier_complete_loop 0 0 old self W) new
  | 5 => commits_to (f_dispatch_queue_try_acquire_barrier_sync_and_suspend 0 self 0 W old) new
  | 6 => existsb (fun q => commits_to (class_barrier_complete_loop 0 q 0 0 (IN_BARRIER + W * INTERVAL) old 0) new ||
                          commits_to (class_barrier_complete_loop 0 q 0 1 (IN_BARRIER + W * INTERVAL) old ENQUEUED) new) qoses
  | 7 | 11 | 17 => new =? Z.lxor old DIRTY                               (* the acquire xor of DIRTY after a give-up *)
  | 8 => let no := Z.land new 1073741823 in
         existsb (fun e => existsb (fun nd => commits_to (drain_barrier_waiter_loop 0 1 0 e old no nd) new) [0; 1]) [0; ENQUEUED]
  | 9 => new =? Z.land old NOT_IN_BARRIER
  | 10 => existsb (fun k =>
            commits_to (drain_non_barriers_loop 0 0 0 old (k * INTERVAL) self W) new ||
            commits_to (drain_non_barriers_loop 0 1 0 old (k * INTERVAL) self W) new ||
            commits_to (drain_non_barriers_loop 0 1 0 old (f_dispatch_queue_adjust_owned 0 (k * INTERVAL) 1 W 1) self W) new) ks
  | 12 => existsb (fun q => existsb (fun fl => commits_to (wakeup_loop 0 q fl 1 old ENQUEUED) new) [1; 3; 0; 2]) qoses
  | 13 => existsb (fun q => commits_to (push_waiter_loop 0 0 q old (u64 (u64 (s32 (W - 1)) * INTERVAL))
                                                         (Z.lor (Z.lor self FULL_BIT) IN_BARRIER)) new) qoses
  | 14 => existsb (fun fl => commits_to (f_dispatch_queue_drain_try_lock 0 0 W self fl old 0) new) qoses
  | 15 => existsb (fun k => commits_to (f_dispatch_queue_try_upgrade_full_width 0 (k * INTERVAL) W old) new) ks
  | 16 => existsb (fun ow => existsb (fun d => commits_to (f_dispatch_queue_drain_try_unlock 0 ow d old) new) [1; 0])
                  (owned_cands W ks)
  | 18 => new =? Z.lxor old IN_BARRIER                                  (* _dispatch_lane_drain: barrier -> non-barrier mode *)
  | 19 => existsb (fun ow => commits_to (invoke_finish_loop 0 0 1 ow old ENQUEUED) new) (owned_cands W ks)
  | 20 => existsb (fun k => commits_to (reserve_apply_width_loop 0 k old) new) ks
  | 21 => existsb (fun k => new =? u64 (old - k * INTERVAL)) ks            (* _dispatch_queue_relinquish_width *)
  | 22 => existsb (fun q => new =? f_dq_state_merge_qos old q) qoses     (* override-only loops: max_qos merge *)
  | _ => false
  end.

(* the word alone: no suspension, the width field within what W allows, IN_BARRIER only with an owner and the exact
   full width, a pending barrier never together with IN_BARRIER *)
Definition word_ok (W w : Z) : bool :=
  let r := dec w in
  (0 <=? w) && (w <? 18446744073709551616) &&
  (f_hi r =? 0) && (f_em r =? 0) && (f_tr r =? 0) &&
  (4096 - W + (W - 1) * f_pb r <=? f_wq r) &&
  (if f_ib r =? 1 then (f_wq r =? 4096) && (f_pb r =? 0) && negb (f_owner r =? 0) else true) &&
  (if f_owner r =? 0 then (f_ib r =? 0) else true).

(* what a thread that runs _dispatch_lane_barrier_complete after its barrier item sees just before its own write *)
Definition owner_ok (w self : Z) : bool :=
  let r := dec w in (f_ib r =? 1) && (f_owner r =? self).

(* the width accounting itself (the equation of C04_width_accounting) on a word and a ghost state reconstructed from a
   recorded run: held = intervals held by readers / redirected items / granted waiters + intervals owned by the lock holder,
   bm = a barrier owner exists.  Upper and lower bound on the width field; IN_BARRIER exactly with a barrier owner. *)
Definition acct_ok (W w held : Z) (bm : bool) : bool :=
  let r := dec w in (f_wq r =? 4096 - W + held + (W - 1) * f_pb r) && (f_ib r =? (if bm then 1 else 0)).
Definition acct_case (c : list Z) : bool :=
  match c with [W; w; held; bm] => acct_ok W w held (bm =? 1) | _ => false end.

(* batched evaluation for the driver: one case = [code; W; self; old; new; k1; k2; ...] *)
Definition tr_case (c : list Z) : bool :=
  match c with
  | code :: W :: self :: old :: new :: ks => tr_ok code W self old new ks
  | _ => false
  end.
Fixpoint failing {A} (f : A -> bool) (l : list A) (i : Z) : list Z :=
  match l with
  | [] => []
  | x :: l' => if f x then failing f l' (i + 1) else i :: failing f l' (i + 1)
  end.
