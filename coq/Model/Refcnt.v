(* Refcnt.v — the two-level reference count of a dispatch object (src/object.c, src/object_internal.h:585-636,
   src/inline_internal.h:205-326, src/init.c:1570-1590) and the internal references of the GROUP protocol
   (src/semaphore.c:240-349) woven into one model, for any number of threads.

   Memory: os_obj_xref_cnt / os_obj_ref_cnt (both biased by -1: 0 means one reference), the group's value
   (number of outstanding enters) and HAS_NOTIFS bit (the rest of dg_state is C07's subject and is kept abstract
   here), the notify list (tail != NULL, number of continuations on it), do_ctxt / do_finalizer / do_targetq.
   Threads: a per-thread automaton `tstep` over the events of the DISPATCH_VERIF hook (the same automaton is fed the
   recorded traces of the real library) + ghost TOKENS: every reference is a token that is either in a pool (held
   by the application / by a data structure between calls) or owned by a call in progress (`held k pc`); a call
   may release only a token it took out of a pool.  USING the object does not move a token: a call made through a
   reference only BORROWS it (kinds KBX / KBI count the calls in progress that borrow an external / internal
   reference); any number of threads may be inside calls through the same reference.  The client contract is the
   usual one: while some call borrows a reference of a level, whoever owns references of that level does not release
   the last one of them (`effect`, DVU_CALL).  The client is the most general one respecting this.  For every kind k the
   ghost register `priv k` is the sum over all threads of `held k`; it is maintained uniformly by `gstep`.
   The generated pieces (Gen_refcnt, Gen_group): the rmw-loop bodies of _os_object_retain_weak and
   _dispatch_group_notify, the memory orders, constants and atomic-site lists. *)
From Coq Require Import ZArith Bool List.
From Verif Require Import Word Conc Gen_consts Gen_group Gen_refcnt.
Import ListNotations.
Local Open Scope Z_scope.

Definition HW := DISPATCH_GROUP_HAS_WAITERS.
Definition HN := DISPATCH_GROUP_HAS_NOTIFS.
Definition VMASK := DISPATCH_GROUP_VALUE_MASK.
Definition INTERVAL := DISPATCH_GROUP_VALUE_INTERVAL.
Definition V1 := DISPATCH_GROUP_VALUE_1.
Definition VMAX := DISPATCH_GROUP_VALUE_MAX.
Definition MAXC := f_OS_OBJECT_GLOBAL_REFCNT.     (* INT_MAX: the count that marks a global (immortal) object *)

Definition mo_code (o : morder) : Z :=
  match o with Relaxed => 0 | Consume => 1 | Acquire => 2 | Release => 3 | AcqRel => 4 | SeqCst => 5 end.

(* tracked objects: 1 = the object under test (a group: whole struct tracked from its base address),
   2 = the queue that receives its notifications (its two refcount words) *)
Definition OBJ_G := 1. Definition OBJ_Q := 2.
Definition OFF_REF := 8. Definition OFF_XREF := 12. Definition OFF_STATE := 48. Definition OFF_GEN := 52.
Definition OFF_HEAD := 56. Definition OFF_TAIL := 64.

(* API operations: DVU_CALL carries  a = op + 100 * (0: through an external reference | 1: through an internal one),
   b = argument *)
Definition OP_RETAIN := 1. Definition OP_RELEASE := 2. Definition OP_ENTER := 3. Definition OP_LEAVE := 4.
Definition OP_NOTIFY := 5. Definition OP_SETCTX := 6. Definition OP_SETFIN := 7. Definition OP_SETTQ := 8.
Definition OP_IRETAIN := 9. Definition OP_IRELEASE := 10. Definition OP_WEAK := 11.

(* dispatch_group_leave, semaphore.c:288-297: one iteration of the clearing loop *)
Definition leave_new (old : Z) : Z :=
  if Z.land old VMASK =? 0
  then Z.land (Z.land old (not64 HW)) (not64 HN)
  else Z.land old (not64 HN).

(* ------------------------------------------------------------------ tokens *)
Inductive kind :=
| KX      (* external reference owned by a call in progress (being released / just created) *)
| KI      (* internal reference owned by a call in progress *)
| KBX     (* a call in progress that borrows an external reference owned by someone else (the application) *)
| KBI     (* a call in progress that borrows an internal reference owned by someone else *)
| KBE     (* a call in progress that uses the group under an outstanding enter (the group's own +1 taken by that enter
             keeps it alive): the idiom of calling into the group from a dispatch_group_async block after the last
             dispatch_release *)
| KE      (* a completed dispatch_group_enter not yet consumed by a leave *)
| KQ      (* internal reference on the notification queue (one per pending notification) *)
| KPE     (* enter made the group non-empty, its _dispatch_retain not yet done (counts as an enter too) *)
| KPN     (* notify made the list non-empty, its _dispatch_retain not yet done *)
| KD      (* duty to deliver the current batch: between the list's retain and setting HAS_NOTIFS / the snapshot *)
| KXD     (* xref reached -1, _os_object_xref_dispose not yet past its barrier *)
| KDP     (* ref reached -1, _os_object_dispose / _dispatch_dispose not yet done *)
| KB      (* derived: KBX + KBI - KPE (pointwise >= 0: the enter that owes the group's retain made the group non-empty,
             so it cannot have been made under an outstanding enter: it borrowed an external or internal reference) *)
| KB2.    (* derived: KBX + KBI + KBE - KPN (pointwise >= 0: the notify that owes the list's retain borrowed something) *)
Definition all_kinds := [KX; KI; KBX; KBI; KBE; KE; KQ; KPE; KPN; KD; KXD; KDP; KB; KB2].

Inductive bsrc := BX | BI | BE | BN.                (* the kind of reference a call borrows for its duration (BN: none) *)
Inductive kont := KApi (b : bsrc) | KImpl.     (* API call (ends with DVU_RET) or library-internal leave on a worker *)

Inductive pc :=
| PIdle
| PCrash                                   (* _OS_OBJECT_CLIENT_CRASH / DISPATCH_CLIENT_CRASH *)
| PRet (b : bsrc) (rx ri re : Z)           (* about to return; rx/ri/re new tokens go to the pools *)
| PRetain                                  (* _os_object_retain: add on xref next *)
| PRelease                                 (* _os_object_release: sub on xref next *)
| PXBarrier                                (* _os_object_xref_dispose: load-acquire of xref next *)
| PIRel (k : kont) (n : Z)                 (* _os_object_release_internal_n(n): sub on ref next *)
| PIBarrier (k : kont)                     (* _os_object_dispose: load-acquire of ref next *)
| PDispose (k : kont)                      (* _dispatch_dispose -> _dispatch_group_dispose: load of dg_state, free, finalizer *)
| PIRetain (b : bsrc) (n : Z)              (* _os_object_retain_internal_n(n): add on ref next *)
| PWeakLoad (b : bsrc)                     (* _os_object_retain_weak: the rmw loop's initial load *)
| PWeakCas (b : bsrc) (old new : Z)        (* the loop tries old -> new *)
| PEnter (b : bsrc)                        (* dispatch_group_enter: sub on dg_bits next *)
| PEnterRetain (b : bsrc)                  (* old value was 0: _dispatch_retain(dg) next *)
| PLeave (k : kont)                        (* dispatch_group_leave: add on dg_state next *)
| PLvLoop (k : kont) (old : Z)             (* clearing loop: cmpxchgv(old -> leave_new old) next *)
| PSnapHead (k : kont) (needs : Z) (hw : bool)   (* _dispatch_group_wake with HAS_NOTIFS: os_mpsc_get_head spin *)
| PSnapStore (k : kont) (needs : Z) (hw : bool)  (* store head := NULL *)
| PSnapTail (k : kont) (needs : Z) (hw : bool)   (* xchg tail := NULL: the batch is detached here *)
| PFire (k : kont) (needs : Z) (hw : bool)       (* async + _dispatch_release(dsn_queue) per continuation *)
| PWakeFutex (k : kont) (refs : Z)               (* HAS_WAITERS: _dispatch_wake_by_address next *)
| PNfQ (b : bsrc)                          (* _dispatch_group_notify: _dispatch_retain(dq) next *)
| PNfPush (b : bsrc)                       (* os_mpsc_push_update_tail: xchg on dg_notify_tail next *)
| PNfRetain (b : bsrc)                     (* the list was empty: _dispatch_retain(dg) next *)
| PNfHead (b : bsrc)                       (* os_mpsc_push_update_prev: store head next *)
| PNfLoad (b : bsrc)                       (* rmw loop's initial load of dg_state *)
| PNfCas (b : bsrc) (old new : Z).         (* the loop tries old -> new = old | HAS_NOTIFS *)

Definition hb (k : kind) (b : bsrc) : Z :=
  match k, b with KBX, BX => 1 | KBI, BI => 1 | KBE, BE => 1 | _, _ => 0 end.
Definition hk (k : kind) (c : kont) : Z := match c with KApi b => hb k b | KImpl => 0 end.
Definition one (k k' : kind) : Z :=
  match k, k' with
  | KX, KX | KI, KI | KBX, KBX | KBI, KBI | KBE, KBE | KB2, KB2 | KE, KE | KQ, KQ | KPE, KPE | KPN, KPN | KD, KD | KXD, KXD | KDP, KDP | KB, KB => 1
  | _, _ => 0
  end.

(* tokens of kind k held by a thread at program point p whose ghost counter (continuations of a detached batch not
   yet submitted) is g *)
Definition held0 (k : kind) (p : pc) (g : Z) : Z :=
  match p with
  | PIdle | PCrash => 0
  | PRet b rx ri re => hb k b + rx * one k KX + ri * one k KI + re * one k KE
  | PRetain => hb k BX
  | PRelease => one k KX
  | PXBarrier => one k KI + one k KXD
  | PIRel c n => hk k c + n * one k KI
  | PIBarrier c => hk k c + one k KDP
  | PDispose c => hk k c + one k KDP
  | PIRetain b n => hb k b
  | PWeakLoad b => hb k b
  | PWeakCas b _ _ => hb k b
  | PEnter b => hb k b
  | PEnterRetain b => hb k b + one k KPE
  | PLeave c => hk k c + one k KE
  | PLvLoop c _ => hk k c + one k KI
  | PSnapHead c needs _ | PSnapStore c needs _ | PSnapTail c needs _ => hk k c + needs * one k KI + one k KD
  | PFire c needs _ => hk k c + (needs + 1) * one k KI + g * one k KQ
  | PWakeFutex c refs => hk k c + refs * one k KI
  | PNfQ b => hb k b
  | PNfPush b => hb k b + one k KQ
  | PNfRetain b => hb k b + one k KPN
  | PNfHead b | PNfLoad b => hb k b + one k KD
  | PNfCas b _ _ => hb k b + one k KD
  end.
Definition held (k : kind) (p : pc) (g : Z) : Z :=
  match k with
  | KB => held0 KBX p g + held0 KBI p g - held0 KPE p g
  | KB2 => held0 KBX p g + held0 KBI p g + held0 KBE p g - held0 KPN p g
  | _ => held0 k p g
  end.

(* ------------------------------------------------------------------ the per-thread automaton *)
Definition at_ (e : event) (obj off k ord : Z) : bool :=
  (eobj e =? obj) && (eoff e =? off) && (ek e =? k) && (eord e =? ord).
Definition sv (e : event) : Z := s32 (ea e).      (* a 32-bit signed counter value as the hook reports it *)

Definition end_pc (c : kont) : pc := match c with KApi b => PRet b 0 0 0 | KImpl => PIdle end.
(* _dispatch_group_wake(dg, st, needs_release): refs = needs; if (st & HAS_NOTIFS) { snapshot; fire; refs++ }
   if (st & HAS_WAITERS) wake; if (refs) _dispatch_release_n(dg, refs) *)
Definition wake_rel (c : kont) (refs : Z) : pc := if refs =? 0 then end_pc c else PIRel c refs.
Definition wake_tail (c : kont) (refs : Z) (hw : bool) : pc := if hw then PWakeFutex c refs else wake_rel c refs.
Definition wake_entry (c : kont) (st : Z) (needs : Z) : pc :=
  let hw := nz (Z.land st HW) in
  if nz (Z.land st HN) then PSnapHead c needs hw else wake_tail c needs hw.
(* after an internal sub returned `new`: inline_internal.h:229-247 *)
Definition after_irel (c : kont) (new : Z) : pc :=
  if 0 <=? new then end_pc c else if new <? -1 then PCrash else PIBarrier c.
Definition lv_entry (c : kont) (old : Z) : pc :=
  if leave_new old =? old then wake_entry c old 1 else PLvLoop c old.
(* one evaluation of the body of _dispatch_group_notify's rmw loop on the value `old` (generated body) *)
Definition nf_body (b : bsrc) (old : Z) : option pc :=
  match group_notify_loop 0 0 0 old with
  | NoCommit 1 _ => Some (wake_entry (KApi b) (Z.lor old HN) 0)       (* (uint32_t)old == 0: wake(new_state, false) *)
  | Commit new _ => Some (PNfCas b old new)
  | _ => None
  end.
(* one evaluation of the body of _os_object_retain_weak's rmw loop on the (signed) value `old` (generated body);
   the two `return` give-ups (global object: true, xref == -1: false) create no reference *)
Definition weak_body (b : bsrc) (old : Z) : option pc :=
  match retain_weak_loop 0 old with
  | NoCommit 1 _ => Some (PRet b 0 0 0)
  | NoCommit 2 _ => Some PCrash                                        (* goto overrelease *)
  | Commit new _ => Some (PWeakCas b old new)
  | _ => None
  end.

Definition borrow_of (e : event) : bsrc := if ea e / 100 =? 0 then BX else if ea e / 100 =? 1 then BI else BE.
Definition call_pc (e : event) : option pc :=
  let op := ea e mod 100 in
  let b := borrow_of e in
  if (ea e <? 0) || (300 <=? ea e) then None
  else if op =? OP_RETAIN then (if ea e / 100 =? 0 then Some PRetain else None)
  else if op =? OP_RELEASE then (if ea e / 100 =? 0 then Some PRelease else None)
  else if op =? OP_LEAVE then (if ea e / 100 =? 0 then Some (PLeave (KApi BN)) else None)
  else if op =? OP_IRELEASE then
    (if (ea e / 100 =? 0) && ((eb e =? 1) || (eb e =? 2)) then Some (PIRel (KApi BN) (eb e)) else None)
  else if op =? OP_ENTER then Some (PEnter b)
  else if op =? OP_NOTIFY then Some (PNfQ b)
  else if (op =? OP_SETCTX) || (op =? OP_SETFIN) || (op =? OP_SETTQ) then Some (PRet b 0 0 0)
  else if op =? OP_IRETAIN then (if (eb e =? 1) || (eb e =? 2) then Some (PIRetain b (eb e)) else None)
  else if op =? OP_WEAK then Some (PWeakLoad b)
  else None.

(* events of other code on the notification queue's counters (the lane's own +2 protocol, the drain on worker
   threads) and callout marks: not part of this automaton *)
Definition noise (e : event) : bool :=
  ((eobj e =? OBJ_Q) && negb ((eoff e =? OFF_REF) && (eb e =? 1) && ((ek e =? DV_ADD) || (ek e =? DV_SUB))))
  || ev_kind e DVU_CALLOUT_BEGIN || ev_kind e DVU_CALLOUT_END || ev_kind e DVU_MARK.
Definition is_qrel (e : event) : bool := at_ e OBJ_Q OFF_REF DV_SUB MO_RELEASE && (eb e =? 1).

Definition tstep1 (p : pc) (e : event) : option pc :=
  match p with
  | PIdle | PCrash => None
  | PRet _ _ _ _ => if ev_kind e DVU_RET then Some PIdle else None
  | PRetain =>      (* object.c:71: xref_cnt = add_orig(1, relaxed); < 0: resurrection crash *)
      if at_ e OBJ_G OFF_XREF DV_ADD MO_RELAXED && (eb e =? 1)
      then Some (if sv e <? 0 then PCrash else PRet BX 1 0 0) else None
  | PRelease =>     (* object.c:92: xref_cnt = sub(1, release); >= 0 return; < -1 crash; else xref_dispose *)
      if at_ e OBJ_G OFF_XREF DV_SUB MO_RELEASE && (eb e =? 1)
      then let new := s32 (sv e - 1) in
           Some (if 0 <=? new then PRet BN 0 0 0 else if new <? -1 then PCrash else PXBarrier) else None
  | PXBarrier =>    (* init.c:1573 _os_object_xrefcnt_dispose_barrier; _dispatch_xref_dispose: nothing for a group *)
      if at_ e OBJ_G OFF_XREF DV_LOAD MO_ACQUIRE then Some (PIRel (KApi BN) 1) else None
  | PIRel c n =>
      if at_ e OBJ_G OFF_REF DV_SUB MO_RELEASE && (eb e =? n) then Some (after_irel c (s32 (sv e - n))) else None
  | PIBarrier c => if at_ e OBJ_G OFF_REF DV_LOAD MO_ACQUIRE then Some (PDispose c) else None
  | PDispose c =>   (* semaphore.c:182: (uint32_t)dg_state != 0: "Group object deallocated while in use" *)
      if at_ e OBJ_G OFF_STATE DV_LOAD MO_RELAXED then Some (if nz (u32 (ea e)) then PCrash else end_pc c) else None
  | PIRetain b n =>
      if at_ e OBJ_G OFF_REF DV_ADD MO_RELAXED && (eb e =? n)
      then Some (if sv e <? 0 then PCrash else PRet b 0 n 0) else None
  | PWeakLoad b => if at_ e OBJ_G OFF_XREF DV_LOAD (mo_code retain_weak_loop_order) then weak_body b (sv e) else None
  | PWeakCas b old new =>
      if at_ e OBJ_G OFF_XREF DV_CASW (mo_code retain_weak_loop_order) && (s32 (eb e) =? new)
      then (if eok e =? 1 then Some (PRet b 1 0 0) else weak_body b (sv e)) else None
  | PEnter b =>     (* semaphore.c:311: old_bits = sub_orig(dg_bits, INTERVAL, acquire) *)
      if at_ e OBJ_G OFF_STATE DV_SUB MO_ACQUIRE && (eb e =? INTERVAL)
      then let old_value := Z.land (ea e) VMASK in
           Some (if old_value =? 0 then PEnterRetain b else if old_value =? VMAX then PCrash else PRet b 0 0 1)
      else None
  | PEnterRetain b =>
      if at_ e OBJ_G OFF_REF DV_ADD MO_RELAXED && (eb e =? 1)
      then Some (if sv e <? 0 then PCrash else PRet b 0 0 1) else None
  | PLeave c =>     (* semaphore.c:280: old_state = add_orig(dg_state, INTERVAL, release) *)
      if at_ e OBJ_G OFF_STATE DV_ADD MO_RELEASE && (eb e =? INTERVAL)
      then let old_value := Z.land (ea e) VMASK in
           Some (if old_value =? V1 then lv_entry c (u64 (ea e + INTERVAL))
                 else if old_value =? 0 then PCrash else end_pc c)
      else None
  | PLvLoop c old =>
      if at_ e OBJ_G OFF_STATE DV_CAS MO_RELAXED && (eb e =? leave_new old)
      then Some (if eok e =? 1 then wake_entry c old 1 else lv_entry c (ea e)) else None
  | PSnapHead c needs hw =>
      if at_ e OBJ_G OFF_HEAD DV_LOAD MO_ACQUIRE
      then Some (if ea e =? 0 then PSnapHead c needs hw else PSnapStore c needs hw) else None
  | PSnapStore c needs hw =>
      if at_ e OBJ_G OFF_HEAD DV_STORE MO_RELAXED && (eb e =? 0) then Some (PSnapTail c needs hw) else None
  | PSnapTail c needs hw =>
      if at_ e OBJ_G OFF_TAIL DV_XCHG MO_RELEASE && (eb e =? 0) then Some (PFire c needs hw) else None
  | PFire _ _ _ => None      (* handled by tstep *)
  | PWakeFutex c refs => if ev_kind e DV_FUTEX_WAKE then Some (wake_rel c refs) else None
  | PNfQ b => if at_ e OBJ_Q OFF_REF DV_ADD MO_RELAXED && (eb e =? 1) then Some (PNfPush b) else None
  | PNfPush b =>
      if at_ e OBJ_G OFF_TAIL DV_XCHG MO_RELEASE
      then Some (if ea e =? 0 then PNfRetain b else PRet b 0 0 0) else None
  | PNfRetain b =>
      if at_ e OBJ_G OFF_REF DV_ADD MO_RELAXED && (eb e =? 1)
      then Some (if sv e <? 0 then PCrash else PNfHead b) else None
  | PNfHead b => if at_ e OBJ_G OFF_HEAD DV_STORE MO_RELAXED then Some (PNfLoad b) else None
  | PNfLoad b => if at_ e OBJ_G OFF_STATE DV_LOAD MO_RELAXED then nf_body b (ea e) else None
  | PNfCas b old new =>
      if at_ e OBJ_G OFF_STATE DV_CASW (mo_code group_notify_loop_order) && (eb e =? new)
      then (if eok e =? 1 then Some (PRet b 0 0 0) else nf_body b (ea e)) else None
  end.

Definition tstep (p : pc) (e : event) : option pc :=
  if noise e then (match p with PCrash => None | _ => Some p end)
  else match p with
  | PIdle => if ev_kind e DVU_CALL then call_pc e
             else tstep1 (PLeave KImpl) e          (* the leave after a dispatch_group_async item, on a worker *)
  | PFire c needs hw =>
      if is_qrel e then Some p                      (* _dispatch_release(dsn_queue) of one more continuation *)
      else tstep1 (wake_tail c (needs + 1) hw) e    (* the batch is exhausted: refs++ and go on *)
  | _ => tstep1 p e
  end.

(* ------------------------------------------------------------------ global model *)
Inductive greg :=
| XREF | IREF                     (* os_obj_xref_cnt, os_obj_ref_cnt *)
| GVAL | GNOT                     (* outstanding enters; HAS_NOTIFS *)
| NTAIL | NLEN                    (* dg_notify_tail != NULL; continuations on the list *)
| CTX | FIN | TQ                  (* do_ctxt, do_finalizer != NULL, do_targetq (an abstract queue id) *)
| XPOOL | IPOOL | EPOOL           (* ghost: tokens between calls: application's references, other internal holders, enters *)
| XALIVE                          (* ghost: 1 until xref reaches -1 *)
| XDISP | DISP | FREED            (* ghost: runs of xref_dispose / dispose; memory released *)
| NFIN | FINCTX | FINQ            (* ghost: finalizer submissions, with which context, to which queue *)
| QRET | QREL                     (* ghost: retains / releases of the notification queue by notify / wake *)
| TRET | TREL                     (* ghost: retains / releases of target queues by this object *)
| CRASH.
Definition greg_id (r : greg) : Z :=
  match r with
  | XREF => 0 | IREF => 1 | GVAL => 2 | GNOT => 3 | NTAIL => 4 | NLEN => 5 | CTX => 6 | FIN => 7 | TQ => 8
  | XPOOL => 9 | IPOOL => 10 | EPOOL => 11 | XALIVE => 12 | XDISP => 13 | DISP => 14 | FREED => 15 | NFIN => 16
  | FINCTX => 17 | FINQ => 18 | QRET => 19 | QREL => 20 | TRET => 21 | TREL => 22 | CRASH => 23
  end.
Definition setr (f : greg -> Z) (r : greg) (v : Z) : greg -> Z :=
  fun r' => if greg_id r' =? greg_id r then v else f r'.
Fixpoint apply_ups (ups : list (greg * Z)) (f : greg -> Z) : greg -> Z :=
  match ups with [] => f | (r, v) :: ups' => apply_ups ups' (setr f r v) end.

Record gst := {
  regs : greg -> Z;
  priv : kind -> Z;          (* ghost: tokens held by calls in progress, per kind *)
  pcs : Z -> pc;
  gn : Z -> Z                (* ghost, per thread: continuations of its detached batch not yet submitted *)
}.

Definition init_regs : greg -> Z :=
  fun r => match r with XPOOL | XALIVE | TRET => 1 | XREF | IREF | _ => 0 end.
(* a freshly created object: one external reference held by the creator; both counters 0 *)
Definition init_state : gst :=
  {| regs := init_regs; priv := fun _ => 0; pcs := fun _ => PIdle; gn := fun _ => 0 |}.

Definition guard (c : bool) (x : list (greg * Z) * Z) : option (list (greg * Z) * Z) := if c then Some x else None.

(* memory / ghost effect of the event e performed at program point p (other than PIdle / PFire / PRet):
   None = the value the event reports is inconsistent with the memory (or with the abstraction of dg_state).
   Nothing is disabled here to keep a crash away: counter saturation wraps (s32) as in C, the 2^30-th nested enter
   and a dispose that reads a non-zero low word go to PCrash; the bounds under which they cannot happen are the
   explicit client contract `contract_r` below. *)
Definition MAXE := 1073741823.     (* 2^30 - 1 outstanding enters: the next one reads DISPATCH_GROUP_VALUE_MAX and crashes *)
Definition effect1 (r : greg -> Z) (g : Z) (p : pc) (e : event) : option (list (greg * Z) * Z) :=
  match p with
  | PIdle | PCrash | PRet _ _ _ _ | PFire _ _ _ => None
  | PRetain =>
      guard (sv e =? r XREF) ([(XREF, s32 (r XREF + 1))], g)
  | PRelease =>
      let new := s32 (r XREF - 1) in
      guard (sv e =? r XREF) ([(XREF, new); (XALIVE, if new =? -1 then 0 else r XALIVE)], g)
  | PXBarrier => guard (sv e =? r XREF) ([(XDISP, r XDISP + 1)], g)
  | PIRel _ n => guard (sv e =? r IREF) ([(IREF, s32 (r IREF - n))], g)
  | PIBarrier _ => guard (sv e =? r IREF) ([], g)
  | PDispose _ =>
      if nz (u32 (ea e)) then Some ([], g)      (* "Group object deallocated while in use": PCrash *)
      else
        let f := nz (r FIN) && nz (r CTX) in
        guard ((r GVAL =? 0) && (r GNOT =? 0))
          ([(DISP, r DISP + 1); (FREED, 1); (TREL, r TREL + 1);
            (NFIN, r NFIN + (if f then 1 else 0)); (FINCTX, if f then r CTX else r FINCTX);
            (FINQ, if f then r TQ else r FINQ)], g)
  | PIRetain _ n => guard (sv e =? r IREF) ([(IREF, s32 (r IREF + n))], g)
  | PWeakLoad _ => guard (sv e =? r XREF) ([], g)
  | PWeakCas _ old new =>
      guard ((sv e =? r XREF) && (negb (eok e =? 1) || (r XREF =? old)))
            ((if eok e =? 1 then [(XREF, new)] else []), g)
  | PEnter _ =>
      let old_value := Z.land (ea e) VMASK in
      if old_value =? 0 then guard (r GVAL =? 0) ([(GVAL, 1)], g)
      else if old_value =? VMAX then guard (r GVAL =? MAXE) ([(GVAL, r GVAL + 1)], g)    (* "Too many nested calls": PCrash *)
      else guard (1 <=? r GVAL) ([(GVAL, r GVAL + 1)], g)
  | PEnterRetain _ | PNfRetain _ =>
      guard (sv e =? r IREF) ([(IREF, s32 (r IREF + 1))], g)
  | PLeave _ =>
      let old_value := Z.land (ea e) VMASK in
      if old_value =? V1 then guard (r GVAL =? 1) ([(GVAL, 0)], g)
      else if old_value =? 0 then guard (r GVAL =? 0) ([], g)
      else guard (2 <=? r GVAL) ([(GVAL, r GVAL - 1)], g)
  | PLvLoop _ old =>
      if eok e =? 1 then guard (b2z (nz (Z.land old HN)) =? r GNOT) ([(GNOT, 0)], g) else Some ([], g)
  | PSnapHead _ _ _ | PSnapStore _ _ _ => Some ([], g)
  | PSnapTail _ _ _ => Some ([(NTAIL, 0); (NLEN, 0)], r NLEN)
  | PWakeFutex _ _ => Some ([], g)
  | PNfQ _ => Some ([(QRET, r QRET + 1)], g)
  | PNfPush _ =>
      if ea e =? 0 then guard (r NTAIL =? 0) ([(NTAIL, 1); (NLEN, r NLEN + 1)], g)
      else guard (r NTAIL =? 1) ([(NLEN, r NLEN + 1)], g)
  | PNfHead _ | PNfLoad _ => Some ([], g)
  | PNfCas _ old _ =>
      if eok e =? 1 then guard (b2z (nz (Z.land old HN)) =? r GNOT) ([(GNOT, 1)], g) else Some ([], g)
  end.

(* The reference discipline of the client (an enabling condition: it defines which calls the client makes):
   - a call that USES the object through a reference of level X / I needs such a reference to exist in the pool
     (someone owns it and keeps it for the duration of the call: see the last two lines); it does not take it;
   - a call that RELEASES takes the references it releases out of the pool (it owns them from then on); the same
     for a leave and its enter;
   - a call may also use the group under an OUTSTANDING ENTER (borrow BE: an enter that has returned and whose leave has
     not begun: the group's own +1 keeps it alive), e.g. from inside a dispatch_group_async block after the last release;
   - while calls in progress borrow a reference of a level (pv KBX / pv KBI > 0), a release of that level must leave
     at least one reference of that level in the pool; while calls use the group under outstanding enters
     (pv KBE > 0), a leave must leave at least one outstanding enter. *)
Definition call_guard (r : greg -> Z) (pv : kind -> Z) (p' : pc) : bool :=
  (held KX p' 0 <=? r XPOOL) && (held KI p' 0 <=? r IPOOL) && (held KE p' 0 <=? r EPOOL) &&
  (held KBX p' 0 <=? r XPOOL - held KX p' 0) && (held KBI p' 0 <=? r IPOOL - held KI p' 0) &&
  (held KBE p' 0 <=? r EPOOL - held KE p' 0) &&
  ((held KE p' 0 =? 0) || (1 <=? r EPOOL - held KE p' 0) || (pv KBE =? 0)) &&
  ((held KX p' 0 =? 0) || (1 <=? r XPOOL - held KX p' 0) || (pv KBX =? 0)) &&
  ((held KI p' 0 =? 0) || (1 <=? r IPOOL - held KI p' 0) || (pv KBI =? 0)).

Definition effect (r : greg -> Z) (pv : kind -> Z) (g : Z) (p : pc) (e : event) : option (list (greg * Z) * Z) :=
  if noise e then Some ([], g)
  else match p with
  | PIdle =>
      if ev_kind e DVU_CALL then
        match call_pc e with
        | None => None
        | Some p' =>       (* the call takes the tokens it needs out of the pools *)
            let op := ea e mod 100 in
            guard (call_guard r pv p')
              ([(XPOOL, r XPOOL - held KX p' 0); (IPOOL, r IPOOL - held KI p' 0); (EPOOL, r EPOOL - held KE p' 0)] ++
               (if op =? OP_SETCTX then [(CTX, eb e)]
                else if op =? OP_SETFIN then [(FIN, eb e)]
                else if op =? OP_SETTQ then [(TQ, eb e); (TRET, r TRET + 1); (TREL, r TREL + 1)]
                else []), g)
        end
      else     (* library-internal leave: consumes an enter *)
        match effect1 r g (PLeave KImpl) e with
        | Some (ups, g') => guard ((1 <=? r EPOOL) && ((2 <=? r EPOOL) || (pv KBE =? 0))) ((EPOOL, r EPOOL - 1) :: ups, g')
        | None => None
        end
  | PRet _ _ _ _ =>
      Some ([(XPOOL, r XPOOL + held KX p g); (IPOOL, r IPOOL + held KI p g); (EPOOL, r EPOOL + held KE p g)], g)
  | PFire c needs hw =>
      if is_qrel e then guard (1 <=? g) ([(QREL, r QREL + 1)], g - 1)
      else if g =? 0 then effect1 r g (wake_tail c (needs + 1) hw) e else None
  | _ => effect1 r g p e
  end.

Definition is_crash (p : pc) : bool := match p with PCrash => true | _ => false end.

Definition gstep (s : gst) (t : Z) (e : event) : option gst :=
  let p := pcs s t in
  let g := gn s t in
  match tstep p e with
  | None => None
  | Some p' =>
      match effect (regs s) (priv s) g p e with
      | None => None
      | Some (ups, g') =>
          let r1 := apply_ups ups (regs s) in
          Some {| regs := if is_crash p' then setr r1 CRASH 1 else r1;
                  priv := fun k => priv s k + held k p' g' - held k p g;
                  pcs := upd (pcs s) t p';
                  gn := upd (gn s) t g' |}
      end
  end.

(* The quantitative part of the client contract, explicit (every theorem is about runs all of whose steps satisfy it):
   fewer than 2^31-2 references of each level, fewer than 2^30-1 outstanding enters, and — the one fact about the part
   of dg_state this model keeps abstract — when the group is disposed its low word is zero unless the value or
   HAS_NOTIFS say so, i.e. HAS_WAITERS is not left set on an empty group (C07: the leave that empties the group
   clears it; a waiter inside dispatch_group_wait borrows a reference, so none is inside at dispose). *)
Definition contract_r (r : greg -> Z) (p : pc) (e : event) : bool :=
  (r XREF + 1 <? MAXC) && (r IREF + 2 <? MAXC) && (r GVAL <? MAXE) &&
  match p with
  | PDispose _ => negb (nz (u32 (ea e))) || (0 <? r GVAL) || (r GNOT =? 1)
  | _ => true
  end.
Definition contractb (s : gst) (t : Z) (e : event) : bool := contract_r (regs s) (pcs s t) e.

Definition step (s : gst) (a : Z * event) (s' : gst) : Prop :=
  contractb s (fst a) (snd a) = true /\ gstep s (fst a) (snd a) = Some s'.
Definition reach : gst -> Prop := reachable (fun s => s = init_state) step.

Fixpoint grun (s : gst) (tr : list (Z * event)) : option gst :=
  match tr with
  | [] => Some s
  | (t, e) :: tr' => match gstep s t e with Some s' => grun s' tr' | None => None end
  end.

(* the same, checking the quantitative contract at every step: a run accepted here is a run of `step` *)
Fixpoint grunc (s : gst) (tr : list (Z * event)) : option gst :=
  match tr with
  | [] => Some s
  | (t, e) :: tr' => if contractb s t e then match gstep s t e with Some s' => grunc s' tr' | None => None end else None
  end.

(* ------------------------------------------------------------------ correspondence drivers *)
(* (1) per-thread trace conformance *)
Definition pc_idle (p : pc) : Z := match p with PIdle => 1 | _ => 0 end.
Definition conform (self : Z) (tr : list event) : Z * Z :=
  let '(p, i) := run_trace tstep PIdle tr 0 in (i, pc_idle p).

(* (2) sequential execution of API calls by one thread, each run to completion: the event the memory would
   produce at each program point is synthesised from the model's own state and fed to gstep.  The concrete
   dg_state word carries only the fields this model keeps (value, HAS_NOTIFS). *)
Definition dgword (r : greg -> Z) : Z := Z.lor (u32 (- (INTERVAL * r GVAL))) (if r GNOT =? 1 then HN else 0).
Definition ev0 (k ord obj off sz a b ok : Z) : event := mkEv k ord obj off sz a b ok.
Definition synth (r : greg -> Z) (g : Z) (p : pc) : option event :=
  let xr := u64 (r XREF) in let ir := u64 (r IREF) in
  match p with
  | PIdle | PCrash => None
  | PRet _ _ _ _ => Some (ev0 DVU_RET 0 OBJ_G 0 0 0 0 1)
  | PRetain => Some (ev0 DV_ADD MO_RELAXED OBJ_G OFF_XREF 4 xr 1 1)
  | PRelease => Some (ev0 DV_SUB MO_RELEASE OBJ_G OFF_XREF 4 xr 1 1)
  | PXBarrier => Some (ev0 DV_LOAD MO_ACQUIRE OBJ_G OFF_XREF 4 xr xr 1)
  | PIRel _ n => Some (ev0 DV_SUB MO_RELEASE OBJ_G OFF_REF 4 ir n 1)
  | PIBarrier _ => Some (ev0 DV_LOAD MO_ACQUIRE OBJ_G OFF_REF 4 ir ir 1)
  | PDispose _ => Some (ev0 DV_LOAD MO_RELAXED OBJ_G OFF_STATE 8 (dgword r) (dgword r) 1)
  | PIRetain _ n => Some (ev0 DV_ADD MO_RELAXED OBJ_G OFF_REF 4 ir n 1)
  | PWeakLoad _ => Some (ev0 DV_LOAD MO_RELAXED OBJ_G OFF_XREF 4 xr xr 1)
  | PWeakCas _ _ new => Some (ev0 DV_CASW MO_RELAXED OBJ_G OFF_XREF 4 xr (u64 new) 1)
  | PEnter _ => Some (ev0 DV_SUB MO_ACQUIRE OBJ_G OFF_STATE 4 (dgword r) INTERVAL 1)
  | PEnterRetain _ | PNfRetain _ => Some (ev0 DV_ADD MO_RELAXED OBJ_G OFF_REF 4 ir 1 1)
  | PLeave _ => Some (ev0 DV_ADD MO_RELEASE OBJ_G OFF_STATE 8 (dgword r) INTERVAL 1)
  | PLvLoop _ old => Some (ev0 DV_CAS MO_RELAXED OBJ_G OFF_STATE 8 (dgword r) (leave_new old) 1)
  | PSnapHead _ _ _ => Some (ev0 DV_LOAD MO_ACQUIRE OBJ_G OFF_HEAD 8 1 1 1)
  | PSnapStore _ _ _ => Some (ev0 DV_STORE MO_RELAXED OBJ_G OFF_HEAD 8 0 0 1)
  | PSnapTail _ _ _ => Some (ev0 DV_XCHG MO_RELEASE OBJ_G OFF_TAIL 8 1 0 1)
  | PFire c needs hw =>
      if 0 <? g then Some (ev0 DV_SUB MO_RELEASE OBJ_Q OFF_REF 4 1 1 1)
      else if hw then Some (ev0 DV_FUTEX_WAKE 0 OBJ_G OFF_GEN 0 0 0 1)
      else Some (ev0 DV_SUB MO_RELEASE OBJ_G OFF_REF 4 ir (needs + 1) 1)
  | PWakeFutex _ _ => Some (ev0 DV_FUTEX_WAKE 0 OBJ_G OFF_GEN 0 0 0 1)
  | PNfQ _ => Some (ev0 DV_ADD MO_RELAXED OBJ_Q OFF_REF 4 1 1 1)
  | PNfPush _ => Some (ev0 DV_XCHG MO_RELEASE OBJ_G OFF_TAIL 8 (r NTAIL) 1 1)
  | PNfHead _ => Some (ev0 DV_STORE MO_RELAXED OBJ_G OFF_HEAD 8 0 1 1)
  | PNfLoad _ => Some (ev0 DV_LOAD MO_RELAXED OBJ_G OFF_STATE 8 (dgword r) (dgword r) 1)
  | PNfCas _ _ new => Some (ev0 DV_CASW MO_RELEASE OBJ_G OFF_STATE 8 (dgword r) new 1)
  end.

Fixpoint run_to_idle (fuel : nat) (s : gst) (t : Z) : option gst :=
  match fuel with
  | O => None
  | S fuel' =>
      match pcs s t with
      | PIdle => Some s
      | p => match synth (regs s) (gn s t) p with
             | None => None
             | Some e => match gstep s t e with Some s' => run_to_idle fuel' s' t | None => None end
             end
      end
  end.
(* one API call (op, through an internal reference?, argument) by thread 1, to completion *)
Definition do_call (s : gst) (c : Z * Z * Z) : option gst :=
  let '(op, bi, arg) := c in
  match gstep s 1 (ev0 DVU_CALL 0 OBJ_G 0 0 (op + 100 * bi) arg 1) with
  | Some s' => run_to_idle 4000 s' 1
  | None => None
  end.
(* observation after each call: xref, ref, finalizer submissions, their context, their queue, freed, crash *)
Definition obs (s : gst) : list Z :=
  let r := regs s in [r XREF; r IREF; r NFIN; r FINCTX; r FINQ; r FREED; r CRASH; r QRET - r QREL].
Fixpoint seq_run (s : gst) (cs : list (Z * Z * Z)) : list (list Z) :=
  match cs with
  | [] => []
  | c :: cs' => match do_call s c with
                | Some s' => obs s' :: seq_run s' cs'
                | None => [[-99]]        (* the model refuses the call: an ill-behaved client or a model gap *)
                end
  end.

(* the same for several threads, keeping the schedule (examples, replays): a call is (thread, op, internal?, arg);
   op 0 = the library-internal dispatch_group_leave a worker performs after a dispatch_group_async item *)
Fixpoint trace_to_idle (fuel : nat) (s : gst) (t : Z) (acc : list (Z * event)) : option (gst * list (Z * event)) :=
  match fuel with
  | O => None
  | S fuel' =>
      match pcs s t with
      | PIdle => Some (s, acc)
      | p => match synth (regs s) (gn s t) p with
             | None => None
             | Some e => match gstep s t e with
                         | Some s' => trace_to_idle fuel' s' t (acc ++ [(t, e)])
                         | None => None
                         end
             end
      end
  end.
Definition first_event (s : gst) (c : Z * Z * Z * Z) : Z * event :=
  let '(t, op, bi, arg) := c in
  if op =? 0 then (t, ev0 DV_ADD MO_RELEASE OBJ_G OFF_STATE 8 (dgword (regs s)) INTERVAL 1)
  else (t, ev0 DVU_CALL 0 OBJ_G 0 0 (op + 100 * bi) arg 1).
Fixpoint sched_of (s : gst) (cs : list (Z * Z * Z * Z)) : option (list (Z * event)) :=
  match cs with
  | [] => Some []
  | c :: cs' =>
      let '(t, e) := first_event s c in
      match gstep s t e with
      | None => None
      | Some s1 => match trace_to_idle 4000 s1 t [(t, e)] with
                   | None => None
                   | Some (s2, tr) => match sched_of s2 cs' with Some tr' => Some (tr ++ tr') | None => None end
                   end
      end
  end.

(* ------------------------------------------------------------------ (c) lanes and sources, sequential holders spec
   PARTIAL: not an interleaving model.  At a quiescent point (nothing enqueued, no drainer, no wakeup in flight) the
   internal count of a lane / source is determined by its holders:
     +1 while external references exist (released by _dispatch_xref_dispose),
     +2 while initially inactive (inline_internal.h _dispatch_queue_init, released by the activating resume),
     +2 while suspended (queue.c _dispatch_lane_suspend, released after the wakeup of the last resume),
     +1 per object whose do_targetq it is (child queues, sources),
     +2 while its timer is armed (event/event.c _dispatch_timer_unote_arm / disarm),
     +1 for a source until DSF_DELETED is set (source.c, released by _dispatch_source_refs_finalize_unregistration);
   the push +2 (queue.c:5052) is always consumed by wakeup / invoke / invoke_finish before quiescence. *)
Record lobj := { lx : Z; linactive : bool; lsusp : Z; lkids : Z; lsrc : bool; ldeleted : bool; larmed : bool }.
Definition lane_ref (o : lobj) : Z :=
  (if 0 <? lx o then 1 else 0) + (if linactive o then 2 else 0) + (if (0 <? lsusp o) && negb (linactive o) then 2 else 0) + lkids o +
  (if larmed o then 2 else 0) + (if lsrc o && negb (ldeleted o) then 1 else 0) - 1.
Definition lane_xref (o : lobj) : Z := lx o - 1.
Definition lane_disposed (o : lobj) : bool := lane_ref o <? 0.
