(* Suspend.v — sequential model of dispatch_suspend / dispatch_resume / dispatch_activate on a lane
   (src/queue.c:2897-3160, src/object.c:298-336) whose item list is empty and which nobody is draining.
   Every transition of the state word is a generated body of Gen_dqstate (regenerated from the source);
   hand-written: the code around the loops (delta computation under the side lock, the side counter,
   what happens after the loop). *)
From Coq Require Import ZArith Bool List.
From Verif Require Import Word Gen_consts Gen_dqstate.
Import ListNotations.
Local Open Scope Z_scope.

Definition INTERVAL := 288230376151711744.        (* DISPATCH_QUEUE_SUSPEND_INTERVAL = 2^58 *)
Definition HALF := 32.                            (* DISPATCH_QUEUE_SUSPEND_HALF *)
Definition HAS_SIDE := 144115188075855872.        (* DISPATCH_QUEUE_HAS_SIDE_SUSPEND_CNT = 2^57 *)
Definition INACTIVE := 72057594037927936.         (* 2^56 *)
Definition NEEDS_ACT := 36028797018963968.        (* 2^55 *)
Definition SUSPEND_BITS := 18410715276690587648.  (* DISPATCH_QUEUE_SUSPEND_BITS_MASK *)
Definition IN_BARRIER := 18014398509481984.
Definition WIDTH_FULL_BIT := 9007199254740992.
Definition WIDTH_INTERVAL := 2199023255552.

Record sq := { st : Z; side : Z; width : Z; self : Z }.
Inductive res := ROk (q : sq) | RCrash (tag : Z) | RStuck.

Definition with_st (q : sq) (s : Z) := {| st := s; side := side q; width := width q; self := self q |}.
Definition with_side (q : sq) (s : Z) (n : Z) := {| st := s; side := n; width := width q; self := self q |}.

(* _dispatch_lane_suspend_slow, single-threaded: the retry path re-enters _dispatch_lane_suspend *)
Definition suspend_slow (q : sq) : res :=
  let delta := u64 (u64 (HALF * INTERVAL) - INTERVAL) in
  let delta := if side q =? 0 then u64 (delta - HAS_SIDE) else delta in
  match suspend_slow_loop 0 (st q) delta with
  | Commit new _ => if 4294967296 <=? side q + HALF then RCrash 1 else ROk (with_side q new (side q + HALF))
  | _ => RStuck      (* would retry dispatch_suspend: impossible without a concurrent thread *)
  end.

Definition suspend (q : sq) : res :=
  match suspend_loop 0 (st q) with
  | Commit new _ => ROk (with_st q new)
  | NoCommit _ _ => suspend_slow q
  | _ => RStuck
  end.

(* unlock of the full-width lock that resume takes for a hand-off when the queue is empty:
   _dispatch_lane_barrier_complete -> _dispatch_lane_class_barrier_complete with no target *)
Definition barrier_complete_empty (q : sq) : res :=
  let owned := u64 (IN_BARRIER + width q * WIDTH_INTERVAL) in
  match class_barrier_complete_loop 0 0 0 0 owned (st q) 0 with
  | Commit new _ => ROk (with_st q new)
  | _ => RStuck
  end.

(* _dispatch_lane_resume_slow *)
Definition resume_slow (resume : sq -> res) (q : sq) : res :=
  let delta := u64 (u64 (HALF * INTERVAL) - INTERVAL) in
  if side q =? 0 then resume q
  else
    let delta := if side q =? HALF then u64 (delta - HAS_SIDE) else delta in
    match resume_slow_loop 0 (st q) delta with
    | Commit new _ => ROk (with_side q new (side q - HALF))
    | _ => RStuck
    end.

(* _dispatch_lane_resume_activate -> dq_activate = _dispatch_lane_activate -> _dispatch_lane_inherit_wlh_from_target:
   a queue created by dispatch_queue_create targets a root queue and is not a workloop base here: BASE_ANON *)
Definition ROLE_BASE_ANON := 68719476736.
Definition activate_role (s : Z) : Z :=
  match inherit_wlh_loop 0 0 s ROLE_BASE_ANON with Commit new _ => new | _ => s end.

(* _dispatch_lane_resume(dq, activate = false) for a plain queue (is_source = 0); fuel bounds the
   resume -> resume_activate -> resume recursion (depth 2 in the code) *)
Fixpoint resume (fuel : nat) (q : sq) : res :=
  match fuel with O => RStuck | S fuel' =>
  let pbw := u64 (u32 (width q - 1) * WIDTH_INTERVAL) in
  let lockbits := Z.lor (Z.lor (self q) WIDTH_FULL_BIT) IN_BARRIER in
  match resume_loop 0 0 (st q) 0 pbw lockbits with
  | Commit new _ =>
      let old := st q in
      if nz (Z.land (Z.lxor old new) NEEDS_ACT) then resume fuel' (with_st q (activate_role new))  (* resume_activate *)
      else if nz (f_dq_state_is_suspended new) then ROk (with_st q new)
      else if nz (Z.land (Z.lxor old new) IN_BARRIER) then barrier_complete_empty (with_st q new)
      else ROk (with_st q new)                       (* plain wakeup of an empty queue: nothing to run *)
  | NoCommit _ _ =>                                  (* underflow of the inline count *)
      if nz (Z.land (st q) HAS_SIDE) then resume_slow (resume fuel') q else RCrash 2   (* over-resume *)
  | Restart _ => RStuck
  | Word.Crash t => RCrash t
  end end.

(* dispatch_activate = _dispatch_lane_resume(dq, true) *)
Definition activate (q : sq) : res :=
  match resume_activate_loop 0 1 (st q) with
  | Commit new _ =>
      if nz (Z.land (Z.lxor (st q) new) NEEDS_ACT) then resume 4 (with_st q (activate_role new))
      else if nz (f_dq_state_is_suspended new) then ROk (with_st q new) else RCrash 3
  | NoCommit _ _ => ROk q           (* already active: no-op *)
  | _ => RStuck
  end.

(* initial state of a created queue (src/inline_internal.h:1123 _dispatch_queue_init) *)
Definition init_st (w : Z) (inactive : bool) : Z :=
  Z.shiftl (4096 - w) 41 + (if inactive then INACTIVE + NEEDS_ACT else 0).

(* abstraction: total number of outstanding suspensions *)
Definition sc (s : Z) : Z := s / INTERVAL.
Definition total (q : sq) : Z := sc (st q) + side q.
Definition suspended (q : sq) : bool := nz (f_dq_state_is_suspended (st q)).

Inductive op := OSuspend | OResume | OActivate.
Definition apply_op (q : sq) (o : op) : res :=
  match o with OSuspend => suspend q | OResume => resume 4 q | OActivate => activate q end.
Fixpoint run_ops (q : sq) (ops : list op) : res * list (Z * Z) :=
  match ops with
  | [] => (ROk q, [])
  | o :: ops' => match apply_op q o with
                 | ROk q' => let '(r, l) := run_ops q' ops' in (r, (st q', side q') :: l)
                 | r => (r, [])
                 end
  end.

(* the word-level effect of dispatch_resume on an activated queue (its linearisation): the commit of the main
   loop or, when the inline count is exhausted and the side bit is set, of the slow path.  What follows the
   commit (wakeup, lock hand-off) does not touch the suspend-count part of the word. *)
Definition resume_word (q : sq) : option sq :=
  let pbw := u64 (u32 (width q - 1) * WIDTH_INTERVAL) in
  let lockbits := Z.lor (Z.lor (self q) WIDTH_FULL_BIT) IN_BARRIER in
  match resume_loop 0 0 (st q) 0 pbw lockbits with
  | Commit new _ => Some (with_st q new)
  | NoCommit _ _ =>
      if nz (Z.land (st q) HAS_SIDE) then
        if side q =? 0 then None
        else
          let delta := u64 (u64 (HALF * INTERVAL) - INTERVAL) in
          let delta := if side q =? HALF then u64 (delta - HAS_SIDE) else delta in
          match resume_slow_loop 0 (st q) delta with
          | Commit new _ => Some (with_side q new (side q - HALF))
          | _ => None
          end
      else None
  | _ => None
  end.
Definition suspend_word (q : sq) : option sq := match suspend q with ROk q' => Some q' | _ => None end.
