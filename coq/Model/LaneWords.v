(* LaneWords.v — word-transition conformance (definitions only): decide, for one recorded iteration of a dq_state
   read-modify-write of the running library, whether the transition function that src2v generated for that source line
   (Gen_dqstate.dqstate_site_table / dqstate_apply) produces the recorded result. Evaluated by lib/lanewords.py on the
   recordings of harness/c01_lanewords.c; nothing here is proved, it only has to run. *)
From Verif Require Import Word Gen_consts Gen_fields Gen_dqstate.
Local Open Scope Z_scope.
Local Open Scope bool_scope.

(* generated functions whose atomic statement covers (file id, line) with the hook kind `kind` *)
Definition site_fns (file line kind : Z) : list Z :=
  fold_right (fun '(f, lo, hi, k, fn) acc =>
                if (f =? file) && (lo <=? line) && (line <=? hi) && (k =? kind) then fn :: acc else acc)
             [] dqstate_site_table.

(* the dq_state operations among the atomic operations of a give-up block, as (hook kind, operand) *)
Definition aop_word (a : aop) : option (Z * Z) :=
  match a with
  | AXor f v _ => if Nat.eqb f F_dq_state then Some (10, v) else None
  | AOr f v _ => if Nat.eqb f F_dq_state then Some (9, v) else None
  | AAnd f v _ => if Nat.eqb f F_dq_state then Some (8, v) else None
  | ASub f v _ => if Nat.eqb f F_dq_state then Some (7, v) else None
  | AAdd f v _ => if Nat.eqb f F_dq_state then Some (6, v) else None
  | AStore f v _ => if Nat.eqb f F_dq_state then Some (2, v) else None
  | AFence _ | AOther _ _ => None
  end.
Fixpoint aops_word (xs : list aop) : list (Z * Z) :=
  match xs with [] => [] | a :: r => match aop_word a with Some p => p :: aops_word r | None => aops_word r end end.

(* recorded (kind, operand) list against the model's: same kinds in order; operands equal, except that loop-only
   translations leave the operand of a give-up operation untranslated (0): then only the kind is compared, and the
   operation itself is checked as a transition of its own (the *_dirty_op functions) *)
Fixpoint ops_match (model recd : list (Z * Z)) : bool :=
  match model, recd with
  | [], [] => true
  | (k, v) :: m, (k', v') :: r => (k =? k') && ((v =? 0) || (v =? v')) && ops_match m r
  | _, _ => false
  end.

Definition commits_to (o : option rmw_outcome) (new : Z) : bool :=
  match o with Some (Commit n _) => n =? new | _ => false end.
Definition gives_up_with (o : option rmw_outcome) (recd : list (Z * Z)) : bool :=
  match o with
  | Some (NoCommit _ xs) | Some (Restart xs) => ops_match (aops_word xs) recd
  | _ => false
  end.
(* A parameter axis: literal admissible values, or EVERY value the C code can pass as `owned` for a queue of one of the
   widths ws (lib/lanewords.py owned_ok is the same predicate, used there to filter proposals; this is the authority):
     i*IN_BARRIER + k*WIDTH_INTERVAL (k <= w)  -  {0, PENDING_BARRIER + (w-1)*WIDTH_INTERVAL}  +  {0, ENQUEUED, ENQUEUED_ON_MGR}
   with the constants passed by the checker from the compiler (harness/c01_lanewords_wb.c). The ~12*(w+1) values are never
   built as a list (that overflowed the VM stack at w = 4094): a tail-recursive loop tests them one by one, from both ends of
   the range inwards (k = w, 0, w-1, 1, ...: a drainer holds nearly all of the width or nearly none), and stops at the first
   that fits; only a case with no admissible value walks the whole range (~20 s at w = 4094). *)
Inductive axis :=
| Lit (values : list Z)
| Owned (ib wi pb enq enq_mgr : Z) (ws : list Z).

Fixpoint owned_loop (fuel : nat) (lo hi : Z) (test : Z -> bool) : bool :=
  match fuel with
  | O => false
  | S m => if hi <? lo then false
           else if test hi then true
           else if test lo then true
           else owned_loop m (lo + 1) (hi - 1) test
  end.
Definition ex_owned (ib wi pb enq enq_mgr : Z) (ws : list Z) (good : Z -> bool) : bool :=
  existsb (fun w =>
    owned_loop (Z.to_nat (w + 2)) 0 w (fun k =>
      existsb (fun i => existsb (fun r => existsb (fun e => good (u64 (i * ib + k * wi - r + e))) [0; enq; enq_mgr])
                                [0; pb + (w - 1) * wi]) [0; 1])) ws.

(* search of the parameter space: the checker passes one axis per parameter (in the order dqstate_apply wants them); the
   product is formed here, so a case costs the sum of the axis lengths to write down and parse, not their product *)
Fixpoint ex_prod (axes : list axis) (acc : list Z) (good : list Z -> bool) : bool :=
  match axes with
  | [] => good (rev acc)
  | Lit a :: r => existsb (fun x => ex_prod r (x :: acc) good) a
  | Owned ib wi pb enq enq_mgr ws :: r => ex_owned ib wi pb enq enq_mgr ws (fun x => ex_prod r (x :: acc) good)
  end.
Definition first_of (a : axis) : Z := match a with Lit l => hd 0 l | Owned _ _ _ _ _ _ => 0 end.
Definition is_empty (a : axis) : bool := match a with Lit [] => true | Owned _ _ _ _ _ [] => true | _ => false end.
Definition fits (fn : Z) (axes : list axis) (old : Z) : bool :=
  match dqstate_apply fn (map first_of axes) old with Some _ => true | None => false end.

(* verdicts: 0 no generated function for this line and kind (coverage hole); 1 conforms; 2 a function exists but no
   admissible parameter vector makes it produce the recorded result; 3 the number of parameters does not fit the function
   (table and checker disagree); 4 a parameter has no admissible value at all (empty axis) *)
Definition verdict (fns : list Z) (axes : list axis) (old : Z) (good : option rmw_outcome -> bool) : Z :=
  match fns with
  | [] => 0
  | _ => if existsb is_empty axes then 4
         else if existsb (fun fn => ex_prod axes [] (fun ps => good (dqstate_apply fn ps old))) fns then 1
         else if existsb (fun fn => fits fn axes old) fns then 2 else 3
  end.

(* one iteration that reached its compare-and-swap / one single atomic operation: old -> new *)
Definition check_commit (file line kind old new : Z) (axes : list axis) : Z :=
  verdict (site_fns file line kind) axes old (fun o => commits_to o new).
(* one loop instance left without a store after reading old, having performed recd on dq_state on the way out *)
Definition check_giveup (file line kind old : Z) (recd : list (Z * Z)) (axes : list axis) : Z :=
  verdict (site_fns file line kind) axes old (fun o => gives_up_with o recd).
