(* SrcData.v — the pending-data protocol of custom data sources (DISPATCH_SOURCE_TYPE_DATA_ADD / _OR / _REPLACE):
     dispatch_source_merge_data           src/source.c:199-224
     _dispatch_source_wakeup (data part)  src/source.c:909-979, _dispatch_queue_wakeup rmw loop src/queue.c:4860-4874
     _dispatch_source_invoke2 (data part) src/source.c:792-822
     _dispatch_source_latch_and_call      src/source.c:528-587 (custom sources: dst_action = PASS_DATA, event.c:224-258)
   for any number of threads.  The shared word is ds_pending_data (64 bit).  The source's lane is abstracted to
     owner : the holder of the drain lock (the handler is called only from _dispatch_source_invoke2, which runs under
             _dispatch_queue_class_invoke's drain lock, inline_internal.h:1773-1857) — a ghost `option tid`;
     rq    : "enqueued or dirty": set by a wakeup that commits a dq_state carrying DISPATCH_QUEUE_DIRTY (computed with the
             GENERATED rmw body Gen_dqstate.wakeup_loop) and by an unlock that re-enqueues; cleared only by taking the
             drain lock or by the failed unlock that renews it (both lead to the top of invoke2, i.e. to a re-examination
             of ds_pending_data);
     susp  : suspend count (gates taking the drain lock).
   rq deliberately merges DISPATCH_QUEUE_ENQUEUED and DISPATCH_QUEUE_DIRTY.  In the real word they differ: ENQUEUED means
   the target queue will invoke the source; DIRTY alone is only a promise while somebody holds the drain lock (its unlock
   is refused) or while the source is suspended (the final dispatch_resume re-runs _dispatch_source_wakeup, which
   re-examines ds_pending_data); an idle source may keep a stale DIRTY (invoke_finish, suspended unlock).  That finer
   argument is the lane invariant of C01/C06; here "pending data => rq or a waker in flight" is what is proved, and the
   stuck detector of the stress harness covers the rest.
   The real lane mechanics (drain lock word, enqueue on the target queue) are the business of C01/C02; the link between
   this abstraction and dq_state is checked on recorded runs (lock / unlock / renew events are DERIVED from the recorded
   dq_state writes of each thread), not proved here.
   Events (Conc.event): eoff 0 = ds_pending_data, 1 = dq_atomic_flags, 2 = dq_state. *)
From Coq Require Import ZArith Bool List.
From Verif Require Import Word Conc Gen_consts Gen_fields Gen_dqstate Gen_srcdata.
Import ListNotations.
Local Open Scope Z_scope.

Definition OFF_PEND := 0. Definition OFF_FLAGS := 1. Definition OFF_STATE := 2.
(* harness-level / derived event kinds (harness/c15_srcdata.c, lib/props/c15.py) *)
Definition DVX_SUSPEND := 110.   (* dispatch_suspend(ds) returned *)
Definition DVX_RESUME := 111.    (* dispatch_resume(ds) about to be called *)
Definition DVX_CANCEL := 112.    (* dispatch_source_cancel(ds) about to be called *)
(* derived from this thread's own successful writes of dq_state (ea = word before, eb = word after): *)
Definition DVX_LOCK := 120.      (* the write made this thread the drain owner *)
Definition DVX_UNLOCK := 121.    (* the write cleared its ownership; "live" iff the new word is ENQUEUED or DIRTY *)
Definition DVX_RELOOP := 122.    (* the owner cleared DIRTY with the `xor ... acquire` of a refused unlock *)
Definition DVX_HIWORD := 124.    (* the write changed the suspend count (dispatch_suspend / dispatch_resume / activation) *)

Inductive dkind := KindAdd | KindOr | KindReplace.
Definition is_replace (k : dkind) : bool := match k with KindReplace => true | _ => false end.
Record cfg := mkCfg { ck : dkind; cself : Z }.      (* cself: the thread's lock value (tid & DLOCK_OWNER_MASK) *)

Definition mo_code (o : morder) : Z :=
  match o with Relaxed => 0 | Consume => 1 | Acquire => 2 | Release => 3 | AcqRel => 4 | SeqCst => 5 end.

(* source.c:205  dqf & (DSF_CANCELED | DQF_RELEASED) *)
Definition flag_cancelled (dqf : Z) : bool := nz (Z.land dqf (Z.lor DSF_CANCELED DQF_RELEASED)).

(* source.c:209-218: the atomic operation on ds_pending_data and its effect *)
Definition merge_kind (k : dkind) : Z := match k with KindAdd => DV_ADD | KindOr => DV_OR | KindReplace => DV_STORE end.
Definition apply_merge (k : dkind) (p v : Z) : Z :=
  match k with KindAdd => u64 (p + v) | KindOr => Z.lor p v | KindReplace => v end.

(* source.c:223 + queue.c:4826-4874: dx_wakeup(ds, 0, DISPATCH_WAKEUP_MAKE_DIRTY) reaching the rmw loop with
   target = DISPATCH_QUEUE_WAKEUP_TARGET (CONSUME_2 is added at queue.c:4834) *)
Definition wake_flags : Z := Z.lor DISPATCH_WAKEUP_MAKE_DIRTY DISPATCH_WAKEUP_CONSUME_2.
Definition wake_body (qos old : Z) : rmw_outcome := wakeup_loop 0 qos wake_flags 1 old DISPATCH_QUEUE_ENQUEUED.
(* the qos merged into the word is _dispatch_queue_wakeup_qos(ds, 0), a function of the source's priority (which changes at
   activation): any dispatch_qos_t value (4 bits) is admitted *)
Definition qos_values : list Z := [0; 1; 2; 3; 4; 5; 6; 7; 8; 9; 10; 11; 12; 13; 14; 15].
Definition wake_commits (old new : Z) : bool :=
  existsb (fun q => match wake_body q old with Commit n _ => n =? new | _ => false end) qos_values.
Definition word_dirty (w : Z) : bool := nz (f_dq_state_is_dirty w).

(* the drain side's writes of dq_state, checked with the generated bodies and the parameters Model/SrcLane.v uses:
   the source is a serial lane drained by a plain worker: owned = IN_BARRIER + WIDTH_INTERVAL + ENQUEUED *)
Definition OWNED : Z := 18014398509481984 + 2199023255552 + DISPATCH_QUEUE_ENQUEUED.
Definition lock_commits (self old new : Z) : bool :=
  existsb (fun fl => match f_dispatch_queue_drain_try_lock 0 0 1 self fl old 0 with
                     | Commit n o => (n =? new) && (o =? OWNED) | _ => false end) qos_values.
Definition unlock_commits (old new : Z) : bool :=
  match f_dispatch_queue_drain_try_unlock 0 OWNED 1 old with Commit n _ => n =? new | _ => false end ||
  match invoke_finish_loop 0 0 1 OWNED old DISPATCH_QUEUE_ENQUEUED with Commit n _ => n =? new | _ => false end.
Definition reloop_commits (old new : Z) : bool := word_dirty old && (new =? Z.lxor old DISPATCH_QUEUE_DIRTY).
Definition hiword_commits (old new : Z) : bool :=
  match suspend_loop 0 old with Commit n _ => n =? new | _ => false end ||
  match resume_loop 0 0 old 1 0 0 with Commit n _ => n =? new | _ => false end ||
  match resume_activate_loop 0 1 old with Commit n _ => n =? new | _ => false end.
Definition word_live (w : Z) : bool :=
  nz (Z.land w (Z.lor (Z.lor DISPATCH_QUEUE_ENQUEUED DISPATCH_QUEUE_ENQUEUED_ON_MGR) DISPATCH_QUEUE_DIRTY)).
Definition ev_lock (c : cfg) (e : event) : bool := ev_kind e DVX_LOCK && lock_commits (cself c) (ea e) (eb e).
Definition ev_unlock (e : event) : bool := ev_kind e DVX_UNLOCK && unlock_commits (ea e) (eb e).
Definition ev_reloop (e : event) : bool := ev_kind e DVX_RELOOP && reloop_commits (ea e) (eb e).
Definition ulive (e : event) : bool := word_live (eb e).

Inductive pc :=
| PIdle
(* dispatch_source_merge_data(ds, v) *)
| PMFlags (v : Z)       (* entered: _dispatch_queue_atomic_flags(ds) next (source.c:202) *)
| PMOp (v : Z)          (* flags clear: add / or / store on ds_pending_data next (211 / 214 / 217) *)
| PWFlags               (* _dispatch_source_wakeup: load of dq_atomic_flags (919) *)
| PWPend                (* not cancelled: load of ds_pending_data (941); a source not yet installed goes straight to the loop (928) *)
| PWState               (* pending data seen: tq = TARGET, initial load of the dq_state loop next (queue.c:4860) *)
| PWBody (old : Z)      (* one iteration of the loop on the value old *)
| PWOut                 (* cancelled, or nothing pending (tq decided by the other clauses of the wakeup): not modelled further *)
| PMRet                 (* wakeup committed (or merge refused): push on the target queue if newly enqueued, return *)
(* the drain side: _dispatch_source_invoke (and any other holder of the source's drain lock) *)
| PD0                   (* drain lock held, (re-)running the holder's examination of the source: top of invoke2 *)
| PDSaw (v : Z)         (* ds_pending_data seen non-zero (794): latch next *)
| PDNone                (* ds_pending_data seen zero: nothing to deliver *)
| PCall (prev : Z)      (* latched prev != 0 (534, 551-560): handler callout next *)
| PInCall               (* inside the event handler *)
| PPost                 (* after the handler / the early returns of latch_and_call: re-test of ds_pending_data (814) *)
| PDReq.                (* pending data after the handler: retq = do_targetq, re-enqueue (815) *)

(* source.c:534-562 for dst_action = PASS_DATA: what follows the exchange that returned prev *)
Definition latch_next (k : dkind) (prev : Z) : pc :=
  if (prev =? 0) && is_replace k then PPost       (* 551: prev == 0 && du_filter == CUSTOM_REPLACE -> return *)
  else if prev =? 0 then PPost                     (* 560: !dispatch_assume(prev != 0) -> return *)
  else PCall prev.                                 (* 554: ds_data = prev; 570: callout *)

Definition pend_seen (v : Z) : pc := if v =? 0 then PDNone else PDSaw v.

(* the per-thread automaton *)
Definition tstep (c : cfg) (p : pc) (e : event) : option pc :=
  match p with
  | PIdle =>
      if ev_kind e DVU_CALL then Some (PMFlags (u64 (ea e)))
      else if ev_lock c e then Some PD0
      else if ev_kind e DVX_HIWORD && hiword_commits (ea e) (eb e) then Some PIdle
      else if ev_is e DV_LOAD MO_RELAXED OFF_PEND then Some PIdle      (* a wakeup's test by a thread that is not merging *)
      else if ev_kind e DVX_SUSPEND || ev_kind e DVX_RESUME || ev_kind e DVX_CANCEL then Some PIdle
      else None
  | PMFlags v =>
      if ev_is e DV_LOAD MO_RELAXED OFF_FLAGS then Some (if flag_cancelled (ea e) then PMRet else PMOp v) else None
  | PMOp v =>
      if ev_is e (merge_kind (ck c)) MO_RELAXED OFF_PEND && (eb e =? v) then Some PWFlags else None
  | PWFlags =>
      if ev_is e DV_LOAD MO_RELAXED OFF_FLAGS then Some (if flag_cancelled (ea e) then PWOut else PWPend) else None
  | PWPend =>
      if ev_is e DV_LOAD MO_RELAXED OFF_PEND then Some (if ea e =? 0 then PWOut else PWState)
      else if ev_is e DV_LOAD MO_RELAXED OFF_STATE then Some (PWBody (ea e))
      else None
  | PWState => if ev_is e DV_LOAD MO_RELAXED OFF_STATE then Some (PWBody (ea e)) else None
  | PWBody old =>
      if ev_is e DV_CASW (mo_code wakeup_loop_order) OFF_STATE && wake_commits old (eb e)
      then Some (if eok e =? 1 then PMRet else PWBody (ea e)) else None
  | PWOut =>
      if ev_kind e DVU_RET then Some PIdle
      else if (ek e <? DV_FUTEX_WAIT) && (eoff e =? OFF_STATE) then Some PWOut    (* atomic operations on dq_state *)
      else None
  | PMRet =>
      (* after a commit that set ENQUEUED the source is pushed on its target queue (dx_push, the target lane's business);
         that push reads the source's DQF_BARRIER_BIT (_dispatch_object_is_barrier, inline_internal.h:170) *)
      if ev_kind e DVU_RET then Some PIdle
      else if ev_is e DV_LOAD MO_RELAXED OFF_FLAGS then Some PMRet
      else None
  | PD0 =>
      if ev_is e DV_LOAD MO_RELAXED OFF_PEND then Some (pend_seen (ea e))
      else if ev_reloop e then Some PD0                  (* a cancelled source whose unlock was refused *)
      else if ev_unlock e then Some PIdle
      else None
  | PDSaw v =>
      if ev_is e DV_XCHG MO_RELAXED OFF_PEND && (eb e =? 0) then Some (latch_next (ck c) (ea e))
      else if ev_is e DV_LOAD MO_RELAXED OFF_PEND then Some (pend_seen (ea e))
      else if ev_unlock e && ulive e then Some PIdle
      else None
  | PDNone =>
      if ev_is e DV_LOAD MO_RELAXED OFF_PEND then Some (pend_seen (ea e))
      else if ev_reloop e then Some PD0
      else if ev_unlock e then Some PIdle
      else None
  | PCall prev => if ev_kind e DVU_CALLOUT_BEGIN && (ea e =? prev) then Some PInCall else None
  | PInCall => if ev_kind e DVU_CALLOUT_END then Some PPost else None
  | PPost =>
      if ev_is e DV_LOAD MO_RELAXED OFF_PEND then Some (if ea e =? 0 then PDNone else PDReq)
      else if ev_reloop e then Some PD0
      else if ev_unlock e then Some PIdle
      else None
  | PDReq => if ev_unlock e && ulive e then Some PIdle else None
  end.

(* atomic sites of the modelled functions (kind, field, order) in program order: must equal what src2v reads *)
Definition model_sites_merge_data : list site :=
  [ {| s_kind := KLoad; s_field := F_dq_atomic_flags; s_order := Relaxed |};
    {| s_kind := KAdd; s_field := F_ds_pending_data; s_order := Relaxed |};
    {| s_kind := KOr; s_field := F_ds_pending_data; s_order := Relaxed |};
    {| s_kind := KStore; s_field := F_ds_pending_data; s_order := Relaxed |} ].
(* latch_and_call: handler load, the exchange, (timers only) dt_pending_config *)
Definition model_sites_latch_and_call : list site :=
  [ {| s_kind := KLoad; s_field := F_ds_handler; s_order := Relaxed |};
    {| s_kind := KXchg; s_field := F_ds_pending_data; s_order := Relaxed |};
    {| s_kind := KLoad; s_field := F_dt_pending_config; s_order := Relaxed |} ].
Definition model_sites_get_data : list site := [ {| s_kind := KLoad; s_field := F_ds_data; s_order := Relaxed |} ].

(* ------------------------------------------------------------------ global model *)
Record gst := {
  pend : Z;                 (* ds_pending_data *)
  cancelled : bool;         (* DSF_CANCELED | DQF_RELEASED in dq_atomic_flags *)
  susp : Z;                 (* suspend count *)
  rq : bool;                (* enqueued or dirty (see the header) *)
  owner : option Z;         (* ghost: holder of the source's drain lock *)
  pcs : Z -> pc;
  latched : Z;              (* ghost: value taken by the exchange whose handler call has not begun yet (0: none) *)
  running : Z;              (* ghost: handler invocations in progress *)
  merged : list Z;          (* ghost: values applied to ds_pending_data, latest first *)
  dropped : list Z;         (* ghost: values of merge calls that returned at source.c:205 *)
  delivered : list Z        (* ghost: ds_data of the handler invocations, latest first *)
}.

Definition init_state : gst :=
  {| pend := 0; cancelled := false; susp := 0; rq := false; owner := None; pcs := fun _ => PIdle; latched := 0;
     running := 0; merged := []; dropped := []; delivered := [] |}.

Definition gstep (c : cfg) (s : gst) (t : Z) (e : event) : option gst :=
  match tstep c (pcs s t) e with
  | None => None
  | Some p' =>
    let base pe ca su r ow la ru me dr de :=
      Some {| pend := pe; cancelled := ca; susp := su; rq := r; owner := ow; pcs := upd (pcs s) t p'; latched := la;
              running := ru; merged := me; dropped := dr; delivered := de |} in
    let same := base (pend s) (cancelled s) (susp s) (rq s) (owner s) (latched s) (running s) (merged s) (dropped s)
                     (delivered s) in
    let load_pend := if ea e =? pend s then same else None in
    (* giving the drain lock back: a = 0 leaves the source neither enqueued nor dirty *)
    let unlock (allowed0 : bool) :=
      if ulive e
      then base (pend s) (cancelled s) (susp s) true None (latched s) (running s) (merged s) (dropped s) (delivered s)
      else (if allowed0 && negb (rq s)
            then base (pend s) (cancelled s) (susp s) false None (latched s) (running s) (merged s) (dropped s) (delivered s)
            else None) in
    let reloop := base (pend s) (cancelled s) (susp s) false (owner s) (latched s) (running s) (merged s) (dropped s)
                       (delivered s) in
    match pcs s t with
    | PIdle =>
        if ev_kind e DVU_CALL then same
        else if ev_lock c e then
          (* drain_try_lock commits only on a word without owner and without suspend count, and clears DIRTY *)
          match owner s with
          | None => if susp s =? 0
                    then base (pend s) (cancelled s) (susp s) false (Some t) (latched s) (running s) (merged s) (dropped s)
                              (delivered s)
                    else None
          | Some _ => None
          end
        else if ev_kind e DVX_HIWORD && hiword_commits (ea e) (eb e) then same
        else if ev_is e DV_LOAD MO_RELAXED OFF_PEND then load_pend
        else if ev_kind e DVX_SUSPEND then
          base (pend s) (cancelled s) (susp s + 1) (rq s) (owner s) (latched s) (running s) (merged s) (dropped s) (delivered s)
        else if ev_kind e DVX_RESUME then
          (if 0 <? susp s
           then base (pend s) (cancelled s) (susp s - 1) (rq s) (owner s) (latched s) (running s) (merged s) (dropped s)
                     (delivered s)
           else None)
        else base (pend s) true (susp s) (rq s) (owner s) (latched s) (running s) (merged s) (dropped s) (delivered s)
    | PMFlags v =>
        if Bool.eqb (flag_cancelled (ea e)) (cancelled s)
        then base (pend s) (cancelled s) (susp s) (rq s) (owner s) (latched s) (running s) (merged s)
                  (if flag_cancelled (ea e) then v :: dropped s else dropped s) (delivered s)
        else None
    | PMOp v =>
        (* fetch-add / fetch-or report the old value; the store does not *)
        if is_replace (ck c) || (ea e =? pend s)
        then base (apply_merge (ck c) (pend s) v) (cancelled s) (susp s) (rq s) (owner s) (latched s) (running s)
                  (v :: merged s) (dropped s) (delivered s)
        else None
    | PWFlags => if Bool.eqb (flag_cancelled (ea e)) (cancelled s) then same else None
    | PWPend => if ev_is e DV_LOAD MO_RELAXED OFF_PEND then load_pend else same
    | PWState => same
    | PWBody old =>
        (* weak CAS on dq_state (a word this model does not carry): may fail; when it commits, the source is
           enqueued-or-dirty if the committed word (an output of the generated loop body, checked by tstep) is DIRTY *)
        if eok e =? 1
        then base (pend s) (cancelled s) (susp s) (rq s || word_dirty (eb e)) (owner s) (latched s) (running s) (merged s)
                  (dropped s) (delivered s)
        else same
    | PWOut => same
    | PMRet => same
    | PD0 =>
        if ev_is e DV_LOAD MO_RELAXED OFF_PEND then load_pend
        else if ev_reloop e then reloop
        else unlock (cancelled s)      (* invoke2 skips the data branch only for a cancelled source (793) *)
    | PDSaw v =>
        if ev_is e DV_XCHG MO_RELAXED OFF_PEND && (eb e =? 0) then
          (if ea e =? pend s
           then base 0 (cancelled s) (susp s) (rq s) (owner s)
                     (match latch_next (ck c) (ea e) with PCall prev => prev | _ => 0 end) (running s) (merged s) (dropped s)
                     (delivered s)
           else None)
        else if ev_is e DV_LOAD MO_RELAXED OFF_PEND then load_pend
        else unlock false
    | PDNone =>
        if ev_is e DV_LOAD MO_RELAXED OFF_PEND then load_pend
        else if ev_reloop e then reloop
        else unlock true
    | PCall prev =>
        base (pend s) (cancelled s) (susp s) (rq s) (owner s) 0 (running s + 1) (merged s) (dropped s) (prev :: delivered s)
    | PInCall =>
        base (pend s) (cancelled s) (susp s) (rq s) (owner s) (latched s) (running s - 1) (merged s) (dropped s) (delivered s)
    | PPost =>
        if ev_is e DV_LOAD MO_RELAXED OFF_PEND then load_pend
        else if ev_reloop e then reloop
        else unlock true
    | PDReq => unlock false
    end
  end.

Definition valid_tid (t : Z) : Prop := 0 < t.

Definition step (c : cfg) (s : gst) (a : Z * event) (s' : gst) : Prop :=
  valid_tid (fst a) /\ gstep c s (fst a) (snd a) = Some s'.
Definition reach (c : cfg) : gst -> Prop := reachable (fun s => s = init_state) (step c).

Fixpoint grun (c : cfg) (s : gst) (tr : list (Z * event)) : option gst :=
  match tr with
  | [] => Some s
  | (t, e) :: tr' => match gstep c s t e with Some s' => grun c s' tr' | None => None end
  end.

(* what the theorems talk about *)
Fixpoint zsum (l : list Z) : Z := match l with [] => 0 | x :: r => x + zsum r end.
Fixpoint zlor (l : list Z) : Z := match l with [] => 0 | x :: r => Z.lor x (zlor r) end.
Definition quiescent (s : gst) : Prop := forall t, pcs s t = PIdle.

(* for the correspondence driver: sv = kind + 4 * self; result (index of the first rejected event or -1,
   1 if the thread ended outside any call and outside the drain lock) *)
Definition cfg_of (sv : Z) : cfg :=
  mkCfg (if sv mod 4 =? 0 then KindAdd else if sv mod 4 =? 1 then KindOr else KindReplace) (sv / 4).
Definition pc_idle (p : pc) : Z := match p with PIdle => 1 | _ => 0 end.
Definition conform (sv : Z) (tr : list event) : Z * Z :=
  let '(p, i) := run_trace (tstep (cfg_of sv)) PIdle tr 0 in (i, pc_idle p).
