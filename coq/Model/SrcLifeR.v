(* SrcLifeR.v — replay of a whole recorded round (one source's life: every thread of one round of harness/c16_cancel.c) as a
   run of the GLOBAL model Model/SrcLife.v.  Three executable pieces, used by lib/props/c16.py:

   1. `mabs`: the abstraction of one thread's recorded events (DISPATCH_VERIF hook on the source's dq_atomic_flags,
      ds_handler[3], ds_pending_data, du_state, dq_state + the harness marks) into observations `robs`: every operation on
      dq_atomic_flags with the values seen / written, every WRITE to the other words with the value written, the futex
      calls, the API call / return and callout marks, and the moments the thread takes and drops the source's drain lock
      (owner field of dq_state).  A load of dq_atomic_flags is marked as a read the model performs when it is one of the
      reads of _dispatch_source_invoke2 / cancel_and_wait (all loads under the drain lock but the first one, which belongs to
      _dispatch_queue_class_invoke, and outside callouts; in cancel_and_wait the load that precedes the waiter CAS / the futex
      wait / the return), the others (wakeup, merge_evt ...) are only checked against the model's flags.

   2. `sched`: executes all threads' observations in a given order (the recorder's stamps made consistent with the exact
      old -> new chain of dq_atomic_flags) on SrcLife.gstep.  Every observation must be produced by a model step that is
      ENABLED at that point and has the RECORDED outcome: the owner's phases are matched through their `footprint` (the
      observations a phase's actions stand for: flag read, du_state stores with the decoded bits (and, for a set_bit /
      clear_bit, the value loaded just before), the finalize CAS with its old and new value, futex wake, latch exchange,
      handler slot exchanges with NULL / non-NULL, callout marks).  A phase takes effect at the ANCHOR of its footprint
      (the CAS on dq_atomic_flags, else its first write, else its last observation).  Phases without footprint are taken
      when the owner loads du_state (the last load of a burst, if the model agrees on the value: that is when the C code
      decides) or, failing that, on the way to the owner's next observation; the inputs the model does not compute (`orc`)
      are tried from a short list per program point.  The manager's deliveries are the model's two halves: the du_state
      store (GEvent / GHangup), then the ds_pending_data write (GEvMerge).  The scheduler never skips an observation and
      performs model steps only.

   3. `replay`: the list of model acts the scheduler performed is run again from the initial state with SrcLife.grun; the
      state reported (and judged with the boolean invariant inv_b) is that one, so it is reachable in SrcLife whatever the
      scheduler did (Proofs/SrcLifeR_proofs.v: replay_reach). *)
From Coq Require Import ZArith Bool List.
From Verif Require Import Word Conc Gen_consts Gen_srclife SrcLife.
Import ListNotations.
Local Open Scope Z_scope.

Definition OWNER_MASK : Z := 1073741823.
Definition FD_F := 0. Definition FD_H := 1. Definition FD_P := 2. Definition FD_U := 3. Definition FD_S := 4.
Definition API_CANCEL := 1. Definition API_CAW := 2. Definition API_ACTIVATE := 3.
Definition EAGAIN := 11.

Inductive robs :=
| RLock | RUnlock
| RReadF (v : Z) (m : bool)
| ROrF (old opnd : Z)
| RAndF (old opnd : Z)
| RCaswF (seen new : Z) (ok : bool)
| RCasF (seen new : Z) (ok : bool)
| RReadU (v : Z)               (* a load of du_state by a thread that holds the drain lock *)
| RWu (v : Z) (old : Z)        (* old: the value the same thread loaded just before (set_bit / clear_bit), or -1 *)
| RXp (old : Z)
| RWp (new : Z)
| RXh (off old : Z)
| RFwait (v : Z) | RFret (rc : Z) | RFwake
| RCall (api ctx : Z) | RRet (api : Z)
| RCb (k : Z) | RCe (k : Z)
| RSkip
| RBad.

(* ------------------------------------------------------------------ 1. abstraction of a thread's events *)
Record ast := mkA { a_inlock : bool; a_first : bool; a_callout : Z; a_caw : bool }.
Definition owner_of (v : Z) : Z := Z.land v OWNER_MASK.
Definition is_f (e : event) (k : Z) : bool := (eobj e =? FD_F) && (ek e =? k).

Definition mabs_one (self : Z) (a : ast) (e : event) (next : option event) : robs * ast :=
  let f := eobj e in let k := ek e in
  if f =? FD_F then
    if k =? DV_LOAD then
      let folded := match next with Some n => is_f n DV_CASW | None => false end in
      if folded then (RSkip, a) else
      let caw_read := match next with
                      | Some n => is_f n DV_CAS || is_f n DV_FUTEX_WAIT || (is_f n DVU_RET && (ea n =? API_CAW))
                      | None => false end in
      let m := if a_inlock a then (a_callout a =? 0) && negb (a_first a) else a_caw a && caw_read in
      (RReadF (ea e) m, mkA (a_inlock a) (if a_inlock a then false else a_first a) (a_callout a) (a_caw a))
    else if k =? DV_OR then (ROrF (ea e) (eb e), a)
    else if k =? DV_AND then (RAndF (ea e) (eb e), a)
    else if k =? DV_CASW then (RCaswF (ea e) (eb e) (eok e =? 1), a)
    else if k =? DV_CAS then (RCasF (ea e) (eb e) (eok e =? 1), a)
    else if k =? DV_FUTEX_WAIT then (RFwait (ea e), a)
    else if k =? DV_FUTEX_WAIT_RET then (RFret (eb e), a)
    else if k =? DV_FUTEX_WAKE then (RFwake, a)
    else if k =? DVU_CALL then (RCall (ea e) (eb e), mkA (a_inlock a) (a_first a) (a_callout a) (a_caw a || (ea e =? API_CAW)))
    else if k =? DVU_RET then (RRet (ea e), mkA (a_inlock a) (a_first a) (a_callout a) (a_caw a && negb (ea e =? API_CAW)))
    else if k =? DVU_CALLOUT_BEGIN then (RCb (ea e), mkA (a_inlock a) (a_first a) (a_callout a + 1) (a_caw a))
    else if k =? DVU_CALLOUT_END then (RCe (ea e), mkA (a_inlock a) (a_first a) (a_callout a - 1) (a_caw a))
    else if k =? DVU_MARK then (RSkip, a)
    else (RBad, a)
  else if f =? FD_H then (if k =? DV_XCHG then (RXh (eoff e) (ea e), a) else (RBad, a))
  else if f =? FD_P then
    (if k =? DV_XCHG then (if eb e =? 0 then RXp (ea e) else RWp (eb e))
     else if k =? DV_STORE then RWp (eb e)
     else if (k =? DV_ADD) || (k =? DV_OR) then RWp (rmw_result e) else RBad, a)
  else if f =? FD_U then
    (if k =? DV_STORE then RWu (eb e) (if eoff e =? 1 then ea e else -1)
     else if k =? DV_LOAD then (if a_inlock a && (a_callout a =? 0) then RReadU (ea e) else RSkip) else RBad, a)
  else if f =? FD_S then
    let old := ea e in
    let new := if (k =? DV_CAS) || (k =? DV_CASW) || (k =? DV_XCHG) then eb e else rmw_result e in
    if negb (eok e =? 1) then (RSkip, a)
    else if (owner_of new =? self) && negb (owner_of old =? self) then
      (RLock, mkA true (negb (a_caw a)) (a_callout a) (a_caw a))
    else if (owner_of old =? self) && negb (owner_of new =? self) then
      (RUnlock, mkA false false (a_callout a) (a_caw a))
    else (RSkip, a)
  else (RBad, a).

Fixpoint mabs_run (self : Z) (a : ast) (tr : list event) : list robs :=
  match tr with
  | [] => []
  | e :: r => let '(o, a') := mabs_one self a e (match r with n :: _ => Some n | [] => None end) in o :: mabs_run self a' r
  end.
Definition mabs (self : Z) (tr : list event) : list robs := mabs_run self (mkA false false 0 false) tr.

(* ------------------------------------------------------------------ 2. footprints *)
Inductive fobs :=
| FRead                          (* a model read of dq_atomic_flags *)
| FWu (w a n : bool)             (* du_state store: wlh bits non-zero / ARMED / NEEDS_DELETE *)
| FWp0opt                        (* ds_pending_data cleared (timer configuration), if present *)
| FFin                           (* the finalize CAS *)
| FNe                            (* the deferred-unregistration CAS *)
| FWake
| FXp                            (* latch: xchg(ds_pending_data, 0) of a non-zero value *)
| FXh (off : Z) (nonnull : bool) (* handler slot exchanged with NULL *)
| FCb (k : Z) | FCe (k : Z).

Definition du_bits (v : Z) : bool * bool * bool :=
  (negb (Z.land v (-4) =? 0), Z.testbit v 0, Z.testbit v 1).

Definition fp_act (k : kind) (s s' : src) (a : action) : list fobs :=
  match a with
  | AInstall true => if k_timer k then [FWu true false false; FWp0opt] else [FWu true true false]
  | AInstall false => []
  | AConfigure => [FWp0opt]
  | ARegCallout called => FXh 16 true :: (if called then [FCb 2] else [])
  | AUnregister true =>
      if registered s then
        (if k_timer k && du_armed s then [FWu (du_wlh s) false (du_nd s)] else []) ++ [FWu false false false]
      else []
  | AUnregister false => []
  | ANeedsEvent => [FNe]
  | AFinalize w _ => FFin :: (if w then [FWake] else [])
  | ALatch => [FXp]
  | AEhBegin => [FCb 0] | AEhEnd => [FCe 0]
  | ACancelCallout => [FXh 8 (h_ca s); FXh 0 (h_ev s); FXh 16 (h_reg s)]
  | AChBegin => [FCb 1] | AChEnd => [FCe 1]
  | AChDispose => []
  | ARearm => if k_timer k && negb (Bool.eqb (du_armed s) (du_armed s')) then [FWu (du_wlh s') (du_armed s') (du_nd s')] else []
  end.

Definition reads_f := reads_flags.
Definition footprint (k : kind) (o : orc) (p : opc) (s s' : src) (acts : list action) : list fobs :=
  (if reads_f k o p then [FRead] else []) ++ flat_map (fp_act k s s') acts.

Definition fl_is (f : flags) (v : Z) : bool := flags_eqb (dec v) f.
Definition src_du_is (s : src) (v : Z) : bool :=
  let '(w, a, n) := du_bits v in Bool.eqb w (du_wlh s) && Bool.eqb a (du_armed s) && Bool.eqb n (du_nd s).



(* match a footprint against the head of a thread's observation list; f0/f1 = the model's flags before / after the step.
   Returns the rest of the list, the number of entries consumed and the number of entries up to the ANCHOR of the
   footprint: the observation at which the step takes effect for the other threads = the CAS that changes dq_atomic_flags
   if the footprint has one, else its first write to one of the other words, else its last observation. *)
Fixpoint fmatch (cr strict : bool) (s0 : src) (f0 f1 : flags) (fp : list fobs) (q : list robs) (n : Z) (afin afirst : Z) (fuel : nat) : option (list robs * Z * Z) :=
  match fuel with O => None | S fu =>
  match fp with
  | [] => Some (q, n, if negb (afin =? 0) then afin else if negb (afirst =? 0) then afirst else n)
  | x :: fp' =>
      match q with
      | RSkip :: q' => fmatch cr strict s0 f0 f1 fp q' (n + 1) afin afirst fu
      | RReadU _ :: q' => fmatch cr strict s0 f0 f1 fp q' (n + 1) afin afirst fu
      | h :: q' =>
          let ok (b : bool) :=
            if b then fmatch cr strict s0 f0 f1 fp' q' (n + 1) (match x with FFin | FNe => n + 1 | _ => afin end)
                       (match x with FXp | FXh _ _ | FWu _ _ _ => if afirst =? 0 then n + 1 else afirst | _ => afirst end) fu
            else None in
          match x, h with
          | FRead, RReadF v true => ok (negb cr || fl_is f0 v)
          | FWu w a nd, RWu v old =>
              ok ((let '(w', a', n') := du_bits v in Bool.eqb w w' && Bool.eqb a a' && Bool.eqb nd n') &&
                  ((old =? -1) || negb (afirst =? 0) || negb strict || src_du_is s0 old))
          | FWp0opt, RWp v => if v =? 0 then fmatch cr strict s0 f0 f1 fp' q' (n + 1) afin afirst fu else fmatch cr strict s0 f0 f1 fp' q n afin afirst fu
          | FWp0opt, _ => fmatch cr strict s0 f0 f1 fp' q n afin afirst fu
          | FFin, RCaswF seen new true => ok ((negb strict || (fl_is f0 seen && fl_is f1 new)) && is_commit (flags_set_and_clear_loop 0 DSF_DELETED (Z.lor DSF_NEEDS_EVENT DSF_CANCEL_WAITER) seen) new)
          | FFin, RCaswF _ _ false => fmatch cr strict s0 f0 f1 fp q' (n + 1) afin afirst fu      (* a failed attempt of the loop *)
          | FNe, RCaswF seen new true => ok (negb strict || (fl_is f0 seen && fl_is f1 new))
          | FWake, RFwake => ok true
          | FXp, RXp old => ok (negb (old =? 0))
          | FXh off nn, RXh off' old => ok ((off =? off') && Bool.eqb nn (negb (old =? 0)))
          | FCb k, RCb k' => ok (k =? k')
          | FCe k, RCe k' => ok (k =? k')
          | _, _ => None
          end
      | [] => match x with FWp0opt => fmatch cr strict s0 f0 f1 fp' q n afin afirst fu | _ => None end
      end
  end end.

(* ------------------------------------------------------------------ 3. the scheduler *)
Record tst := mkT {
  t_id : Z;             (* the thread's lock value = its id in the model *)
  t_mgr : bool;         (* the manager thread *)
  t_q : list robs;
  t_api : Z; t_ctx : Z; (* inside which API call of the harness, with which context mark *)
  t_co : Z;             (* callout nesting *)
  t_entered : bool;     (* cancel_and_wait: first loop done *)
  t_credit : Z;         (* observations already consumed ahead of the order *)
  t_u : Z;              (* du_state value the manager has just stored ahead of the ds_pending_data write of an event, or -1 *)
  t_wait : Z; t_base : Z  (* entries to pass before the anchor of the owner's pending phase / its distance from the first *)
}.
(* r_cfg: a timer configuration is pending (dt_pending_config, set by dispatch_source_set_timer before the round's first mark and
   consumed by the first registration / configuration): the value of the input c_cfg *)
Record rst := mkR { r_g : gst; r_ts : list tst; r_acts : list (Z * act); r_cfg : bool }.

Definition upd_t (ts : list tst) (i : nat) (f : tst -> tst) : list tst :=
  (fix go (l : list tst) (j : nat) := match l with [] => [] | x :: r => if Nat.eqb j i then f x :: r else x :: go r (S j) end) ts O.
Definition set_q (t : tst) (q : list robs) (credit : Z) : tst :=
  mkT (t_id t) (t_mgr t) q (t_api t) (t_ctx t) (t_co t) (t_entered t) (t_credit t + credit) (t_u t) (t_wait t) (t_base t).
Definition set_api (t : tst) (a c : Z) : tst := mkT (t_id t) (t_mgr t) (t_q t) a c (t_co t) (t_entered t) (t_credit t) (t_u t) (t_wait t) (t_base t).
Definition set_u (t : tst) (u : Z) : tst := mkT (t_id t) (t_mgr t) (t_q t) (t_api t) (t_ctx t) (t_co t) (t_entered t) (t_credit t) u (t_wait t) (t_base t).
Definition set_wait (t : tst) (w b : Z) : tst := mkT (t_id t) (t_mgr t) (t_q t) (t_api t) (t_ctx t) (t_co t) (t_entered t) (t_credit t) (t_u t) w b.
Definition set_entered (t : tst) (b : bool) : tst := mkT (t_id t) (t_mgr t) (t_q t) (t_api t) (t_ctx t) (t_co t) b (t_credit t) (t_u t) (t_wait t) (t_base t).

(* one model step *)
Definition perform (r : rst) (t : Z) (a : act) : option (rst * list action) :=
  match gstep (r_g r) t a with
  | Some (g', acts) =>
      let consumed := existsb (fun x => match x with AConfigure => true | AInstall true => k_timer (g_k g') | _ => false end) acts in
      Some (mkR g' (r_ts r) ((t, a) :: r_acts r) (r_cfg r && negb consumed), acts)
  | None => None
  end.

Definition orc_base : orc := mkO false false true true false false true true.
Definition orc_with (susp cfg arm ovc : bool) : orc := mkO susp cfg true true arm ovc true true.
Definition orcs_for (cfg : bool) (p : opc) : list orc :=
  match p with
  | OA1 => [orc_base; orc_with true false false false]
  | OA2 => [orc_with false cfg false false; orc_with false cfg true false]
  | OP2 => [orc_with false false false true; orc_base]
  | OP5 => [orc_with false cfg true false; orc_with false cfg false false; orc_with true cfg false false]
  | _ => [orc_base]
  end.

Definition pop_skips (q : list robs) : list robs * Z :=
  (fix go (q : list robs) (n : Z) := match q with RSkip :: r => go r (n + 1) | _ => (q, n) end) q 0.

Definition is_owner_t (g : gst) (t : Z) : bool := match owner g with Some o => o =? t | None => false end.

(* the phases without footprint that the lock owner can take now, whatever the inputs the model does not compute *)
Fixpoint eager (fuel : nat) (t : Z) (r : rst) : rst :=
  match fuel with O => r | S fu =>
  let g := r_g r in
  if negb (is_owner_t g t) then r
  else
    (* only when the next phase has no footprint whatever the inputs the model does not compute *)
    let outs := map (fun o => match perform r t (GPhase o) with
                              | Some (r1, acts) => Some (r1, footprint (g_k g) o (o_pc g) (g_s g) (g_s (r_g r1)) acts)
                              | None => None end)
                    (match o_pc g with OA1 => [orc_base] | p => orcs_for (r_cfg r) p end) in
    if forallb (fun x => match x with Some (_, []) => true | Some _ => false | None => true end) outs then
      match filter (fun x => match x with Some _ => true | None => false end) outs with
      | Some (r1, _) :: _ => eager fu t r1
      | _ => r
      end
    else r
  end.

(* the lock owner t advances until the phase whose footprint starts at the head of its observation list has been taken;
   phases without footprint are taken on the way; a finished invoke is followed by a new one (the C code re-invokes
   without dropping the lock when the queue was made dirty meanwhile) *)
Fixpoint adv (cr strict : bool) (fuel : nat) (q : queue) (i : nat) (t : Z) (obs : list robs) (r : rst) : option (rst * list robs * Z * Z) :=
  match fuel with O => None | S fu =>
  let g := r_g r in
  if negb (is_owner_t g t) then
    match perform r t (GInvoke q) with Some (r1, _) => adv cr strict fu q i t obs r1 | None => None end
  else
    (fix try (os : list orc) : option (rst * list robs * Z * Z) :=
       match os with
       | [] => None
       | o :: os' =>
           match perform r t (GPhase o) with
           | None => try os'
           | Some (r1, acts) =>
               let fp := footprint (g_k g) o (o_pc g) (g_s g) (g_s (r_g r1)) acts in
               match fp with
               | [] => match adv cr strict fu q i t obs r1 with Some x => Some x | None => try os' end
               | _ => match fmatch cr strict (g_s g) (fl (g_s g)) (fl (g_s (r_g r1))) fp obs 0 0 0 (S (length obs + length fp)) with
                      | Some (obs', n, an) =>
                          if 0 <? n then Some (r1, obs', n, an) else try os'
                      | None => try os'
                      end
               end
           end
       end) (orcs_for (r_cfg r) (o_pc g))
  end.

(* at the unlock: the owner's remaining phases must have no footprint *)
Fixpoint adv_unlock (fuel : nat) (t : Z) (r : rst) : option rst :=
  match fuel with O => None | S fu =>
  let g := r_g r in
  if negb (is_owner_t g t) then Some r
  else
    (fix try (os : list orc) : option rst :=
       match os with
       | [] => None
       | o :: os' =>
           match perform r t (GPhase o) with
           | None => try os'
           | Some (r1, acts) =>
               match footprint (g_k g) o (o_pc g) (g_s g) (g_s (r_g r1)) acts with
               | [] => match adv_unlock fu t r1 with Some x => Some x | None => try os' end
               | _ => try os'
               end
           end
       end) (orcs_for (r_cfg r) (o_pc g))
  end.

Definition cpc_code (p : cwpc) : Z :=
  match p with CIdle => 0 | CDecide _ _ => 1 | CDirect => 2 | CWLoad => 3 | CWTest _ => 4 | CWFutex _ => 5 | CWSleep => 6 | CRet => 7 end.

(* cancel_and_wait caller t: take GCawStep steps while the program point is one of `through` *)
Fixpoint caw_steps (fuel : nat) (t : Z) (lock : bool) (through : list Z) (r : rst) : option rst :=
  match fuel with O => Some r | S fu =>
  if existsb (Z.eqb (cpc_code (cpc (r_g r) t))) through then
    match perform r t (GCawStep lock orc_base) with
    | Some (r1, _) => caw_steps fu t lock through r1
    | None => None
    end
  else Some r
  end.

Definition caw_enter_if_needed (th : tst) (r : rst) : option rst :=
  if t_entered th then Some r
  else match perform r (t_id th) GCawEnter with
       | Some (r1, _) => if flags_eqb (fl (g_s (r_g r1))) (fl (g_s (r_g r))) then Some r1 else None   (* gave up: nothing stored *)
       | None => None
       end.

Definition has_wake (acts : list action) : bool := woke acts.

(* consume an optional futex wake right after a finalize that saw a waiter *)
Definition after_fin (acts : list action) (q : list robs) : option (list robs * Z) :=
  if has_wake acts then
    let '(q1, n) := pop_skips q in
    match q1 with RFwake :: q2 => Some (q2, n + 1) | _ => None end
  else Some (q, 0).

(* a cancel issued by the thread that holds the drain lock comes from one of the source's own callouts *)
Definition ctx_of (g : gst) (th : tst) : cctx :=
  if is_owner_t g (t_id th) then CxHandler else if t_ctx th =? 2 then CxTqItem else CxThread.

(* process the head observation of thread number i; returns the new replay state (the thread's list popped) *)
Definition exec0 (i : nat) (th : tst) (r : rst) : option rst :=
  let t := t_id th in let g := r_g r in
  let q := if t_mgr th then QMgr else QTarget in
  let fin (r1 : rst) (q' : list robs) (credit : Z) (f : tst -> tst) : option rst :=
    Some (mkR (r_g r1) (upd_t (r_ts r1) i (fun x => f (set_q x q' credit))) (r_acts r1) (r_cfg r1)) in
  let same := fun x : tst => x in
  (* an observation of the lock owner: the phase that produces it; the phase takes effect when the order reaches the
     anchor of its footprint, the observations before the anchor are passed without effect *)
  let owner_obs : option rst :=
    match adv true false 24 q i t (t_q th) r with
    | None => None
    | Some (_, _, _, an) =>
        if an <=? 1 then
          match adv true true 24 q i t (t_q th) r with
          | Some (r1, q', n, _) => fin r1 q' (n - 1) same
          | None => None
          end
        else Some (mkR g (upd_t (r_ts r) i (fun x => set_wait x (an - 1) an)) (r_acts r) (r_cfg r))
    end in
  match t_q th with
  | [] => None
  | h :: rest =>
    match h with
    | RBad => None
    | RSkip => fin r rest 0 same
    | RCall a c => fin r rest 0 (fun x => set_entered (set_api x a c) false)
    | RRet a =>
        if a =? API_ACTIVATE then
          if activated g then fin r rest 0 (fun x => set_api x 0 0)
          else match perform r t (GActivate orc_base) with
               | Some (r1, acts) => if match acts with [] => true | _ => false end then fin r1 rest 0 (fun x => set_api x 0 0) else None
               | None => None
               end
        else if a =? API_CAW then
          match caw_enter_if_needed th r with
          | None => None
          | Some r0 =>
              match caw_steps 6 t false [1; 4; 7] r0 with       (* CDecide (old had DELETED) / CWTest (DELETED seen) / CRet *)
              | Some r1 => if cpc_code (cpc (r_g r1) t) =? 0 then fin r1 rest 0 (fun x => set_entered (set_api x 0 0) false) else None
              | None => None
              end
          end
        else fin r rest 0 (fun x => set_api x 0 0)
    | RCb k =>
        if is_owner_t g t then
          owner_obs
        else None
    | RCe k =>
        if k =? 2 then fin r rest 0 same
        else if is_owner_t g t then
          owner_obs
        else None
    | RLock =>
        if t_api th =? API_CAW then
          match caw_enter_if_needed th r with
          | Some r0 => match perform r0 t (GCawStep true orc_base) with
                       | Some (r1, _) => if is_owner_t (r_g r1) t then fin r1 rest 0 (fun x => set_entered x true) else None
                       | None => None
                       end
          | None => None
          end
        else
          (* the source is runnable as soon as dispatch_activate has made it so, before the activating thread's return mark *)
          let r0 := if activated g then Some r
                    else match perform r t (GActivate orc_base) with
                         | Some (r1, acts) => match acts with [] => Some r1 | _ => None end
                         | None => None
                         end in
          match r0 with
          | Some r0 => match perform r0 t (GInvoke q) with Some (r1, _) => fin r1 rest 0 same | None => None end
          | None => None
          end
    | RUnlock => match adv_unlock 24 t r with Some r1 => fin r1 rest 0 same | None => None end
    | RReadF v m =>
        if negb m then (if fl_is (fl (g_s g)) v then fin r rest 0 same else None)
        else if is_owner_t g t || (negb (t_api th =? API_CAW)) then
          owner_obs
        else
          (* cancel_and_wait's wait loop: the load of source.c:1086 / 1097 *)
          match caw_enter_if_needed th r with
          | None => None
          | Some r0 =>
              match caw_steps 2 t false [1] r0 with
              | Some r1 =>
                  if negb (fl_is (fl (g_s (r_g r1))) v) then None
                  else if cpc_code (cpc (r_g r1) t) =? 3 then
                    match perform r1 t (GCawStep false orc_base) with
                    | Some (r2, _) => fin r2 rest 0 (fun x => set_entered x true)
                    | None => None
                    end
                  else fin r1 rest 0 (fun x => set_entered x true)   (* a wakeup's load (dispatch_activate inside the call) *)
              | None => None
              end
          end
    | ROrF old opnd =>
        if opnd =? DSF_CANCELED then
          match perform r t (GCancel (ctx_of g th)) with
          | Some (r1, _) => if fl_is (fl (g_s g)) old && fl_is (fl (g_s (r_g r1))) (Z.lor old opnd) then fin r1 rest 0 same else None
          | None => None
          end
        else if opnd =? DQF_RELEASED then
          match perform r t GRelease with
          | Some (r1, _) => if fl_is (fl (g_s (r_g r1))) (Z.lor old opnd) then fin r1 rest 0 same else None
          | None => None
          end
        else if fl_is (fl (g_s g)) old && fl_is (fl (g_s g)) (Z.lor old opnd) then fin r rest 0 same else None
    | RAndF old opnd => if fl_is (fl (g_s g)) old && fl_is (fl (g_s g)) (Z.land old opnd) then fin r rest 0 same else None
    | RCaswF seen new ok =>
        if negb ok then (if fl_is (fl (g_s g)) seen then fin r rest 0 same else None)
        else if is_owner_t g t then
          owner_obs
        else if is_commit (flags_set_and_clear_loop 0 DSF_DELETED (Z.lor DSF_NEEDS_EVENT DSF_CANCEL_WAITER) seen) new then
          (* a finalize outside the drain lock: activation of a cancelled source (dispatch_activate, or cancel_and_wait's) *)
          let try_act (a : act) (r0 : rst) :=
            match perform r0 t a with
            | Some (r1, acts) =>
                if fl_is (fl (g_s g)) seen && fl_is (fl (g_s (r_g r1))) new then
                  match after_fin acts rest with Some (q', n) => Some (r1, q', n) | None => None end
                else None
            | None => None
            end in
          let viacaw :=
            if t_api th =? API_CAW then
              match caw_enter_if_needed th r with Some r0 => try_act (GCawStep false orc_base) r0 | None => None end
            else None in
          match viacaw with
          | Some (r1, q', n) => fin r1 q' n (fun x => set_entered x true)
          | None => match try_act (GActivate orc_base) r with Some (r1, q', n) => fin r1 q' n same | None => None end
          end
        else if t_api th =? API_CAW then
          (* the first loop of cancel_and_wait *)
          match perform r t GCawEnter with
          | Some (r1, _) =>
              if fl_is (fl (g_s g)) seen && fl_is (fl (g_s (r_g r1))) new
                 && is_commit (cancel_and_wait_loop 0 seen (b2z (k_timer (g_k g))) (b2z (k_direct (g_k g)))) new
              then fin r1 rest 0 (fun x => set_entered x true) else None
          | None => None
          end
        else None
    | RCasF seen new ok =>
        (* the waiter CAS of cancel_and_wait's wait loop (source.c:1089) *)
        if cpc_code (cpc g t) =? 4 then
          match perform r t (GCawStep false orc_base) with
          | Some (r1, _) =>
              let c := cpc_code (cpc (r_g r1) t) in
              if ok then (if (c =? 5) && fl_is (fl (g_s g)) seen && fl_is (fl (g_s (r_g r1))) new then fin r1 rest 0 same else None)
              else (if (c =? 4) && fl_is (fl (g_s g)) seen then fin r1 rest 0 same else None)
          | None => None
          end
        else None
    | RFwait v =>
        match caw_steps 1 t false [4] r with             (* CWTest with the waiter bit already there *)
        | Some r1 =>
            if cpc_code (cpc (r_g r1) t) =? 5 then
              let '(q1, n) := pop_skips rest in
              match q1 with
              | RFret rc :: _ =>
                  match perform r1 t (GCawStep (negb (rc =? EAGAIN)) orc_base) with
                  | Some (r2, _) =>
                      let c := cpc_code (cpc (r_g r2) t) in
                      if (if rc =? EAGAIN then c =? 3 else c =? 6) then fin r2 rest 0 same else None
                  | None => None
                  end
              | _ => None
              end
            else None
        | None => None
        end
    | RFret rc =>
        if cpc_code (cpc g t) =? 6 then match perform r t GFutexRet with Some (r1, _) => fin r1 rest 0 same | None => None end
        else fin r rest 0 same
    | RFwake => if is_owner_t g t then owner_obs else None
    | RReadU v =>
        (* the owner's phases without footprint read du_state: they are taken when the thread reads it, if the model agrees
           on the value (else later, at the thread's next observation) *)
        (* several loads in a row (wlh check, needs_delete, needs_rearm ...): the decision is read off the last one *)
        let last_of_burst := match fst (pop_skips rest) with RReadU _ :: _ => false | _ => true end in
        (* at source.c:763 a suspended source returns at once: the load of :724 then is the thread's last observation before
           the unlock; the choice is left to the unlock *)
        let returns_now := match o_pc g, fst (pop_skips rest) with OA1, RUnlock :: _ => true | _, _ => false end in
        if is_owner_t g t && last_of_burst && negb returns_now && src_du_is (g_s g) v then fin (eager 24 t r) rest 0 same
        else fin r rest 0 same
    | RWu v uold =>
        if is_owner_t g t then
          owner_obs
        else if negb (activated g) then
          (* registration at activation (source.c:674-691) *)
          match perform r t (GActivate (mkO false false true true false true true true)) with
          | Some (r1, _) =>
              if src_du_is (g_s (r_g r1)) v then
                let '(q1, n) := pop_skips rest in
                match q1 with RWp 0 :: q2 => fin r1 q2 (n + 1) same | _ => fin r1 rest 0 same end
              else None
          | None => None
          end
        else
          (* the manager delivers an event, first half: the du_state update *)
          let '(w, a, nd) := du_bits v in
          if (uold =? -1) || src_du_is (g_s g) uold then
            match perform r t (if nd then GHangup else GEvent a) with
            | Some (r1, _) => if src_du_is (g_s (r_g r1)) v then fin r1 rest 0 same else None
            | None => None
            end
          else None
    | RWp p =>
        if is_owner_t g t then
          owner_obs
        else if p =? 0 then None
        else if t_mgr th then
          (* second half of a delivery: ds_pending_data, _dispatch_source_merge_evt; a delivery that does not touch du_state
             (signal, timer that stays armed) is both halves here *)
          let r0 := if m_hup g then Some r
                    else match perform r t (GEvent (karm (g_s g))) with
                         | Some (r1, _) => if flags_eqb (fl (g_s (r_g r1))) (fl (g_s g)) && Bool.eqb (du_armed (g_s (r_g r1))) (du_armed (g_s g)) then Some r1 else None
                         | None => None
                         end in
          match r0 with
          | Some r0 => match perform r0 t GEvMerge with
                       | Some (r1, acts) => match acts with [] => if pending (g_s (r_g r1)) then fin r1 rest 0 same else None | _ => None end
                       | None => None
                       end
          | None => None
          end
        else match perform r t GMergeData with Some (r1, _) => fin r1 rest 0 same | None => None end
    | RXp _ | RXh _ _ =>
        if is_owner_t g t || (t_api th =? 0) then
          owner_obs
        else None
    end
  end.

Definition exec := exec0.

(* follow the order: one entry = one observation of that thread (entries already consumed ahead are credited) *)
Definition at_anchor (i : nat) (th : tst) (r : rst) : option rst :=
  match adv false true 24 (if t_mgr th then QMgr else QTarget) i (t_id th) (t_q th) r with
  | Some (r1, q', n, _) =>
      if t_base th <=? n then
        Some (mkR (r_g r1) (upd_t (r_ts r1) i (fun x => set_wait (set_q x q' (n - t_base th)) 0 0)) (r_acts r1) (r_cfg r1))
      else None
  | None => None
  end.

Fixpoint sched (ord : list nat) (r : rst) (done : Z) : rst * Z * list nat :=
  match ord with
  | [] => (r, done, [])
  | i :: ord' =>
      match nth_error (r_ts r) i with
      | None => (r, done, ord)
      | Some th =>
          if 0 <? t_credit th then
            sched ord' (mkR (r_g r) (upd_t (r_ts r) i (fun x => set_q x (t_q x) (-1))) (r_acts r) (r_cfg r)) (done + 1)
          else if 1 <? t_wait th then
            sched ord' (mkR (r_g r) (upd_t (r_ts r) i (fun x => set_wait x (t_wait x - 1) (t_base x))) (r_acts r) (r_cfg r)) (done + 1)
          else if t_wait th =? 1 then
            match at_anchor i th r with Some r1 => sched ord' r1 (done + 1) | None => (r, done, ord) end
          else match exec i th r with
               | Some r1 => sched ord' r1 (done + 1)
               | None => (r, done, ord)
               end
      end
  end.

Definition obs_code (o : robs) : Z :=
  match o with
  | RLock => 1 | RUnlock => 2 | RReadF _ m => if m then 4 else 3 | ROrF _ _ => 5 | RAndF _ _ => 6 | RCaswF _ _ _ => 7
  | RCasF _ _ _ => 8 | RReadU _ => 22 | RWu _ _ => 9 | RXp _ => 10 | RWp _ => 11 | RXh _ _ => 12 | RFwait _ => 13 | RFret _ => 14 | RFwake => 15
  | RCall _ _ => 16 | RRet _ => 17 | RCb _ => 18 | RCe _ => 19 | RSkip => 20 | RBad => 21
  end.

(* ------------------------------------------------------------------ the boolean invariant *)
Definition implb' (a b : bool) : bool := negb a || b.
Definition sinv_b (k : kind) (s : src) : bool :=
  implb' (deleted (fl s)) (negb (registered s) && negb (kreg s) && installed s && negb (waiter (fl s)) && negb (needs_event (fl s))) &&
  implb' (kreg s) (du_wlh s) && implb' (du_armed s || du_nd s) (du_wlh s) && implb' (du_wlh s) (installed s) &&
  implb' (du_nd s) (kreg s) && implb' (k_timer k) (negb (du_nd s)) && implb' (karm s) (kreg s).
Definition hinv_b (g : gst) : bool :=
  implb' (m_hup g) (match owner g with Some _ => negb (queue_eqb (o_q g) QMgr) | None => true end &&
                    (k_timer (g_k g) || (registered (g_s g) && negb (k_direct (g_k g))))) &&
  implb' (in_cd (o_pc g)) (k_direct (g_k g)) && implb' (m_hup g) (activated g).
Definition opt_is_none {A} (o : option A) : bool := match o with None => true | Some _ => false end.
Definition opc_is (p q : opc) : bool :=
  match p, q with OIdle, OIdle | OLatch, OLatch | OP3, OP3 => true | _, _ => false end.
Definition origin_thread (o : option cctx) : bool := match o with Some CxThread => true | _ => false end.
Definition ginv_b (g : gst) : bool :=
  let s := g_s g in let f := fl s in
  sinv_b (g_k g) s &&
  implb' (installed s) (activated g) && implb' (negb (opt_is_none (owner g))) (activated g) &&
  Bool.eqb (opt_is_none (owner g)) (opc_is (o_pc g) OIdle) &&
  implb' (waiter f) (canceled f) && implb' (past_install (o_pc g)) (installed s) &&
  implb' (in_cd (o_pc g)) (negb (h_ca s) && canceled f) &&
  (0 <=? ch_count g) && (ch_count g <=? 1) &&
  implb' (h_ca s) ((ch_count g =? 0) && negb (ch_disposed g)) &&
  implb' (negb (h_ca s) && ch_set g) ((ch_count g =? 1) || ch_disposed g) &&
  implb' (negb (ch_set g)) (negb (h_ca s) && (ch_count g =? 0)) &&
  implb' (1 <=? ch_count g) (canceled f && deleted f) &&
  implb' (ch_disposed g) (released f && negb (canceled f)) &&
  (0 <=? late_starts g) && (late_starts g <=? 1) &&
  implb' (1 <=? late_starts g) (canceled f && origin_thread (origin g)) &&
  implb' (opc_is (o_pc g) OLatch)
         ((late_starts g =? 0) && (ch_count g =? 0) && queue_eqb (o_q g) QTarget && implb' (canceled f) (origin_thread (origin g))) &&
  implb' (canceled (o_dqf g)) (canceled f) && implb' (deleted (o_dqf g)) (deleted f) && implb' (released (o_dqf g)) (released f) &&
  implb' (opc_is (o_pc g) OP3) (Bool.eqb (deleted (o_dqf g)) (deleted f)) &&
  negb (caw_early g).
Definition tinv_b (g : gst) (t : Z) : bool :=
  let s := g_s g in let f := fl s in
  implb' (negb (cpc_code (cpc g t) =? 0)) (negb (h_ca s) && canceled f) &&
  match cpc g t with
  | CDecide o n => implb' (deleted o) (deleted f) && implb' (negb (deleted o) && negb (k_direct (g_k g))) (waiter n)
  | CWTest d => implb' (deleted d) (deleted f)
  | CWFutex d => waiter d && negb (deleted d)
  | CRet => deleted f
  | _ => true
  end &&
  implb' (slp g t) ((cpc_code (cpc g t) =? 6) && waiter f && negb (deleted f)).
Definition inv_b (tids : list Z) (g : gst) : bool := ginv_b g && hinv_b g && forallb (tinv_b g) tids.

(* ------------------------------------------------------------------ the result the checker reads
   [observations consumed; observations left; index of the stuck thread or -1; code of its head observation or -1;
    the acts re-run from the initial state: 1 if grun accepts them; flags of the final state as bits c w n d r;
    handler slots e c r; du bits w a n; kreg; pending; owner is None; every cancel_and_wait caller idle; ch_count;
    eh_count; late_starts; inv_b of the final state; number of model acts] *)
Definition b (x : bool) : Z := if x then 1 else 0.
Definition replay_run (k : kind) (ev ca rg : bool) (ts : list tst) (ord : list nat) : rst * Z * list nat :=
  sched ord (mkR (init_state k ev ca rg) ts [] (k_timer k)) 0.
(* the model acts the scheduler performed, in order (a delivery whose second half the recording ends before is completed) *)
Definition replay_acts (k : kind) (ev ca rg : bool) (ts : list tst) (ord : list nat) : list (Z * act) :=
  let r := fst (fst (replay_run k ev ca rg ts ord)) in
  rev (r_acts r) ++ (if m_hup (r_g r) then [(0, GEvMerge)] else []).
(* the state the checker judges: those acts run from the initial state by SrcLife.grun *)
Definition replay_state (k : kind) (ev ca rg : bool) (ts : list tst) (ord : list nat) : option gst :=
  grun (init_state k ev ca rg) (replay_acts k ev ca rg ts ord).

Definition replay (k : kind) (ev ca rg : bool) (ts : list tst) (ord : list nat) : list Z :=
  let g0 := init_state k ev ca rg in
  let '(r, done, rest) := replay_run k ev ca rg ts ord in
  let acts := replay_acts k ev ca rg ts ord in
  let stuck := match rest with i :: _ => Z.of_nat i | [] => -1 end in
  let code := match rest with
              | i :: _ => match nth_error (r_ts r) i with Some th => match t_q th with h :: _ => obs_code h | [] => 0 end | None => -1 end
              | [] => -1 end in
  match replay_state k ev ca rg ts ord with
  | None => [done; Z.of_nat (length rest); stuck; code; 0]
  | Some g =>
      let s := g_s g in let f := fl s in
      [done; Z.of_nat (length rest); stuck; code; 1;
       b (canceled f); b (waiter f); b (needs_event f); b (deleted f); b (released f);
       b (h_ev s); b (h_ca s); b (h_reg s); b (du_wlh s); b (du_armed s); b (du_nd s); b (kreg s); b (pending s);
       b (opt_is_none (owner g)); b (forallb (fun th => cpc_code (cpc g (t_id th)) =? 0) ts);
       ch_count g; eh_count g; late_starts g; b (inv_b (map t_id ts) g); Z.of_nat (length acts);
       b (forallb (fun th => match t_q th with [] => true | _ => false end) (r_ts r))]
  end.
