(* Block.v — model of dispatch block objects (src/queue.c: _dispatch_block_invoke_direct, _dispatch_block_sync_invoke,
   _dispatch_block_async_invoke2, dispatch_block_cancel / _testcancel / _wait / _notify, the dbpd_queue bookkeeping of
   _dispatch_continuation_init_slow / _dispatch_sync_block_with_privdata) for ONE block object, any number of
   threads, any number of invocations of the same object.

   The DBF_* constants and the ordered atomic sites of the modelled functions come from Gen_block (regenerated from
   the source on every run); DISPATCH_GROUP_VALUE_INTERVAL / _MASK from Gen_group.

   Abstractions (stated, not hidden):
   - the private group dbpd_group is NOT modelled in detail (that is Model/Group.v, property C07).  Here it is a
     counter `gcount` entered once at creation, a list of registered notifications and three abstract events:
       G_LEAVE   = the os_atomic_add_orig2o(dg_state, INTERVAL, release) of dispatch_group_leave (a recorded event),
       G_WAITRET = dispatch_group_wait returns r (0 only if the count is zero; non-zero only if timeout <> FOREVER),
       G_NOTIFY  = dispatch_group_notify takes effect (submitted at once if the count is zero, else registered and
                   submitted by the leave that brings the count to zero).
     Everything else the group functions do on dg_state (rmw loops, generation loads, futex calls) is accepted as
     group-internal noise at exactly the program points where the model is inside a group call.
   - the END OF LIFE of the object (src/block.cpp, ~dispatch_block_private_data_s, run by Block_release of the last
     reference) is modelled: OP_RELEASE / PDtor*: `if (!dbpd_performed) dispatch_group_leave(dbpd_group)` — an object
     destroyed without ever having been executed leaves its group, which submits every registered notification although
     nothing completed (confirmed on the library; block.h calls "observed ... and never executed" undefined) — then the
     release of the group and of a target queue still in dbpd_queue.  CLIENT CONTRACT built into the enabling condition of
     the release step: it is the LAST reference, i.e. no thread is inside any call on the object (`active s = []`: every
     caller must own a reference for the duration of its call) and no submission is waiting in a queue (`pendsub s = 0`:
     a queued continuation holds a reference); after it (`disposed`) nobody but the destroying thread may touch the object
     (use after free).  Invocations from a queue are tied to submissions by the same counter `pendsub`.
   - priorities / vouchers / thread overrides (no-ops on this platform) are not modelled; the references taken on the
     target queue for dbpd_queue are (ghost `qref`), the queue wake-up of dispatch_block_wait is one abstract
     "consume two references" event.
   - plain (non-os_atomic) accesses are invisible to the DISPATCH_VERIF hook: the volatile reads of
     dbpd_atomic_flags (once per invocation, once in testcancel), the read and the write of dbpd_thread, and the
     abstract events above are LATENT events: steps of `tstep`, absent from recorded traces.  Trace conformance
     (`conform`) runs the subset construction over latent steps (see vstep and Block_proofs.vstep_sound); whole recorded
     rounds are replayed on the global model gstep by Model/BlockR.v (latent steps inserted with the model's values). *)
From Coq Require Import ZArith Bool List.
From Verif Require Import Word Conc Gen_consts Gen_fields Gen_group Gen_block.
Import ListNotations.
Local Open Scope Z_scope.

Definition CANCELED := DBF_CANCELED.
Definition WAITING := DBF_WAITING.
Definition WAITED := DBF_WAITED.
Definition PERFORM := DBF_PERFORM.
Definition NOT_WAITING := not32 DBF_WAITING.          (* (unsigned int)~DBF_WAITING *)
Definition FOREVER := DISPATCH_TIME_FOREVER.
Definition G_INTERVAL := DISPATCH_GROUP_VALUE_INTERVAL.
Definition G_VALUE_MASK := DISPATCH_GROUP_VALUE_MASK.

(* byte offsets inside struct dispatch_block_private_data_s (harness/c19_block.c checks them with _Static_assert) *)
Definition OFF_FLAGS := 16.
Definition OFF_PERF := 20.
Definition OFF_QUEUE := 56.
Definition OFF_THREAD := 64.
(* recorded objects: even = the private data record, odd = the dg_state word of the private group *)
Definition is_grp (e : event) : bool := Z.odd (eobj e).
(* a plain (non-atomic) access has no memory order *)
Definition MO_PLAIN := -1.
(* abstract (latent) events *)
Definition DVG_WAITRET := 120.    (* ea = 0 / 1: dispatch_group_wait returned zero / non-zero *)
Definition DVG_NOTIFY := 121.     (* dispatch_group_notify took effect *)
Definition DVQ_RETAIN2 := 122.    (* _dispatch_retain_2(dq) *)
Definition DVQ_RELEASE2 := 123.   (* _dispatch_release_2(dq) / _no_dispose / the CONSUME_2 of dx_wakeup *)
(* DVU_CALL: ea = operation, eb = argument (the timeout of dispatch_block_wait) *)
Definition OP_DIRECT := 1.        (* db() : _dispatch_block_invoke_direct, also on a DBF_PERFORM record *)
Definition OP_SYNC := 2.          (* dispatch_sync / dispatch_barrier_sync (q, db) *)
Definition OP_ASYNC := 3.         (* dispatch_async / dispatch_barrier_async / dispatch_group_async (q, db) *)
Definition OP_CANCEL := 5.
Definition OP_TESTCANCEL := 6.
Definition OP_WAIT := 7.
Definition OP_NOTIFY := 8.
Definition OP_RELEASE := 10.      (* Block_release of the LAST reference: runs the destructor of the private data *)

Definition hasb (f m : Z) : bool := negb (Z.land f m =? 0).
Definition raw (e : event) : bool := ek e <? 100.     (* an event reported by the hook (atomic op, futex note) *)

Inductive variant := VDirect | VSync | VAsync.

(* program points of one thread *)
Inductive pc :=
| PIdle                               (* not inside any of the modelled functions *)
| PCrash                              (* DISPATCH_CLIENT_CRASH taken *)
| PRet (r : Z)                        (* about to return to the caller; r = 0 / 1: zero / non-zero result *)
| PSubmit (v : variant)               (* _dispatch_retain_2(dq) next *)
| PSubmitCas (v : variant)            (* os_atomic_cmpxchg2o(dbpd, dbpd_queue, NULL, dq, relaxed) next *)
| PSubmitRel (v : variant)            (* the cmpxchg failed: _dispatch_release_2_no_dispose(dq) next *)
| PInvRead (v : variant)              (* unsigned int atomic_flags = dbpd->dbpd_atomic_flags next (plain read) *)
| PSetThread (f : Z)                  (* direct only: dbpd->dbpd_thread = _dispatch_tid_self() next (plain store) *)
| PBodyNext (v : variant) (f : Z)     (* the body is called next *)
| PInBody (v : variant) (f : Z)       (* inside the body; f = the flags value read BEFORE the body *)
| PInc (v : variant)                  (* os_atomic_inc2o(dbpd, dbpd_performed, relaxed) next *)
| PLeave (v : variant)                (* dispatch_group_leave(dbpd_group) next *)
| PPost (v : variant) (g : bool)      (* after the completion; g: still inside dispatch_group_leave *)
| PRel (v : variant)                  (* boost_dq != NULL: _dispatch_release_2(boost_dq) next *)
| PCancel                             (* os_atomic_or2o(dbpd_atomic_flags, DBF_CANCELED, relaxed) next *)
| PTestRead                           (* plain read of dbpd_atomic_flags next *)
| PWaitOr (tmo : Z)                   (* os_atomic_or_orig2o(dbpd_atomic_flags, DBF_WAITING, relaxed) next *)
| PWaitXchg (tmo : Z)                 (* os_atomic_xchg2o(dbpd_queue, NULL, relaxed) next *)
| PWaitWake (tmo bq : Z)              (* dx_wakeup(boost_dq, ..., DISPATCH_WAKEUP_CONSUME_2) next *)
| PWaitThread (tmo bq : Z)            (* boost_th = dbpd->dbpd_thread next (plain read) *)
| PWaitPerf (tmo bq bt : Z)           (* os_atomic_load2o(dbpd_performed, relaxed) next *)
| PWaitG (tmo : Z)                    (* inside dispatch_group_wait(dbpd_group, timeout) *)
| PWaitOut (r : Z)                    (* ret = r: and ~DBF_WAITING (r <> 0) / or DBF_WAITED (r = 0) next *)
| PNotifyPerf                         (* os_atomic_load2o(dbpd_performed, relaxed) next *)
| PNotifyG                            (* inside dispatch_group_notify(dbpd_group, queue, block) *)
| PDtorPerf                           (* destructor: `if (!dbpd_performed)` next (plain read) *)
| PDtorLeave                          (* never performed: dispatch_group_leave(dbpd_group) next *)
| PDtorPost                           (* _os_object_release(dbpd_group), then `if (dbpd_queue)` (plain read) next *)
| PDtorRel.                           (* _os_object_release_internal_n(dbpd_queue, 2) next *)

(* `out:` of the three invoke functions, with the flags value read at entry *)
Definition after_body (v : variant) (f : Z) : pc := if hasb f PERFORM then PPost v false else PInc v.
(* after the single read of dbpd_atomic_flags *)
Definition inv_entry (v : variant) (f : Z) : pc :=
  if hasb f WAITED then PCrash
  else if hasb f CANCELED then after_body v f
  else match v with VDirect => PSetThread f | _ => PBodyNext v f end.
Definition call_entry (op arg : Z) : option pc :=
  if op =? OP_DIRECT then Some (PInvRead VDirect)
  else if op =? OP_SYNC then Some (PSubmit VSync)
  else if op =? OP_ASYNC then Some (PSubmit VAsync)
  else if op =? OP_CANCEL then Some PCancel
  else if op =? OP_TESTCANCEL then Some PTestRead
  else if op =? OP_WAIT then Some (PWaitOr arg)
  else if op =? OP_NOTIFY then Some PNotifyPerf
  else if op =? OP_RELEASE then Some PDtorPerf
  else None.
(* after the completion part of an invocation: sync / async give the boost queue back, direct returns *)
Definition post_end (v : variant) : pc := match v with VSync => PRet 0 | _ => PIdle end.

(* events on the private group's dg_state word *)
Definition tstep_grp (p : pc) (e : event) : option pc :=
  match p with
  | PLeave v =>
      if ev_is e DV_ADD MO_RELEASE 0 && (eb e =? G_INTERVAL) && (esz e =? 8)
      then Some (if Z.land (ea e) G_VALUE_MASK =? 0 then PCrash (* Unbalanced call to dispatch_group_leave() *)
                 else PPost v true)
      else None
  | PPost v true => if raw e then Some p else None
  | PWaitG tmo =>
      if ek e =? DVG_WAITRET
      then (if (ea e =? 0) || ((ea e =? 1) && negb (tmo =? FOREVER)) then Some (PWaitOut (ea e)) else None)
      else if raw e then Some p else None
  | PNotifyG => if ek e =? DVG_NOTIFY then Some (PRet 0) else if raw e then Some p else None
  | PDtorLeave =>
      if ev_is e DV_ADD MO_RELEASE 0 && (eb e =? G_INTERVAL) && (esz e =? 8)
      then Some (if Z.land (ea e) G_VALUE_MASK =? 0 then PCrash else PDtorPost) else None
  | PDtorPost => if raw e then Some p else None      (* tail of the leave; _dispatch_group_dispose's load of dg_state *)
  | _ => None
  end.

(* the per-thread automaton: which event a thread with id `self` may perform next *)
Definition tstep (self : Z) (p : pc) (e : event) : option pc :=
  if is_grp e then tstep_grp p e else
  match p with
  | PIdle =>
      if ev_kind e DVU_CALL then call_entry (ea e) (eb e)
      else if ev_is e DV_LOAD MO_PLAIN OFF_FLAGS     (* a worker thread enters _dispatch_block_async_invoke2 *)
      then Some (inv_entry VAsync (ea e)) else None
  | PCrash => None
  | PRet r => if ev_kind e DVU_RET && (b2z (nz (ea e)) =? r) then Some PIdle else None
  | PSubmit v => if ev_kind e DVQ_RETAIN2 then Some (PSubmitCas v) else None
  | PSubmitCas v =>
      if ev_is e DV_CAS MO_RELAXED OFF_QUEUE && (esz e =? 8) && negb (eb e =? 0)
      then Some (if eok e =? 1 then (match v with VSync => PInvRead VSync | _ => PRet 0 end) else PSubmitRel v)
      else None
  | PSubmitRel v =>
      if ev_kind e DVQ_RELEASE2 then Some (match v with VSync => PInvRead VSync | _ => PRet 0 end) else None
  | PInvRead v => if ev_is e DV_LOAD MO_PLAIN OFF_FLAGS then Some (inv_entry v (ea e)) else None
  | PSetThread f => if ev_is e DV_STORE MO_PLAIN OFF_THREAD && (eb e =? self) then Some (PBodyNext VDirect f) else None
  | PBodyNext v f => if ev_kind e DVU_CALLOUT_BEGIN then Some (PInBody v f) else None
  | PInBody v f => if ev_kind e DVU_CALLOUT_END then Some (after_body v f) else None
  | PInc v =>
      if ev_is e DV_ADD MO_RELAXED OFF_PERF && (eb e =? 1) && (esz e =? 4)
      then Some (if wrapsz 4 (ea e + 1) =? 1 then PLeave v else PPost v false) else None
  | PLeave _ => None
  | PPost v _ =>
      match v with
      | VDirect => if ev_kind e DVU_RET && (ea e =? 0) then Some PIdle else None
      | _ => if ev_is e DV_XCHG MO_RELAXED OFF_QUEUE && (eb e =? 0) && (esz e =? 8)
             then Some (if ea e =? 0 then post_end v else PRel v) else None
      end
  | PRel v => if ev_kind e DVQ_RELEASE2 then Some (post_end v) else None
  | PCancel =>
      if ev_is e DV_OR MO_RELAXED OFF_FLAGS && (eb e =? CANCELED) && (esz e =? 4) then Some (PRet 0) else None
  | PTestRead => if ev_is e DV_LOAD MO_PLAIN OFF_FLAGS then Some (PRet (b2z (hasb (ea e) CANCELED))) else None
  | PWaitOr tmo =>
      if ev_is e DV_OR MO_RELAXED OFF_FLAGS && (eb e =? WAITING) && (esz e =? 4)
      then Some (if hasb (ea e) (Z.lor WAITED WAITING) then PCrash else PWaitXchg tmo) else None
  | PWaitXchg tmo =>
      if ev_is e DV_XCHG MO_RELAXED OFF_QUEUE && (eb e =? 0) && (esz e =? 8)
      then Some (if ea e =? 0 then PWaitThread tmo 0 else PWaitWake tmo (ea e)) else None
  | PWaitWake tmo bq => if ev_kind e DVQ_RELEASE2 then Some (PWaitThread tmo bq) else None
  | PWaitThread tmo bq => if ev_is e DV_LOAD MO_PLAIN OFF_THREAD then Some (PWaitPerf tmo bq (ea e)) else None
  | PWaitPerf tmo bq bt =>
      if ev_is e DV_LOAD MO_RELAXED OFF_PERF && (esz e =? 4)
      then Some (if (1 <? s32 (ea e)) || (nz bt && nz bq) then PCrash else PWaitG tmo) else None
  | PWaitG _ => None
  | PWaitOut r =>
      if r =? 0
      then (if ev_is e DV_OR MO_RELAXED OFF_FLAGS && (eb e =? WAITED) && (esz e =? 4) then Some (PRet 0) else None)
      else (if ev_is e DV_AND MO_RELAXED OFF_FLAGS && (eb e =? NOT_WAITING) && (esz e =? 4) then Some (PRet 1) else None)
  | PNotifyPerf =>
      if ev_is e DV_LOAD MO_RELAXED OFF_PERF && (esz e =? 4)
      then Some (if 1 <? s32 (ea e) then PCrash else PNotifyG) else None
  | PNotifyG => None
  | PDtorPerf => if ev_is e DV_LOAD MO_PLAIN OFF_PERF then Some (if u32 (ea e) =? 0 then PDtorLeave else PDtorPost) else None
  | PDtorLeave => None
  | PDtorPost => if ev_is e DV_LOAD MO_PLAIN OFF_QUEUE then Some (if ea e =? 0 then PRet 0 else PDtorRel) else None
  | PDtorRel => if ev_kind e DVQ_RELEASE2 then Some (PRet 0) else None
  end.

(* atomic sites of the modelled functions in program order: must equal what src2v reads from the source *)
Definition st (k : akind) (f : nat) (o : morder) : site := {| s_kind := k; s_field := f; s_order := o |}.
Definition model_sites_cancel : list site := [ st KOr F_dbpd_atomic_flags Relaxed ].
Definition model_sites_testcancel : list site := [].
Definition model_sites_wait : list site :=
  [ st KOr F_dbpd_atomic_flags Relaxed; st KXchg F_dbpd_queue Relaxed; st KLoad F_dbpd_performed Relaxed;
    st KAnd F_dbpd_atomic_flags Relaxed; st KOr F_dbpd_atomic_flags Relaxed ].
Definition model_sites_notify : list site := [ st KLoad F_dbpd_performed Relaxed ].
Definition model_sites_invoke_direct : list site := [ st KAdd F_dbpd_performed Relaxed ].
Definition model_sites_sync_invoke : list site :=
  [ st KAdd F_dbpd_performed Relaxed; st KXchg F_dbpd_queue Relaxed; st KSub F_os_obj_ref_cnt Release ].
Definition model_sites_async_invoke2 : list site := model_sites_sync_invoke.
(* the dbpd_queue publication of _dispatch_sync_block_with_privdata: retain, cmpxchg, release on failure *)
Definition model_sites_submit : list site :=
  [ st KAdd F_os_obj_ref_cnt Relaxed; st KCas F_dbpd_queue Relaxed; st KSub F_os_obj_ref_cnt Release ].

(* ------------------------------------------------------------------ global model *)
Record gst := {
  flags : Z;                (* dbpd_atomic_flags (unsigned int) *)
  performed : Z;            (* dbpd_performed as a 32-bit pattern *)
  queue : Z;                (* dbpd_queue (0 = NULL) *)
  thread : Z;               (* dbpd_thread *)
  hasgrp : bool;            (* false for the stack record of dispatch_block_perform (dbpd_group = NULL) *)
  gcount : Z;               (* abstract private group: outstanding enters *)
  pending : list Z;         (* abstract private group: registered notifications (ids) not yet submitted *)
  pcs : Z -> pc;            (* program point of every thread *)
  (* ghost *)
  cancelled : bool;         (* some dispatch_block_cancel has performed its os_atomic_or *)
  bodies : Z;               (* body executions started *)
  fin : Z;                  (* invocations whose body has returned, or was skipped (they reached `out:`) *)
  ninv : Z;                 (* increments of dbpd_performed so far (unbounded) *)
  leaves : Z;               (* successful dispatch_group_leave calls on the private group *)
  nreg : Z;                 (* notifications registered so far: ids 0 .. nreg-1 *)
  fcnt : Z -> Z;            (* how many times notification i has been submitted *)
  waiter : option Z;        (* the thread between its or-orig of DBF_WAITING and its and / or on the way out *)
  qref : Z;                 (* references on the target queue held for dbpd_queue: retains minus releases *)
  hands : list Z;           (* ghost: the threads that hold such a pair of references "in hand" *)
  active : list Z;          (* ghost: the threads that are inside a call on the object (not at PIdle) *)
  pendsub : Z;              (* submissions to a queue (dispatch_async & co) whose invocation has not begun *)
  disposed : bool;          (* the last reference has been released: the destructor runs / has run *)
  dtor : option Z;          (* the thread that runs the destructor *)
  dleave : bool             (* the destructor has left the group (the object was never performed) *)
}.

Definition init_state (perform : bool) : gst :=
  {| flags := if perform then PERFORM else 0; performed := 0; queue := 0; thread := 0; hasgrp := negb perform;
     gcount := if perform then 0 else 1; pending := []; pcs := fun _ => PIdle; cancelled := false; bodies := 0;
     fin := 0; ninv := 0; leaves := 0; nreg := 0; fcnt := fun _ => 0; waiter := None; qref := 0; hands := [];
     active := []; pendsub := 0; disposed := false; dtor := None; dleave := false |}.

Definition pc_idle (p : pc) : bool := match p with PIdle => true | _ => false end.
(* the threads inside a call: t enters when it leaves PIdle, leaves when it is back at PIdle *)
Definition act_upd (l : list Z) (t : Z) (p p' : pc) : list Z :=
  if pc_idle p then (if pc_idle p' then l else t :: l) else (if pc_idle p' then remove Z.eq_dec t l else l).
Definition set_pc s t p := {| flags := flags s; performed := performed s; queue := queue s; thread := thread s;
  hasgrp := hasgrp s; gcount := gcount s; pending := pending s; pcs := upd (pcs s) t p; cancelled := cancelled s;
  bodies := bodies s; fin := fin s; ninv := ninv s; leaves := leaves s; nreg := nreg s; fcnt := fcnt s;
  waiter := waiter s; qref := qref s; hands := hands s;
  active := act_upd (active s) t (pcs s t) p; pendsub := pendsub s; disposed := disposed s; dtor := dtor s; dleave := dleave s |}.
Definition set_flags s v c w := {| flags := v; performed := performed s; queue := queue s; thread := thread s;
  hasgrp := hasgrp s; gcount := gcount s; pending := pending s; pcs := pcs s; cancelled := c;
  bodies := bodies s; fin := fin s; ninv := ninv s; leaves := leaves s; nreg := nreg s; fcnt := fcnt s;
  waiter := w; qref := qref s; hands := hands s;
  active := active s; pendsub := pendsub s; disposed := disposed s; dtor := dtor s; dleave := dleave s |}.
Definition set_perf s v n := {| flags := flags s; performed := v; queue := queue s; thread := thread s;
  hasgrp := hasgrp s; gcount := gcount s; pending := pending s; pcs := pcs s; cancelled := cancelled s;
  bodies := bodies s; fin := fin s; ninv := n; leaves := leaves s; nreg := nreg s; fcnt := fcnt s;
  waiter := waiter s; qref := qref s; hands := hands s;
  active := active s; pendsub := pendsub s; disposed := disposed s; dtor := dtor s; dleave := dleave s |}.
Definition set_queue s v := {| flags := flags s; performed := performed s; queue := v; thread := thread s;
  hasgrp := hasgrp s; gcount := gcount s; pending := pending s; pcs := pcs s; cancelled := cancelled s;
  bodies := bodies s; fin := fin s; ninv := ninv s; leaves := leaves s; nreg := nreg s; fcnt := fcnt s;
  waiter := waiter s; qref := qref s; hands := hands s;
  active := active s; pendsub := pendsub s; disposed := disposed s; dtor := dtor s; dleave := dleave s |}.
Definition set_thread s v := {| flags := flags s; performed := performed s; queue := queue s; thread := v;
  hasgrp := hasgrp s; gcount := gcount s; pending := pending s; pcs := pcs s; cancelled := cancelled s;
  bodies := bodies s; fin := fin s; ninv := ninv s; leaves := leaves s; nreg := nreg s; fcnt := fcnt s;
  waiter := waiter s; qref := qref s; hands := hands s;
  active := active s; pendsub := pendsub s; disposed := disposed s; dtor := dtor s; dleave := dleave s |}.
Definition set_run s b f := {| flags := flags s; performed := performed s; queue := queue s; thread := thread s;
  hasgrp := hasgrp s; gcount := gcount s; pending := pending s; pcs := pcs s; cancelled := cancelled s;
  bodies := b; fin := f; ninv := ninv s; leaves := leaves s; nreg := nreg s; fcnt := fcnt s;
  waiter := waiter s; qref := qref s; hands := hands s;
  active := active s; pendsub := pendsub s; disposed := disposed s; dtor := dtor s; dleave := dleave s |}.
Definition set_grp s c pd l n fc := {| flags := flags s; performed := performed s; queue := queue s; thread := thread s;
  hasgrp := hasgrp s; gcount := c; pending := pd; pcs := pcs s; cancelled := cancelled s;
  bodies := bodies s; fin := fin s; ninv := ninv s; leaves := l; nreg := n; fcnt := fc;
  waiter := waiter s; qref := qref s; hands := hands s;
  active := active s; pendsub := pendsub s; disposed := disposed s; dtor := dtor s; dleave := dleave s |}.
Definition set_qref s v h := {| flags := flags s; performed := performed s; queue := queue s; thread := thread s;
  hasgrp := hasgrp s; gcount := gcount s; pending := pending s; pcs := pcs s; cancelled := cancelled s;
  bodies := bodies s; fin := fin s; ninv := ninv s; leaves := leaves s; nreg := nreg s; fcnt := fcnt s;
  waiter := waiter s; qref := v; hands := h;
  active := active s; pendsub := pendsub s; disposed := disposed s; dtor := dtor s; dleave := dleave s |}.

Definition set_life s ps d dt dl := {| flags := flags s; performed := performed s; queue := queue s; thread := thread s;
  hasgrp := hasgrp s; gcount := gcount s; pending := pending s; pcs := pcs s; cancelled := cancelled s;
  bodies := bodies s; fin := fin s; ninv := ninv s; leaves := leaves s; nreg := nreg s; fcnt := fcnt s;
  waiter := waiter s; qref := qref s; hands := hands s;
  active := active s; pendsub := ps; disposed := d; dtor := dt; dleave := dl |}.
Definition set_pend s ps := set_life s ps (disposed s) (dtor s) (dleave s).

(* effect of the flags read at the entry of an invocation: a cancelled invocation is at `out:` immediately *)
Definition entry_fx (s : gst) (f : Z) : gst :=
  if hasb f WAITED then s else if hasb f CANCELED then set_run s (bodies s) (fin s + 1) else s.
(* submit every pending notification *)
Definition fire (l : list Z) (f : Z -> Z) : Z -> Z := fun i => if existsb (Z.eqb i) l then f i + 1 else f i.
Definition leave_fx (s : gst) : gst :=
  let c := gcount s - 1 in
  if c =? 0 then set_grp s c [] (leaves s + 1) (nreg s) (fire (pending s) (fcnt s))
  else set_grp s c (pending s) (leaves s + 1) (nreg s) (fcnt s).
Definition notify_fx (s : gst) : gst :=
  let id := nreg s in
  if gcount s =? 0 then set_grp s (gcount s) (pending s) (leaves s) (id + 1) (upd (fcnt s) id (fcnt s id + 1))
  else set_grp s (gcount s) (id :: pending s) (leaves s) (id + 1) (fcnt s).

(* os_atomic_xchg2o(dbpd_queue, NULL): whoever finds a queue there now holds its two references *)
Definition take_queue (s : gst) (t : Z) : gst :=
  if queue s =? 0 then set_queue s 0 else set_qref (set_queue s 0) (qref s) (t :: hands s).

(* one step of thread t performing event e: the thread automaton accepts e, e is consistent with the memory and
   with the abstract group, and memory / group / ghost state are updated *)
Definition is_dtor_of (s : gst) (t : Z) : bool := match dtor s with Some d => d =? t | None => false end.
Definition sub_pend (v : variant) (s : gst) : gst := set_pend s (pendsub s + match v with VAsync => 1 | _ => 0 end).
Definition gstep (s : gst) (t : Z) (e : event) : option gst :=
  (* once the last reference is gone only the destroying thread, until it returns, may touch the object *)
  if disposed s && negb (is_dtor_of s t && negb (pc_idle (pcs s t))) then None else
  match tstep t (pcs s t) e with
  | None => None
  | Some p' =>
    let s1 := set_pc s t p' in
    match pcs s t with
    | PIdle =>
        if ev_kind e DVU_CALL then
          (if ea e =? OP_RELEASE
           then (* the LAST reference: nobody is inside a call, no submission is queued; DBF_PERFORM records are C structs *)
                match active s with
                | [] => if hasgrp s && (pendsub s =? 0) then Some (set_life s1 (pendsub s) true (Some t) (dleave s)) else None
                | _ => None
                end
           else Some s1)
        else (* a worker enters _dispatch_block_async_invoke2 for a queued submission: the flags are read *)
          if (ea e =? flags s) && (0 <? pendsub s) then Some (entry_fx (set_pend s1 (pendsub s - 1)) (ea e)) else None
    | PCrash => None
    | PRet _ => Some s1
    | PSubmit _ => Some (set_qref s1 (qref s + 2) (t :: hands s))
    | PSubmitCas v =>
        (* strong CAS(NULL -> dq): succeeds iff the slot is NULL; reports the value observed; the continuation is then
           pushed on the queue (dispatch_async & co) *)
        if (ea e =? queue s) && (eok e =? (if queue s =? 0 then 1 else 0))
        then Some (if queue s =? 0
                   then sub_pend v (set_qref (set_queue s1 (eb e)) (qref s) (remove Z.eq_dec t (hands s))) else s1)
        else None
    | PSubmitRel v => Some (sub_pend v (set_qref s1 (qref s - 2) (remove Z.eq_dec t (hands s))))
    | PInvRead _ => if ea e =? flags s then Some (entry_fx s1 (ea e)) else None
    | PSetThread _ => Some (set_thread s1 (eb e))
    | PBodyNext _ _ => Some (set_run s1 (bodies s + 1) (fin s))
    | PInBody _ _ => Some (set_run s1 (bodies s) (fin s + 1))
    | PInc _ =>
        if u32 (ea e) =? performed s then Some (set_perf s1 (wrapsz 4 (performed s + 1)) (ninv s + 1)) else None
    | PLeave _ =>
        (* the value field of dg_state is zero exactly when the abstract count is; NULL group: the call faults *)
        if hasgrp s && Bool.eqb (Z.land (ea e) G_VALUE_MASK =? 0) (gcount s =? 0)
        then (if gcount s =? 0 then Some s1 else Some (leave_fx s1)) else None
    | PPost v _ =>
        if is_grp e then Some s1
        else match v with
             | VDirect => Some s1
             | _ => if ea e =? queue s then Some (take_queue s1 t) else None
             end
    | PRel _ => Some (set_qref s1 (qref s - 2) (remove Z.eq_dec t (hands s)))
    | PCancel => if ea e =? flags s then Some (set_flags s1 (Z.lor (flags s) CANCELED) true (waiter s)) else None
    | PTestRead => if ea e =? flags s then Some s1 else None
    | PWaitOr _ =>
        if ea e =? flags s
        then Some (set_flags s1 (Z.lor (flags s) WAITING) (cancelled s)
                     (if hasb (flags s) (Z.lor WAITED WAITING) then waiter s else Some t))
        else None
    | PWaitXchg _ => if ea e =? queue s then Some (take_queue s1 t) else None
    | PWaitWake _ _ => Some (set_qref s1 (qref s - 2) (remove Z.eq_dec t (hands s)))
    | PWaitThread _ _ => if ea e =? thread s then Some s1 else None
    | PWaitPerf _ _ _ => if u32 (ea e) =? performed s then Some s1 else None
    | PWaitG _ =>
        if hasgrp s
        then (if (ek e =? DVG_WAITRET) && (ea e =? 0) then (if gcount s =? 0 then Some s1 else None) else Some s1)
        else None
    | PWaitOut r =>
        if ea e =? flags s
        then Some (set_flags s1 (if r =? 0 then Z.lor (flags s) WAITED else Z.land (flags s) NOT_WAITING)
                     (cancelled s) None)
        else None
    | PNotifyPerf => if u32 (ea e) =? performed s then Some s1 else None
    | PNotifyG => if hasgrp s then (if ek e =? DVG_NOTIFY then Some (notify_fx s1) else Some s1) else None
    | PDtorPerf => if u32 (ea e) =? performed s then Some s1 else None
    | PDtorLeave =>
        if hasgrp s && Bool.eqb (Z.land (ea e) G_VALUE_MASK =? 0) (gcount s =? 0)
        then (if gcount s =? 0 then Some s1
              else Some (let s2 := leave_fx s1 in set_life s2 (pendsub s2) (disposed s2) (dtor s2) true))
        else None
    | PDtorPost => if is_grp e then Some s1 else if ea e =? queue s then Some (take_queue s1 t) else None
    | PDtorRel => Some (set_qref s1 (qref s - 2) (remove Z.eq_dec t (hands s)))
    end
  end.

Definition step (s : gst) (a : Z * event) (s' : gst) : Prop := gstep s (fst a) (snd a) = Some s'.
Definition reach (perform : bool) : gst -> Prop := reachable (fun s => s = init_state perform) step.

(* run a whole schedule (list of (tid, event)) through the global model *)
Fixpoint grun (s : gst) (tr : list (Z * event)) : option gst :=
  match tr with
  | [] => Some s
  | (t, e) :: tr' => match gstep s t e with Some s' => grun s' tr' | None => None end
  end.

(* ------------------------------------------------------------------ trace conformance with latent events *)
Definition ev0 (k ord off a b : Z) : event := mkEv k ord 0 off 0 a b 1.
Definition evg (k a : Z) : event := mkEv k 0 1 0 0 a 0 1.
(* candidate latent events at a program point.  tstep branches on the DBF_CANCELED / DBF_WAITED / DBF_PERFORM bits of
   a flags value (DBF_WAITED first: crash), on boost_th being zero or not, and on the zero / non-zero result of the
   group wait only, so one representative per class suffices *)
Definition flag_values (pf : bool) : list Z :=
  if pf then [PERFORM; Z.lor CANCELED PERFORM; Z.lor WAITED PERFORM] else [0; CANCELED; WAITED].
Definition flag_reads (pf : bool) : list event := map (fun f => ev0 DV_LOAD MO_PLAIN OFF_FLAGS f f) (flag_values pf).
(* pf: the object is a DBF_PERFORM record (known to the harness).  The DBF_PERFORM bit of the flags never changes
   (Block_proofs.InvA: Z.testbit (flags s) 3 = negb (hasgrp s)), so the candidate values of a latent flags read are
   restricted to the object's kind; otherwise a thread that skips the completion of a cancelled invocation could be
   explained away as "the object was a DBF_PERFORM record" *)
Definition latents (self : Z) (pf : bool) (p : pc) : list event :=
  match p with
  | PIdle | PInvRead _ | PTestRead => flag_reads pf
  | PSetThread _ => [ev0 DV_STORE MO_PLAIN OFF_THREAD 0 self]
  | PSubmit _ => [ev0 DVQ_RETAIN2 0 0 0 0]
  | PSubmitRel _ | PRel _ | PWaitWake _ _ => [ev0 DVQ_RELEASE2 0 0 0 0]
  | PWaitThread _ _ => [ev0 DV_LOAD MO_PLAIN OFF_THREAD 0 0; ev0 DV_LOAD MO_PLAIN OFF_THREAD 1 1]
  | PWaitG _ => [evg DVG_WAITRET 0; evg DVG_WAITRET 1]
  | PNotifyG => [evg DVG_NOTIFY 0]
  | PDtorPerf => [ev0 DV_LOAD MO_PLAIN OFF_PERF 0 0; ev0 DV_LOAD MO_PLAIN OFF_PERF 1 1]
  | PDtorPost => [ev0 DV_LOAD MO_PLAIN OFF_QUEUE 0 0; ev0 DV_LOAD MO_PLAIN OFF_QUEUE 1 1]
  | PDtorRel => [ev0 DVQ_RELEASE2 0 0 0 0]
  | _ => []
  end.
Definition is_latent (e : event) : bool :=
  (eord e =? MO_PLAIN) || (ek e =? DVG_WAITRET) || (ek e =? DVG_NOTIFY) || (ek e =? DVQ_RETAIN2) || (ek e =? DVQ_RELEASE2).
Definition succs (self : Z) (p : pc) (es : list event) : list pc :=
  flat_map (fun e => match tstep self p e with Some p' => [p'] | None => [] end) es.
(* program points reachable by at most n latent steps *)
Fixpoint closure (self : Z) (pf : bool) (n : nat) (ps : list pc) : list pc :=
  match n with
  | O => ps
  | S n' => ps ++ closure self pf n' (flat_map (fun p => succs self p (latents self pf p)) ps)
  end.
Definition LAT_DEPTH : nat := 4.
Definition vstep (self : Z) (pf : bool) (ps : list pc) (e : event) : list pc :=
  flat_map (fun p => succs self p [e]) (closure self pf LAT_DEPTH ps).
Fixpoint vrun (self : Z) (pf : bool) (ps : list pc) (tr : list event) (i : Z) : list pc * Z :=
  match tr with
  | [] => (ps, -1)
  | e :: tr' => match vstep self pf ps e with
                | [] => (ps, i)
                | ps' => vrun self pf ps' tr' (i + 1)
                end
  end.
(* for the correspondence driver: run one recorded per-thread trace (visible events only); result = (index of the
   first rejected event or -1, 1 if the thread can have ended outside any modelled function) *)
Definition conform (self : Z) (pf : bool) (tr : list event) : Z * Z :=
  let '(ps, i) := vrun self pf [PIdle] tr 0 in (i, b2z (existsb pc_idle (closure self pf LAT_DEPTH ps))).

(* branch identifiers for the coverage report of the correspondence: which model branch a (pc, event) pair takes *)
Definition pc_tag (p : pc) : Z :=
  match p with
  | PIdle => 0 | PCrash => 1 | PRet r => 2 | PSubmit _ => 3 | PSubmitCas _ => 4 | PSubmitRel _ => 5 | PInvRead _ => 6
  | PSetThread _ => 7 | PBodyNext _ _ => 8 | PInBody _ _ => 9 | PInc _ => 10 | PLeave _ => 11 | PPost _ false => 12
  | PPost _ true => 13 | PRel _ => 14 | PCancel => 15 | PTestRead => 16 | PWaitOr _ => 17 | PWaitXchg _ => 18
  | PWaitWake _ _ => 19 | PWaitThread _ _ => 20 | PWaitPerf _ _ _ => 21 | PWaitG _ => 22 | PWaitOut r => if r =? 0 then 23 else 24
  | PNotifyPerf => 25 | PNotifyG => 26 | PDtorPerf => 27 | PDtorLeave => 28 | PDtorPost => 29 | PDtorRel => 30
  end.

(* coverage: the transitions (program-point tag pairs) along the first accepting run of a recorded trace, latent steps
   included.  Evaluated by the correspondence to report which transitions of tstep real traces exercised. *)
Definition tr_code (p p' : pc) : Z := pc_tag p * 100 + pc_tag p'.
Definition succs_h (self : Z) (ph : pc * list Z) (es : list event) : list (pc * list Z) :=
  flat_map (fun e => match tstep self (fst ph) e with
                     | Some p' => [(p', tr_code (fst ph) p' :: snd ph)] | None => [] end) es.
Fixpoint closure_h (self : Z) (pf : bool) (n : nat) (phs : list (pc * list Z)) : list (pc * list Z) :=
  match n with
  | O => phs
  | S n' => phs ++ closure_h self pf n' (flat_map (fun ph => succs_h self ph (latents self pf (fst ph))) phs)
  end.
Definition vstep_h (self : Z) (pf : bool) (phs : list (pc * list Z)) (e : event) : list (pc * list Z) :=
  flat_map (fun ph => succs_h self ph [e]) (closure_h self pf LAT_DEPTH phs).
Fixpoint vrun_h (self : Z) (pf : bool) (phs : list (pc * list Z)) (tr : list event) : list (pc * list Z) :=
  match tr with [] => phs | e :: tr' => vrun_h self pf (vstep_h self pf phs e) tr' end.
Definition conform_cov (self : Z) (pf : bool) (tr : list event) : list Z :=
  match filter (fun ph => pc_idle (fst ph)) (closure_h self pf LAT_DEPTH (vrun_h self pf [(PIdle, [])] tr)) with
  | ph :: _ => snd ph
  | [] => []
  end.

(* misuse scenarios that end in DISPATCH_CLIENT_CRASH (harness/c19_block.c crash <n>): the recorded trace of the
   crashing thread must be accepted and must be able to end in PCrash *)
Definition pc_crash (p : pc) : bool := match p with PCrash => true | _ => false end.
Definition conform_crash (self : Z) (pf : bool) (tr : list event) : Z * Z :=
  let '(ps, i) := vrun self pf [PIdle] tr 0 in (i, b2z (existsb pc_crash (closure self pf LAT_DEPTH ps))).
Definition conform_cov_crash (self : Z) (pf : bool) (tr : list event) : list Z :=
  match filter (fun ph => pc_crash (fst ph)) (closure_h self pf LAT_DEPTH (vrun_h self pf [(PIdle, [])] tr)) with
  | ph :: _ => snd ph
  | [] => []
  end.
