(* SLaneRef.v — the +2 reference protocol of a serial lane as ghost history on top of Model/SLane.v (no change to
   SLane.step; same technique as Proofs/SLane_realtime.v).  rc2 counts the "+2 units" the protocol has taken on the
   lane's os_obj_ref_cnt and not yet given back; the update that goes with each step is read off the source:

   taken   queue.c:5064-5066  _dispatch_lane_push, the push made the list non-empty: _dispatch_retain_2_unsafe(dq) AFTER
                              the tail exchange and BEFORE os_mpsc_push_update_prev publishes the item (SLane step
                              PA_link _ true _ = that publication; the retain immediately precedes it in program order);
           queue.c:5077-5079  the same for a push onto a non-empty list that decides to override (SLane.ostep);
   moved   queue.c:4901-4916  _dispatch_queue_wakeup: `if ((old_state ^ new_state) & enqueue)` the wakeup set ENQUEUED:
                              return _dispatch_queue_push_queue(tq, dq, new_state) — the +2 travels with the lane into
                              its target queue (SLane: the thread becomes the holder of the `token`);
   given   queue.c:4944-4947  `done: if (flags & DISPATCH_WAKEUP_CONSUME_2) return _dispatch_release_2_tailcall(dq)`: every
   back                       other exit of the wakeup (target NONE because the probe found the list empty, rmw loop
                              committed without setting ENQUEUED, rmw loop gave up);
           inline_internal.h:1866-1870  _dispatch_queue_class_invoke: `return _dispatch_release_2_tailcall(dq)` when the
                              lane is not re-enqueued: after a failed _dispatch_queue_drain_try_lock (owned == 0) and
                              after a successful _dispatch_queue_drain_try_unlock (SLane: the token is given up).
   Not modelled by SLane (hence not here): suspension (+2 of _dispatch_lane_suspend, _dispatch_queue_invoke_finish),
   dispatch_sync, the client's own references (the caller's reference covers the pusher until the publication). *)
From Coq Require Import ZArith Bool List.
From Verif Require Import Word Conc SLane.
Import ListNotations.
Local Open Scope Z_scope.

Record rh := {
  rc2 : Z;            (* +2 units outstanding on the lane's os_obj_ref_cnt *)
  wh : list Z         (* ghost: threads inside dx_wakeup(..., CONSUME_2) that still own their unit *)
}.
Definition r0 : rh := {| rc2 := 0; wh := [] |}.

Definition take (t : Z) (h : rh) : rh := {| rc2 := rc2 h + 1; wh := t :: wh h |}.
Definition give (t : Z) (h : rh) : rh := {| rc2 := rc2 h - 1; wh := remove_z t (wh h) |}.
Definition move (t : Z) (h : rh) : rh := {| rc2 := rc2 h; wh := remove_z t (wh h) |}.
Definition idle_pc (p : pc) : bool := match p with Idle => true | _ => false end.
(* `(old_state ^ new_state) & DISPATCH_QUEUE_ENQUEUED` *)
Definition enq_set (s s' : gst) : bool := negb (Z.land (Z.lxor (st s) (st s')) ENQUEUED =? 0).

Definition rstep (s : gst) (a : action) (s' : gst) (h : rh) : rh :=
  match a with
  | ABegin _ _ => h
  | AStepO t => take t h                                   (* override push: retain_2, publish, then wakeup(CONSUME_2) *)
  | AStep t =>
      match pcs s t with
      | PA_link _ true _ => take t h                         (* push on an empty list: retain_2, publish *)
      | PA_probe _ | PA_oprobe _ => match lst s with [] => give t h | _ => h end     (* target NONE: goto done *)
      | PA_wake _ _ | PA_owake _ => if enq_set s s' then move t h else give t h
      | PW_lock _ | PW_unlock _ => if idle_pc (pcs s' t) then {| rc2 := rc2 h - 1; wh := wh h |} else h
      | _ => h
      end
  end.

Inductive xreach (rb : Z) : gst -> rh -> Prop :=
| xr_init : xreach rb (init_state rb) r0
| xr_step s h a s' : xreach rb s h -> step s a s' -> xreach rb s' (rstep s a s' h).

(* the lane's os_obj_ref_cnt (biased by -1) when `base` is what everything else contributes (external references,
   children, suspension ...; -1 = nothing else) *)
Definition lane_ref_cnt (base : Z) (h : rh) : Z := base + 2 * rc2 h.

(* executable: run a schedule (thread ids checked as SLane.step requires) and return the ghost *)
Definition act_tid (a : action) : Z := match a with ABegin t _ | AStep t | AStepO t => t end.
Fixpoint xrun (s : gst) (h : rh) (acts : list action) : option (gst * rh) :=
  match acts with
  | [] => Some (s, h)
  | a :: r =>
      let o := match a with ABegin t c => begin s t c | AStep t => gstep s t | AStepO t => ostep s t end in
      if (0 <? act_tid a) && (act_tid a <? 1073741824)
      then match o with Some s' => xrun s' (rstep s a s' h) r | None => None end
      else None
  end.
