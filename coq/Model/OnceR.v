(* OnceR.v — replay of one whole recorded round of harness/c09_once.c (every thread racing on one predicate) as a run of the
   GLOBAL model Model/Once.v, with Base/Replay.v:
   1. `abstract`: one thread's recorded events -> its model actions: every recorded event, plus the hidden plain read of the
      inline wrapper of dispatch/once.h (Once.PFast) placed right after the call mark, with the thread's next recorded event
      as look-ahead (the return mark: the read saw ~0l; the compare-exchange of the library call: it did not);
   2. `replay`: Replay.sched on Once.gstep from Once.init_state over the actions of all threads merged by the recorder's
      stamps: an action is taken only if Once.gstep accepts it in the current global state (the values the library observed
      are the model's values);
   3. `inv_b`: the boolean version of Once_proofs.Inv on the threads of the round (OnceR_proofs.inv_b_reach: true on every
      reachable state), evaluated on the state the replay ends in. *)
From Coq Require Import ZArith Bool List.
From Verif Require Import Word Conc Replay Gen_consts Gen_once Once.
Import ListNotations.
Local Open Scope Z_scope.

Definition H_FAST := 1.
Definition once_hidden (s : gst) (t code arg : Z) : option event :=
  if code =? H_FAST then Some (ev_plain_load (word s)) else None.
Definition once_accepts (s : gst) (t : Z) (e : event) : bool :=
  match tstep t (pcs s t) e with Some _ => true | None => false end.
Definition valid_tidb (t : Z) : bool := (0 <? t) && (t <=? DLOCK_OWNER_MASK).

Definition null_ev := mkEv 0 0 0 0 0 0 0 0.
Definition is_fast (p : pc) : bool := match p with PFast => true | _ => false end.
(* tr: (key, event), key = 2 * stamp.  Result: (key, action) in program order; stops at the first event Once.tstep_vis rejects *)
Fixpoint abstract (t : Z) (p : pc) (prevk i : Z) (tr : list (Z * event)) (acc : list (Z * ract)) : list (Z * ract) :=
  match tr with
  | [] => rev acc
  | (k, e) :: r =>
      match tstep_vis t p e with
      | None => rev acc
      | Some p' =>
          let ev := {| r_tid := t; r_code := 0; r_arg := 0; r_ev := e; r_look := false; r_next := null_ev; r_id := i; r_obs := ev_obs e;
                       r_word := 0; r_widx := 0 |} in
          if is_fast p then
            let hid := {| r_tid := t; r_code := H_FAST; r_arg := 0; r_ev := null_ev; r_look := true; r_next := e; r_id := i; r_obs := true;
                          r_word := 0; r_widx := 0 |} in
            abstract t p' k (i + 1) r ((k, ev) :: (prevk + 1, hid) :: acc)
          else abstract t p' k (i + 1) r ((k, ev) :: acc)
      end
  end.

(* merge by key, stable (program order of a thread is kept: its keys increase) *)
Fixpoint insert (x : Z * ract) (l : list (Z * ract)) : list (Z * ract) :=
  match l with
  | [] => [x]
  | y :: r => if fst x <? fst y then x :: l else y :: insert x r
  end.
Definition merge (ls : list (list (Z * ract))) : list (Z * ract) :=
  fold_left (fun acc l => fold_left (fun a x => insert x a) l acc) ls [].

(* ------------------------------------------------------------------ boolean invariant *)
Definition Wb (o : Z) := o + 2147483648.
Definition own_pcb (p : pc) : bool := match p with PCall | PInCall | PMark | PWake | PRet => true | _ => false end.
Definition opt_is (o : option Z) (t : Z) : bool := match o with Some u => u =? t | None => false end.
Definition owner_inv_b (s : gst) : bool :=
  match owner s with
  | None => (word s =? 0) && (starts s =? 0) && negb (finished s)
  | Some o =>
      valid_tidb o &&
      match pcs s o with
      | PCall => ((word s =? o) || (word s =? Wb o)) && (starts s =? 0) && negb (finished s)
      | PInCall => ((word s =? o) || (word s =? Wb o)) && (starts s =? 1) && negb (finished s)
      | PMark => ((word s =? o) || (word s =? Wb o)) && (starts s =? 1) && finished s
      | _ => (word s =? DONE) && (starts s =? 1) && finished s
      end
  end.
Definition waking (s : gst) (o : Z) : bool :=
  ((word s =? Wb o) && match pcs s o with PCall | PInCall | PMark => true | _ => false end)
  || match pcs s o with PWake => true | _ => false end.
Definition thread_inv_b (s : gst) (t : Z) : bool :=
  implb (own_pcb (pcs s t)) (opt_is (owner s) t) &&
  match pcs s t with
  | PWBody old => match owner s with Some o => (old =? o) || (old =? Wb o) || ((old =? DONE) && finished s) | None => false end
  | PWFutex v => match owner s with Some o => v =? Wb o | None => false end
  | PWLoad | PWSleep => match owner s with Some _ => true | None => false end
  | PFRet => finished s
  | _ => true
  end &&
  match slp s t with
  | Sleeping => match pcs s t with PWSleep => true | _ => false end && match owner s with Some o => waking s o | None => false end
  | _ => true
  end.
Definition inv_b (tids : list Z) (s : gst) : bool :=
  owner_inv_b s && negb (early_ret s) && forallb (thread_inv_b s) tids.

(* ------------------------------------------------------------------ the replay *)
Definition b2z (b : bool) : Z := if b then 1 else 0.
Definition all_idle (s : gst) (tids : list Z) : bool := forallb (fun t => match pcs s t with PIdle => true | _ => false end) tids.
Definition nobody_asleep (s : gst) (tids : list Z) : bool :=
  forallb (fun t => match slp s t with Sleeping => false | _ => true end) tids.
(* threads: (lock value of the thread, its recorded events with keys).
   Result: [actions executed; actions left; recorded events not abstracted (a thread automaton rejected its trace);
            stuck thread; stuck event index; stuck hidden kind;
            word is DONE; low 32 bits of the word; starts; finished; early_ret; inv_b; all threads idle; nobody asleep] *)
Definition replay (threads : list (Z * list (Z * event))) : list Z :=
  let per := map (fun '(t, tr) => abstract t PIdle 0 0 tr []) threads in
  let ord := map snd (merge per) in
  let nvis := fold_left (fun n l => n + Z.of_nat (length (filter (fun x => r_code (snd x) =? 0) l))) per 0 in
  let nev := fold_left (fun n th => n + Z.of_nat (length (snd th))) threads 0 in
  let tids := map fst threads in
  let '(s, done, rest) :=
    sched gstep once_hidden once_accepts valid_tidb (S (length ord)) (S (length threads)) [length ord] [] init_state ord 0 in
  [ done; Z.of_nat (length rest); nev - nvis;
    match rest with a :: _ => r_tid a | [] => -1 end; match rest with a :: _ => r_id a | [] => -1 end;
    match rest with a :: _ => r_code a | [] => -1 end;
    b2z (word s =? DONE); u32 (word s); starts s; b2z (finished s); b2z (early_ret s); b2z (inv_b tids s);
    b2z (all_idle s tids); b2z (nobody_asleep s tids) ].
