(* GroupR_inv.v — the decidable clauses of the invariants of Proofs/Group_proofs.v (Inv1, Inv2, Inv3) as one boolean
   function of a state and the finite set of threads that ever moved.  GroupR.replay evaluates it on states of every
   replayed round; GroupR_proofs.inv_b_true shows it is true on every state the replay can reach (fewer than 2^32
   generations), so a `false` here is a concrete state that contradicts the development (a slip in the ghost bookkeeping
   of the model or a proof that no longer covers the model).  Definitions only: copies of the field functions and of the
   program-point classes of the proofs files are used so that this file does not depend on any proof. *)
From Coq Require Import ZArith Bool List.
From Verif Require Import Word Conc Gen_consts Gen_group Group.
Import ListNotations.
Local Open Scope Z_scope.

Definition bfw (x : Z) := x mod 2.
Definition bfn (x : Z) := (x / 2) mod 2.
Definition bfv (x : Z) := (x / 4) mod 1073741824.
Definition bfg (x : Z) := x / 4294967296.
Definition wfw_b (x : Z) : bool := (0 <=? x) && (x <? 18446744073709551616).
Definition bcls (p : pc) : Z :=
  match p with
  | PNfHead _ | PNfLoad | PNfCas _ _ => 1
  | PSnapHead _ _ | PSnapStore _ _ | PSnapTail _ _ => 2
  | PFire _ _ => 3
  | _ => 0
  end.
Definition tok_eqb (a b : tok) : bool :=
  match a, b with
  | TNone, TNone | TWord, TWord => true
  | TPusher x, TPusher y | TSnap x, TSnap y => x =? y
  | _, _ => false
  end.
Definition nonempty {A : Type} (l : list A) : bool := match l with [] => false | _ => true end.
Fixpoint nodup_b (l : list Z) : bool := match l with [] => true | x :: r => negb (existsb (Z.eqb x) r) && nodup_b r end.
Fixpoint zrange (n : nat) : list Z := match n with O => [] | S k => zrange k ++ [Z.of_nat k] end.

(* ---- Inv1 ---- *)
Definition G1_b (s : gst) : bool :=
  wfw_b (word s) && (0 <=? gfull s) && (bfg (word s) =? gfull s mod 4294967296).
Definition Cw_b (s : gst) (t : Z) : bool := (gsnap s t <=? gfull s) && ((gfull s <=? gsnap s t) || wz s t).
Definition T1_b (s : gst) (t : Z) : bool :=
  match pcs s t with
  | PLvLoop _ old => wfw_b old
  | PSnapHead _ st | PSnapStore _ st | PSnapTail _ st | PFire _ st => wfw_b st
  | PWtCas _ old new => wfw_b old && (new =? Z.lor old HW) && (bfg old =? gsnap s t mod 4294967296) && Cw_b s t
  | PSlow _ g | PSleep _ g | PSlowLoad _ g _ => (g =? gsnap s t mod 4294967296) && Cw_b s t
  | PRetV v => negb (v =? 0) || wz s t
  | PNfCas old new => wfw_b old && (new =? Z.lor old HN)
  | _ => true
  end.
(* ---- Inv2 ---- *)
Definition G2_b (s : gst) : bool :=
  match ntok s with
  | TNone => negb (nonempty (nq s)) && (bfn (word s) =? 0)
  | TPusher p => nonempty (nq s) && (bfn (word s) =? 0) && (bcls (pcs s p) =? 1)
  | TWord => nonempty (nq s) && (bfn (word s) =? 1)
  | TSnap u => nonempty (nq s) && (bfn (word s) =? 0) && (bcls (pcs s u) =? 2)
  end.
Definition T2_b (s : gst) (t : Z) : bool :=
  (negb (bcls (pcs s t) =? 1) || tok_eqb (ntok s) (TPusher t)) &&
  (negb (bcls (pcs s t) =? 2) || tok_eqb (ntok s) (TSnap t)) &&
  (if bcls (pcs s t) =? 3 then nonempty (held s t) else negb (nonempty (held s t))) &&
  match pcs s t with PNfCas o n => n =? Z.lor o HN | _ => true end.
Definition I2_b (tids : list Z) (s : gst) : bool :=
  (0 <=? nreg s) && nodup_b (ids (nq s)) && forallb (fun t => nodup_b (ids (held s t))) tids &&
  forallb (fun i => (0 <=? i) && (i <? nreg s) && (nplace s i =? 0)) (ids (nq s)) &&
  forallb (fun t => forallb (fun i => (0 <=? i) && (i <? nreg s) && (nplace s i =? t) && (0 <? t)) (ids (held s t))) tids &&
  forallb (fun i => (fcnt s i =? (if nplace s i =? -1 then 1 else 0)) &&
                    (negb (nplace s i =? 0) || existsb (Z.eqb i) (ids (nq s))) &&
                    (negb (0 <? nplace s i) || existsb (Z.eqb i) (ids (held s (nplace s i)))) &&
                    ((nplace s i =? 0) || (nplace s i =? -1) || (0 <? nplace s i)))
          (zrange (Z.to_nat (nreg s))) &&
  forallb (fun q => negb (snd q =? 0)) (nq s).
(* ---- Inv3 ---- *)
Definition WHp_b (p : pc) : bool :=
  match p with
  | PSnapHead _ st | PSnapStore _ st | PSnapTail _ st | PFire _ st => bfw st =? 1
  | PWakeFutex _ => true
  | _ => false
  end.
Definition LWp_b (p : pc) : bool := match p with PLvLoop _ old => bfw old =? 1 | _ => false end.
Definition Jp_b (p : pc) : bool :=
  match p with PLvLoop _ old => (bfv old =? 0) && ((bfn old =? 1) || (bfw old =? 1)) | _ => false end.
Definition Wake_b (tids : list Z) (s : gst) : bool :=
  existsb (fun u => WHp_b (pcs s u)) tids || ((bfw (word s) =? 1) && existsb (fun u => LWp_b (pcs s u)) tids).
Definition J_b (tids : list Z) (s : gst) : bool :=
  negb (bfv (word s) =? 0) || negb ((bfn (word s) =? 1) || (bfw (word s) =? 1)) || existsb (fun u => Jp_b (pcs s u)) tids.
Definition Oc_b (s : gst) : bool :=
  (0 <=? outst s) && (outst s <? 1073741824) && (bfv (word s) =? (1073741824 - outst s) mod 1073741824).
Definition T3_b (tids : list Z) (s : gst) (t : Z) : bool :=
  (match slp s t with Sleeping => match pcs s t with PSleep _ _ => true | _ => false end | _ => true end) &&
  (match pcs s t with
   | PSlow _ _ | PSleep _ _ | PSlowLoad _ _ _ =>
       negb (gsnap s t =? gfull s) || ((bfw (word s) =? 1) && negb (bfv (word s) =? 0))
   | PWtCas _ old _ => negb (bfv old =? 0)
   | PNfCas old _ => negb (u32 old =? 0)
   | _ => true
   end) &&
  (match slp s t with Sleeping => negb (gsnap s t <? gfull s) || Wake_b tids s | _ => true end).

Definition inv_b (tids : list Z) (s : gst) : bool :=
  G1_b s && G2_b s && I2_b tids s && Oc_b s && J_b tids s &&
  forallb (fun t => T1_b s t && T2_b s t && T3_b tids s t) tids.
