From Coq Require Import ZArith Bool List.
From Verif Require Import Word Conc Gen_consts Gen_group Group.
Definition inv_b (tids : list Z) (s : gst) : bool := true.
