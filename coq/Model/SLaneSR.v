(* SLaneSR.v — replay of ONE thread's recorded observations against Model/SLaneS.gstep itself.
   The DISPATCH_VERIF hook shows, per thread and in program order, every load / compare-exchange / xor on the lane's
   dq_state; the harness adds marks for API calls and returns and for the begin and end of each callout.  `replay`
   accepts a thread's observation list iff it is a possible projection of a run of the model on that thread:
   it keeps the set of program points the thread may be at and advances it with SLaneS.gstep applied to SYNTHETIC
   global states (the observed word, and every candidate for what the hook cannot see: the shape of the item list,
   the value of dq_side_suspend_cnt; the other threads are irrelevant to one step of gstep):
     OCas old new   some candidate program point commits exactly old -> new (the generated body that gstep uses there),
     OXor old       a program point that xors DIRTY,
     OSee v         a load (or a failed compare-exchange) of dq_state: allows ONE step that reads the word without
                    committing (a suspended-check, a loop that gives up) and uses v for it,
     OBegin / OEnd  the callout steps PW_run / PW_incall (never taken silently),
     OCall / ORet   begin of an API call on an idle thread / the thread is idle again,
   and between observations any number of steps that do not touch dq_state (list operations, side lock).
   Definitions only; used by lib/props/c06_slane.py through vm_compute. *)
From Coq Require Import ZArith Bool List.
From Verif Require Import Word Conc Gen_consts Gen_dqstate SLaneS.
Import ListNotations.
Local Open Scope Z_scope.

Inductive obs :=
| OAsync (qs : list Z)        (* dispatch_async_f begins; qs = candidates for the wakeup qos (it derives from dq_priority,
                                 which the activation of an inactive queue changes under the caller's feet) *)
| OCall (c : call)
| ORet
| OBegin
| OEnd
| OSee (v : Z)
| OCas (old new : Z)
| OCasSide (old new sd : Z)   (* a side-counter transfer, with the value dq_side_suspend_cnt had before it (known from the
                                 chain of the round's transfers: the counter only changes under the side lock) *)
| OXor (old : Z).

(* an injective key, for duplicate elimination *)
Definition b2 (b : bool) : Z := if b then 1 else 0.
Definition pc_key (p : pc) : list Z :=
  match p with
  | Idle => [0]
  | PA_xchg q o => [1; q; b2 o] | PA_link i w q o => [2; i; b2 w; q; b2 o] | PA_probe q => [3; q] | PA_wake q tg => [4; q; b2 tg]
  | PA_rootpush => [5]
  | PW_lock f => [6; f] | PW_tail o => [7; o] | PW_head o => [8; o] | PW_chk o => [9; o] | PW_pop o => [10; o]
  | PW_run o i m => [11; o; i; b2 m] | PW_incall o i m => [12; o; i; b2 m] | PW_next o m => [13; o; b2 m]
  | PW_unlock o => [14; o] | PW_xor o => [15; o] | PW_fin o => [16; o]
  | PS_rmw => [17] | PS_slock => [18] | PS_srmw => [19] | PS_sside => [20] | PS_sunlock => [21] | PS_sretry => [22]
  | PS_ret => [23]
  | PR_rmw => [24] | PR_slock => [25] | PR_srmw => [26] | PR_sside => [27] | PR_sunlock => [28] | PR_sretry => [29]
  | PR_role => [30]
  | PR_bctail q => [31; q] | PR_bcsusp q => [32; q] | PR_bchead q => [33; q] | PR_cbc q tg => [34; q; b2 tg]
  | PR_bcxor q => [35; q] | PA_oprobe q => [36; q] | PA_owake q => [37; q]
  | PC_rmw => [38] | PCrash tag => [39; tag]
  end.
Fixpoint zl_eqb (a b : list Z) : bool :=
  match a, b with
  | [], [] => true
  | x :: a', y :: b' => (x =? y) && zl_eqb a' b'
  | _, _ => false
  end.
Definition pc_eqb (p q : pc) : bool := zl_eqb (pc_key p) (pc_key q).
Definition pc_mem (p : pc) (l : list pc) : bool := existsb (pc_eqb p) l.
Fixpoint pc_add (l : list pc) (acc : list pc) : list pc :=
  match l with [] => acc | p :: l' => pc_add l' (if pc_mem p acc then acc else acc ++ [p]) end.

(* program points whose step reads dq_state *)
Definition reads_word (p : pc) : bool :=
  match p with
  | PA_wake _ _ | PW_lock _ | PW_chk _ | PW_unlock _ | PW_xor _ | PW_fin _ | PS_rmw | PS_srmw | PR_rmw | PR_srmw | PR_role
  | PR_bcsusp _ | PR_cbc _ _ | PR_bcxor _ | PA_owake _ | PC_rmw => true
  | _ => false
  end.
(* program points that are only passed with a mark *)
Definition marked_pc (p : pc) : bool := match p with PW_run _ _ _ | PW_incall _ _ _ => true | _ => false end.

Definition synth (w : Z) (l : list entry) (sd : Z) (p : pc) : gst :=
  {| st := w; lst := l; rootq := 1; pcs := fun _ => p; nextid := 0; started := []; running := None; token := None;
     wakers := []; lockh := None; side := sd; sidelock := None; susp_done := 1; rpre := []; sret := []; plic := false;
     pstarts := 0; act_called := false |}.

Definition E1 : entry := {| e_id := 0; e_linked := true |}.
Definition lst_envs : list (list entry) := [[]; [E1]; [E1; E1]].
Definition side_envs : list Z := [0; 32; 64].
Definition envs : list (list entry * Z) := flat_map (fun l => map (fun sd => (l, sd)) side_envs) lst_envs.

(* one step of thread t at p on the word w in environment (l, sd): the new word and program point *)
Definition step1 (rb t w : Z) (p : pc) (e : list entry * Z) : option (Z * pc) :=
  match gstep rb (synth w (fst e) (snd e) p) t with
  | Some s' => Some (st s', pcs s' t)
  | None => None
  end.

(* the steps from p that leave the word alone *)
Definition quiet_nonreading (rb t : Z) (p : pc) : list pc :=
  if pc_eqb p PR_srmw then [PR_sretry]       (* dq_side_suspend_cnt == 0: retry, the word is not read *)
  else if reads_word p || marked_pc p then []
  else flat_map (fun e => match step1 rb t 0 p e with Some (w', p') => if w' =? 0 then [p'] else [] | None => [] end) envs.
Definition quiet_reading (rb t v : Z) (p : pc) : list pc :=
  if reads_word p
  then flat_map (fun e => match step1 rb t v p e with Some (w', p') => if w' =? v then [p'] else [] | None => [] end) envs
  else [].

Fixpoint close_nonreading (rb t : Z) (fuel : nat) (ps : list pc) : list pc :=
  match fuel with
  | O => ps
  | S f =>
      let nxt := pc_add (flat_map (quiet_nonreading rb t) ps) ps in
      if Nat.eqb (length nxt) (length ps) then ps else close_nonreading rb t f nxt
  end.

(* everything reachable without an observation, given that the thread's last look at the word (if any, and not yet
   used) returned v: non-reading steps, at most one reading step that does not commit, non-reading steps *)
Definition closure (rb t : Z) (seen : option Z) (ps : list pc) : list pc :=
  let a := close_nonreading rb t 12 ps in
  match seen with
  | None => a
  | Some v => close_nonreading rb t 12 (pc_add (flat_map (quiet_reading rb t v) a) a)
  end.

Definition commit_from_envs (es : list (list entry * Z)) (rb t old new : Z) (ps : list pc) : list pc :=
  pc_add (flat_map (fun p => if reads_word p
                             then flat_map (fun e => match step1 rb t old p e with
                                                     | Some (w', p') => if w' =? new then [p'] else []
                                                     | None => [] end) es
                             else []) ps) [].
Definition commit_from := commit_from_envs envs.

Definition is_xor_pc (p : pc) : bool := match p with PW_xor _ | PR_bcxor _ => true | _ => false end.
Definition is_run_pc (p : pc) : bool := match p with PW_run _ _ _ => true | _ => false end.
Definition is_incall_pc (p : pc) : bool := match p with PW_incall _ _ _ => true | _ => false end.

Definition mark_from (rb t : Z) (sel : pc -> bool) (ps : list pc) : list pc :=
  pc_add (flat_map (fun p => if sel p then match step1 rb t 0 p ([], 0) with Some (_, p') => [p'] | None => [] end else []) ps) [].

(* a thread that is idle and touches the word without an API mark is a worker of the target queue popping the lane *)
Definition with_worker (t : Z) (ps : list pc) : list pc :=
  if pc_mem Idle ps then pc_add [PW_lock 0] ps else ps.

Record rstate := { cand : list pc; seen : option Z }.

Definition rstep (rb t : Z) (r : rstate) (o : obs) : option rstate :=
  let cl := closure rb t (seen r) (cand r) in
  match o with
  | OAsync qs =>
      if pc_mem Idle cl
      then (* whether a push that finds the list non-empty also issues the need_override wakeup depends on an
              unsynchronised read: both continuations are candidates *)
           let cs := flat_map (fun q => [CAsync q true; CAsync q false]) qs in
           match flat_map (fun c' => match begin (synth 0 [] 0 Idle) t c' with Some s' => [pcs s' t] | None => [] end) cs with
           | [] => None
           | ps => Some {| cand := ps; seen := None |}
           end
      else None
  | OCall c =>
      if pc_mem Idle cl
      then match begin (synth 0 [] 0 Idle) t c with
           | Some s' => Some {| cand := [pcs s' t]; seen := None |}
           | None => None
           end
      else None
  | ORet => if pc_mem Idle cl then Some {| cand := [Idle]; seen := None |} else None
  | OBegin => match mark_from rb t is_run_pc cl with [] => None | ps => Some {| cand := ps; seen := None |} end
  | OEnd => match mark_from rb t is_incall_pc cl with [] => None | ps => Some {| cand := ps; seen := None |} end
  | OSee v => Some {| cand := with_worker t cl; seen := Some v |}
  | OCas old new =>
      match commit_from rb t old new (with_worker t cl) with
      | [] => None
      | ps => Some {| cand := ps; seen := None |}
      end
  | OCasSide old new sd =>
      match commit_from_envs (map (fun l => (l, sd)) lst_envs) rb t old new (with_worker t cl) with
      | [] => None
      | ps => Some {| cand := ps; seen := None |}
      end
  | OXor old =>
      match commit_from rb t old (Z.lxor old DIRTY) (filter is_xor_pc cl) with
      | [] => None
      | ps => Some {| cand := ps; seen := None |}
      end
  end.

Fixpoint replay_from (rb t : Z) (r : rstate) (tr : list obs) (i : Z) : Z * rstate :=
  match tr with
  | [] => (-1, r)
  | o :: tr' => match rstep rb t r o with
                | Some r' => replay_from rb t r' tr' (i + 1)
                | None => (i, r)
                end
  end.

(* index of the first rejected observation (-1: none) and whether the thread can be idle at the end *)
Definition replay (rb t : Z) (tr : list obs) : Z * Z :=
  let '(i, r) := replay_from rb t {| cand := [Idle]; seen := None |} tr 0 in
  (i, if pc_mem Idle (closure rb t (seen r) (cand r)) then 1 else 0).

(* for diagnostics: the candidate program points (keys) at the rejected observation *)
Definition replay_diag (rb t : Z) (tr : list obs) : Z * list (list Z) :=
  let '(i, r) := replay_from rb t {| cand := [Idle]; seen := None |} tr 0 in
  (i, map pc_key (closure rb t (seen r) (cand r))).
