(* IoOp.v — executable model of ONE dispatch I/O operation (src/io.c), definitions only.

   Everything below runs on the stream's serial queue (stream path) or on the disk's pick queue / the
   operation's target queue (disk path); queue semantics are USED, not re-proved.  Bytes are Z, a dispatch_data
   object is its list of regions (as dispatch_data_apply enumerates them), sizes are mathematical integers
   (a size never exceeds op->length <= SIZE_MAX; the one subtraction the authors guard with dispatch_assert,
   `max_buf_siz -= data_siz`, is modelled with its wrap).

   C anchors (line numbers of /repo/src/io.c at the time of writing):
     _dispatch_io_get_error ~326, set_high_water/set_low_water ~653-678, _dispatch_operation_create ~1053,
     _dispatch_operation_enqueue ~1151, _dispatch_operation_should_enqueue ~1194, _dispatch_operation_timer ~1216,
     _dispatch_stream_handler ~2076, _dispatch_disk_perform completion ~2240, _dispatch_operation_perform ~2338,
     _dispatch_operation_deliver_data ~2630, _dispatch_operation_dispose ~1112. *)
From Coq Require Import ZArith List Bool Lia.
From Verif Require Import Word.
Import ListNotations.
Local Open Scope Z_scope.

(* ---------------------------------------------------------------- constants (printed by the white-box harness
   from the library's headers and compared with these on every run: line "K ..." of harness/c14_io.c) *)
Definition SIZE_MAX : Z := 18446744073709551615.
Definition DOP_DEFAULT : Z := 0.
Definition DOP_DELIVER : Z := 1.
Definition DOP_DONE : Z := 2.
Definition DOP_STOP : Z := 4.
Definition DOP_NO_EMPTY : Z := 8.
Definition DIO_CLOSED : Z := 1.
Definition DIO_STOPPED : Z := 2.
Definition DISPATCH_OP_COMPLETE : Z := 1.
Definition DISPATCH_OP_DELIVER : Z := 2.
Definition DISPATCH_OP_DELIVER_AND_COMPLETE : Z := 3.
Definition DISPATCH_OP_COMPLETE_RESUME : Z := 4.
Definition DISPATCH_OP_RESUME : Z := 5.
Definition DISPATCH_OP_ERR : Z := 6.
Definition DISPATCH_OP_FD_ERR : Z := 7.
Definition EINTR : Z := 4.
Definition EBADF : Z := 9.
Definition EAGAIN : Z := 11.       (* == EWOULDBLOCK on Linux *)
Definition ECANCELED : Z := 125.
Definition DIO_MAX_CHUNK_SIZE : Z := 1048576.
Definition DIO_DEFAULT_LOW_WATER_CHUNKS : Z := 1.
Definition model_constants : list Z :=
  [DOP_DEFAULT; DOP_DELIVER; DOP_DONE; DOP_STOP; DOP_NO_EMPTY; DIO_CLOSED; DIO_STOPPED;
   DISPATCH_OP_COMPLETE; DISPATCH_OP_DELIVER; DISPATCH_OP_DELIVER_AND_COMPLETE; DISPATCH_OP_COMPLETE_RESUME;
   DISPATCH_OP_RESUME; DISPATCH_OP_ERR; DISPATCH_OP_FD_ERR; EINTR; EBADF; EAGAIN; EAGAIN (* EWOULDBLOCK *); ECANCELED;
   DIO_MAX_CHUNK_SIZE; DIO_DEFAULT_LOW_WATER_CHUNKS; SIZE_MAX].

(* ---------------------------------------------------------------- data objects *)
Definition zlen {A} (l : list A) : Z := Z.of_nat (length l).
Definition data := list (list Z).                         (* regions, in order *)
Definition flat (d : data) : list Z := concat d.
Definition dsize (d : data) : Z := zlen (flat d).

(* dispatch_data_create_subrange(d, off, len): clamps; the regions of the result are the regions of d trimmed *)
Fixpoint rdrop (n : Z) (d : data) : data :=
  match d with
  | [] => []
  | r :: t => if n <=? 0 then d
              else if zlen r <=? n then rdrop (n - zlen r) t
              else skipn (Z.to_nat n) r :: t
  end.
Fixpoint rtake (n : Z) (d : data) : data :=
  match d with
  | [] => []
  | r :: t => if n <=? 0 then []
              else if zlen r <=? n then r :: rtake (n - zlen r) t
              else [firstn (Z.to_nat n) r]
  end.
Definition dsub (d : data) (off len : Z) : data := rtake len (rdrop off d).

(* ---------------------------------------------------------------- channel parameters (io.c:653-678, 247-249) *)
Record params := { p_low : Z; p_high : Z }.
Definition params_init (chunk low_water_chunks : Z) : params :=
  {| p_low := u64 (low_water_chunks * chunk); p_high := SIZE_MAX |}.
Definition set_high_water (p : params) (high_water : Z) : params :=
  let low := if p_low p >? high_water then high_water else p_low p in
  {| p_low := low; p_high := if high_water =? 0 then 1 else high_water |}.
Definition set_low_water (p : params) (low_water : Z) : params :=
  let high := if p_high p <? low_water then (if low_water =? 0 then 1 else low_water) else p_high p in
  {| p_low := low_water; p_high := high |}.

(* ---------------------------------------------------------------- the operation *)
Record cfg := { chunk_size : Z;            (* dispatch_io_defaults.chunk_size *)
                initial_delivery : bool }. (* dispatch_io_defaults.initial_delivery *)

Record op := mkOp {
  o_write : bool;        (* direction == DOP_DIR_WRITE *)
  o_disk : bool;         (* fd_entry->disk != NULL (regular file) *)
  o_conv : bool;         (* op->channel == fd_entry->convenience_channel *)
  o_length : Z;
  o_total : Z;
  o_hasbuf : bool;       (* op->buf != NULL (write: op->buf_data != NULL) *)
  o_buf_siz : Z;
  o_buf_len : Z;
  o_buf : list Z;        (* read: the buf_len bytes read so far; write: the buf_siz mapped bytes *)
  o_undelivered : Z;
  o_data : data;
  o_flagd : bool;        (* op->flags & DOP_DELIVER (the only value besides DOP_DEFAULT ever stored) *)
  o_err : Z;
  o_low : Z; o_high : Z;
  o_interval : bool;     (* params.interval != 0 *)
  o_strict : bool        (* params.interval_flags & DISPATCH_IO_STRICT_INTERVAL *)
}.

Definition op_init (write disk conv : bool) (length : Z) (d : data) (p : params) (interval strict : bool) : op :=
  mkOp write disk conv length 0 false 0 0 [] 0 d false 0 (p_low p) (p_high p) interval strict.

Definition set_buf (o : op) (has : bool) (siz len : Z) (b : list Z) : op :=
  mkOp (o_write o) (o_disk o) (o_conv o) (o_length o) (o_total o) has siz len b (o_undelivered o) (o_data o)
       (o_flagd o) (o_err o) (o_low o) (o_high o) (o_interval o) (o_strict o).
Definition set_total (o : op) (t : Z) : op :=
  mkOp (o_write o) (o_disk o) (o_conv o) (o_length o) t (o_hasbuf o) (o_buf_siz o) (o_buf_len o) (o_buf o)
       (o_undelivered o) (o_data o) (o_flagd o) (o_err o) (o_low o) (o_high o) (o_interval o) (o_strict o).
Definition set_err (o : op) (e : Z) : op :=
  mkOp (o_write o) (o_disk o) (o_conv o) (o_length o) (o_total o) (o_hasbuf o) (o_buf_siz o) (o_buf_len o) (o_buf o)
       (o_undelivered o) (o_data o) (o_flagd o) e (o_low o) (o_high o) (o_interval o) (o_strict o).
Definition set_flagd (o : op) (f : bool) : op :=
  mkOp (o_write o) (o_disk o) (o_conv o) (o_length o) (o_total o) (o_hasbuf o) (o_buf_siz o) (o_buf_len o) (o_buf o)
       (o_undelivered o) (o_data o) f (o_err o) (o_low o) (o_high o) (o_interval o) (o_strict o).
Definition set_data (o : op) (d : data) : op :=
  mkOp (o_write o) (o_disk o) (o_conv o) (o_length o) (o_total o) (o_hasbuf o) (o_buf_siz o) (o_buf_len o) (o_buf o)
       (o_undelivered o) d (o_flagd o) (o_err o) (o_low o) (o_high o) (o_interval o) (o_strict o).
Definition set_undelivered (o : op) (u : Z) : op :=
  mkOp (o_write o) (o_disk o) (o_conv o) (o_length o) (o_total o) (o_hasbuf o) (o_buf_siz o) (o_buf_len o) (o_buf o)
       u (o_data o) (o_flagd o) (o_err o) (o_low o) (o_high o) (o_interval o) (o_strict o).

(* _dispatch_io_get_error (io.c:326) *)
Definition get_error (closed stopped : bool) (fderr : Z) (ignore_closed : bool) : Z :=
  if closed || stopped then
    (if negb ignore_closed || stopped then ECANCELED else 0)
  else fderr.

(* one invocation of the client's I/O handler *)
Record call := mkCall {
  c_done : bool;
  c_data : option (list Z);   (* None = NULL data object *)
  c_err : Z;
  c_total : Z;                (* ghost: op->total when the delivery was made *)
  c_forced : bool             (* ghost: the delivery was requested by flags (DELIVER/DONE/op->flags), not by the low-water test *)
}.

(* result of one read()/write() (or of the open() of a path-based descriptor, which jumps to the same `error:`) *)
Inductive sysres :=
| Got (bs : list Z)     (* read: these bytes were returned ([] = EOF); write: length bs bytes were accepted *)
| Fail (errno : Z).

(* ---------------------------------------------------------------- _dispatch_operation_perform (io.c:2338) *)

(* the dispatch_data_apply block that sizes a write buffer (io.c:2390-2399); acc = op->buf_siz *)
Fixpoint wbuf_scan (chunk_siz : Z) (acc : Z) (d : data) : Z :=
  match d with
  | [] => acc
  | r :: t =>
      let siz := acc + zlen r in
      let acc' := if (acc =? 0) || (siz <=? chunk_siz) then siz else acc in
      if siz <? chunk_siz then wbuf_scan chunk_siz acc' t else acc'
  end.

Definition alloc_buf (c : cfg) (o : op) : op :=
  if o_hasbuf o then o else
  let max_buf_siz := o_high o in
  let chunk_siz := chunk_size c in
  if negb (o_write o) then
    let data_siz := dsize (o_data o) in
    let max1 := if data_siz =? 0 then max_buf_siz else u64 (max_buf_siz - data_siz) in
    let max2 := if max1 >? chunk_siz then chunk_siz else max1 in
    let bs := if o_length o <? SIZE_MAX then
                (let b := o_length o - o_total o in if b >? max2 then max2 else b)
              else max2 in
    set_buf o true bs (o_buf_len o) []
  else
    let chunk_siz := if chunk_siz >? max_buf_siz then max_buf_siz else chunk_siz in
    let bs0 := wbuf_scan chunk_siz 0 (o_data o) in
    let bs := if bs0 >? max_buf_siz then max_buf_siz else bs0 in
    (* d = dispatch_data_create_subrange(op->data, 0, op->buf_siz); op->buf_data = dispatch_data_create_map(d, &op->buf) *)
    set_buf o true bs (o_buf_len o) (flat (dsub (o_data o) 0 bs)).

(* the `syscall:` loop: EINTR is retried; None = the outcomes given end inside the loop *)
Fixpoint first_result (rs : list sysres) : option sysres :=
  match rs with
  | [] => None
  | Fail e :: t => if e =? EINTR then first_result t else Some (Fail e)
  | r :: _ => Some r
  end.

(* classification at the `error:` label; returns (op, result, new fd_entry->err) *)
Definition perform_error (o : op) (fderr : Z) (err : Z) : op * Z * Z :=
  if err =? EAGAIN then
    if negb (o_write o) && negb (o_total o =? 0) && o_conv o then (o, DISPATCH_OP_COMPLETE_RESUME, fderr)
    else (o, DISPATCH_OP_RESUME, fderr)
  else
    let o := set_err o err in
    if err =? ECANCELED then (o, DISPATCH_OP_ERR, fderr)
    else if err =? EBADF then (o, DISPATCH_OP_FD_ERR, if fderr =? 0 then err else fderr)
    else (o, DISPATCH_OP_COMPLETE, fderr).

(* returns (op, result, fderr, bytes that crossed the descriptor in this call) *)
Definition perform (c : cfg) (closed stopped : bool) (fderr : Z) (o : op) (rs : list sysres)
  : op * Z * Z * list Z :=
  let err := get_error closed stopped fderr true in
  if negb (err =? 0) then let '(o, r, f) := perform_error o fderr err in (o, r, f, []) else
  let o := alloc_buf c o in
  match first_result rs with
  | None => (o, DISPATCH_OP_RESUME, fderr, [])       (* not reachable with a complete outcome list *)
  | Some (Fail e) => let '(o, r, f) := perform_error o fderr e in (o, r, f, [])
  | Some (Got bs) =>
      let processed := zlen bs in
      if processed =? 0 then (o, DISPATCH_OP_DELIVER_AND_COMPLETE, fderr, [])
      else
        let moved := if o_write o then firstn (Z.to_nat processed) (skipn (Z.to_nat (o_buf_len o)) (o_buf o)) else bs in
        let o := set_buf o (o_hasbuf o) (o_buf_siz o) (o_buf_len o + processed)
                         (if o_write o then o_buf o else o_buf o ++ bs) in
        let o := set_total o (o_total o + processed) in
        if o_total o =? o_length o then (o, DISPATCH_OP_COMPLETE, fderr, moved)
        else (o, DISPATCH_OP_DELIVER, fderr, moved)
  end.

(* length passed to the system call by the next perform *)
Definition req_len (c : cfg) (o : op) : Z := let o := alloc_buf c o in o_buf_siz o - o_buf_len o.

(* ---------------------------------------------------------------- _dispatch_operation_deliver_data (io.c:2630) *)
Record dflags := { f_deliver : bool; f_done : bool; f_noempty : bool }.
Definition FL_DEFAULT := {| f_deliver := false; f_done := false; f_noempty := false |}.
Definition FL_DELIVER := {| f_deliver := true; f_done := false; f_noempty := false |}.
Definition FL_DELIVER_NO_EMPTY := {| f_deliver := true; f_done := false; f_noempty := true |}.
Definition FL_DONE := {| f_deliver := false; f_done := true; f_noempty := false |}.
Definition dflags_encode (f : dflags) : Z :=
  (if f_deliver f then DOP_DELIVER else 0) + (if f_done f then DOP_DONE else 0) + (if f_noempty f then DOP_NO_EMPTY else 0).

(* the block that runs on op_q (io.c:2719-2738) *)
Definition handler_calls (write : bool) (fl : dflags) (forced : bool) (d : data) (err total : Z) : list call :=
  if f_done fl then
    if negb write && negb (err =? 0) then
      (if negb (dsize d =? 0) then [mkCall false (Some (flat d)) 0 total forced] else [])
        ++ [mkCall true None err total forced]
    else if write && (err =? 0) then [mkCall true None err total forced]
    else [mkCall true (Some (flat d)) err total forced]
  else [mkCall false (Some (flat d)) err total forced].

(* the decision part (io.c:2636-2655): (return early?, deliver, err, op) *)
Definition dd_decide (stopped : bool) (forced : bool) (undelivered : Z) (o : op) : bool * bool * Z * op :=
  if negb forced then
    if undelivered >=? o_low o then (false, true, 0, o)
    else if o_buf_len o <? o_buf_siz o then (true, false, 0, o)
    else (false, false, 0, o)
  else
    let err := o_err o in
    if (err =? 0) && stopped then (false, true, ECANCELED, set_err o ECANCELED)
    else (false, true, err, o).

(* the data part (io.c:2656-2703): the data object for the handler and the operation's new buffer / op->data *)
Definition dd_data (deliver : bool) (o : op) : data * op :=
  if negb (o_write o) then
    let '(d, o) :=
      if negb (o_buf_len o =? 0) then (o_data o ++ [o_buf o], set_buf o false (o_buf_siz o) 0 [])
      else (o_data o, o) in
    (d, set_data o (if deliver then [] else d))
  else
    let d := if deliver then dsub (o_data o) (o_buf_len o) (o_length o) else [] in
    if o_hasbuf o && (o_buf_len o =? o_buf_siz o) then
      let nd := if deliver then d else dsub (o_data o) (o_buf_siz o) (o_length o) in
      (d, set_data (set_buf o false (o_buf_siz o) 0 []) nd)
    else (d, o).

(* io.c:2704-2738 *)
Definition dd_finish (fl : dflags) (forced deliver : bool) (err undelivered : Z) (d : data) (o : op) : op * list call :=
  if negb deliver || (f_noempty fl && (dsize d =? 0)) then (set_undelivered o undelivered, [])
  else (set_undelivered o 0, handler_calls (o_write o) fl forced d err (o_total o)).

Definition deliver_data (stopped : bool) (fl : dflags) (o0 : op) : op * list call :=
  let undelivered := o_undelivered o0 + o_buf_len o0 in
  let forced := f_deliver fl || f_done fl || o_flagd o0 in
  let '(ret, deliver, err, o) := dd_decide stopped forced undelivered (set_flagd o0 false) in
  if ret then (o, []) else
  let '(d, o) := dd_data deliver o in
  dd_finish fl forced deliver err undelivered d o.

(* ---------------------------------------------------------------- life of the operation *)
Inductive phase := Idle | Picked | Performed (result : Z) | Completed.

Record st := mkSt {
  s_op : op;
  s_phase : phase;
  s_closed : bool; s_stopped : bool;     (* channel->atomic_flags *)
  s_fderr : Z;                           (* fd_entry->err *)
  s_calls : list call;                   (* handler invocations so far, in order (op_q is serial, C02) *)
  s_io : list Z                          (* ghost: read: bytes the descriptor returned; write: bytes it accepted *)
}.

Definition st_init (o : op) : st := mkSt o Idle false false 0 [] [].

Inductive event :=
| EvCheck                         (* the handler picks the operation: _dispatch_io_get_error(op, NULL, true) (io.c:2087, 2167, 1201) *)
| EvPerform (rs : list sysres)    (* _dispatch_operation_perform *)
| EvAct                           (* result -> action table (io.c:2106-2145 / 2242-2262) *)
| EvTimer                         (* interval timer handler (io.c:1227-1244) *)
| EvCleanup (fd_wide : bool)      (* _dispatch_stream_cleanup_operations / _dispatch_disk_cleanup_*_operations reach the op;
                                     fd_wide = called with channel == NULL after a descriptor error (io.c FD_ERR),
                                     otherwise for the op's own channel after a stop / ECANCELED result *)
| EvClose | EvStop                (* DIO_CLOSED / DIO_STOPPED become visible *)
| EvFdErr (e : Z).                (* another operation recorded EBADF / open failure in fd_entry->err *)

Definition is_active (s : st) : bool :=
  o_disk (s_op s) && match s_phase s with Picked | Performed _ => true | _ => false end.

(* _dispatch_*_complete_operation -> final release -> _dispatch_operation_dispose: deliver_data(op, DOP_DONE) *)
Definition complete (s : st) : st :=
  let '(o, cs) := deliver_data (s_stopped s) FL_DONE (s_op s) in
  mkSt o Completed (s_closed s) (s_stopped s) (s_fderr s) (s_calls s ++ cs) (s_io s).

Definition with_deliver (s : st) (fl : dflags) (ph : phase) : st :=
  let '(o, cs) := deliver_data (s_stopped s) fl (s_op s) in
  mkSt o ph (s_closed s) (s_stopped s) (s_fderr s) (s_calls s ++ cs) (s_io s).

Definition set_phase (s : st) (ph : phase) : st :=
  mkSt (s_op s) ph (s_closed s) (s_stopped s) (s_fderr s) (s_calls s) (s_io s).

Definition step (c : cfg) (s : st) (e : event) : st :=
  match e with
  | EvClose => mkSt (s_op s) (s_phase s) true (s_stopped s) (s_fderr s) (s_calls s) (s_io s)
  | EvStop => mkSt (s_op s) (s_phase s) (s_closed s) true (s_fderr s) (s_calls s) (s_io s)
  | EvFdErr e => mkSt (s_op s) (s_phase s) (s_closed s) (s_stopped s) (if s_fderr s =? 0 then e else s_fderr s)
                      (s_calls s) (s_io s)
  | EvCheck =>
      match s_phase s with
      | Idle =>
          let err := get_error (s_closed s) (s_stopped s) (s_fderr s) true in
          if negb (err =? 0) then
            complete (mkSt (set_err (s_op s) err) Idle (s_closed s) (s_stopped s) (s_fderr s) (s_calls s) (s_io s))
          else if (o_total (s_op s) =? 0) && initial_delivery c then with_deliver s FL_DELIVER Picked
          else set_phase s Picked
      | _ => s
      end
  | EvPerform rs =>
      match s_phase s with
      | Picked =>
          let '(o, r, f, moved) := perform c (s_closed s) (s_stopped s) (s_fderr s) (s_op s) rs in
          mkSt o (Performed r) (s_closed s) (s_stopped s) f (s_calls s) (s_io s ++ moved)
      | _ => s
      end
  | EvAct =>
      match s_phase s with
      | Performed r =>
          if r =? DISPATCH_OP_DELIVER then with_deliver s FL_DEFAULT Idle
          else if r =? DISPATCH_OP_DELIVER_AND_COMPLETE then complete (with_deliver s FL_DELIVER_NO_EMPTY Idle)
          else if r =? DISPATCH_OP_COMPLETE then complete s
          else if r =? DISPATCH_OP_COMPLETE_RESUME then (if o_disk (s_op s) then set_phase s Idle else complete s)
          else if r =? DISPATCH_OP_RESUME then set_phase s Idle
          else if r =? DISPATCH_OP_ERR then complete s
          else if r =? DISPATCH_OP_FD_ERR then (if o_disk (s_op s) then complete s else set_phase s Idle)
          else set_phase s Idle
      | _ => s
      end
  | EvTimer =>
      match s_phase s with
      | Completed => s                 (* timer cancelled: dispatch_source_testcancel *)
      | _ =>
          if negb (o_interval (s_op s)) then s else
          let fl := if o_strict (s_op s) then FL_DELIVER else FL_DEFAULT in
          if is_active s && f_deliver fl then
            mkSt (set_flagd (s_op s) true) (s_phase s) (s_closed s) (s_stopped s) (s_fderr s) (s_calls s) (s_io s)
          else with_deliver s fl (s_phase s)
      end
  | EvCleanup fd_wide =>
      match s_phase s with
      | Completed => s
      | _ =>
          if is_active s then s          (* cleanup_inactive_operations skips active operations *)
          else if fd_wide then
            (* only reached after an EBADF result recorded fd_entry->err; the operation inherits that error *)
            if s_fderr s =? 0 then s
            else complete (mkSt (if o_err (s_op s) =? 0 then set_err (s_op s) (s_fderr s) else s_op s)
                                (s_phase s) (s_closed s) (s_stopped s) (s_fderr s) (s_calls s) (s_io s))
          else
            (* only reached from _dispatch_io_stop or an ECANCELED result: the channel is stopped *)
            if s_stopped s then complete s else s
      end
  end.

Definition run (c : cfg) (s : st) (evs : list event) : st := fold_left (step c) evs s.

(* the kernel's side of the contract: a read()/write() never returns more than was requested *)
Definition result_ok (c : cfg) (s : st) (e : event) : bool :=
  match e, s_phase s with
  | EvPerform rs, Picked =>
      match first_result rs with
      | Some (Got bs) => zlen bs <=? req_len c (s_op s)
      | _ => true
      end
  | _, _ => true
  end.
Fixpoint run_ok (c : cfg) (s : st) (evs : list event) : bool :=
  match evs with
  | [] => true
  | e :: t => result_ok c s e && run_ok c (step c s e) t
  end.

(* ---------------------------------------------------------------- operations that never reach a stream/disk *)
(* _dispatch_operation_create with err || !length (io.c:1063-1084) and _dispatch_operation_enqueue with err
   (io.c:1157-1173): one invocation, done, data per direction *)
Definition immediate_call (write : bool) (d : data) (err : Z) : call :=
  let dd := if negb write && negb (err =? 0) then None
            else if write && (err =? 0) then None
            else Some (flat d) in
  mkCall true dd err 0 true.
Definition create_or_enqueue (closed stopped : bool) (chan_err : Z) (write : bool) (length : Z) (d : data)
  : option call :=
  let err := get_error closed stopped chan_err false in
  if negb (err =? 0) || (length =? 0) then Some (immediate_call write d err) else None.

(* ---------------------------------------------------------------- observation matching (correspondence only)
   Given the system call results the hook recorded for one operation, is the observed sequence of handler
   invocations (done, size or -1 for NULL, err) a trace of the model for SOME placement of the asynchronous
   events (stop / close becoming visible, timer ticks, cleanup)?  Depth-first search; every theorem of
   IoOp_proofs quantifies over all event sequences, so whatever sequence is found is covered. *)
Definition obs := (bool * Z * Z)%type.
Definition call_obs (k : call) : obs :=
  (c_done k, match c_data k with None => -1 | Some l => zlen l end, c_err k).
Definition obs_eqb (a b : obs) : bool :=
  let '(d1, n1, e1) := a in let '(d2, n2, e2) := b in Bool.eqb d1 d2 && (n1 =? n2) && (e1 =? e2).
Fixpoint strip_prefix (p l : list obs) : option (list obs) :=
  match p, l with
  | [], _ => Some l
  | a :: p', b :: l' => if obs_eqb a b then strip_prefix p' l' else None
  | _ :: _, [] => None
  end.
(* split the raw outcome list after its first non-EINTR element *)
Fixpoint split_group (rs : list sysres) : list sysres * list sysres :=
  match rs with
  | [] => ([], [])
  | Fail e :: t => if e =? EINTR then let '(g, r) := split_group t in (Fail e :: g, r) else ([Fail e], t)
  | r :: t => ([r], t)
  end.

Definition new_calls (s s' : st) : list obs := map call_obs (skipn (length (s_calls s)) (s_calls s')).
(* the search forgets the invocations it has already matched and the ghost byte log (no step reads s_calls or s_io;
   keeps the search's memory small) *)
Definition clear_calls (s : st) : st := mkSt (s_op s) (s_phase s) (s_closed s) (s_stopped s) (s_fderr s) [] [].

(* every visited state costs one unit of `budget`; the result carries what is left (0 = the search was cut off) *)
Fixpoint explain (fuel : nat) (c : cfg) (may_stop may_fderr : bool) (s : st) (rs : list sysres) (ob : list obs)
  (budget : Z) : bool * Z :=
  match fuel with
  | O => (false, budget)
  | S fuel =>
      if budget <=? 0 then (false, 0) else
      let budget := budget - 1 in
      let try (s' : st) (rs' : list sysres) (b : Z) : bool * Z :=
        match strip_prefix (new_calls s s') ob with
        | Some ob' => explain fuel c may_stop may_fderr (clear_calls s') rs' ob' b
        | None => (false, b)
        end in
      match s_phase s with
      | Completed => (match rs, ob with [], [] => true | _, _ => false end, budget)
      | ph =>
          (* the deterministic next move of the handler (if-then-else, not orb: vm_compute is call-by-value) *)
          let '(r1, b1) :=
            match ph with
            | Idle => try (step c s EvCheck) rs budget
            | Picked =>
                if negb (get_error (s_closed s) (s_stopped s) (s_fderr s) true =? 0) then try (step c s (EvPerform [])) rs budget
                else let '(g, r) := split_group rs in
                     match first_result g with
                     | Some (Got bs) => if zlen bs <=? req_len c (s_op s) then try (step c s (EvPerform g)) r budget
                                        else (false, budget)
                     | Some _ => try (step c s (EvPerform g)) r budget
                     | None => (false, budget)
                     end
            | Performed _ => try (step c s EvAct) rs budget
            | Completed => (false, budget)
            end in
          if r1 then (true, b1) else
          (* asynchronous events *)
          let '(r2, b2) := if may_stop then if s_stopped s then (false, b1) else try (step c s EvStop) rs b1 else (false, b1) in
          if r2 then (true, b2) else
          let '(r3, b3) := if may_fderr then if s_fderr s =? 0 then try (step c s (EvFdErr EBADF)) rs b2 else (false, b2)
                           else (false, b2) in
          if r3 then (true, b3) else
          let '(r4, b4) :=
            if o_interval (s_op s) then
              let s' := step c s EvTimer in
              if negb (length (s_calls s') =? length (s_calls s))%nat
                 || (is_active s && o_strict (s_op s) && negb (o_flagd (s_op s)))
              then try s' rs b3 else (false, b3)
            else (false, b3) in
          if r4 then (true, b4) else
          let '(r5, b5) := if s_stopped s && negb (is_active s) then try (step c s (EvCleanup false)) rs b4 else (false, b4) in
          if r5 then (true, b5) else
          if negb (s_fderr s =? 0) && negb (is_active s) then try (step c s (EvCleanup true)) rs b5
          else (false, b5)
      end
  end.

(* the prediction without asynchronous events (diagnostics) *)
Fixpoint predict (fuel : nat) (c : cfg) (s : st) (rs : list sysres) : list obs :=
  match fuel with
  | O => map call_obs (s_calls s)
  | S fuel =>
      match s_phase s with
      | Completed => map call_obs (s_calls s)
      | Idle => predict fuel c (step c s EvCheck) rs
      | Picked => let '(g, r) := split_group rs in
                  match g with [] => map call_obs (s_calls s) | _ => predict fuel c (step c s (EvPerform g)) r end
      | Performed _ => predict fuel c (step c s EvAct) rs
      end
  end.

(* channel parameter history: setters run on the channel queue in submission order *)
Inductive setter := SetLow (v : Z) | SetHigh (v : Z).
Definition apply_setters (p : params) (l : list setter) : params :=
  fold_left (fun p s => match s with SetLow v => set_low_water p v | SetHigh v => set_high_water p v end) l p.

(* an operation as the client sees it: either it never reaches a stream (creation / enqueue on a closed, stopped or
   failed channel, or zero length) or it lives as above *)
(* 1 = reproduced, 0 = no placement of the asynchronous events reproduces the observation, -1 = search cut off *)
Definition explain_op (c : cfg) (may_stop may_close may_fderr : bool) (o : op) (rs : list sysres) (ob : list obs) : Z :=
  let imm (closed stopped : bool) :=
    match create_or_enqueue closed stopped 0 (o_write o) (o_length o) (o_data o) with
    | Some k => match rs, ob with [], [x] => obs_eqb (call_obs k) x | _, _ => false end
    | None => false
    end in
  if imm false false then 1
  else if (if may_close then imm true false else false) then 1
  else if (if may_stop then imm false true else false) then 1
  else if o_length o =? 0 then 0
  else
    let n := Z.of_nat (length rs + length ob) in
    let '(r, rest) := explain (4 * length rs + 4 * length ob + 24) c may_stop may_fderr (st_init o) rs ob (40 * n + 4000) in
    if r then 1 else if rest <=? 0 then -1 else 0.

(* a data object of n zero bytes in one region (the model's control flow never looks at byte values) *)
Definition zeros (n : Z) : list Z := repeat 0 (Z.to_nat n).

(* ---------------------------------------------------------------- the per-direction operation lists of a stream
   (struct dispatch_stream_s: operations[2], op; io.c:1823-1836, 1858-1874, 1905-1935, 1964-1986) *)
Record sop := { so_id : Z; so_chan : Z; so_random : bool (* params.type == DISPATCH_IO_RANDOM *) }.
Record stream := mkStream {
  q_s : list sop;              (* operations[DISPATCH_IO_STREAM] *)
  q_r : list sop;              (* operations[DISPATCH_IO_RANDOM] *)
  q_cur : option sop;          (* stream->op *)
  q_done : list sop;           (* ghost: operations in the order _dispatch_stream_complete_operation saw them *)
  q_enq : list sop;            (* ghost: operations in the order TAILQ_INSERT_TAIL saw them *)
  q_io : list Z                (* ghost: ids of the operations _dispatch_operation_perform was called on, in order *)
}.
Definition stream_init := mkStream [] [] None [] [] [].
Definition same_op (a b : sop) : bool := so_id a =? so_id b.
Fixpoint remove_first (a : sop) (l : list sop) : list sop :=
  match l with [] => [] | h :: t => if same_op a h then t else h :: remove_first a t end.
Fixpoint next_after (a : sop) (l : list sop) : option sop :=
  match l with [] => None | h :: t => if same_op a h then (match t with n :: _ => Some n | [] => None end) else next_after a t end.

(* _dispatch_stream_pick_next_operation(stream, stream->op) *)
Definition pick_next (q : stream) : option sop :=
  match q_cur q with
  | None =>
      match q_s q with
      | h :: _ => Some h
      | [] => match q_r q with h :: _ => Some h | [] => None end
      end
  | Some op =>
      if negb (so_random op) then Some op
      else match next_after op (q_r q) with
           | Some n => Some n
           | None => match q_r q with h :: _ => Some h | [] => None end
           end
  end.

(* _dispatch_stream_complete_operation *)
Definition complete_op (q : stream) (op : sop) : stream :=
  mkStream (if so_random op then q_s q else remove_first op (q_s q))
           (if so_random op then remove_first op (q_r q) else q_r q)
           (match q_cur q with Some c => if same_op op c then None else Some c | None => None end)
           (q_done q ++ [op]) (q_enq q) (q_io q).

(* _dispatch_stream_cleanup_operations(stream, channel): TAILQ_FOREACH_SAFE over the RANDOM list, then over the STREAM
   list, completing every operation of the channel (all operations when channel == NULL) in list order; stream->op is
   cleared when it is among them (it always is on one of the lists) *)
Definition chan_match (ch : option Z) (op : sop) : bool :=
  match ch with None => true | Some c => so_chan op =? c end.
Definition cleanup_ops (q : stream) (ch : option Z) : stream :=
  mkStream (filter (fun op => negb (chan_match ch op)) (q_s q))
           (filter (fun op => negb (chan_match ch op)) (q_r q))
           (match q_cur q with Some c => if chan_match ch c then None else Some c | None => None end)
           (q_done q ++ filter (chan_match ch) (q_r q) ++ filter (chan_match ch) (q_s q)) (q_enq q) (q_io q).

(* what one pass of the handler does with the picked operation *)
Inductive hres :=
| HPickErr       (* _dispatch_io_get_error at pick: complete without I/O, goto pick (io.c:2087-2092) *)
| HKeep          (* perform, then DELIVER / RESUME / FD_ERR: the operation stays *)
| HComplete      (* perform, then COMPLETE / DELIVER_AND_COMPLETE / COMPLETE_RESUME *)
| HErr.          (* perform returned DISPATCH_OP_ERR: cleanup of the operation's channel *)
Inductive sevent :=
| SEnq (op : sop)                 (* _dispatch_stream_enqueue_operation *)
| SHandler (r : hres)             (* one pass of _dispatch_stream_handler (a `goto pick` is another pass) *)
| SCleanup (ch : option Z).       (* _dispatch_stream_cleanup_operations from stop / FD_ERR *)

Definition sstep (q : stream) (e : sevent) : stream :=
  match e with
  | SEnq op =>
      mkStream (if so_random op then q_s q else q_s q ++ [op]) (if so_random op then q_r q ++ [op] else q_r q)
               (q_cur q) (q_done q) (q_enq q ++ [op]) (q_io q)
  | SHandler r =>
      match pick_next q with
      | None => q
      | Some op =>
          (* stream->op = op; result = _dispatch_operation_perform(op) *)
          let q1 := mkStream (q_s q) (q_r q) (Some op) (q_done q) (q_enq q) (q_io q ++ [so_id op]) in
          match r with
          | HPickErr => complete_op q op
          | HKeep => q1
          | HComplete => complete_op q1 op
          | HErr => cleanup_ops q1 (Some (so_chan op))
          end
      end
  | SCleanup ch => cleanup_ops q ch
  end.
Definition srun (q : stream) (evs : list sevent) : stream := fold_left sstep evs q.

(* ---------------------------------------------------------------- dispatch_io_barrier: the channel's barrier_queue /
   barrier_group bookkeeping (io.c:808-832 dispatch_io_barrier, 842-897 dispatch_io_read/write -> 1151-1191
   _dispatch_operation_enqueue: dispatch_group_enter; 1112-1122 _dispatch_operation_dispose: dispatch_group_leave).
   The channel queue and the barrier queue are serial queues (FIFO: C02), the barrier queue is suspended / resumed
   (C06), the group is the one of C07.  What the group does when the count returns to zero is the only part that is
   not sequential here: dispatch_group_leave observes the zero at its atomic add and detaches the notify list in a
   later step (semaphore.c:279-299); `atomic_leave` = true collapses the two steps (the ideal group: a notification
   runs only when the count is zero), false is the group as coded (C07's notify-early finding needs an enter between
   the add and the detach; here every enter runs on the barrier queue, which a registered barrier keeps suspended). *)
Inductive bitem := IEnq (op : Z) | IBar (id : Z).
Inductive blog := LEnq (op : Z) | LDone (op : Z) | LBar (id : Z).
Record bst := mkB {
  b_q : list bitem;       (* blocks pending on the barrier queue, FIFO *)
  b_susp : nat;           (* suspend count of the barrier queue *)
  b_out : list Z;         (* operations between dispatch_group_enter and dispatch_group_leave *)
  b_notifs : list Z;      (* barrier blocks registered with dispatch_group_notify, not yet submitted *)
  b_fired : list Z;       (* barrier blocks submitted to the channel's target queue, not yet run *)
  b_wake : nat;           (* leaves that brought the count to zero and have not yet detached the notify list *)
  b_exec : list bitem;    (* ghost: blocks the barrier queue has run, in order *)
  b_log : list blog       (* ghost: what happened, in order *)
}.
Definition b_init := mkB [] 0 [] [] [] 0 [] [].
Definition b_cnt (s : bst) : nat := length (b_out s).   (* the group's count of outstanding enters *)
Inductive bevent :=
| BSubmit (i : bitem)     (* dispatch_io_read/write/barrier: channel queue -> dispatch_async(barrier_queue, ...) *)
| BRun                    (* the barrier queue runs its next block *)
| BLeave (op : Z)         (* _dispatch_operation_dispose: dispatch_group_leave (the atomic add) *)
| BWake                   (* _dispatch_group_wake of a leave that observed zero *)
| BBlock (id : Z).        (* the notify block: barrier(); dispatch_resume(barrier_queue) *)
Fixpoint zremove (x : Z) (l : list Z) : list Z :=
  match l with [] => [] | h :: t => if h =? x then t else h :: zremove x t end.
Fixpoint zmem (x : Z) (l : list Z) : bool :=
  match l with [] => false | h :: t => (h =? x) || zmem x t end.

Definition bstep (atomic_leave : bool) (s : bst) (e : bevent) : bst :=
  match e with
  | BSubmit i => mkB (b_q s ++ [i]) (b_susp s) (b_out s) (b_notifs s) (b_fired s) (b_wake s) (b_exec s) (b_log s)
  | BRun =>
      match b_susp s, b_q s with
      | O, IEnq op :: rest =>
          (* _dispatch_operation_enqueue: dispatch_group_enter; the operation goes to its stream *)
          mkB rest O (b_out s ++ [op]) (b_notifs s) (b_fired s) (b_wake s) (b_exec s ++ [IEnq op]) (b_log s ++ [LEnq op])
      | O, IBar id :: rest =>
          (* dispatch_suspend(barrier_queue); dispatch_group_notify: submitted at once when the count is zero *)
          match b_out s with
          | [] => mkB rest 1 [] (b_notifs s) (b_fired s ++ [id]) (b_wake s) (b_exec s ++ [IBar id]) (b_log s)
          | _ => mkB rest 1 (b_out s) (b_notifs s ++ [id]) (b_fired s) (b_wake s) (b_exec s ++ [IBar id]) (b_log s)
          end
      | _, _ => s
      end
  | BLeave op =>
      if zmem op (b_out s) then
        let out := zremove op (b_out s) in
        match out with
        | [] =>
            if atomic_leave then
              mkB (b_q s) (b_susp s) [] [] (b_fired s ++ b_notifs s) (b_wake s) (b_exec s) (b_log s ++ [LDone op])
            else
              (* as coded: the state read by the atomic add has HAS_NOTIFS iff a notification is registered; without it
                 the loop exits at once and _dispatch_group_wake(dg, old_state) finds nothing to do (semaphore.c:283-299,
                 251); with it the list is detached in a later step (HAS_WAITERS is never set: io.c never waits) *)
              match b_notifs s with
              | [] => mkB (b_q s) (b_susp s) [] [] (b_fired s) (b_wake s) (b_exec s) (b_log s ++ [LDone op])
              | _ => mkB (b_q s) (b_susp s) [] (b_notifs s) (b_fired s) (S (b_wake s)) (b_exec s) (b_log s ++ [LDone op])
              end
        | _ => mkB (b_q s) (b_susp s) out (b_notifs s) (b_fired s) (b_wake s) (b_exec s) (b_log s ++ [LDone op])
        end
      else s
  | BWake =>
      match b_wake s with
      | O => s
      | S w => mkB (b_q s) (b_susp s) (b_out s) [] (b_fired s ++ b_notifs s) w (b_exec s) (b_log s)
      end
  | BBlock id =>
      if zmem id (b_fired s) then
        mkB (b_q s) (pred (b_susp s)) (b_out s) (b_notifs s) (zremove id (b_fired s)) (b_wake s) (b_exec s)
            (b_log s ++ [LBar id])
      else s
  end.
Definition brun (a : bool) (s : bst) (evs : list bevent) : bst := fold_left (bstep a) evs s.
(* everything that was submitted, in submission order *)
Definition b_sub (s : bst) : list bitem := b_exec s ++ b_q s.
