(* Group.v — model of dispatch_group_enter / _leave / _wait / _notify / _dispatch_group_wake / _dispatch_group_wait_slow
   (src/semaphore.c:208-349, src/semaphore_internal.h:66-96, src/shims/lock.c:493-549, os_mpsc_* of src/inline_internal.h)
   for any number of threads.  The two os_atomic_rmw_loop bodies, their memory orders, _dg_state_gen and the
   constants come from Gen_group (regenerated from the source).  dispatch_group_leave's clearing loop is a hand-coded
   do/while around os_atomic_cmpxchgv (not an os_atomic_rmw_loop): `leave_new` below mirrors it with Gen's constants and is
   tied by the site list and by trace conformance (the value every recorded CAS tries to store must be leave_new old). *)
From Coq Require Import ZArith Bool List.
From Verif Require Import Word Conc Gen_consts Gen_group.
Import ListNotations.
Local Open Scope Z_scope.

Definition HW := DISPATCH_GROUP_HAS_WAITERS.
Definition HN := DISPATCH_GROUP_HAS_NOTIFS.
Definition VMASK := DISPATCH_GROUP_VALUE_MASK.
Definition INTERVAL := DISPATCH_GROUP_VALUE_INTERVAL.
Definition V1 := DISPATCH_GROUP_VALUE_1.
Definition VMAX := DISPATCH_GROUP_VALUE_MAX.
Definition FOREVER := 18446744073709551615.
Definition ETIMEDOUT := 110.

(* offsets inside the tracked range, which starts at &dg->dg_state; OFF_NQ is a pseudo offset: the recorder maps the
   dq_items_tail word of the queue that receives the notification blocks there *)
Definition OFF_STATE := 0. Definition OFF_GEN := 4. Definition OFF_HEAD := 8. Definition OFF_TAIL := 16.
Definition OFF_NQ := 24.
(* API operations, first argument of the harness-level DVU_CALL event *)
Definition OP_ENTER := 1. Definition OP_LEAVE := 2. Definition OP_WAIT := 3. Definition OP_NOTIFY := 4.
Definition OP_ASYNC := 5.   (* dispatch_group_async_f: the enter part runs in the caller; the leave on a worker thread *)

Definition mo_code (o : morder) : Z :=
  match o with Relaxed => 0 | Consume => 1 | Acquire => 2 | Release => 3 | AcqRel => 4 | SeqCst => 5 end.

(* dispatch_group_leave, semaphore.c:285-298: one iteration of the clearing loop computes new_state from old_state *)
Definition leave_new (old : Z) : Z :=
  if Z.land old VMASK =? 0
  then Z.land (Z.land old (not64 HW)) (not64 HN)
  else Z.land old (not64 HN).

(* who called _dispatch_group_wake / dispatch_group_leave: an API call of the harness (ends with DVU_RET) or the leave that
   libdispatch itself performs on a worker thread after a dispatch_group_async work item (no call mark) *)
Inductive kont := KApi | KImpl.

Inductive pc :=
| PIdle
| PCrash                         (* DISPATCH_CLIENT_CRASH: over-entered / unbalanced leave *)
| PEnter                         (* dispatch_group_enter: atomic sub on dg_bits next *)
| PRet                           (* about to return from enter / leave / notify *)
| PLeave                         (* dispatch_group_leave called through the API: atomic add next *)
| PLvLoop (k : kont) (old : Z)   (* clearing loop, cmpxchgv(old -> leave_new old) next *)
| PSnapHead (k : kont) (st : Z)  (* _dispatch_group_wake(st) with HAS_NOTIFS: os_mpsc_get_head spin *)
| PSnapStore (k : kont) (st : Z) (* store head := NULL *)
| PSnapTail (k : kont) (st : Z)  (* xchg tail := NULL: the list is detached here *)
| PFire (k : kont) (st : Z)      (* submitting the detached continuations *)
| PWakeFutex (k : kont)          (* st had HAS_WAITERS: _dispatch_wake_by_address(&dg_gen) next *)
| PWtLoad (tmo : Z)              (* dispatch_group_wait: the rmw loop's initial relaxed load *)
| PWtCas (tmo old new : Z)       (* the loop tries old -> new = old | HAS_WAITERS *)
| PSlow (tmo gen : Z)            (* _dispatch_group_wait_slow: _dispatch_wait_on_address(&dg_gen, gen, timeout) next *)
| PSleep (tmo gen : Z)           (* inside futex_wait *)
| PSlowLoad (tmo gen rc : Z)     (* reload dg_gen (acquire) *)
| PRetV (v : Z)                  (* dispatch_group_wait returns v (0, or 1 standing for non-zero) *)
| PNfPush                        (* _dispatch_group_notify: os_mpsc_push_update_tail next *)
| PNfHead (dsn : Z)              (* the list was empty: store head := dsn *)
| PNfLoad                        (* rmw loop's initial load *)
| PNfCas (old new : Z).          (* the loop tries old -> new = old | HAS_NOTIFS *)

Definition end_pc (k : kont) : pc := match k with KApi => PRet | KImpl => PIdle end.
Definition wake_tail (k : kont) (st : Z) : pc := if nz (Z.land st HW) then PWakeFutex k else end_pc k.
Definition wake_entry (k : kont) (st : Z) : pc := if nz (Z.land st HN) then PSnapHead k st else wake_tail k st.
Definition lv_loop_entry (k : kont) (old : Z) : pc :=
  if leave_new old =? old then wake_entry k old else PLvLoop k old.
(* after the atomic add of dispatch_group_leave returned `orig` *)
Definition after_add (k : kont) (orig : Z) : pc :=
  let old_value := Z.land orig VMASK in
  if old_value =? V1 then lv_loop_entry k (u64 (orig + INTERVAL))
  else if old_value =? 0 then PCrash else end_pc k.

(* classification of the generated outcome of dispatch_group_wait's loop body:
   1 = give up with acquire fence and return 0; 2 = give up, return _DSEMA4_TIMEOUT(); 3 = break to the slow path;
   0 = try to commit; -1 = anything else (not produced by the current source) *)
Definition wait_outcome (o : rmw_outcome) : Z :=
  match o with
  | Commit _ _ => 0
  | NoCommit 1 (AFence Acquire :: nil) => 1
  | NoCommit 1 nil => 2
  | NoCommit 0 nil => 3
  | _ => -1
  end.
Definition commit_val (o : rmw_outcome) : Z := match o with Commit n _ => n | _ => 0 end.

Definition wt_entry (tmo old : Z) : pc :=
  let o := group_wait_loop 0 tmo old in
  let c := wait_outcome o in
  if c =? 1 then PRetV 0 else if c =? 2 then PRetV 1
  else if c =? 3 then PSlow tmo (f_dg_state_gen (Z.lor old HW))
  else if c =? 0 then PWtCas tmo old (commit_val o) else PCrash.

Definition nf_entry (old : Z) : pc :=
  match group_notify_loop 0 0 0 old with
  | Commit new _ => PNfCas old new
  | NoCommit _ _ => wake_entry KApi (Z.lor old HN)   (* (uint32_t)old_state == 0: _dispatch_group_wake(dg, new_state, false) *)
  | _ => PCrash
  end.

Definition is_add (e : event) : bool := ev_is e DV_ADD MO_RELEASE OFF_STATE && (esz e =? 8) && (eb e =? INTERVAL).
Definition is_mark (e : event) : bool :=
  ev_kind e DVU_CALLOUT_BEGIN || ev_kind e DVU_CALLOUT_END || ev_kind e DVU_MARK.

(* the per-thread automaton *)
Definition tstep (p : pc) (e : event) : option pc :=
  match p with
  | PIdle =>
      if ev_kind e DVU_CALL then
        if (ea e =? OP_ENTER) || (ea e =? OP_ASYNC) then Some PEnter
        else if ea e =? OP_LEAVE then Some PLeave
        else if ea e =? OP_WAIT then Some (PWtLoad (eb e))
        else if ea e =? OP_NOTIFY then Some PNfPush else None
      else if is_add e then Some (after_add KImpl (ea e))
      else if is_mark e then Some PIdle else None
  | PCrash => None
  | PEnter => if ev_is e DV_SUB MO_ACQUIRE OFF_STATE && (esz e =? 4) && (eb e =? INTERVAL)
              then Some (if Z.land (ea e) VMASK =? VMAX then PCrash else PRet) else None
  | PRet => if ev_kind e DVU_RET then Some PIdle else None
  | PLeave => if is_add e then Some (after_add KApi (ea e)) else None
  | PLvLoop k old =>
      if ev_is e DV_CAS MO_RELAXED OFF_STATE && (esz e =? 8) && (eb e =? leave_new old)
      then Some (if eok e =? 1 then wake_entry k old else lv_loop_entry k (ea e)) else None
  | PSnapHead k st => if ev_kind e DV_LOAD && (eoff e =? OFF_HEAD)
                      then Some (if ea e =? 0 then PSnapHead k st else PSnapStore k st) else None
  | PSnapStore k st => if ev_is e DV_STORE MO_RELAXED OFF_HEAD && (eb e =? 0) then Some (PSnapTail k st) else None
  | PSnapTail k st => if ev_is e DV_XCHG MO_RELEASE OFF_TAIL && (eb e =? 0) then Some (PFire k st) else None
  | PFire k st =>   (* push of one continuation on the target queue; eok = 1 marks the last one of the snapshot *)
      if ev_kind e DV_XCHG && (eoff e =? OFF_NQ) && negb (eb e =? 0)
      then Some (if eok e =? 1 then wake_tail k st else PFire k st) else None
  | PWakeFutex k => if ev_kind e DV_FUTEX_WAKE && (eoff e =? OFF_GEN) then Some (end_pc k) else None
  | PWtLoad tmo => if ev_is e DV_LOAD MO_RELAXED OFF_STATE && (esz e =? 8) then Some (wt_entry tmo (ea e)) else None
  | PWtCas tmo old new =>
      if ev_is e DV_CASW (mo_code group_wait_loop_order) OFF_STATE && (esz e =? 8) && (eb e =? new)
      then Some (if eok e =? 1 then PSlow tmo (f_dg_state_gen new) else wt_entry tmo (ea e)) else None
  | PSlow tmo gen =>
      (* eb = 1 iff a timeout is passed to the kernel (every timeout but DISPATCH_TIME_FOREVER) *)
      if ev_kind e DV_FUTEX_WAIT && (eoff e =? OFF_GEN) && (ea e =? gen) && (eb e =? (if tmo =? FOREVER then 0 else 1))
      then Some (PSleep tmo gen)
      else (* _dispatch_timeout(timeout) == 0: ETIMEDOUT without a system call, then the reload *)
        if ev_is e DV_LOAD MO_ACQUIRE OFF_GEN && (esz e =? 4) && negb (tmo =? FOREVER)
        then Some (if ea e =? gen then PRetV 1 else PRetV 0) else None
  | PSleep tmo gen => if ev_kind e DV_FUTEX_WAIT_RET && (eoff e =? OFF_GEN) then Some (PSlowLoad tmo gen (eb e)) else None
  | PSlowLoad tmo gen rc =>
      if ev_is e DV_LOAD MO_ACQUIRE OFF_GEN && (esz e =? 4)
      then Some (if ea e =? gen then (if rc =? ETIMEDOUT then PRetV 1 else PSlow tmo gen) else PRetV 0) else None
  | PRetV v => if ev_kind e DVU_RET && Bool.eqb (ea e =? 0) (v =? 0) then Some PIdle else None
  | PNfPush => if ev_is e DV_XCHG MO_RELEASE OFF_TAIL && negb (eb e =? 0)
               then Some (if ea e =? 0 then PNfHead (eb e) else PRet) else None
  | PNfHead dsn => if ev_is e DV_STORE MO_RELAXED OFF_HEAD && (eb e =? dsn) then Some PNfLoad else None
  | PNfLoad => if ev_is e DV_LOAD MO_RELAXED OFF_STATE && (esz e =? 8) then Some (nf_entry (ea e)) else None
  | PNfCas old new =>
      if ev_is e DV_CASW (mo_code group_notify_loop_order) OFF_STATE && (esz e =? 8) && (eb e =? new)
      then Some (if eok e =? 1 then PRet else nf_entry (ea e)) else None
  end.

(* atomic sites in program order, to be compared with what src2v reads from the source; field numbers are whatever
   the translator assigned, so both sides are renamed by order of first occurrence before the comparison *)
Fixpoint index_of (x : nat) (l : list nat) (i : nat) : option nat :=
  match l with [] => None | y :: l' => if Nat.eqb x y then Some i else index_of x l' (S i) end.
Fixpoint canon_aux (seen : list nat) (l : list site) : list site :=
  match l with
  | [] => []
  | s :: l' =>
      match index_of (s_field s) seen 0 with
      | Some i => {| s_kind := s_kind s; s_field := i; s_order := s_order s |} :: canon_aux seen l'
      | None => {| s_kind := s_kind s; s_field := length seen; s_order := s_order s |}
                  :: canon_aux (seen ++ [s_field s]) l'
      end
  end.
Definition canon (l : list site) : list site := canon_aux [] l.
Definition st (k : akind) (f : nat) (o : morder) : site := {| s_kind := k; s_field := f; s_order := o |}.
(* fields: 0 dg_state, 1 dg_bits, 2 dg_gen, 3 dg_notify_head (get_head), 4 dg_notify_head, 5 dg_notify_tail, 6 do_next,
   7 reference count, 8 fence *)
Definition model_sites_enter : list site := [st KSub 1 Acquire; st KAdd 7 Relaxed].
Definition model_sites_wake : list site :=
  [st KLoad 3 Acquire; st KStore 4 Relaxed; st KXchg 5 Release; st KLoad 6 Acquire; st KSub 7 Release; st KSub 7 Release].
Definition model_sites_leave : list site := [st KAdd 0 Release; st KCas 0 Relaxed] ++ model_sites_wake.
Definition model_sites_wait : list site :=
  [st KLoad 0 Relaxed; st KFence 8 Acquire; st KCasWeak 0 Relaxed; st KLoad 2 Acquire].
Definition model_sites_wait_slow : list site := [st KLoad 2 Acquire].
Definition model_sites_notify : list site :=
  [st KAdd 7 Relaxed; st KStore 6 Relaxed; st KXchg 5 Release; st KAdd 7 Relaxed; st KStore 6 Relaxed; st KStore 4 Relaxed;
   st KLoad 0 Relaxed] ++ model_sites_wake ++ [st KCasWeak 0 Release].

(* ------------------------------------------------------------------ global model *)
Inductive sleepst := Awake | NoSleep | Sleeping | Woken.
(* who is responsible for a non-empty notify list: nobody (it is empty); the thread that pushed on the empty list and has
   not finished its rmw loop; the HAS_NOTIFS bit of the word; the thread that cleared the bit (or saw the count at zero
   while registering) and is on its way to detach the list *)
Inductive tok := TNone | TPusher (t : Z) | TWord | TSnap (t : Z).

Record gst := {
  word : Z;                    (* dg_state *)
  nq : list (Z * Z);           (* dg_notify list: (ghost id, continuation pointer) pushed since the last detach *)
  pcs : Z -> pc;
  slp : Z -> sleepst;          (* kernel side of futex_wait *)
  held : Z -> list (Z * Z);    (* continuations a thread has detached and not yet submitted *)
  (* ghost *)
  gfull : Z;                   (* number of count -> 0 transitions so far (the generation without wrap-around) *)
  outst : Z;                   (* outstanding enters: enters minus leaves *)
  nreg : Z;                    (* notifications registered so far; the next one gets this id *)
  nplace : Z -> Z;             (* where notification id is: 0 listed (or not registered), t > 0 held by t, -1 submitted *)
  fcnt : Z -> Z;               (* number of times notification id was submitted *)
  ntok : tok;
  gsnap : Z -> Z;              (* gfull when the thread last read the word inside dispatch_group_wait *)
  wz : Z -> bool;              (* the count was zero at some state since the thread's dispatch_group_wait call began *)
  zreg : Z;                    (* every notification with id < zreg has seen the count at zero since it was registered *)
  early : bool                 (* some notification was submitted without that *)
}.

Definition init_state : gst :=
  {| word := 0; nq := []; pcs := fun _ => PIdle; slp := fun _ => Awake; held := fun _ => []; gfull := 0; outst := 0;
     nreg := 0; nplace := fun _ => 0; fcnt := fun _ => 0; ntok := TNone; gsnap := fun _ => 0; wz := fun _ => false;
     zreg := 0; early := false |}.

Definition wake_all (f : Z -> sleepst) : Z -> sleepst :=
  fun u => match f u with Sleeping => Woken | x => x end.
Definition ids (l : list (Z * Z)) : list Z := map fst l.
Definition tailptr (l : list (Z * Z)) : Z := match rev l with [] => 0 | (_, p) :: _ => p end.
Definition vzero (w : Z) : bool := Z.land w VMASK =? 0.
Definition is_pusher (p : pc) : bool := match p with PNfHead _ | PNfLoad | PNfCas _ _ => true | _ => false end.
Definition is_presnap (p : pc) : bool :=
  match p with PSnapHead _ _ | PSnapStore _ _ | PSnapTail _ _ => true | _ => false end.

(* setters *)
Definition set_pc (s : gst) (t : Z) (p : pc) : gst :=
  {| word := word s; nq := nq s; pcs := upd (pcs s) t p; slp := slp s; held := held s; gfull := gfull s; outst := outst s;
     nreg := nreg s; nplace := nplace s; fcnt := fcnt s; ntok := ntok s; gsnap := gsnap s; wz := wz s; zreg := zreg s;
     early := early s |}.
Definition set_word (s : gst) (w : Z) : gst :=
  {| word := w; nq := nq s; pcs := pcs s; slp := slp s; held := held s; gfull := gfull s; outst := outst s;
     nreg := nreg s; nplace := nplace s; fcnt := fcnt s; ntok := ntok s; gsnap := gsnap s; wz := wz s; zreg := zreg s;
     early := early s |}.
Definition set_slp (s : gst) (f : Z -> sleepst) : gst :=
  {| word := word s; nq := nq s; pcs := pcs s; slp := f; held := held s; gfull := gfull s; outst := outst s;
     nreg := nreg s; nplace := nplace s; fcnt := fcnt s; ntok := ntok s; gsnap := gsnap s; wz := wz s; zreg := zreg s;
     early := early s |}.
Definition set_tok (s : gst) (k : tok) : gst :=
  {| word := word s; nq := nq s; pcs := pcs s; slp := slp s; held := held s; gfull := gfull s; outst := outst s;
     nreg := nreg s; nplace := nplace s; fcnt := fcnt s; ntok := k; gsnap := gsnap s; wz := wz s; zreg := zreg s;
     early := early s |}.
(* the thread read the word inside dispatch_group_wait *)
Definition set_read (s : gst) (t : Z) : gst :=
  {| word := word s; nq := nq s; pcs := pcs s; slp := slp s; held := held s; gfull := gfull s; outst := outst s;
     nreg := nreg s; nplace := nplace s; fcnt := fcnt s; ntok := ntok s; gsnap := upd (gsnap s) t (gfull s);
     wz := upd (wz s) t (wz s t || vzero (word s)); zreg := zreg s; early := early s |}.
Definition set_call_wait (s : gst) (t : Z) : gst :=
  {| word := word s; nq := nq s; pcs := pcs s; slp := slp s; held := held s; gfull := gfull s; outst := outst s;
     nreg := nreg s; nplace := nplace s; fcnt := fcnt s; ntok := ntok s; gsnap := upd (gsnap s) t (gfull s);
     wz := upd (wz s) t (vzero (word s)); zreg := zreg s; early := early s |}.
(* counters after an enter (d = 1) or a leave that does not reach zero (d = -1) *)
Definition set_count (s : gst) (w d : Z) : gst :=
  {| word := w; nq := nq s; pcs := pcs s; slp := slp s; held := held s; gfull := gfull s; outst := outst s + d;
     nreg := nreg s; nplace := nplace s; fcnt := fcnt s; ntok := ntok s; gsnap := gsnap s; wz := wz s; zreg := zreg s;
     early := early s |}.
(* the leave that brings the count to zero: the carry bumps the generation *)
Definition set_carry (s : gst) (w : Z) : gst :=
  {| word := w; nq := nq s; pcs := pcs s; slp := slp s; held := held s; gfull := gfull s + 1; outst := outst s - 1;
     nreg := nreg s; nplace := nplace s; fcnt := fcnt s; ntok := ntok s; gsnap := gsnap s; wz := fun _ => true;
     zreg := nreg s; early := early s |}.
Definition set_push (s : gst) (t ptr : Z) : gst :=
  {| word := word s; nq := nq s ++ [(nreg s, ptr)]; pcs := pcs s; slp := slp s; held := held s; gfull := gfull s;
     outst := outst s; nreg := nreg s + 1; nplace := nplace s; fcnt := fcnt s;
     ntok := match nq s with [] => TPusher t | _ => ntok s end; gsnap := gsnap s; wz := wz s;
     zreg := if outst s =? 0 then nreg s + 1 else zreg s; early := early s |}.
Definition set_detach (s : gst) (t : Z) : gst :=
  {| word := word s; nq := []; pcs := pcs s; slp := slp s; held := upd (held s) t (nq s); gfull := gfull s;
     outst := outst s; nreg := nreg s;
     nplace := (fun i => if existsb (Z.eqb i) (ids (nq s)) then t else nplace s i); fcnt := fcnt s; ntok := TNone;
     gsnap := gsnap s; wz := wz s; zreg := zreg s; early := early s |}.
Definition set_fire (s : gst) (t i : Z) (rest : list (Z * Z)) : gst :=
  {| word := word s; nq := nq s; pcs := pcs s; slp := slp s; held := upd (held s) t rest; gfull := gfull s;
     outst := outst s; nreg := nreg s; nplace := upd (nplace s) i (-1); fcnt := upd (fcnt s) i (fcnt s i + 1);
     ntok := ntok s; gsnap := gsnap s; wz := wz s; zreg := zreg s; early := early s || (zreg s <=? i) |}.

Definition enter_word (w : Z) : Z := (w - u32 w) + u32 (u32 w - INTERVAL).   (* 32-bit sub on dg_bits: no borrow into dg_gen *)
Definition leave_word (w : Z) : Z := u64 (w + INTERVAL).                     (* 64-bit add: the carry reaches dg_gen *)

(* memory / kernel / ghost effect of thread t performing event e at program point p (p' is the next program point) *)
Definition geffect (s : gst) (t : Z) (p p' : pc) (e : event) : option gst :=
  let leave_eff :=
    if (ea e =? word s) && negb (vzero (word s))      (* a leave at count zero is DISPATCH_CLIENT_CRASH: no successor *)
    then Some (if Z.land (word s) VMASK =? V1 then set_carry s (leave_word (word s))
               else set_count s (leave_word (word s)) (-1))
    else None in
  match p with
  | PIdle => if ev_kind e DVU_CALL then (if ea e =? OP_WAIT then Some (set_call_wait s t) else Some s)
             else if is_add e then leave_eff else Some s
  | PCrash => None
  | PEnter => if (ea e =? u32 (word s)) && negb (Z.land (word s) VMASK =? VMAX)   (* over-enter crashes *)
              then Some (set_count s (enter_word (word s)) 1) else None
  | PRet | PRetV _ => Some s
  | PLeave => leave_eff
  | PLvLoop k old =>
      (* strong CAS: succeeds iff the word is `old`; reports the value observed *)
      if (ea e =? word s) && (eok e =? (if word s =? old then 1 else 0))
      then Some (if word s =? old
                 then (let s1 := set_word s (leave_new old) in if nz (Z.land old HN) then set_tok s1 (TSnap t) else s1)
                 else s)
      else None
  | PSnapHead _ _ | PSnapStore _ _ => Some s
  | PSnapTail _ _ => if ea e =? tailptr (nq s) then Some (set_detach s t) else None
  | PFire _ _ =>
      match held s t with
      | (i, ptr) :: rest =>
          if (eb e =? ptr) && (eok e =? (match rest with [] => 1 | _ => 0 end)) then Some (set_fire s t i rest) else None
      | [] => None
      end
  | PWakeFutex _ => Some (set_slp s (wake_all (slp s)))
  | PWtLoad _ => if ea e =? word s then Some (set_read s t) else None
  | PWtCas _ old new =>
      (* weak CAS: may fail spuriously; succeeds only if the word is `old` *)
      if (ea e =? word s) && (negb (eok e =? 1) || (word s =? old))
      then Some (if eok e =? 1 then set_word (set_read s t) new else set_read s t) else None
  | PSlow _ gen =>
      if ev_kind e DV_FUTEX_WAIT
      then Some (set_slp s (upd (slp s) t (if f_dg_state_gen (word s) =? ea e then Sleeping else NoSleep)))
      else if ea e =? f_dg_state_gen (word s) then Some s else None
  | PSleep tmo _ =>
      (* futex_wait returns (woken, value changed, interrupted, spuriously); without a timeout it cannot report ETIMEDOUT *)
      if (tmo =? FOREVER) && (eb e =? ETIMEDOUT) then None else Some (set_slp s (upd (slp s) t Awake))
  | PSlowLoad _ _ _ => if ea e =? f_dg_state_gen (word s) then Some s else None
  | PNfPush => if ea e =? tailptr (nq s) then Some (set_push s t (eb e)) else None
  | PNfHead _ => Some s
  | PNfLoad =>
      if ea e =? word s then Some (if is_presnap p' then set_tok s (TSnap t) else s) else None
  | PNfCas old new =>
      if (ea e =? word s) && (negb (eok e =? 1) || (word s =? old))
      then Some (if eok e =? 1 then set_tok (set_word s new) TWord
                 else if is_presnap p' then set_tok s (TSnap t) else s)
      else None
  end.

Definition gstep (s : gst) (t : Z) (e : event) : option gst :=
  match tstep (pcs s t) e with
  | None => None
  | Some p' => match geffect s t (pcs s t) p' e with
               | Some s1 => Some (set_pc s1 t p')
               | None => None
               end
  end.

Definition valid_tid (t : Z) : Prop := 0 < t.
Definition step (s : gst) (a : Z * event) (s' : gst) : Prop :=
  valid_tid (fst a) /\ gstep s (fst a) (snd a) = Some s'.
Definition reach : gst -> Prop := reachable (fun s => s = init_state) step.

(* the 32-bit generation wraps.  A wait is `fresh` while fewer than 2^32 generations have elapsed since it last read the
   word; the no-waiter-left-behind theorem is about runs in which every wait stays fresh *)
Definition in_wait (p : pc) : bool :=
  match p with PWtCas _ _ _ | PSlow _ _ | PSleep _ _ | PSlowLoad _ _ _ => true | _ => false end.
Definition fresh (s : gst) : Prop := forall t, in_wait (pcs s t) = true -> gfull s - gsnap s t < 4294967296.
Definition step_nw (s : gst) (a : Z * event) (s' : gst) : Prop := step s a s' /\ fresh s'.
Definition reach_nw : gst -> Prop := reachable (fun s => s = init_state) step_nw.

Fixpoint grun (s : gst) (tr : list (Z * event)) : option gst :=
  match tr with
  | [] => Some s
  | (t, e) :: tr' => match gstep s t e with Some s' => grun s' tr' | None => None end
  end.

(* correspondence driver: index of the first rejected event (or -1), and whether the thread ended outside any call *)
Definition pc_idle (p : pc) : Z := match p with PIdle => 1 | _ => 0 end.
Definition conform (tr : list event) : Z * Z :=
  let '(p, i) := run_trace tstep PIdle tr 0 in (i, pc_idle p).
(* branch coverage of the automaton over a trace: program-point codes visited *)
Definition pc_code (p : pc) : Z :=
  match p with
  | PIdle => 0 | PCrash => 1 | PEnter => 2 | PRet => 3 | PLeave => 4 | PLvLoop _ _ => 5 | PSnapHead _ _ => 6
  | PSnapStore _ _ => 7 | PSnapTail _ _ => 8 | PFire _ _ => 9 | PWakeFutex _ => 10 | PWtLoad _ => 11 | PWtCas _ _ _ => 12
  | PSlow _ _ => 13 | PSleep _ _ => 14 | PSlowLoad _ _ _ => 15 | PRetV v => if v =? 0 then 16 else 17 | PNfPush => 18
  | PNfHead _ => 19 | PNfLoad => 20 | PNfCas _ _ => 21
  end.

(* ---- concrete schedules used by Properties_C07 (witness of the early notification; non-vacuity) ---- *)
Definition ev k o off sz a b ok := mkEv k o 1 off sz a b ok.
Definition early_schedule : list (Z * event) :=
  [ (1, ev 100 0 0 0 1 0 1); (1, ev 7 2 0 4 0 4 1); (1, ev 101 0 0 0 0 0 1);                     (* enter *)
    (1, ev 100 0 0 0 4 0 1); (1, ev 3 3 16 8 0 1000 1); (1, ev 2 0 8 8 0 1000 1);                  (* notify A ... *)
    (1, ev 1 0 0 8 4294967292 4294967292 1); (1, ev 5 3 0 8 4294967292 4294967294 1); (1, ev 101 0 0 0 0 0 1);
    (2, ev 100 0 0 0 2 0 1); (2, ev 6 3 0 8 4294967294 4 1);                                       (* last leave: count -> 0 *)
    (1, ev 100 0 0 0 1 0 1); (1, ev 7 2 0 4 2 4 1); (1, ev 101 0 0 0 0 0 1);                      (* enter again *)
    (1, ev 100 0 0 0 4 1 1); (1, ev 3 3 16 8 1000 2000 1); (1, ev 101 0 0 0 0 0 1);                (* notify B behind A *)
    (2, ev 4 0 0 8 8589934590 4294967296 0); (2, ev 4 0 0 8 8589934590 8589934588 1);               (* leaver clears NOTIFS *)
    (2, ev 1 2 8 8 1000 1000 1); (2, ev 2 0 8 8 0 0 1); (2, ev 3 3 16 8 2000 0 1);                   (* detaches A and B *)
    (2, ev 3 3 24 8 0 1000 0); (2, ev 3 3 24 8 1000 2000 1) ].                                       (* submits both *)

Definition demo_schedule : list (Z * event) :=
  [ (1, ev 100 0 0 0 1 0 1); (1, ev 7 2 0 4 0 4 1); (1, ev 101 0 0 0 0 0 1);
    (3, ev 100 0 0 0 3 18446744073709551615 1); (3, ev 1 0 0 8 4294967292 4294967292 1);
    (3, ev 5 0 0 8 4294967292 4294967293 1); (3, ev 32 0 4 0 0 0 1);
    (2, ev 100 0 0 0 2 0 1); (2, ev 6 3 0 8 4294967293 4 1); (2, ev 4 0 0 8 4294967297 4294967296 1);
    (2, ev 34 0 4 0 2147483647 0 1); (2, ev 101 0 0 0 0 0 1);
    (3, ev 33 0 4 0 0 0 1); (3, ev 1 2 4 4 1 1 1); (3, ev 101 0 0 0 0 0 1) ].
