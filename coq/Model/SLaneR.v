(* SLaneR.v — replay of a whole recorded run (all threads of one round of harness/c02_slane.c) as a run of the GLOBAL
   model Model/SLane.v.  Two executable pieces, used by lib/props/c01_slane.py:

   1. `mabs`: the abstraction of one thread's accepted observation sequence into the SLane actions it performs
      (ABegin / AStep), each with what the recording says about its outcome: the shape of the thread's next program point
      (was_empty, more, probe result, lock restart, unlock refused ...), the value of dq_state after the step when the step
      writes it, and the item concerned.  It follows SLaneT_proofs.trel: a SLane step is emitted at the observation that
      carries its shared effect; the steps that are plain reads of dq_items_tail are emitted with their outcome.

   2. `sched`: given every thread's action list and a preferred global order (the recorder's stamps, made consistent
      with the exact dq_state / dq_items_tail chains), execute the actions on SLane.gstep / SLane.begin: at each point
      the first thread (in the preferred order, within a window) whose next action is ENABLED in the model and produces
      the RECORDED outcome is taken (item identity by address: the address exchanged into
      the tail when the model issued an id must be the address the recorded pop / callout names).  The run is reproduced iff every action is consumed.  The scheduler never invents
      a model step and never skips one.

   The need_override continuation of a push onto a non-empty list (queue.c:5077-5088) is SLane.ostep followed by the
   PA_oprobe / PA_owake steps of SLane.gstep; which continuation a push took is read off the trace (the event after the
   link store is the return mark or the probe).  Every action is a step of SLane: there is nothing outside the model. *)
From Coq Require Import ZArith Bool List.
From Verif Require Import Word Conc Gen_consts Gen_fields Gen_dqstate SLane SLaneT.
Import ListNotations.
Local Open Scope Z_scope.

(* shape of a program point: constructor + the booleans an observer can know *)
Definition shape (p : pc) : Z :=
  match p with
  | Idle => 0 | PA_xchg _ => 1 | PA_link _ we _ => if we then 3 else 2 | PA_probe _ => 4 | PA_wake _ _ => 5
  | PA_rootpush => 6 | PW_lock _ => 7 | PW_tail _ => 8 | PW_head _ => 9 | PW_pop _ => 10
  | PW_run _ _ m => if m then 12 else 11 | PW_incall _ _ m => if m then 14 else 13
  | PW_next _ m => if m then 16 else 15 | PW_unlock _ => 17 | PW_xor _ => 18 | PA_oprobe _ => 19 | PA_owake _ => 20
  end.
Definition SH_IDLE := 0. Definition SH_LINK (we : bool) := if we then 3 else 2. Definition SH_PROBE := 4.
Definition SH_WAKE := 5. Definition SH_ROOTPUSH := 6. Definition SH_LOCK := 7. Definition SH_TAIL := 8.
Definition SH_HEAD := 9. Definition SH_POP := 10. Definition SH_RUN (m : bool) := if m then 12 else 11.
Definition SH_INCALL (m : bool) := if m then 14 else 13. Definition SH_NEXT (m : bool) := if m then 16 else 15.
Definition SH_UNLOCK := 17. Definition SH_XOR := 18. Definition SH_OPROBE := 19. Definition SH_OWAKE := 20.

(* one model action of a thread with the recorded outcome.
   kind: 0 = ABegin (CAsync arg), 1 = ABegin (CWorker arg), 2 = AStep, 6 = AStepO;
   sh = shape of the thread's program point after the action; stv = dq_state after the action, or -1 when the action does not
   write it; item = address of the item concerned (0: none);
   early = 1 when the action is a plain read whose outcome (list empty) held since the thread's previous action *)
Record mact := { m_kind : Z; m_arg : Z; m_sh : Z; m_st : Z; m_item : Z; m_early : Z }.
Definition MA (k a sh stv item early : Z) : mact :=
  {| m_kind := k; m_arg := a; m_sh := sh; m_st := stv; m_item := item; m_early := early |}.
Definition mstep (sh stv item : Z) : mact := MA 2 0 sh stv item 0.

Definition lock_restarts (c : cfg) (floor old : Z) : bool :=
  match f_dispatch_queue_drain_try_lock 0 0 1 (c_self c) floor old 0 with Restart _ => true | _ => false end.
Definition unlock_refused (o old : Z) : bool :=
  match f_dispatch_queue_drain_try_unlock 0 o 1 old with NoCommit _ _ => true | _ => false end.
Definition wake_gives_up (q fl old : Z) : bool :=
  match wakeup_loop 0 q fl 1 old ENQUEUED with NoCommit _ _ => true | _ => false end.
Definition nzb (x : Z) : bool := negb (x =? 0).

(* the SLane actions completed by the transition p --e--> p' of the observation automaton; next_ret: the event that follows
   e in the trace is the return mark (decides which continuation a push onto a non-empty list took) *)
Definition mabs (c : cfg) (p : tpc) (e : event) (p' : tpc) (next_ret : bool) : list mact :=
  match p, p' with
  | TIdle, TA_init q => [MA 0 q 1 (-1) 0 0]
  | TA_xchg _ _, TA_link _ item prev => [mstep (SH_LINK (prev =? 0)) (-1) item]
  | TA_link _ _ _, TA_probe _ _ => [mstep SH_PROBE (-1) 0]
  | TA_link _ _ _, TA_linked _ => if next_ret then [mstep SH_IDLE (-1) 0] else [MA 6 0 SH_OPROBE (-1) 0 0]
  | TA_probe _ _, TA_ret => [mstep SH_IDLE (-1) 0]
  | TA_probe _ _, TA_wake_load _ _ => [mstep SH_WAKE (-1) 0]
  | TA_linked _, TA_ret => [mstep SH_IDLE (-1) 0]
  | TA_linked _, TA_wake_load _ _ => [mstep SH_OWAKE (-1) 0]
  | TA_wake_body _ _ _, TA_push_tq => [mstep SH_ROOTPUSH (eb e) 0]
  | TA_wake_body _ _ _, TA_ret => [mstep SH_IDLE (eb e) 0]
  (* the loop gives up (PA_owake, nothing to change): the step is taken where the value that decided it was read (the initial
     load or a failed compare-exchange), not at the return mark, by which time the word may have changed *)
  | TA_wake_load _ _, TA_wake_body q fl v | TA_wake_body _ _ _, TA_wake_body q fl v =>
      if wake_gives_up q fl v then [mstep SH_IDLE (-1) 0] else []
  | TA_push_xchg, TA_push_link _ => [mstep SH_IDLE (-1) 0]
  | TIdle, TW_lock_body f v =>
      MA 1 (c_floor c) SH_LOCK (-1) 0 0 :: (if lock_restarts c f v then [mstep SH_LOCK (-1) 0] else [])
  | TW_lock_body _ _, TW_lock_body f v => if lock_restarts c f v then [mstep SH_LOCK (-1) 0] else []
  | TW_lock_body _ _, TW_tail _ => [mstep SH_TAIL (eb e) 0]
  | TW_lock_body _ _, TIdle => [mstep SH_IDLE (eb e) 0]
  | TW_tail _, TW_wait_head _ => [mstep SH_HEAD (-1) 0]
  | TW_tail _, TW_first _ _ => [mstep SH_HEAD (-1) 0; mstep SH_POP (-1) 0]
  | TW_again _, TW_wait_head _ => [mstep SH_HEAD (-1) 0]
  | TW_again _, TW_first _ _ => [mstep SH_HEAD (-1) 0; mstep SH_POP (-1) 0]
  | TW_wait_head _, TW_first _ _ => [mstep SH_POP (-1) 0]
  | TW_tail _, TW_unlock_body o v | TW_again _, TW_unlock_body o v =>
      MA 2 0 SH_UNLOCK (-1) 0 1 :: (if unlock_refused o v then [mstep SH_XOR (-1) 0] else [])
  | TW_unlock_body _ _, TW_unlock_body o v => if unlock_refused o v then [mstep SH_XOR (-1) 0] else []
  | TW_unlock_body _ _, TIdle => [mstep SH_IDLE (eb e) 0]
  | TW_unlock_body _ _, TW_tail _ => [mstep SH_TAIL (Z.lxor (ea e) (eb e)) 0]
  | TW_pop_store _ h n, TW_run _ _ _ => [mstep (SH_RUN true) (-1) h]
  | TW_pop_cas _ h, TW_run _ _ _ => [mstep (SH_RUN false) (-1) h]
  | TW_pop_store2 _ h _, TW_run _ _ _ => [mstep (SH_RUN true) (-1) h]
  | TW_run _ h n, TW_incall _ _ _ => [mstep (SH_INCALL (nzb n)) (-1) h]
  | TW_incall _ _ n, TW_first _ _ => [mstep (SH_NEXT true) (-1) 0; mstep SH_POP (-1) 0]
  | TW_incall _ _ _, TW_again _ => [mstep (SH_NEXT false) (-1) 0]
  | _, _ => []
  end.

Fixpoint mrun (c : cfg) (p : tpc) (tr : list event) (i : Z) (acc : list (Z * mact)) : list (Z * mact) :=
  match tr with
  | [] => rev acc
  | e :: r =>
      match tstep c p e with
      | None => rev acc
      | Some p' =>
          let next_ret := match r with e2 :: _ => ev_kind e2 DVU_RET | [] => true end in
          mrun c p' r (i + 1) (rev_append (map (fun a => (i, a)) (mabs c p e p' next_ret)) acc)
      end
  end.
(* output for the checker: small numbers only (Coq prints big numerals slowly): per action the event index and
   (((kind * 8 + arg) * 32 + shape) * 2 + early) * 2 + [writes dq_state]; the checker takes the written value and the item
   from event i of the trace *)
Definition enc_mact (x : Z * mact) : list Z :=
  let '(i, a) := x in
  [i; (((m_kind a * 8 + m_arg a) * 32 + m_sh a) * 2 + m_early a) * 2 + (if m_st a =? -1 then 0 else 1)].
Definition abstract (c : cfg) (tr : list event) : list Z := concat (map enc_mact (mrun c TIdle tr 0 [])).

(* ------------------------------------------------------------------ the scheduler *)
(* a scheduled action: the thread, the action, the id SLane must give / have given to the item (or -1) *)
Record sact := { s_tid : Z; s_act : mact; s_id : Z }.

(* item identity is checked BY ADDRESS: the scheduler remembers which address each model id was given at its tail exchange
   (ids), and a pop / callout must concern the address the recording names.  (s_id, when not -1, additionally pins the model
   id; the checker leaves it at -1: an id computed outside the model would depend on the recorder's stamps.) *)
Definition id_ok (p : pc) (id : Z) : bool :=
  (id =? -1) || match p with PA_link i _ _ | PW_run _ i _ | PW_incall _ i _ => i =? id | _ => true end.
Fixpoint id_item (i : Z) (ids : list (Z * Z)) : Z :=
  match ids with [] => 0 | (j, a) :: r => if j =? i then a else id_item i r end.
Definition item_ok (ids : list (Z * Z)) (p : pc) (item : Z) : bool :=
  match p with PW_run _ i _ | PW_incall _ i _ => (item =? 0) || (id_item i ids =? item) | _ => true end.
Definition note_item (ids : list (Z * Z)) (p : pc) (item : Z) : list (Z * Z) :=
  match p with PA_link i _ _ => (i, item) :: ids | _ => ids end.

Definition try_act (ids : list (Z * Z)) (s : gst) (a : sact) : option gst :=
  let t := s_tid a in let m := s_act a in
  let chk (s' : gst) :=
    if (shape (pcs s' t) =? m_sh m) && ((m_st m =? -1) || (st s' =? m_st m)) && id_ok (pcs s' t) (s_id a) &&
       item_ok ids (pcs s' t) (m_item m) then Some s' else None in
  if m_kind m =? 0 then match begin s t (CAsync (m_arg m)) with Some s' => chk s' | None => None end
  else if m_kind m =? 1 then match begin s t (CWorker (m_arg m)) with Some s' => chk s' | None => None end
  else if m_kind m =? 2 then match gstep s t with Some s' => chk s' | None => None end
  else if m_kind m =? 6 then match ostep s t with Some s' => chk s' | None => None end
  else None.

Fixpoint lookup (t : Z) (qs : list (Z * list sact)) : list sact :=
  match qs with [] => [] | (u, l) :: r => if u =? t then l else lookup t r end.
Fixpoint pop_q (t : Z) (qs : list (Z * list sact)) : list (Z * list sact) :=
  match qs with [] => [] | (u, l) :: r => if u =? t then (u, tl l) :: r else (u, l) :: pop_q t r end.
Fixpoint remove_first (t : Z) (l : list Z) : list Z :=
  match l with [] => [] | x :: r => if x =? t then r else x :: remove_first t r end.

(* among the first w entries of the preferred order: the first thread whose next action is enabled with the recorded outcome *)
Fixpoint pick (ids : list (Z * Z)) (s : gst) (qs : list (Z * list sact)) (ord : list Z) (seen : list Z) (w : nat) : option (Z * gst) :=
  match w, ord with
  | O, _ | _, [] => None
  | S w', t :: r =>
      if existsb (Z.eqb t) seen then pick ids s qs r seen w'
      else match lookup t qs with
           | a :: _ => match try_act ids s a with
                       | Some s' => Some (t, s')
                       | None => pick ids s qs r (t :: seen) w'
                       end
           | [] => pick ids s qs r (t :: seen) w'
           end
  end.

Definition next_item (t : Z) (qs : list (Z * list sact)) : Z :=
  match lookup t qs with a :: _ => m_item (s_act a) | [] => 0 end.

Fixpoint sched (fuel : nat) (w : nat) (ids : list (Z * Z)) (s : gst) (qs : list (Z * list sact)) (ord : list Z) (done : Z)
  : gst * Z * list Z :=
  match fuel with
  | O => (s, done, ord)
  | S f =>
      match ord with
      | [] => (s, done, [])
      | _ => match pick ids s qs ord [] w with
             | Some (t, s') =>
                 sched f w (note_item ids (pcs s' t) (next_item t qs)) s' (pop_q t qs) (remove_first t ord) (done + 1)
             | None => (s, done, ord)
             end
      end
  end.

Definition all_idle (s : gst) (tids : list Z) : bool := forallb (fun t => match pcs s t with Idle => true | _ => false end) tids.

(* result: [actions executed; actions left; dq_state; rootq; length lst; nextid; all threads idle; length started;
            started is nextid-1 .. 0 (FIFO, each once); next stuck thread or -1] *)
Definition replay (rb : Z) (w : nat) (qs : list (Z * list sact)) (ord : list Z) : list Z :=
  let '(s, done, rest) := sched (S (length ord)) w [] (init_state rb) qs ord 0 in
  let n := nextid s in
  [done; Z.of_nat (length rest); st s; rootq s; Z.of_nat (length (lst s)); n; b2z (all_idle s (map fst qs));
   Z.of_nat (length (started s));
   b2z (forallb (fun '(k, i) => i =? k) (combine (map Z.of_nat (seq 0 (length (started s)))) (rev (started s))));
   match rest with t :: _ => t | [] => -1 end].
