(* HLaneR.v — replay of a whole recorded round (all threads of one round of harness/c03_hlane.c) as a run of the GLOBAL
   hierarchy model Model/HLane.v.  Executable pieces used by lib/props/c03_hlane.py (definitions only):

   1. `forest_of`: the forest of a round from a finite table (lane, target | -1, depth, role bits, priority qos, fallback
      qos); lanes outside the table are bottoms of their own.  `table_ok_b` decides forest_ok (HLaneR_proofs.table_forest_ok).
   2. `sact`: one model action of a thread (HLane.begin / HLane.gstep with its oracle bit) together with what the RECORDING
      says about its outcome: the height of the thread's stack afterwards, the lane and the program point (constructor and
      the booleans an observer can know) of its top frame, the entry concerned (item id issued by the tail exchange, or
      lane), and the dq_state word of one lane after the step when the step writes it.  The checker (untrusted) derives the
      per-thread action lists from the trace; hidden steps (plain reads, tail calls) carry the outcome that the thread's
      next recorded operation reveals.
   3. `sched`: executes the actions on the model in a preferred global order (the recorder's stamps): at each point the
      first thread, in that order, whose next action is ENABLED in the model, PRODUCES THE RECORDED OUTCOME and respects
      the exact per-lane chains (a_chain / a_idx: the k-th write of a lane's dq_state, the k-th exchange of a lane's tail,
      as reconstructed from the recorded old/new values) is taken.  The scheduler never invents a model step and never
      skips one: the round is reproduced iff every action is consumed.  Every state it passes through is reachable
      (HLaneR_proofs.sched_reach).  A state predicate (the boolean invariant) is evaluated along the way. *)
From Coq Require Import ZArith Bool List.
From Verif Require Import Word Conc Gen_consts Gen_dqstate HLane.
Import ListNotations.
Local Open Scope Z_scope.

(* ------------------------------------------------------------------ the forest of a round *)
Record lrow := { r_lane : Z; r_target : Z; r_depth : nat; r_role : Z; r_prio : Z; r_fb : Z }.
Fixpoint lrow_of (tbl : list lrow) (l : Z) : option lrow :=
  match tbl with [] => None | x :: r => if r_lane x =? l then Some x else lrow_of r l end.
Definition forest_of (tbl : list lrow) : forest :=
  {| target := fun l => match lrow_of tbl l with Some x => if r_target x <? 0 then None else Some (r_target x) | None => None end;
     depth := fun l => match lrow_of tbl l with Some x => r_depth x | None => O end;
     rolebits := fun l => match lrow_of tbl l with Some x => r_role x | None => 0 end;
     prio := fun l => match lrow_of tbl l with Some x => r_prio x | None => 0 end;
     fallback := fun l => match lrow_of tbl l with Some x => r_fb x | None => 0 end |}.
Definition row_ok_b (tbl : list lrow) (x : lrow) : bool :=
  (0 <=? r_prio x) && (r_prio x <? 8) && (0 <=? r_fb x) && (r_fb x <? 8) &&
  (if r_target x <? 0 then (0 <=? r_role x) && (r_role x <? 2)
   else (r_role x =? 0) && Nat.ltb (match lrow_of tbl (r_target x) with Some y => r_depth y | None => O end) (r_depth x)).
Definition table_ok_b (tbl : list lrow) : bool := forallb (row_ok_b tbl) tbl.

(* ------------------------------------------------------------------ what an observer knows of a program point *)
Definition pcode (p : pc) : Z :=
  match p with
  | PA_xchg _ _ => 1 | PA_link _ we _ => if we then 3 else 2 | PA_probe _ d => if d then 4 else 5
  | PA_wake _ d => if d then 6 else 7 | PA_tpush _ => 8 | PW_lock _ => 9 | PW_tail _ => 10 | PW_head _ => 11 | PW_pop _ => 12
  | PW_run _ _ m => if m then 14 else 13 | PW_incall _ _ m => if m then 16 else 15
  | PW_invoking _ _ m => if m then 18 else 17 | PW_next _ m => if m then 20 else 19
  | PW_unlock _ => 21 | PW_xor _ => 22 | PW_finish _ => 23
  end.
Definition ent_code (e : ent) : Z := match e with Item i => 2 * i | Lane l => 2 * l + 1 end.
(* the entry a program point is about *)
Definition pc_ent (p : pc) : Z :=
  match p with
  | PA_xchg (WLane l) _ => 2 * l + 1 | PA_link e _ _ => ent_code e | PW_run _ e _ => ent_code e | PW_incall _ i _ => 2 * i
  | PW_invoking _ l _ => 2 * l + 1 | _ => -1
  end.

(* kind 0: begin (CAsync a_x a_y); 1: begin (CWorker a_x a_y); 2: gstep with oracle false; 3: gstep with oracle true.
   Recorded outcome: a_len = height of the stack afterwards; a_lane / a_sh = lane and pcode of the top frame (-1 / 0 when the
   stack is empty); a_ent = pc_ent of the top frame or -1 (not compared); a_st = dq_state of lane a_wl afterwards or -1 (not
   compared); a_chain / a_idx: position in an exact per-lane chain (a_chain = 0: none) *)
Record sact := { a_tid : Z; a_kind : Z; a_x : Z; a_y : Z; a_len : Z; a_lane : Z; a_sh : Z; a_ent : Z; a_wl : Z; a_st : Z;
                 a_chain : Z; a_idx : Z }.

Section Replay.
  Variable F : forest.

  Definition outcome_ok (s' : gst) (a : sact) : bool :=
    let k := stk s' (a_tid a) in
    (Z.of_nat (length k) =? a_len a) &&
    match k with
    | [] => (a_lane a =? -1) && (a_sh a =? 0)
    | (l, p) :: _ => (l =? a_lane a) && (pcode p =? a_sh a) && ((a_ent a =? -1) || (pc_ent p =? a_ent a))
    end &&
    ((a_st a =? -1) || (st s' (a_wl a) =? a_st a)).

  Definition try_act (s : gst) (a : sact) : option gst :=
    let t := a_tid a in
    if (0 <? t) && (t <? 1073741824) then
      match (if a_kind a =? 0 then begin F s t (CAsync (a_x a) (a_y a))
             else if a_kind a =? 1 then begin F s t (CWorker (a_x a) (a_y a))
             else if a_kind a =? 2 then gstep F s t false
             else if a_kind a =? 3 then gstep F s t true
             else None) with
      | Some s' => if outcome_ok s' a then Some s' else None
      | None => None
      end
    else None.

  Fixpoint lookup (t : Z) (qs : list (Z * list sact)) : list sact :=
    match qs with [] => [] | (u, l) :: r => if u =? t then l else lookup t r end.
  Fixpoint pop_q (t : Z) (qs : list (Z * list sact)) : list (Z * list sact) :=
    match qs with [] => [] | (u, l) :: r => if u =? t then (u, tl l) :: r else (u, l) :: pop_q t r end.
  Fixpoint remove_first (t : Z) (l : list Z) : list Z :=
    match l with [] => [] | x :: r => if x =? t then r else x :: remove_first t r end.
  Fixpoint cget (c : Z) (cs : list (Z * Z)) : Z := match cs with [] => 0 | (k, v) :: r => if k =? c then v else cget c r end.
  Fixpoint cbump (c : Z) (cs : list (Z * Z)) : list (Z * Z) :=
    match cs with [] => [(c, 1)] | (k, v) :: r => if k =? c then (k, v + 1) :: r else (k, v) :: cbump c r end.
  Definition eligible (cs : list (Z * Z)) (a : sact) : bool := (a_chain a =? 0) || (cget (a_chain a) cs =? a_idx a).

  (* among the first w distinct threads of the preferred order: the first whose next action is eligible, enabled, and
     produces the recorded outcome *)
  Fixpoint pick (cs : list (Z * Z)) (s : gst) (qs : list (Z * list sact)) (ord : list Z) (seen : list Z) (w : nat)
      : option (sact * gst) :=
    match w, ord with
    | O, _ | _, [] => None
    | S w', t :: r =>
        if existsb (Z.eqb t) seen then pick cs s qs r seen w
        else match lookup t qs with
             | a :: _ => match (if eligible cs a then try_act s a else None) with
                         | Some s' => Some (a, s')
                         | None => pick cs s qs r (t :: seen) w'
                         end
             | [] => pick cs s qs r (t :: seen) w'
             end
    end.

  Variable lanes : list Z.
  Variable tids : list Z.
  Variable chk : gst -> bool.
  Variable every : Z.      (* chk is evaluated on every state whose index is a multiple of `every`, and on the last one *)

  (* result: final state, actions done, preferred order left, number of states on which chk was evaluated and failed, queues left *)
  Fixpoint sched (fuel : nat) (w : nat) (cs : list (Z * Z)) (s : gst) (qs : list (Z * list sact)) (ord : list Z)
      (done bad : Z) : gst * Z * list Z * Z * list (Z * list sact) :=
    match fuel with
    | O => (s, done, ord, bad, qs)
    | S f =>
        match ord with
        | [] => (s, done, [], bad, qs)
        | _ => match pick cs s qs ord [] w with
               | Some (a, s') =>
                   let bad' := if ((done + 1) mod every =? 0) then (if chk s' then bad else bad + 1) else bad in
                   sched f w (if a_chain a =? 0 then cs else cbump (a_chain a) cs) s' (pop_q (a_tid a) qs)
                         (remove_first (a_tid a) ord) (done + 1) bad'
               | None => (s, done, ord, bad, qs)
               end
        end
    end.

  Definition all_idle (s : gst) : bool := forallb (fun t => match stk s t with [] => true | _ => false end) tids.
  Definition fifo_b (s : gst) (l : Z) : bool :=
    forallb (fun '(k, i) => i =? k) (combine (map Z.of_nat (seq 0 (length (started s l)))) (rev (started s l))).

  (* result: [actions executed; actions left; states failing chk; all threads idle;
              first thread (in the preferred order) that cannot move or -1; how many of its actions are left;
              height of its stack, lane and pcode of its top frame in the model] ++
             per lane [dq_state; length of the list; nextid; number of items started; started in id order; in the root] *)
  Definition replay (w : nat) (qs : list (Z * list sact)) (ord : list Z) : list Z :=
    let '(s, done, rest, bad, qs') := sched (S (length ord)) w [] (init_state F) qs ord 0 0 in
    let t := match rest with t :: _ => t | [] => -1 end in
    [done; Z.of_nat (length rest); (if chk s then bad else bad + 1); b2z (all_idle s); t; Z.of_nat (length (lookup t qs'));
     Z.of_nat (length (stk s t)); match stk s t with (l, _) :: _ => l | [] => -1 end; match stk s t with (_, p) :: _ => pcode p | [] => 0 end] ++
    concat (map (fun l => [st s l; Z.of_nat (length (lst s l)); nextid s l; Z.of_nat (length (started s l)); b2z (fifo_b s l); rootq s l]) lanes).
End Replay.
