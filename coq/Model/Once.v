(* Once.v — model of dispatch_once_f / _dispatch_once_wait / _dispatch_once_gate_broadcast
   (src/once.c, src/shims/lock.h:676-700, src/shims/lock.c:657-710) for any number of threads, and of the inline fast path
   of dispatch/once.h (_dispatch_once / _dispatch_once_f: a plain read of the predicate, ~0l means done, return through
   dispatch_compiler_barrier without calling the library).
   The rmw-loop body, its memory order and the constants come from Gen_once (regenerated from the source).
   NOT modelled (one predicate, the initialiser is a black box between its begin and end marks):
   - an initialiser that calls dispatch_once again: on ANOTHER predicate that is an independent instance of this model; on the
     SAME predicate the library crashes (_dispatch_once_wait: DISPATCH_CLIENT_CRASH "trying to lock recursively", lock.c) -
     a thread inside the initialiser (PInCall) accepts only the end mark, so the model has no such run (client obligation);
   - the second crash path, _dispatch_gate_broadcast_slow "lock not owned by current thread" (a corrupted gate word): the word
     at the exchange of _dispatch_once_mark_done is the owner's value, with or without the waiters bit
     (Once_proofs.mark_word_is_owners), so the path is unreachable in the model; a predicate overwritten by the client is
     outside it. *)
From Coq Require Import ZArith Bool List.
From Verif Require Import Word Conc Gen_consts Gen_once.
Import ListNotations.
Local Open Scope Z_scope.

Definition DONE := DLOCK_ONCE_DONE.
Definition WAITERS := DLOCK_WAITERS_BIT.
Definition MO_PLAIN := -1.      (* a non-atomic read: not seen by the hook *)
Definition CALL_INLINE := 1.    (* argument of the call mark: through the inline wrapper of dispatch/once.h *)
Definition mo_code (o : morder) : Z :=
  match o with Relaxed => 0 | Consume => 1 | Acquire => 2 | Release => 3 | AcqRel => 4 | SeqCst => 5 end.

(* program points of one thread inside dispatch_once_f *)
Inductive pc :=
| PIdle                (* not in a call *)
| PFast                (* inside the inline wrapper _dispatch_once_f of dispatch/once.h: the plain read of *predicate next *)
| PFRet                (* the read saw ~0l: return without calling the library (dispatch_compiler_barrier) *)
| PTry                 (* dispatch_once_f entered: _dispatch_once_gate_tryenter next *)
| PCall                (* won the gate: _dispatch_client_callout next *)
| PInCall              (* inside the initialiser *)
| PMark                (* initialiser returned: _dispatch_once_mark_done (xchg DONE, release) next *)
| PWake                (* the exchanged word was not exactly `self`: _dispatch_gate_broadcast_slow next *)
| PRet                 (* about to return *)
| PWLoad               (* _dispatch_once_wait: top of for(;;), the rmw loop's initial relaxed load *)
| PWBody (old : Z)     (* one iteration of the rmw loop on the value `old` *)
| PWFutex (v : Z)      (* after the loop committed v (or broke out with v): futex_wait(lock, (uint32)v) next *)
| PWSleep.             (* inside futex_wait *)

(* the per-thread automaton: which event a thread whose lock value is `self` may perform next.
   Used (a) as the thread component of the global model below and (b) by the correspondence check, which feeds
   it the per-thread event traces recorded from the real library. *)
Definition tstep (self : Z) (p : pc) (e : event) : option pc :=
  match p with
  | PIdle => if ev_kind e DVU_CALL then Some (if ea e =? CALL_INLINE then PFast else PTry) else None
  | PFast => if ev_is e DV_LOAD MO_PLAIN 0 then Some (if ea e =? DONE then PFRet else PTry) else None
  | PFRet => if ev_kind e DVU_RET then Some PIdle else None
  | PTry => if ev_is e DV_CAS MO_RELAXED 0 && (eb e =? self)
            then Some (if eok e =? 1 then PCall else PWLoad) else None
  | PCall => if ev_kind e DVU_CALLOUT_BEGIN then Some PInCall else None
  | PInCall => if ev_kind e DVU_CALLOUT_END then Some PMark else None
  | PMark => if ev_is e DV_XCHG MO_RELEASE 0 && (eb e =? DONE)
             then Some (if u32 (ea e) =? self then PRet else PWake) else None
  | PWake => if ev_kind e DV_FUTEX_WAKE then Some PRet else None
  | PRet => if ev_kind e DVU_RET then Some PIdle else None
  | PWLoad => if ev_is e DV_LOAD MO_RELAXED 0 then Some (PWBody (ea e)) else None
  | PWBody old =>
      match once_wait_loop 0 old with
      | NoCommit 1 _ => if ev_kind e DVU_RET then Some PIdle else None             (* saw DONE: return *)
      | NoCommit _ _ => if ev_kind e DV_FUTEX_WAIT && (ea e =? u32 old) then Some PWSleep else None
      | Commit new _ =>
          if ev_is e DV_CASW (mo_code once_wait_loop_order) 0 && (eb e =? new)
          then Some (if eok e =? 1 then PWFutex new else PWBody (ea e)) else None
      | _ => None
      end
  | PWFutex v => if ev_kind e DV_FUTEX_WAIT && (ea e =? u32 v) then Some PWSleep else None
  | PWSleep => if ev_kind e DV_FUTEX_WAIT_RET then Some PWLoad else None
  end.

(* atomic sites of the modelled functions in program order: must equal what src2v reads from the source *)
Definition model_sites_dispatch_once_f : list site :=
  [ {| s_kind := KCas; s_field := 2; s_order := Relaxed |}; {| s_kind := KXchg; s_field := 2; s_order := Release |} ].
Definition model_sites_once_wait : list site :=
  [ {| s_kind := KLoad; s_field := 2; s_order := Relaxed |}; {| s_kind := KCasWeak; s_field := 2; s_order := Relaxed |} ].

(* ------------------------------------------------------------------ global model *)
Inductive sleepst := Awake | NoSleep | Sleeping | Woken.

Record gst := {
  word : Z;                 (* the predicate / gate word (64 bit) *)
  pcs : Z -> pc;            (* program point of every thread; thread t's lock value is t *)
  slp : Z -> sleepst;       (* kernel side of futex_wait per thread *)
  owner : option Z;         (* ghost: the thread whose tryenter succeeded *)
  starts : Z;               (* ghost: number of times the initialiser was started *)
  finished : bool;          (* ghost: the initialiser has returned *)
  early_ret : bool          (* ghost: some call returned before the initialiser had finished *)
}.

Definition init_state : gst :=
  {| word := 0; pcs := fun _ => PIdle; slp := fun _ => Awake; owner := None; starts := 0; finished := false;
     early_ret := false |}.

Definition wake_all (f : Z -> sleepst) : Z -> sleepst :=
  fun u => match f u with Sleeping => Woken | x => x end.

(* one step of thread t performing event e: the thread automaton accepts e, e is consistent with the memory,
   and memory / kernel / ghost state are updated *)
Definition gstep (s : gst) (t : Z) (e : event) : option gst :=
  match tstep t (pcs s t) e with
  | None => None
  | Some p' =>
    let base w sl ow st fi er :=
      Some {| word := w; pcs := upd (pcs s) t p'; slp := sl; owner := ow; starts := st; finished := fi; early_ret := er |} in
    match pcs s t with
    | PTry => (* strong CAS(0 -> t): succeeds iff the word is 0; reports the value observed *)
        if (ea e =? word s) && (eok e =? (if word s =? 0 then 1 else 0))
        then base (if word s =? 0 then t else word s) (slp s) (if word s =? 0 then Some t else owner s)
                  (starts s) (finished s) (early_ret s)
        else None
    | PCall => base (word s) (slp s) (owner s) (starts s + 1) (finished s) (early_ret s)
    | PInCall => base (word s) (slp s) (owner s) (starts s) true (early_ret s)
    | PMark => if ea e =? word s then base DONE (slp s) (owner s) (starts s) (finished s) (early_ret s) else None
    | PWake => base (word s) (wake_all (slp s)) (owner s) (starts s) (finished s) (early_ret s)
    | PRet => base (word s) (slp s) (owner s) (starts s) (finished s) (early_ret s || negb (finished s))
    | PWLoad => if ea e =? word s then base (word s) (slp s) (owner s) (starts s) (finished s) (early_ret s) else None
    | PWBody old =>
        match once_wait_loop 0 old with
        | NoCommit 1 _ => base (word s) (slp s) (owner s) (starts s) (finished s) (early_ret s || negb (finished s))
        | NoCommit _ _ =>
            base (word s) (upd (slp s) t (if u32 (word s) =? ea e then Sleeping else NoSleep)) (owner s) (starts s)
                 (finished s) (early_ret s)
        | Commit new _ =>
            (* weak CAS(old -> new): may fail spuriously; succeeds only if the word is `old` *)
            if (ea e =? word s) && (negb (eok e =? 1) || (word s =? old))
            then base (if eok e =? 1 then new else word s) (slp s) (owner s) (starts s) (finished s) (early_ret s)
            else None
        | _ => None
        end
    | PWFutex v =>
        base (word s) (upd (slp s) t (if u32 (word s) =? ea e then Sleeping else NoSleep)) (owner s) (starts s)
             (finished s) (early_ret s)
    | PWSleep => base (word s) (upd (slp s) t Awake) (owner s) (starts s) (finished s) (early_ret s)
    | PIdle => base (word s) (slp s) (owner s) (starts s) (finished s) (early_ret s)
    | PFast => if ea e =? word s then base (word s) (slp s) (owner s) (starts s) (finished s) (early_ret s) else None
    | PFRet => base (word s) (slp s) (owner s) (starts s) (finished s) (early_ret s || negb (finished s))
    end
  end.

(* thread ids are lock values: non-zero, 30 bits (DLOCK_OWNER_MASK) *)
Definition valid_tid (t : Z) : Prop := 0 < t <= DLOCK_OWNER_MASK.

Definition step (s : gst) (a : Z * event) (s' : gst) : Prop :=
  valid_tid (fst a) /\ gstep s (fst a) (snd a) = Some s'.
Definition reach : gst -> Prop := reachable (fun s => s = init_state) step.

(* run a whole recorded schedule (list of (tid, event)) through the global model *)
Fixpoint grun (s : gst) (tr : list (Z * event)) : option gst :=
  match tr with
  | [] => Some s
  | (t, e) :: tr' => match gstep s t e with Some s' => grun s' tr' | None => None end
  end.

(* the plain read of the inline wrapper is not seen by the hook: the recorded trace continues with the return mark (the read
   saw ~0l) or with the first atomic operation of the library call (it saw something else).  tstep_vis = tstep closed under
   that one hidden step (Once_proofs.tstep_vis_sound) *)
Definition ev_plain_load (v : Z) : event := mkEv DV_LOAD MO_PLAIN 0 0 8 v v 1.
Definition tstep_vis (self : Z) (p : pc) (e : event) : option pc :=
  match p with
  | PFast => if ev_kind e DVU_RET then tstep self PFRet e else tstep self PTry e
  | _ => tstep self p e
  end.

(* for the correspondence driver: run one recorded per-thread trace; result (index of the first rejected event or
   -1, 1 if the thread ended outside any call) *)
Definition pc_idle (p : pc) : Z := match p with PIdle => 1 | _ => 0 end.
Definition conform (self : Z) (tr : list event) : Z * Z :=
  let '(p, i) := run_trace (tstep_vis self) PIdle tr 0 in (i, pc_idle p).
