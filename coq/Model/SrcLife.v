(* SrcLife.v — life cycle of one dispatch source under cancellation (src/source.c, src/event/event.c,
   src/event/event_epoll.c), for any number of client threads, the manager thread delivering events, and the
   thread that currently holds the source's drain lock.
   - `phase` is _dispatch_source_invoke2 (source.c:715-887) cut at its atomic reads of dq_atomic_flags and at the
     client callouts; each phase follows the C branch by branch and returns the actions it performs;
     `invoke2` runs the phases back to back (the decision function: no interference), the global model `gstep` runs
     one phase per step so that cancels and events interleave between any two reads.
   - `wakeup_target` is _dispatch_source_wakeup (source.c:910-979).
   - `m_caw_loop`, `m_needs_event_loop`, `m_finalize` are the record-level readings of the rmw loops on
     dq_atomic_flags; Proofs/SrcLife_proofs.v shows that they are the generated bodies of Gen_srclife on the decoded bits.
   - the drain lock of the source (it is a serial lane) is abstracted as a ghost owner: one invoke2 /
     cancel_and_wait direct path at a time.  Which queue an invoke runs on is arbitrary (every action checks its
     queue itself, as the C code does), so the theorems hold for any enqueue / wakeup behaviour of the lane layer.
   Definitions only; proofs are in Proofs/SrcLife_proofs.v. *)
From Coq Require Import ZArith Bool List.
From Verif Require Import Word Conc Gen_consts Gen_fields Gen_srclife.
Import ListNotations.
Local Open Scope Z_scope.

(* ------------------------------------------------------------------ dq_atomic_flags *)
Record flags := mkF { canceled : bool; waiter : bool; needs_event : bool; deleted : bool; released : bool }.

Definition BIT_RELEASED := 23. Definition BIT_CANCELED := 28. Definition BIT_WAITER := 29.
Definition BIT_NEEDS_EVENT := 30. Definition BIT_DELETED := 31.
Definition dec (z : Z) : flags :=
  mkF (Z.testbit z BIT_CANCELED) (Z.testbit z BIT_WAITER) (Z.testbit z BIT_NEEDS_EVENT) (Z.testbit z BIT_DELETED)
      (Z.testbit z BIT_RELEASED).
Definition f0 : flags := mkF false false false false false.

Definition set_canceled (f : flags) := mkF true (waiter f) (needs_event f) (deleted f) (released f).
Definition set_waiter (f : flags) := mkF (canceled f) true (needs_event f) (deleted f) (released f).
Definition set_released (f : flags) := mkF (canceled f) (waiter f) (needs_event f) (deleted f) true.
Definition canc_or_rel (f : flags) : bool := canceled f || released f.

(* source.c:594 _dispatch_queue_atomic_flags_set_and_clear_orig(ds, DSF_DELETED, DSF_NEEDS_EVENT | DSF_CANCEL_WAITER) *)
Definition m_finalize (f : flags) : flags := mkF (canceled f) false false true (released f).
(* source.c:618 deferred unregistration loop: None = give up *)
Definition m_needs_event_loop (f : flags) : option flags :=
  if needs_event f || deleted f then None else Some (mkF (canceled f) (waiter f) true (deleted f) (released f)).

(* source types: timer / direct (custom data sources on this platform) / needs explicit re-arm (EV_DISPATCH: read, write) *)
Record kind := mkK { k_timer : bool; k_direct : bool; k_rearm : bool }.
Definition K_TIMER := mkK true false false.
Definition K_DATA := mkK false true false.
Definition K_FD := mkK false false true.
Definition K_SIGNAL := mkK false false false.

(* source.c:1009 first rmw loop of dispatch_source_cancel_and_wait: None = give up (a waiter is already there) *)
Definition m_caw_loop (k : kind) (f : flags) : option flags :=
  if waiter f then None
  else Some (mkF true (if deleted f then false else (needs_event f || k_timer k || negb (k_direct k)))
                 (needs_event f) (deleted f) (released f)).

(* ------------------------------------------------------------------ the source *)
Record src := mkS {
  fl : flags;
  installed : bool;            (* ds_is_installed *)
  du_wlh : bool; du_armed : bool; du_nd : bool;   (* du_state: wlh bits non-zero / DU_STATE_ARMED / DU_STATE_NEEDS_DELETE *)
  h_ev : bool; h_ca : bool; h_reg : bool;         (* ds_handler[] slots non-NULL *)
  pending : bool;              (* ds_pending_data <> 0 *)
  kreg : bool;                 (* registered with the event system: muxnote linkage + epoll entry / timer heap *)
  karm : bool                  (* that registration is armed: it can deliver an event (epoll: not in dmn_disarmed_events; timer: in
                                  the heap).  Not the same as DU_STATE_ARMED: _dispatch_unote_resume_muxed re-arms the epoll
                                  entry but never sets the bit again (found by the global replay, Model/SrcLifeR.v) *)
}.
Definition registered (s : src) : bool := du_wlh s || du_armed s || du_nd s.   (* du_state != DU_STATE_UNREGISTERED *)
Definition needs_rearm_du (s : src) : bool := registered s && negb (du_armed s) && negb (du_nd s).

Definition with_fl (s : src) (f : flags) : src :=
  mkS f (installed s) (du_wlh s) (du_armed s) (du_nd s) (h_ev s) (h_ca s) (h_reg s) (pending s) (kreg s) (karm s).
Definition with_du (s : src) (w a n kr ka : bool) : src :=
  mkS (fl s) (installed s) w a n (h_ev s) (h_ca s) (h_reg s) (pending s) kr ka.
Definition with_pending (s : src) (p : bool) : src :=
  mkS (fl s) (installed s) (du_wlh s) (du_armed s) (du_nd s) (h_ev s) (h_ca s) (h_reg s) p (kreg s) (karm s).
Definition with_installed (s : src) : src :=
  mkS (fl s) true (du_wlh s) (du_armed s) (du_nd s) (h_ev s) (h_ca s) (h_reg s) (pending s) (kreg s) (karm s).
Definition with_handlers (s : src) (e c r : bool) : src :=
  mkS (fl s) (installed s) (du_wlh s) (du_armed s) (du_nd s) e c r (pending s) (kreg s) (karm s).

Inductive queue := QTarget | QMgr | QOther.
Definition queue_eqb (a b : queue) : bool :=
  match a, b with QTarget, QTarget | QMgr, QMgr | QOther, QOther => true | _, _ => false end.
Definition dkq (k : kind) : queue := if k_direct k then QTarget else QMgr.

Inductive retq := RNone | RTarget | RMgr | RWaitEvent.
Definition retq_of (q : queue) : retq := match q with QTarget => RTarget | QMgr => RMgr | QOther => RNone end.

Inductive action :=
| AInstall (ok : bool)         (* _dispatch_source_install: ds_is_installed = true, _dispatch_unote_register *)
| AConfigure                   (* _dispatch_timer_unote_configure *)
| ARegCallout (called : bool)  (* registration handler taken; called, or disposed because cancelled *)
| AUnregister (ok : bool)      (* _dispatch_unote_unregister returned ok *)
| AFinalize (woke twice : bool)(* _dispatch_source_refs_finalize_unregistration: sets DELETED; woke the waiters; found DELETED already *)
| ANeedsEvent                  (* the deferred-unregistration loop ran *)
| ALatch                       (* _dispatch_source_latch_and_call: xchg of ds_pending_data *)
| AEhBegin | AEhEnd            (* event handler callout *)
| ACancelCallout               (* _dispatch_source_cancel_callout entered: takes the cancel handler, frees the other two *)
| AChBegin | AChEnd            (* cancel handler callout *)
| AChDispose                   (* cancel handler disposed without a call (source not cancelled, only released) *)
| ARearm.                      (* _dispatch_unote_resume *)

(* values the C code reads that are outside this model: free inputs of every phase *)
Record orc := mkO {
  c_susp : bool;       (* DISPATCH_QUEUE_IS_SUSPENDED(ds) *)
  c_cfg : bool;        (* timer: dt_pending_config != NULL *)
  c_reg_ok : bool;     (* _dispatch_unote_register succeeded *)
  c_unreg_ok : bool;   (* _dispatch_unote_unregister succeeded on a live registration (always, on this platform) *)
  c_arm : bool;        (* timer: configure / resume leaves it armed *)
  c_ovc : bool;        (* starvation avoidance applies (target is not an overcommit root queue) *)
  c_anon : bool;       (* _dispatch_unote_wlh(dr) == DISPATCH_WLH_ANON *)
  c_tgt : bool         (* timer: dt_timer.target < INT64_MAX *)
}.

(* _dispatch_source_refs_finalize_unregistration (source.c:591) *)
Definition finalize (s : src) : src * list action :=
  (with_fl s (m_finalize (fl s)), [AFinalize (waiter (fl s)) (deleted (fl s))]).

(* _dispatch_source_refs_unregister (source.c:607) over _dispatch_unote_unregister (event.c:179) *)
Definition refs_unregister (o : orc) (s : src) : src * list action :=
  let ok := negb (registered s) || du_nd s || c_unreg_ok o in
  if ok then
    let s1 := if registered s then with_du s false false false false false else s in
    let '(s2, a) := finalize s1 in (s2, AUnregister true :: a)
  else
    match m_needs_event_loop (fl s) with
    | Some f => (with_fl s f, [AUnregister false; ANeedsEvent])
    | None => (s, [AUnregister false; ANeedsEvent])
    end.

(* _dispatch_source_install (source.c:627) over _dispatch_unote_register (event.c:124) *)
Definition install (k : kind) (o : orc) (s : src) : src * list action :=
  let s1 := with_installed s in
  if c_reg_ok o || k_timer k || (k_direct k && negb (k_rearm k)) then
    (* custom filters and muxed registrations come back ARMED; timers only get their wlh bits (they enter the heap when
       armed); direct unotes are the custom data filters on this platform (DISPATCH_HAVE_DIRECT_KNOTES = 0): nothing is
       registered with the kernel for them *)
    (with_du s1 true (if k_timer k then du_armed s1 else true) false (if k_timer k then kreg s1 else negb (k_direct k))
             (if k_timer k then karm s1 else negb (k_direct k)), [AInstall true])
  else let '(s2, a) := finalize s1 in (s2, AInstall false :: a).

(* _dispatch_source_refs_needs_rearm (source.c:489) *)
Definition refs_needs_rearm (k : kind) (o : orc) (s : src) : bool :=
  if k_timer k then c_cfg o || (needs_rearm_du s && c_tgt o) else needs_rearm_du s.

(* program points of the thread that owns the drain lock *)
Inductive opc :=
| OIdle
| OA1        (* source.c:751 install *)
| OA2        (* :768 timer configuration *)
| OA3        (* :778 registration handler *)
| OA4        (* :788 acknowledge a deferred delete *)
| OP1        (* :792 read of dq_atomic_flags that guards the event handler *)
| OLatch     (* :799 committed to _dispatch_source_latch_and_call *)
| OInEh      (* inside the event handler *)
| OP2        (* :800 re-read after the handler *)
| OP3        (* :824 cancelled and not deleted: unregister *)
| OP3b       (* :838 re-read after the unregistration attempt *)
| OP4        (* :845 cancelled and deleted: cancel callout *)
| OInCh      (* inside the cancel handler *)
| OP4b       (* :852 re-read after the cancel callout *)
| OP5        (* :857 re-arm *)
| OCD1       (* cancel_and_wait, lock taken (source.c:1062): unregister unless deleted *)
| OCD2       (* source.c:1070: cancel callout if deleted *)
| OCD3.      (* source.c:1073: wakeup, lock released *)

(* locals of the running invoke *)
Record ist := mkI { i_src : src; i_pc : opc; i_dqf : flags; i_retq : retq; i_avoid : bool }.
Inductive pres := Cont (i : ist) (acts : list action) | Ret (s : src) (acts : list action) (r : retq).

Definition cont (s : src) (p : opc) (i : ist) (a : list action) := Cont (mkI s p (i_dqf i) (i_retq i) (i_avoid i)) a.

(* _dispatch_source_cancel_callout (source.c:455): `on_ch` = what happens when there is a handler to call *)
Definition cancel_callout (s : src) : src * list action * bool :=
  let s1 := with_pending (with_handlers s false false false) false in
  if h_ca s then
    if canceled (fl s) then (s1, [ACancelCallout; AChBegin], true)
    else (s1, [ACancelCallout; AChDispose], false)
  else (s1, [ACancelCallout], false).

(* one phase of _dispatch_source_invoke2 running on queue q *)
Definition phase (k : kind) (q : queue) (o : orc) (i : ist) : pres :=
  let s := i_src i in
  let ret_q (x : queue) := Ret s [] (retq_of x) in
  match i_pc i with
  | OIdle => Ret s [] RNone
  | OA1 =>
      if negb (installed s) then
        if negb (queue_eqb q (dkq k)) then ret_q (dkq k)
        else let '(s1, a) := install k o s in
             if c_susp o then Ret s1 a RTarget else cont s1 OA2 i a
      else if c_susp o then Ret s [] RTarget else cont s OA2 i []
  | OA2 =>
      if k_timer k && c_cfg o then
        if negb (canc_or_rel (fl s)) then
          if negb (queue_eqb q (dkq k)) then ret_q (dkq k)
          else (* configure: pending data cleared; an armed timer is re-inserted or dropped from the heap *)
            let s1 := with_pending s false in
            let s2 := if du_armed s1 then with_du s1 (du_wlh s1) (c_arm o) (du_nd s1) (c_arm o) (c_arm o) else s1 in
            cont s2 OA3 i [AConfigure]
        else cont s OA3 i []
      else cont s OA3 i []
  | OA3 =>
      if h_reg s then
        if negb (queue_eqb q QTarget) then Ret s [] RTarget
        else cont (with_handlers s (h_ev s) (h_ca s) false) OA4 i [ARegCallout (negb (canc_or_rel (fl s)))]
      else cont s OA4 i []
  | OA4 =>
      if du_nd s then
        (* a muxed unote is unregistered on the kevent queue only (the event loop may still be delivering the event that asked
           for the deletion) *)
        if negb (k_direct k) && negb (k_timer k) && negb (queue_eqb q (dkq k)) then ret_q (dkq k)
        else let '(s1, a) := refs_unregister (mkO false false false true false false false false) s in cont s1 OP1 i a
      else cont s OP1 i []
  | OP1 =>
      let dqf := fl s in
      if negb (canc_or_rel dqf) && pending s then
        if queue_eqb q QTarget then Cont (mkI s OLatch dqf (i_retq i) (i_avoid i)) []
        else Ret s [] RTarget
      else Cont (mkI s OP3 dqf (i_retq i) (i_avoid i)) []
  | OLatch =>
      (* latch: xchg(ds_pending_data, 0); no callout without a handler *)
      let s1 := with_pending s false in
      if h_ev s then cont s1 OInEh i [ALatch; AEhBegin] else cont s1 OP2 i [ALatch]
  | OInEh => cont s OP2 i [AEhEnd]
  | OP2 =>
      let dqf := fl s in
      let avoid := negb (canceled dqf || deleted dqf) && c_ovc o in
      let r := if avoid && pending s then RTarget else i_retq i in
      Cont (mkI s OP3 dqf r avoid) []
  | OP3 =>
      let dqf := i_dqf i in
      if canc_or_rel dqf && negb (deleted dqf) then
        if negb (k_timer k && negb (du_armed s)) && negb (queue_eqb q (dkq k)) then ret_q (dkq k)
        else let '(s1, a) := refs_unregister o s in cont s1 OP3b i a
      else cont s OP4 i []
  | OP3b =>
      let dqf := fl s in
      if negb (deleted dqf) then Ret s [] (match i_retq i with RNone => RWaitEvent | r => r end)
      else Cont (mkI s OP4 dqf (i_retq i) (i_avoid i)) []
  | OP4 =>
      let dqf := i_dqf i in
      if canc_or_rel dqf && deleted dqf then
        if negb (queue_eqb q QTarget) && (h_ev s || h_ca s || h_reg s) then
          Cont (mkI s OP5 dqf RTarget false) []
        else let '(s1, a, called) := cancel_callout s in
             if called then Cont (mkI s1 OInCh dqf (i_retq i) false) a
             else Cont (mkI s1 OP4b dqf (i_retq i) false) a
      else cont s OP5 i []
  | OInCh => cont s OP4b i [AChEnd]
  | OP4b => Cont (mkI s OP5 (fl s) (i_retq i) (i_avoid i)) []
  | OP5 =>
      let dqf := i_dqf i in
      if negb (canc_or_rel dqf) && refs_needs_rearm k o s then
        if negb (queue_eqb q (dkq k)) then ret_q (dkq k)
        else if c_susp o then Ret s [] RTarget
        else if i_avoid i && c_anon o then Ret s [] RTarget
        else (* _dispatch_unote_resume: a timer re-enters the heap if it needs to (DU_STATE_ARMED set / cleared with it); a muxed
                unote's epoll entry is re-armed (_dispatch_unote_resume_muxed), its DU_STATE_ARMED bit stays as it is *)
          (* a timer whose registration is gone (du_ident == DISPATCH_TIMER_IDENT_CANCELED) is never re-armed: event.c:825 *)
          let a := c_arm o && du_wlh s in
          Ret (if k_timer k then with_du s (du_wlh s) a (du_nd s) a a
               else with_du s (du_wlh s) (du_armed s) (du_nd s) (kreg s) (kreg s)) [ARearm] (i_retq i)
      else Ret s [] (i_retq i)
  (* dispatch_source_cancel_and_wait with the drain lock taken (source.c:1062-1074) *)
  | OCD1 =>
      (* ds_is_installed = true first: a source whose registration was deferred must not be installed once deleted *)
      if negb (deleted (fl s)) then let '(s1, a) := refs_unregister o (with_installed s) in cont s1 OCD2 i a
      else cont s OCD2 i []
  | OCD2 =>
      if deleted (fl s) then let '(s1, a, called) := cancel_callout s in
                             if called then Cont (mkI s1 OInCh (fl s) RNone false) a else cont s1 OCD3 i a
      else cont s OCD3 i []
  | OCD3 => Ret s [] RNone
  end.

(* the decision function: _dispatch_source_invoke2 on queue q without interference *)
Fixpoint run_phases (fuel : nat) (k : kind) (q : queue) (o : orc) (i : ist) (acc : list action) : src * list action * retq :=
  match fuel with
  | O => (i_src i, acc, RNone)
  | S n => match phase k q o i with
           | Cont i' a => run_phases n k q o i' (acc ++ a)
           | Ret s a r => (s, acc ++ a, r)
           end
  end.
Definition invoke2 (k : kind) (q : queue) (o : orc) (s : src) : src * list action * retq :=
  run_phases 20 k q o (mkI s OA1 f0 RNone false) [].

(* _dispatch_source_wakeup (source.c:910-979): the queue the source must be invoked on, RNone = nothing to do.
   `ev` = DISPATCH_WAKEUP_EVENT; `probe` = the source's own queue has items *)
Definition wakeup_target (k : kind) (o : orc) (ev probe : bool) (s : src) : retq :=
  let dqf := fl s in
  let dk := retq_of (dkq k) in
  let tq :=
    if negb (installed s) then dk
    else if negb (canc_or_rel dqf) && (k_timer k && c_cfg o) then dk
    else if h_reg s then RTarget
    else if du_nd s then RTarget
    else if negb (canc_or_rel dqf) && pending s then RTarget
    else if canc_or_rel dqf && negb (deleted dqf) then
      if k_timer k && negb (du_armed s) then RTarget
      else if needs_event dqf && negb ev then RNone
      else dk
    else if canc_or_rel dqf && deleted dqf && (h_ev s || h_ca s || h_reg s) then RTarget
    else if negb (canc_or_rel dqf) && refs_needs_rearm k o s then dk
    else RNone in
  match tq with RNone => if probe then RTarget else RNone | r => r end.

(* ------------------------------------------------------------------ global model *)
(* program points of a thread inside dispatch_source_cancel_and_wait, outside the lock *)
Inductive cwpc :=
| CIdle
| CDecide (oldf newf : flags)   (* after the first rmw loop (source.c:1009-1020) *)
| CDirect                       (* holds the drain lock (it is the owner) *)
| CWLoad                        (* source.c:1086 / 1097 load of dq_atomic_flags *)
| CWTest (dqf : flags)          (* source.c:1087-1088 loop test on dqf *)
| CWFutex (dqf : flags)         (* source.c:1095 _dispatch_wait_on_address(dqf) *)
| CWSleep                       (* in futex_wait *)
| CRet.                         (* about to return *)

Inductive cctx := CxThread | CxHandler | CxTqItem.

Record gst := mkG {
  g_k : kind;
  g_s : src;
  activated : bool;
  owner : option Z; o_q : queue; o_pc : opc; o_dqf : flags; o_retq : retq; o_avoid : bool;
  cpc : Z -> cwpc; slp : Z -> bool;
  (* ghost *)
  ch_set : bool;            (* a cancel handler was installed *)
  ch_count : Z;             (* cancel handler invocations *)
  ch_disposed : bool;       (* the cancel handler was disposed without a call *)
  eh_count : Z;             (* event handler invocations *)
  late_starts : Z;          (* event handler invocations that started while CANCELED was set *)
  origin : option cctx;     (* where the cancel that set CANCELED came from *)
  caw_early : bool;         (* some cancel_and_wait returned while DELETED was not set *)
  (* the manager thread is in the middle of an event delivery: the unote state is updated, ds_pending_data and
     _dispatch_source_merge_evt (which reads du_state again) are still to come *)
  m_hup : bool
}.

Definition init_state (k : kind) (ev ca rg : bool) : gst :=
  mkG k (mkS f0 false false false false ev ca rg false false false) false None QOther OIdle f0 RNone false
      (fun _ => CIdle) (fun _ => false) ca 0 false 0 0 None false false.

Inductive act :=
| GActivate (o : orc)              (* dispatch_activate: _dispatch_source_activate (source.c:642) *)
| GCancel (cx : cctx)              (* dispatch_source_cancel (source.c:982) *)
| GRelease                         (* last external reference dropped: DQF_RELEASED *)
| GMergeData                       (* dispatch_source_merge_data *)
| GEvent (stay_armed : bool)       (* the manager delivers an event for an armed registration: first half, the unote state *)
| GHangup                          (* EPOLLHUP, first half (_dispatch_event_merge_hangup): DU_STATE_NEEDS_DELETE published *)
| GEvMerge                         (* second half of a delivery: ds_pending_data stored, _dispatch_source_merge_evt reads du_state
                                      again (source.c:1107) *)
| GInvoke (q : queue)              (* the lane layer starts _dispatch_source_invoke on queue q (takes the drain lock) *)
| GPhase (o : orc)                 (* the owner runs its next phase *)
| GCawEnter                        (* cancel_and_wait: first rmw loop *)
| GCawStep (lock : bool) (o : orc) (* cancel_and_wait: next step; lock = the drain try-lock succeeded *)
| GFutexRet.                       (* futex_wait returns (wake-up or spurious) *)

Definition count (a : action) (l : list action) : Z :=
  Z.of_nat (length (filter (fun x => match a, x with AEhBegin, AEhBegin | AChBegin, AChBegin | AChDispose, AChDispose => true
                                                   | _, _ => false end) l)).
Definition woke (l : list action) : bool :=
  existsb (fun x => match x with AFinalize true _ => true | _ => false end) l.
Definition flags_eqb (a b : flags) : bool :=
  Bool.eqb (canceled a) (canceled b) && Bool.eqb (waiter a) (waiter b) && Bool.eqb (needs_event a) (needs_event b) &&
  Bool.eqb (deleted a) (deleted b) && Bool.eqb (released a) (released b).

(* field updates *)
Definition set_src (g : gst) (s1 : src) (a : list action) : gst :=
  (* the source moved to s1 performing actions a: ghost counters follow; a finalize that found a waiter wakes all sleepers *)
  mkG (g_k g) s1 (activated g) (owner g) (o_q g) (o_pc g) (o_dqf g) (o_retq g) (o_avoid g) (cpc g)
      (if woke a then (fun _ => false) else slp g)
      (ch_set g) (ch_count g + count AChBegin a) (ch_disposed g || (0 <? count AChDispose a))
      (eh_count g + count AEhBegin a)
      (late_starts g + (if canceled (fl (g_s g)) then count AEhBegin a else 0))
      (origin g) (caw_early g) (m_hup g).
Definition set_owner (g : gst) (ow : option Z) (q : queue) (pc : opc) (dqf : flags) (r : retq) (av : bool) : gst :=
  mkG (g_k g) (g_s g) (activated g) ow q pc dqf r av (cpc g) (slp g) (ch_set g) (ch_count g) (ch_disposed g) (eh_count g)
      (late_starts g) (origin g) (caw_early g) (m_hup g).
Definition set_cpc (g : gst) (t : Z) (p : cwpc) : gst :=
  mkG (g_k g) (g_s g) (activated g) (owner g) (o_q g) (o_pc g) (o_dqf g) (o_retq g) (o_avoid g) (upd (cpc g) t p) (slp g)
      (ch_set g) (ch_count g) (ch_disposed g) (eh_count g) (late_starts g) (origin g) (caw_early g) (m_hup g).
Definition set_slp (g : gst) (t : Z) (b : bool) : gst :=
  mkG (g_k g) (g_s g) (activated g) (owner g) (o_q g) (o_pc g) (o_dqf g) (o_retq g) (o_avoid g) (cpc g) (upd (slp g) t b)
      (ch_set g) (ch_count g) (ch_disposed g) (eh_count g) (late_starts g) (origin g) (caw_early g) (m_hup g).
Definition set_activated (g : gst) : gst :=
  mkG (g_k g) (g_s g) true (owner g) (o_q g) (o_pc g) (o_dqf g) (o_retq g) (o_avoid g) (cpc g) (slp g)
      (ch_set g) (ch_count g) (ch_disposed g) (eh_count g) (late_starts g) (origin g) (caw_early g) (m_hup g).
Definition set_origin (g : gst) (o : option cctx) : gst :=
  mkG (g_k g) (g_s g) (activated g) (owner g) (o_q g) (o_pc g) (o_dqf g) (o_retq g) (o_avoid g) (cpc g) (slp g)
      (ch_set g) (ch_count g) (ch_disposed g) (eh_count g) (late_starts g) o (caw_early g) (m_hup g).
Definition set_caw_early (g : gst) (b : bool) : gst :=
  mkG (g_k g) (g_s g) (activated g) (owner g) (o_q g) (o_pc g) (o_dqf g) (o_retq g) (o_avoid g) (cpc g) (slp g)
      (ch_set g) (ch_count g) (ch_disposed g) (eh_count g) (late_starts g) (origin g) b (m_hup g).
Definition set_hup (g : gst) (b : bool) : gst :=
  mkG (g_k g) (g_s g) (activated g) (owner g) (o_q g) (o_pc g) (o_dqf g) (o_retq g) (o_avoid g) (cpc g) (slp g)
      (ch_set g) (ch_count g) (ch_disposed g) (eh_count g) (late_starts g) (origin g) (caw_early g) b.

Definition orc_ok : orc := mkO false false true true false false false false.

(* _dispatch_source_activate (source.c:642-694) *)
Definition activate_src (k : kind) (o : orc) (s : src) : src * list action :=
  if canceled (fl s) then finalize (with_installed s)                          (* :649-652 *)
  else if (k_direct k || k_timer k) && negb (installed s) && c_ovc o           (* :674-691; c_ovc stands for "pri != 0" here *)
  then install k o s
  else (s, []).

(* the manager delivers an event in two halves.  First the unote state (event_epoll.c:_dispatch_event_merge_fd /
   _dispatch_event_merge_hangup, event.c:_dispatch_timers_run): EV_DISPATCH unotes (read / write): DU_STATE_ARMED cleared, the
   epoll entry stays disarmed until resumed; signals: nothing changes; timers: the timer stays in the heap or is disarmed.
   Then ds_pending_data and _dispatch_source_merge_evt, which reads du_state again (GEvMerge). *)
Definition event_du (k : kind) (stay : bool) (s : src) : src :=
  if k_rearm k then with_du s (du_wlh s) false (du_nd s) (kreg s) false
  else if k_timer k then with_du s (du_wlh s) stay (du_nd s) (kreg s) stay
  else s.

(* the manager queue is served by one thread, which also delivers the events: it is neither invoking the source on the manager
   queue nor in the middle of a delivery *)
Definition mgr_free (g : gst) : bool :=
  negb (m_hup g) && match owner g with Some _ => negb (queue_eqb (o_q g) QMgr) | None => true end.

Definition is_owner (g : gst) (t : Z) : bool := match owner g with Some o => o =? t | None => false end.

Definition gstep (g : gst) (t : Z) (a : act) : option (gst * list action) :=
  let s := g_s g in let k := g_k g in
  match a with
  | GActivate o =>
      if activated g || released (fl s) then None else
      let '(s1, acts) := activate_src k o s in Some (set_activated (set_src g s1 acts), acts)
  | GCancel cx =>
      if released (fl s) then None else
      let allowed :=
        match cx with
        | CxThread => true
        (* from one of the source's own callouts, by the thread running it: the event handler, the registration handler
           (it has just been delivered: source.c:785, the owner stands at :788), the cancel handler *)
        | CxHandler => is_owner g t && match o_pc g with OInEh | OA4 | OInCh => true | _ => false end
        (* from an item running on the serial target queue: the source is not being invoked on that queue meanwhile *)
        | CxTqItem => match owner g with Some _ => negb (queue_eqb (o_q g) QTarget) | None => true end
        end in
      if negb allowed then None else
      Some (set_origin (set_src g (with_fl s (set_canceled (fl s))) []) (if canceled (fl s) then origin g else Some cx), [])
  | GRelease => if released (fl s) then None else Some (set_src g (with_fl s (set_released (fl s))) [], [])
  | GMergeData => if released (fl s) then None else Some (set_src g (with_pending s true) [], [])
  | GEvent stay =>
      if kreg s && karm s && negb (k_direct k) && mgr_free g
      then Some (set_hup (set_src g (event_du k stay s) []) true, []) else None
  | GHangup =>
      if kreg s && registered s && negb (k_timer k) && negb (k_direct k) && mgr_free g
      then Some (set_hup (set_src g (with_du s (du_wlh s) false true (kreg s) false) []) true, []) else None
  | GEvMerge =>
      if m_hup g then
        let s1 := with_pending s true in
        (* source.c:1108: an event for an unregistered non-timer unote finalizes the source *)
        if negb (registered s1) && negb (k_timer k) then let '(s2, acts) := finalize s1 in Some (set_hup (set_src g s2 acts) false, acts)
        else Some (set_hup (set_src g s1 []) false, [])
      else None
  | GInvoke q =>
      match owner g with
      | Some _ => None
      | None => if activated g && negb (queue_eqb q QMgr && m_hup g) then Some (set_owner g (Some t) q OA1 f0 RNone false, []) else None
      end
  | GPhase o =>
      if negb (is_owner g t) then None else
      match phase k (o_q g) o (mkI s (o_pc g) (o_dqf g) (o_retq g) (o_avoid g)) with
      | Cont i acts => Some (set_owner (set_src g (i_src i) acts) (owner g) (o_q g) (i_pc i) (i_dqf i) (i_retq i) (i_avoid i), acts)
      | Ret s1 acts r =>
          (* the lock is dropped; a cancel_and_wait caller goes on to its wait loop *)
          let g1 := set_owner (set_src g s1 acts) None (o_q g) OIdle f0 r false in
          Some (match cpc g t with CDirect => set_cpc g1 t CWLoad | _ => g1 end, acts)
      end
  | GCawEnter =>
      match cpc g t with
      | CIdle =>
          (* preconditions of the API: no cancel handler (source.c:1004 crashes otherwise), not called from the source's
             own handler (:1075 crashes), source not released *)
          if h_ca s || released (fl s) || is_owner g t then None else
          match m_caw_loop k (fl s) with
          | Some f => Some (set_origin (set_cpc (set_src g (with_fl s f) []) t (CDecide (fl s) f))
                                       (if canceled (fl s) then origin g else Some CxThread), [])
          | None => Some (set_cpc g t (CDecide (fl s) (set_canceled (fl s))), [])   (* gave up: nothing stored *)
          end
      | _ => None
      end
  | GCawStep lock o =>
      match cpc g t with
      | CDecide oldf newf =>
          if deleted oldf then Some (set_cpc g t CRet, [])                   (* source.c:1025 *)
          else if waiter newf then Some (set_cpc g t CWLoad, [])             (* :1028 goto wakeup (dx_wakeup, dispatch_activate) *)
          else if negb (activated g) then
            (* :1052-1059 inactive: dispatch_activate notices the cancellation and finalizes *)
            if canceled (fl s) then
              let '(s1, acts) := activate_src k o s in Some (set_cpc (set_activated (set_src g s1 acts)) t CRet, acts)
            else None
          else if lock then
            match owner g with
            | None => Some (set_cpc (set_owner g (Some t) QOther OCD1 f0 RNone false) t CDirect, [])
            | Some _ => None
            end
          else Some (set_cpc g t CWLoad, [])                                 (* :1078-1083 lock not taken: wakeup *)
      | CWLoad => Some (set_cpc g t (CWTest (fl s)), [])
      | CWTest dqf =>
          if deleted dqf then Some (set_cpc g t CRet, [])
          else if negb (waiter dqf) then
            (* cmpxchgv(dqf -> dqf | CANCEL_WAITER): on failure dqf is reloaded and the loop test repeated *)
            if flags_eqb (fl s) dqf then Some (set_cpc (set_src g (with_fl s (set_waiter dqf)) []) t (CWFutex (set_waiter dqf)), [])
            else Some (set_cpc g t (CWTest (fl s)), [])
          else Some (set_cpc g t (CWFutex dqf), [])
      | CWFutex dqf =>
          (* futex_wait(&dq_atomic_flags, dqf): sleeps only if the word still has that value (the kernel compares all 32 bits:
             `lock` = the other bits are unchanged too) *)
          if flags_eqb (fl s) dqf && lock then Some (set_slp (set_cpc g t CWSleep) t true, [])
          else Some (set_cpc g t CWLoad, [])
      | CRet => Some (set_caw_early (set_cpc g t CIdle) (caw_early g || negb (deleted (fl s))), [])
      | _ => None
      end
  | GFutexRet =>
      match cpc g t with
      | CWSleep => Some (set_cpc (set_slp g t false) t CWLoad, [])
      | _ => None
      end
  end.

Definition step (g : gst) (l : Z * act) (g' : gst) : Prop := exists acts, gstep g (fst l) (snd l) = Some (g', acts).
Definition reach (k : kind) (ev ca rg : bool) : gst -> Prop := reachable (fun g => g = init_state k ev ca rg) step.

Fixpoint grun (g : gst) (tr : list (Z * act)) : option gst :=
  match tr with
  | [] => Some g
  | (t, a) :: tr' => match gstep g t a with Some (g', _) => grun g' tr' | None => None end
  end.

(* what the client may rely on once everything has settled: nobody holds the lock, no cancel_and_wait in flight,
   _dispatch_source_wakeup has nothing to ask for *)
Definition quiescent (g : gst) : Prop :=
  owner g = None /\ (forall t, cpc g t = CIdle) /\
  forall o, wakeup_target (g_k g) o false false (g_s g) = RNone.
Definition final_src (s : src) : Prop :=
  canceled (fl s) = true /\ deleted (fl s) = true /\ waiter (fl s) = false /\ needs_event (fl s) = false /\
  h_ev s = false /\ h_ca s = false /\ h_reg s = false /\ registered s = false /\ kreg s = false /\ installed s = true.

(* ------------------------------------------------------------------ vocabulary of the theorems *)
Definition res_src (p : pres) : src := match p with Cont i _ => i_src i | Ret s _ _ => s end.
Definition res_acts (p : pres) : list action := match p with Cont _ a => a | Ret _ a _ => a end.
Definition res_pc (p : pres) : opc := match p with Cont i _ => i_pc i | Ret _ _ _ => OIdle end.
Definition res_dqf (p : pres) (d : flags) : flags := match p with Cont i _ => i_dqf i | Ret _ _ _ => f0 end.

Definition custom (k : kind) : bool := k_direct k && negb (k_timer k).
(* structure of the registration state *)
Definition Sinv (k : kind) (s : src) : Prop :=
  (deleted (fl s) = true -> registered s = false /\ kreg s = false /\ installed s = true /\ waiter (fl s) = false /\
                            needs_event (fl s) = false) /\
  (kreg s = true -> du_wlh s = true) /\
  (du_armed s = true \/ du_nd s = true -> du_wlh s = true) /\
  (du_wlh s = true -> installed s = true) /\
  (du_nd s = true -> kreg s = true) /\
  (k_timer k = true -> du_nd s = false) /\
  (karm s = true -> kreg s = true).

Definition in_cd (p : opc) : bool := match p with OCD1 | OCD2 | OCD3 => true | _ => false end.
Definition past_install (p : opc) : bool := match p with OA2 | OA3 | OA4 | OP1 | OLatch | OInEh | OP2 | OP3 => true | _ => false end.
(* what the lock owner knows at its program point *)
Definition Pinv (k : kind) (s : src) (p : opc) : Prop :=
  Sinv k s /\ (past_install p = true -> installed s = true).

Definition res_dqf' (p : pres) : flags := match p with Cont i _ => i_dqf i | Ret _ _ _ => f0 end.
Definition is_fin (a : action) : bool := match a with AFinalize _ _ => true | _ => false end.
Definition is_fin_twice (a : action) : bool := match a with AFinalize _ true => true | _ => false end.


(* ------------------------------------------------------------------ atomic sites of the modelled functions
   For every program point of the lock owner: the atomic operations of _dispatch_source_invoke2 (inlined callees included)
   that the phase starting there stands for, in source order; likewise the tests of _dispatch_source_wakeup and the steps of
   cancel / cancel_and_wait.  Proofs/SrcLife_phase_proofs.v: these lists are the ones src2v reads from src/source.c
   (Gen_srclife.*_sites), so adding, dropping or reordering an atomic operation in those functions breaks the tie. *)
Definition st_ (k : akind) (f : nat) (o : morder) : site := {| s_kind := k; s_field := f; s_order := o |}.
Definition ldF := st_ KLoad F_dq_atomic_flags Relaxed.
Definition ldU := st_ KLoad F_du_state Relaxed.
Definition ldP := st_ KLoad F_ds_pending_data Relaxed.
Definition ldH := st_ KLoad F_ds_handler Relaxed.
Definition xH := st_ KXchg F_ds_handler Relaxed.
Definition ldCfg := st_ KLoad F_dt_pending_config Relaxed.
Definition ldS := st_ KLoad F_dq_state Relaxed.
Definition rmwF : list site := [ldF; st_ KCasWeak F_dq_atomic_flags Relaxed].     (* an os_atomic_rmw_loop on dq_atomic_flags *)
Definition unreg_sites : list site := rmwF ++ rmwF.    (* _dispatch_source_refs_unregister: finalize (source.c:594), deferred loop (:618) *)

Definition phase_sites (p : opc) : list site :=
  match p with
  | OA1 => rmwF ++ [ldS]                       (* :636 registration failed: finalize; :763 DISPATCH_QUEUE_IS_SUSPENDED *)
  | OA2 => [ldCfg; ldF]                        (* :768, :769 *)
  | OA3 => [ldH; xH]                           (* :778, registration callout: handler_take (:441) *)
  | OA4 => ldU :: unreg_sites                  (* :788, :789 *)
  | OP1 => [ldF; ldP]                          (* :792, :794 *)
  | OLatch => [ldH; st_ KXchg F_ds_pending_data Relaxed; st_ KFence F_fence Acquire]   (* :533, :534, :515 *)
  | OInEh => [ldCfg; xH]                       (* after the callout: :578 timer reconfiguration, :583 dispatch_after one-shot *)
  | OP2 => [ldF; ldP]                          (* :800, :814 *)
  | OP3 => ldU :: unreg_sites                  (* :828, :837 *)
  | OP3b => [ldF]                              (* :838 *)
  | OP4 => [ldH; ldH; ldH; xH; xH; xH]         (* :846-848, cancel callout :461-465 *)
  | OP4b => [ldF]                              (* :852 *)
  | OP5 => [ldU; ldCfg; ldU; ldS; ldU; ldU]    (* :858 needs_rearm (:492-497), :863, :868, :878 *)
  | _ => []
  end.
Definition invoke2_points : list opc := [OA1; OA2; OA3; OA4; OP1; OLatch; OInEh; OP2; OP3; OP3b; OP4; OInCh; OP4b; OP5].
Definition model_sites_invoke2 : list site :=
  (* :724 wlh changed?, :702 handle_wlh_change, :728 class probe: not modelled, they precede the first program point *)
  [ldU; st_ KOr F_dq_atomic_flags Relaxed; st_ KLoad F_dq_items_tail SeqCst] ++ flat_map phase_sites invoke2_points.
(* _dispatch_source_wakeup (source.c:919-969) in the order of the tests of wakeup_target *)
Definition model_sites_wakeup : list site :=
  [ldF; ldU; ldCfg; ldH; ldP; ldU; ldH; ldH; ldH; ldU; ldCfg; ldU; st_ KLoad F_dq_items_tail SeqCst].
(* dispatch_source_cancel: retain, GCancel's fetch-or *)
Definition model_sites_cancel : list site := [st_ KAdd F_os_obj_ref_cnt Relaxed; st_ KOr F_dq_atomic_flags Relaxed].
(* dispatch_source_cancel_and_wait: the handler check, GCawEnter's loop, the try-lock loop on dq_state, OCD1 (load, unregister),
   OCD2 (load, cancel callout), the wait loop (CWLoad, the waiter CAS, CWLoad) *)
Definition model_sites_caw : list site :=
  [ldH] ++ rmwF ++ [ldS; st_ KCasWeak F_dq_state SeqCst] ++ (ldF :: unreg_sites) ++ (ldF :: [xH; xH; xH]) ++
  [ldF; st_ KCas F_dq_atomic_flags Relaxed; ldF].
(* which program points read dq_atomic_flags first thing (the reads the global replay ties to recorded loads) *)
Definition starts_with_flags_read (p : opc) : bool :=
  match phase_sites p with s :: _ => match s_kind s, s_field s with KLoad, 17%nat => true | _, _ => false end | [] => false end.

(* ------------------------------------------------------------------ per-thread monitor for recorded traces
   One thread's recorded events on one source's dq_atomic_flags word (DISPATCH_VERIF hook) and the harness marks
   (callout begin/end).  It accepts exactly what the model lets a thread do with the word: every write is one of the
   model's transitions (the generated rmw bodies applied to the value the thread last observed), the futex wake follows
   a finalize that saw a waiter, an event handler callout starts only if the thread's last read of the word had neither
   CANCELED nor RELEASED, a cancel handler callout only if it had CANCELED and DELETED, and each such read allows one callout.
   Proofs/SrcLife_mon_proofs.v: every step of SrcLife.gstep, seen as the events `emit` below, is accepted (the monitor never
   rejects what the model does); the converse does not hold and is not claimed: the monitor sees one thread and one word. *)
Record mst := mkM { m_last : option Z; m_wake : bool }.
Definition has (z : Z) (b : Z) : bool := Z.testbit z b.
Definition is_commit (o : rmw_outcome) (n : Z) : bool := match o with Commit x _ => x =? n | _ => false end.
Definition mon_step (kt kd : Z) (m : mst) (e : event) : option mst :=
  let k := ek e in
  if m_wake m then (if k =? DV_FUTEX_WAKE then Some (mkM (m_last m) false) else None)
  else if k =? DV_LOAD then Some (mkM (Some (ea e)) false)
  else if k =? DV_OR then
    (* the thread's own cancel / release: what it read before is stale, a callout or a write of the word needs a new read *)
    if (eb e =? DSF_CANCELED) || (eb e =? DQF_RELEASED) then Some (mkM None false)
    else if (eb e =? DQF_BARRIER_BIT) || (eb e =? DQF_TARGETED) || (eb e =? DSF_WLH_CHANGED) then Some m else None
  else if k =? DV_AND then
    if has (eb e) BIT_RELEASED && has (eb e) BIT_CANCELED && has (eb e) BIT_WAITER && has (eb e) BIT_NEEDS_EVENT && has (eb e) BIT_DELETED
    then Some m else None
  else if k =? DV_CASW then
    match m_last m with
    | None => None
    | Some old =>
        let fin := is_commit (flags_set_and_clear_loop 0 DSF_DELETED (Z.lor DSF_NEEDS_EVENT DSF_CANCEL_WAITER) old) (eb e) in
        if fin || is_commit (cancel_and_wait_loop 0 old kt kd) (eb e) || is_commit (refs_unregister_loop 0 0 old) (eb e) then
          if eok e =? 1 then (if ea e =? old then Some (mkM (Some (eb e)) (fin && has old BIT_WAITER)) else None)
          else Some (mkM (Some (ea e)) false)
        else None
    end
  else if k =? DV_CAS then
    match m_last m with
    | None => None
    | Some old =>
        if (eb e =? Z.lor old DSF_CANCEL_WAITER) && negb (has old BIT_DELETED) && negb (has old BIT_WAITER) then
          if eok e =? 1 then (if ea e =? old then Some (mkM (Some (eb e)) false) else None) else Some (mkM (Some (ea e)) false)
        else None
    end
  else if k =? DV_FUTEX_WAIT then (if has (ea e) BIT_WAITER && negb (has (ea e) BIT_DELETED) then Some m else None)
  else if k =? DV_FUTEX_WAIT_RET then Some m
  else if k =? DV_FUTEX_WAKE then None
  else if k =? DVU_CALLOUT_BEGIN then
    match m_last m with
    | None => None
    | Some v =>
        (* the read that allowed the callout is used up: the next callout needs a new read of the word *)
        if ea e =? 0 then (if negb (has v BIT_CANCELED) && negb (has v BIT_RELEASED) then Some (mkM None false) else None)
        else if ea e =? 2 then Some m      (* registration handler: guarded by a plain read the hook does not see *)
        else (if has v BIT_CANCELED && has v BIT_DELETED then Some (mkM None false) else None)
    end
  else if (k =? DVU_CALLOUT_END) || (k =? DVU_CALL) || (k =? DVU_RET) || (k =? DVU_MARK) then Some m
  else None.
(* sv = 2 * is_timer + is_direct *)
Definition conform (sv : Z) (tr : list event) : Z * Z :=
  let '(m, i) := run_trace (mon_step (sv / 2) (sv mod 2)) (mkM None false) tr 0 in (i, if m_wake m then 0 else 1).

(* ------------------------------------------------------------------ the events a model step stands for (on dq_atomic_flags, plus
   the callout marks), for the link between gstep and mon_step.  Values of the word are the five modelled bits. *)
Definition enc (f : flags) : Z :=
  (if canceled f then DSF_CANCELED else 0) + (if waiter f then DSF_CANCEL_WAITER else 0) + (if needs_event f then DSF_NEEDS_EVENT else 0) +
  (if deleted f then DSF_DELETED else 0) + (if released f then DQF_RELEASED else 0).
Definition commit_of (o : rmw_outcome) (dflt : Z) : Z := match o with Commit n _ => n | _ => dflt end.
Definition fin_new (f : flags) : Z :=
  commit_of (flags_set_and_clear_loop 0 DSF_DELETED (Z.lor DSF_NEEDS_EVENT DSF_CANCEL_WAITER) (enc f)) (enc f).
Definition ne_new (f : flags) : Z := commit_of (refs_unregister_loop 0 0 (enc f)) (enc f).
Definition caw_new (k : kind) (f : flags) : Z :=
  commit_of (cancel_and_wait_loop 0 (enc f) (b2z (k_timer k)) (b2z (k_direct k))) (enc f).
Definition E_ (kd a b ok : Z) : event := mkEv kd 0 0 0 4 a b ok.
Definition E_load (v : Z) : event := E_ DV_LOAD v v 1.
Definition emit_action (f : flags) (a : action) : list event :=
  match a with
  | AFinalize w _ => [E_load (enc f); E_ DV_CASW (enc f) (fin_new f) 1] ++ (if w then [E_ DV_FUTEX_WAKE 0 0 1] else [])
  | ANeedsEvent => if needs_event f || deleted f then [E_load (enc f)] else [E_load (enc f); E_ DV_CASW (enc f) (ne_new f) 1]
  | ARegCallout true => [E_ DVU_CALLOUT_BEGIN 2 1 1; E_ DVU_CALLOUT_END 2 0 1]
  | AEhBegin => [E_ DVU_CALLOUT_BEGIN 0 1 1] | AEhEnd => [E_ DVU_CALLOUT_END 0 0 1]
  | AChBegin => [E_ DVU_CALLOUT_BEGIN 1 1 1] | AChEnd => [E_ DVU_CALLOUT_END 1 0 1]
  | _ => []
  end.
(* the program points whose phase starts with a read of dq_atomic_flags (Gen: flags_reading_points, and the locked path of
   cancel_and_wait: source.c:1066, :1070, the wakeup of :1073) *)
Definition reads_flags (k : kind) (o : orc) (p : opc) : bool :=
  match p with
  | OP1 | OP2 | OP3b | OP4b | OCD1 | OCD2 | OCD3 => true
  | OA2 => k_timer k && c_cfg o
  | _ => false
  end.
Definition emit_phase (k : kind) (o : orc) (p : opc) (f : flags) (acts : list action) : list event :=
  (if reads_flags k o p then [E_load (enc f)] else []) ++ flat_map (emit_action f) acts.
Definition emit (g : gst) (t : Z) (a : act) (acts : list action) : list event :=
  let f := fl (g_s g) in
  match a with
  | GCancel _ => [E_ DV_OR (enc f) DSF_CANCELED 1]
  | GRelease => [E_ DV_OR (enc f) DQF_RELEASED 1]
  | GActivate _ => E_load (enc f) :: flat_map (emit_action f) acts
  | GInvoke _ => [E_load (enc f)]                         (* _dispatch_queue_class_invoke *)
  | GPhase o => emit_phase (g_k g) o (o_pc g) f acts
  | GCawEnter => match m_caw_loop (g_k g) f with
                 | Some _ => [E_load (enc f); E_ DV_CASW (enc f) (caw_new (g_k g) f) 1]
                 | None => [E_load (enc f)]
                 end
  | GCawStep lock _ =>
      match cpc g t with
      | CDecide o n => if deleted o || waiter n || activated g then [] else E_load (enc f) :: flat_map (emit_action f) acts
      | CWLoad => [E_load (enc f)]
      | CWTest d => if deleted d || waiter d then []
                    else [E_ DV_CAS (enc f) (Z.lor (enc d) DSF_CANCEL_WAITER) (if flags_eqb f d then 1 else 0)]
      | CWFutex d => [E_ DV_FUTEX_WAIT (enc d) 0 1]
      | _ => []
      end
  | GFutexRet => [E_ DV_FUTEX_WAIT_RET 0 0 1]
  | GMergeData | GEvent _ | GHangup | GEvMerge => []
  end.

(* ------------------------------------------------------------------ this platform: unregistration always succeeds
   (_dispatch_unote_unregister: custom filters, timers and _dispatch_unote_unregister_muxed all return true; there are
   no direct knotes, DISPATCH_HAVE_DIRECT_KNOTES = 0), i.e. the oracle input c_unreg_ok is always true *)
Definition linux_act (a : act) : bool := match a with GPhase o => c_unreg_ok o | _ => true end.
Definition stepL (g : gst) (l : Z * act) (g' : gst) : Prop := step g l g' /\ linux_act (snd l) = true.
Definition reachL (k : kind) (ev ca rg : bool) : gst -> Prop := reachable (fun g => g = init_state k ev ca rg) stepL.
