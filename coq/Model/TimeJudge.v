(* TimeJudge.v — executable (boolean) form of the C12 statements, used by the correspondence and by the
   failing-input search: given an input and the implementation's output, does the property hold? *)
From Coq Require Import ZArith Bool List.
From Verif Require Import Time.
Import ListNotations.
Local Open Scope Z_scope.

Definition clock_eqb (a b : clock) : bool :=
  match a, b with Up, Up | Mono, Mono | Wall, Wall => true | _, _ => false end.
Definition dtime_eqb (a b : dtime) : bool :=
  match a, b with
  | Forever, Forever => true
  | At c v, At c' v' => clock_eqb c c' && (v =? v')
  | _, _ => false
  end.

(* dispatch_time(inval, delta) returned r *)
Definition judge_time (k : clocks) (inval delta r : Z) : bool :=
  match decode k inval with
  | Forever => r =? FOREVER
  | At c b => dtime_eqb (decode k r) (shifted k c b delta)
  end.

(* dispatch_walltime(&{sec,nsec}, delta) returned r *)
Definition judge_walltime (k : clocks) (sec nsec delta r : Z) : bool :=
  dtime_eqb (decode k r) (walltime_spec k (Some (sec, nsec)) delta).

(* numeric reading of a result for bracketing NOW-relative calls: nanoseconds on its clock, 2^64 = forever *)
Definition tval (k : clocks) (r : Z) : Z :=
  match decode k r with Forever => 18446744073709551616 | At _ v => v end.
Definition clock_of (k : clocks) (r : Z) : Z :=
  match decode k r with Forever => 3 | At Up _ => 0 | At Mono _ => 1 | At Wall _ => 2 end.
