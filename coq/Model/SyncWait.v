(* SyncWait.v — the synchronous submission paths of a serial lane (dq_width = 1, role BASE_ANON, targeting a root queue,
   never suspended / retargeted) for any number of threads:
     dispatch_sync_f / dispatch_barrier_sync_f   _dispatch_barrier_sync_f_inline (src/queue.c:1773): fast path =
                                    _dispatch_queue_try_acquire_barrier_sync, run inline, inline unlock of
                                    _dispatch_lane_barrier_sync_invoke_and_complete (:1052) or _dispatch_lane_barrier_complete;
                                    slow path = _dispatch_sync_f_slow (:1705): the caller's dispatch_sync_context_s is
                                    pushed as an item (_dispatch_lane_push_waiter :4974, which may take the drain lock
                                    itself), the caller parks in __DISPATCH_WAIT_FOR_QUEUE__ (:1612) on its thread event
                                    (src/shims/lock.h:301-330, lock.c:554-586), is handed the drain lock by
                                    _dispatch_lane_drain_barrier_waiter (:1279), runs the item on its own thread and
                                    releases the lane through _dispatch_lane_barrier_complete (:1494) /
                                    _dispatch_lane_class_barrier_complete (:1322);
     dispatch_async_and_wait_f      _dispatch_async_and_wait_recurse (:2034) / _dispatch_async_and_wait_f_slow (:1989): as
                                    above, but a worker that pops the context in _dispatch_lane_drain runs the item ITSELF
                                    (_dispatch_async_and_wait_invoke :1523), clears dsc_func and then signals the waiter;
     dispatch_async_f               _dispatch_lane_push (:5041) + _dispatch_queue_wakeup (:4840);
     root-queue workers             _dispatch_queue_class_invoke (inline_internal.h:1773): drain_try_lock,
                                    _dispatch_lane_drain (:3575, serial), _dispatch_queue_invoke_finish (:3737) handing the
                                    lock to a sync waiter, drain_try_unlock.
   One program point per atomic site (the events the DISPATCH_VERIF hook reports on dq_state, dq_items_tail,
   dq_items_head and on the waiters' thread events), plus explicit "tau" steps for what the hook cannot see (plain reads
   of dq_items_tail, the store into the predecessor's do_next, the push on / pop from the root queue).
   Every dq_state transition is the rmw body generated from the source (Gen_dqstate); orders are the generated ones.
   The QoS argument of the bodies is existential (0..7): it comes from thread / queue priorities not modelled here.
   Not modelled: suspension, retargeting, width changes, thread-bound queues, QoS overrides, reference counts. *)
From Coq Require Import ZArith Bool List.
From Verif Require Import Word Conc Gen_consts Gen_dqstate Gen_lanesites.
Import ListNotations.
Local Open Scope Z_scope.

Definition ENQ := DISPATCH_QUEUE_ENQUEUED.
Definition DIRTY := DISPATCH_QUEUE_DIRTY.
Definition INB := DISPATCH_QUEUE_IN_BARRIER.
Definition OWNED := DISPATCH_QUEUE_SERIAL_DRAIN_OWNED.
Definition OWNER_MASK := DLOCK_OWNER_MASK.
Definition MAXV := 4294967295.                  (* UINT32_MAX: "waited on, not signalled yet" *)
Definition DV_TAU := 200.                       (* a step the hook does not report; ea = the value of the plain read *)
Definition mo_code (o : morder) : Z :=
  match o with Relaxed => 0 | Consume => 1 | Acquire => 2 | Release => 3 | AcqRel => 4 | SeqCst => 5 end.

(* ---- events: eobj = 0 for the queue's words (eoff 0 = dq_state, 8 = dq_items_tail, 16 = dq_items_head);
        eobj = w > 0 for the thread event of the waiter whose lock value is w;
        harness marks: DVU_CALL (eobj = 1 dispatch_sync_f, 2 dispatch_barrier_sync_f, 3 dispatch_async_and_wait_f,
        4 dispatch_async_f), DVU_RET, DVU_CALLOUT_BEGIN / END (eb = lock value of the waiter whose item it is, 0 for an
        asynchronous item) ---- *)
Definition OFF_Q := 0. Definition OFF_T := 8. Definition OFF_H := 16.
Definition is_q (e : event) (k ord off : Z) : bool :=
  (ek e =? k) && (eord e =? ord) && (eobj e =? 0) && (eoff e =? off).
Definition is_ev (e : event) (k ord w : Z) : bool := (ek e =? k) && (eord e =? ord) && (eobj e =? w) && (0 <? w).
Definition is_note (e : event) (k w : Z) : bool := (ek e =? k) && (eobj e =? w) && (0 <? w).
Definition is_tau (e : event) (v : Z) : bool := (ek e =? DV_TAU) && (ea e =? v).
Definition tau (v : Z) : event := mkEv DV_TAU 0 0 0 0 v 0 1.

(* ---- the rmw bodies, specialised to a serial lane ---- *)
Definition qoss : list Z := [0; 1; 2; 3; 4; 5; 6; 7].
Definition ex_commit (f : Z -> rmw_outcome) (new : Z) : bool :=
  existsb (fun q => match f q with Commit n _ => n =? new | _ => false end) qoss.
Definition ex_giveup (f : Z -> rmw_outcome) : bool :=
  existsb (fun q => match f q with NoCommit _ _ => true | _ => false end) qoss.

Definition b_fast (self old : Z) := f_dispatch_queue_try_acquire_barrier_sync_and_suspend 0 self 0 1 old.
Definition b_unlock (old : Z) := barrier_sync_unlock_loop 0 0 0 old.
Definition b_wakeup (flags old qos : Z) := wakeup_loop 0 qos flags 1 old ENQ.
(* pending_barrier_width = (dq_width - 1) * WIDTH_INTERVAL = 0;
   set_owner_and_set_full_width_and_in_barrier = self | WIDTH_FULL_BIT | IN_BARRIER *)
Definition b_pushw (self old qos : Z) :=
  push_waiter_loop 0 0 qos old 0 (Z.lor (Z.lor self 9007199254740992) INB).
Definition b_cbc (enq old qos : Z) := class_barrier_complete_loop 0 qos 0 0 OWNED old enq.
Definition b_dbw (enq old w : Z) := drain_barrier_waiter_loop 0 0 0 enq old w 0.
Definition b_lock (self floor old : Z) := f_dispatch_queue_drain_try_lock 0 0 1 self floor old 0.
Definition b_dunlock (owned old : Z) := f_dispatch_queue_drain_try_unlock 0 owned 1 old.
Definition changed (old new bit : Z) : bool := nz (Z.land (Z.lxor old new) bit).

(* ---- program points ---- *)
Inductive kind := KS | KA.     (* dispatch_sync_f / dispatch_barrier_sync_f (same path on a serial lane); dispatch_async_and_wait_f *)
Inductive cont :=
| CRet                         (* _dispatch_lane_barrier_complete called by a completing synchronous call *)
| CWait (k : kind)             (* ... called by _dispatch_lane_push_waiter (the waiter took the lock itself): then park *)
| CWorker                      (* _dispatch_queue_invoke_finish of a worker: then back to the pool *)
| CDrain (owned next : Z).     (* _dispatch_async_and_wait_invoke on the drainer: then continue the drain loop *)
Inductive popk := PKdbw (c : cont) (enq : Z) | PKwork (owned : Z).

Inductive pc :=
| Idle
(* dispatch_async_f *)
| A_xchg                       (* os_mpsc_push_update_tail: xchg(dq_items_tail, release) *)
| A_head (x : Z)               (* list was empty: store dq_items_head *)
| A_link (x : Z)               (* tau: store prev->do_next; then the plain read of _dispatch_queue_need_override *)
| A_probe (flags : Z)          (* _dispatch_queue_class_probe: load(dq_items_tail, seq_cst) *)
| A_wload (flags : Z)          (* _dispatch_queue_wakeup: rmw loop, initial load *)
| A_wbody (flags old : Z)
| A_root                       (* tau: push the lane on its target *)
| A_ret
(* synchronous calls, before the push *)
| S_aaw                        (* _dispatch_async_and_wait_recurse_one: load(dq_state, relaxed) *)
| S_ftail (k : kind)           (* _dispatch_queue_try_acquire_barrier_sync (inline_internal.h:1355): plain read of dq_items_tail;
                                  a non-empty list refuses the fast path *)
| S_fload (k : kind)           (* ... _dispatch_queue_try_acquire_barrier_sync_and_suspend: rmw loop, initial load *)
| S_fbody (k : kind) (old : Z)
| S_wprep (k : kind)           (* __DISPATCH_WAIT_FOR_QUEUE__: _dispatch_wait_prepare (rmw loop that gives up on a non-wlh queue) *)
| S_xchg (k : kind)            (* _dispatch_queue_push_item *)
| S_head (k : kind) (x : Z)
| S_link (k : kind) (x : Z)
| S_sw                         (* _dispatch_lane_push_waiter_should_wakeup (async_and_wait): load(dq_state, relaxed) *)
| S_pwload (k : kind)          (* _dispatch_lane_push_waiter: rmw loop *)
| S_pwbody (k : kind) (old : Z)
(* parked on the thread event *)
| S_sub (k : kind)             (* _dispatch_thread_event_wait: dec(dte_value, acquire) *)
| S_eload (k : kind)           (* _dispatch_thread_event_wait_slow: load(dte_value, acquire) *)
| S_futex (k : kind)           (* futex_wait(&dte_value, UINT32_MAX) *)
| S_sleep (k : kind)
| S_woken (k : kind)           (* back in _dispatch_sync_f_slow / _dispatch_async_and_wait_f_slow: dsc_func == NULL ? *)
(* the caller owns the lane *)
| S_fake (fast : bool)         (* _dispatch_fake_wlh (async_and_wait): load(dq_state, relaxed) *)
| S_call (k : kind) (fast : bool)
| S_incall (k : kind) (fast : bool)
| S_tail                       (* _dispatch_lane_barrier_sync_invoke_and_complete: plain read of dq_items_tail *)
| S_uload | S_ubody (old : Z)  (* ... its inline unlock loop *)
| S_ret
(* _dispatch_lane_barrier_complete *)
| B_tail (c : cont)            (* plain read of dq_items_tail *)
| B_susp (c : cont)            (* DISPATCH_QUEUE_IS_SUSPENDED: load(dq_state, relaxed) *)
| B_head (c : cont)            (* _dispatch_queue_get_head *)
| B_dec (c : cont)             (* is the head a waiter ? (plain read of dc_flags) *)
(* _dispatch_lane_class_barrier_complete *)
| C_load (c : cont) (enq : Z) | C_body (c : cont) (enq old : Z) | C_xor (c : cont) | C_root (c : cont)
(* _dispatch_queue_pop_head after its first store *)
| P_cas (pk : popk) | P_store (pk : popk)
(* _dispatch_lane_drain_barrier_waiter after the pop: the transfer loop, then the signal *)
| D_load (c : cont) (enq : Z) | D_body (c : cont) (enq old : Z)
| G_sig (c : cont) (w : Z)     (* _dispatch_thread_event_signal: inc(dte_value, release) *)
| G_wake (c : cont) (w : Z)    (* futex_wake *)
(* root-queue worker *)
| W_lbody (fl : option Z) (old : Z)    (* _dispatch_queue_drain_try_lock: one iteration on `old`; fl = oq_floor when known *)
| W_tail (owned : Z)           (* _dispatch_lane_drain: plain read of dq_items_tail *)
| W_head (owned : Z)
| W_state (owned : Z)          (* first_iteration: load(dq_state, relaxed) *)
| W_pop (owned : Z)            (* _dispatch_queue_pop_head (in the drain loop, or in drain_barrier_waiter) *)
| W_dec (owned next : Z)       (* sync waiter -> hand the lock over; anything else -> run it *)
| W_incall (owned next w : Z)
| W_uload (owned : Z) | W_ubody (owned old : Z) | W_xor (owned : Z).

(* what a step does to the shared / ghost state *)
Inductive ikind := IAsync | ISync | IAaw.
Inductive qeff := QNone | QAcq | QRel | QXfer (w : Z).
Inductive act :=
| ACall (sync : bool) | ARetS | ARetA | AWorker | ARootPush
| ALoadQ | ACasQ (old : Z) (q : qeff) | AXorQ
| AXchgT (ik : ikind) | APublish (x : Z) | ALoadT | ATail (v : Z) | ALoadH
| AHeadWaiter (b : bool) | APop1 (dbw : bool) | APop2 | APop3 | ACurSync (b : bool)
| ABeginSelf | AEndSelf | ABeginCur (w : Z) | AEndCur (w : Z)
| AEvInit | ASub | AELoad | AFutexWait | AFutexRet | ASig (w : Z) | AWake (w : Z)
| ARemote (b : bool).

Definition kind_ik (k : kind) : ikind := match k with KS => ISync | KA => IAaw end.
Definition cont_pc (c : cont) : pc :=
  match c with CRet => S_ret | CWait k => S_sub k | CWorker => Idle
  | CDrain owned next => if next =? 0 then W_tail owned else W_state owned end.
Definition after_pop (pk : popk) (n : Z) : pc :=
  match pk with PKdbw c enq => D_load c enq | PKwork owned => W_dec owned n end.

Definition after_fload (self : Z) (k : kind) (v : Z) : pc :=
  match b_fast self v with Commit _ _ => S_fbody k v | _ => S_wprep k end.
Definition after_uload (v : Z) : pc :=
  match b_unlock v with Commit _ _ => S_ubody v | _ => B_tail CRet end.
Definition after_cload (c : cont) (enq v : Z) : pc :=
  match b_cbc enq v 0 with NoCommit _ _ => C_xor c | _ => C_body c enq v end.
Definition after_wuload (owned v : Z) : pc :=
  match b_dunlock owned v with Commit _ _ => W_ubody owned v | _ => W_xor owned end.
Definition lock_restarts (self : Z) (fl : option Z) (v : Z) : bool :=
  match b_lock self (match fl with Some f => f | None => 0 end) v with Restart _ => true | _ => false end.

Definition ret (p : pc) (a : list act) : option (pc * list act) := Some (p, a).

(* the per-thread automaton: which event a thread whose lock value is `self` may perform next, the program point it
   reaches and what the step does.  Used (a) as the thread component of the global model and (b) by the correspondence
   check, which feeds it the per-thread event traces recorded from the real library. *)
Definition tstep (self : Z) (p : pc) (e : event) : option (pc * list act) :=
  match p with
  | Idle =>
      if ek e =? DVU_CALL then
        if eobj e =? 4 then ret A_xchg [ACall false]
        else if (eobj e =? 1) || (eobj e =? 2) then ret (S_ftail KS) [ACall true]
        else if eobj e =? 3 then ret S_aaw [ACall true]
        else None
      else if is_q e DV_LOAD MO_RELAXED OFF_Q then ret (W_lbody None (ea e)) [AWorker; ALoadQ]
      else None
  (* ---- dispatch_async_f ---- *)
  | A_xchg =>
      if is_q e DV_XCHG MO_RELEASE OFF_T && negb (eb e =? 0)
      then ret (if ea e =? 0 then A_head (eb e) else A_link (eb e)) [AXchgT IAsync] else None
  | A_head x => if is_q e DV_STORE MO_RELAXED OFF_H && (eb e =? x) then ret (A_probe 3) [APublish x] else None
  | A_link x =>
      if is_tau e 0 then ret A_ret [APublish x] else if is_tau e 1 then ret (A_probe 1) [APublish x] else None
  | A_probe f =>
      if is_q e DV_LOAD MO_SEQ_CST OFF_T then ret (if ea e =? 0 then A_ret else A_wload f) [ALoadT] else None
  | A_wload f => if is_q e DV_LOAD MO_RELAXED OFF_Q then ret (A_wbody f (ea e)) [ALoadQ] else None
  | A_wbody f old =>
      if is_q e DV_CASW (mo_code wakeup_loop_order) OFF_Q && ex_commit (b_wakeup f old) (eb e)
      then ret (if eok e =? 1 then (if changed old (eb e) ENQ then A_root else A_ret) else A_wbody f (ea e))
               [ACasQ old QNone]
      else if (ek e =? DVU_RET) && ex_giveup (b_wakeup f old) then ret Idle [ARetA]
      else None
  | A_root => if is_tau e 0 then ret A_ret [ARootPush] else None
  | A_ret => if ek e =? DVU_RET then ret Idle [ARetA] else None
  (* ---- synchronous calls ---- *)
  | S_aaw => if is_q e DV_LOAD MO_RELAXED OFF_Q then ret (S_ftail KA) [ALoadQ] else None
  | S_ftail k =>
      if is_tau e 1 then ret (S_wprep k) [ATail 1] else if is_tau e 0 then ret (S_fload k) [ATail 0] else None
  | S_fload k => if is_q e DV_LOAD MO_RELAXED OFF_Q then ret (after_fload self k (ea e)) [ALoadQ] else None
  | S_fbody k old =>
      match b_fast self old with
      | Commit new _ =>
          if is_q e DV_CASW (mo_code f_dispatch_queue_try_acquire_barrier_sync_and_suspend_order) OFF_Q && (eb e =? new)
          then ret (if eok e =? 1 then (match k with KA => S_fake true | KS => S_call KS true end)
                    else after_fload self k (ea e)) [ACasQ old QAcq]
          else None
      | _ => None
      end
  | S_wprep k =>
      if is_q e DV_LOAD MO_RELAXED OFF_Q && negb (nz (f_dq_state_drain_locked_by (ea e) self))
      then ret (S_xchg k) [ALoadQ; AEvInit] else None
  | S_xchg k =>
      if is_q e DV_XCHG MO_RELEASE OFF_T && negb (eb e =? 0)
      then ret (if ea e =? 0 then S_head k (eb e) else S_link k (eb e)) [AXchgT (kind_ik k)] else None
  | S_head k x =>
      if is_q e DV_STORE MO_RELAXED OFF_H && (eb e =? x)
      then ret (match k with KA => S_sw | KS => S_pwload KS end) [APublish x] else None
  | S_link k x => if is_tau e 0 then ret (S_sub k) [APublish x] else None
  | S_sw => if is_q e DV_LOAD MO_RELAXED OFF_Q then ret (S_pwload KA) [ALoadQ] else None
  | S_pwload k => if is_q e DV_LOAD MO_RELAXED OFF_Q then ret (S_pwbody k (ea e)) [ALoadQ] else None
  | S_pwbody k old =>
      if is_q e DV_CASW (mo_code push_waiter_loop_order) OFF_Q && ex_commit (b_pushw self old) (eb e)
      then if eok e =? 1
           then (if changed old (eb e) INB then ret (B_tail (CWait k)) [ACasQ old QAcq] else ret (S_sub k) [ACasQ old QNone])
           else ret (S_pwbody k (ea e)) [ACasQ old QNone]
      else None
  | S_sub k =>
      if is_ev e DV_SUB MO_ACQUIRE self && (eb e =? 1)
      then ret (if ea e =? 1 then S_woken k else S_eload k) [ASub] else None
  | S_eload k =>
      if is_ev e DV_LOAD MO_ACQUIRE self
      then (if ea e =? 0 then ret (S_woken k) [AELoad] else if ea e =? MAXV then ret (S_futex k) [AELoad] else None)
      else None
  | S_futex k => if is_note e DV_FUTEX_WAIT self && (ea e =? MAXV) then ret (S_sleep k) [AFutexWait] else None
  | S_sleep k => if is_note e DV_FUTEX_WAIT_RET self then ret (S_eload k) [AFutexRet] else None
  | S_woken k =>
      match k with
      | KS => if (ek e =? DVU_CALLOUT_BEGIN) && (eb e =? self) then ret (S_incall KS false) [ARemote false; ABeginSelf]
              else None
      | KA => if is_q e DV_LOAD MO_RELAXED OFF_Q then ret (S_call KA false) [ARemote false; ALoadQ]
              else if ek e =? DVU_RET then ret Idle [ARemote true; ARetS]
              else None
      end
  | S_fake fast => if is_q e DV_LOAD MO_RELAXED OFF_Q then ret (S_call KA fast) [ALoadQ] else None
  | S_call k fast => if (ek e =? DVU_CALLOUT_BEGIN) && (eb e =? self) then ret (S_incall k fast) [ABeginSelf] else None
  | S_incall k fast =>
      if ek e =? DVU_CALLOUT_END
      then ret (match k, fast with KS, true => S_tail | _, _ => B_tail CRet end) [AEndSelf] else None
  | S_tail =>
      if is_tau e 1 then ret (B_susp CRet) [ATail 1] else if is_tau e 0 then ret S_uload [ATail 0] else None
  | S_uload => if is_q e DV_LOAD MO_RELAXED OFF_Q then ret (after_uload (ea e)) [ALoadQ] else None
  | S_ubody old =>
      match b_unlock old with
      | Commit new _ =>
          if is_q e DV_CASW (mo_code barrier_sync_unlock_loop_order) OFF_Q && (eb e =? new)
          then ret (if eok e =? 1 then S_ret else after_uload (ea e)) [ACasQ old QRel] else None
      | _ => None
      end
  | S_ret => if ek e =? DVU_RET then ret Idle [ARetS] else None
  (* ---- _dispatch_lane_barrier_complete ---- *)
  | B_tail c =>
      if is_tau e 1 then ret (B_susp c) [ATail 1] else if is_tau e 0 then ret (C_load c 0) [ATail 0] else None
  | B_susp c =>
      if is_q e DV_LOAD MO_RELAXED OFF_Q && negb (nz (f_dq_state_is_suspended (ea e))) then ret (B_head c) [ALoadQ] else None
  | B_head c =>
      if is_q e DV_LOAD MO_ACQUIRE OFF_H || is_q e DV_LOAD MO_RELAXED OFF_H
      then ret (if ea e =? 0 then B_head c else B_dec c) [ALoadH] else None
  | B_dec c =>
      if is_q e DV_STORE MO_RELAXED OFF_H
      then ret (if eb e =? 0 then P_cas (PKdbw c 0) else D_load c 0) [AHeadWaiter true; APop1 true]
      else if is_q e DV_LOAD MO_RELAXED OFF_Q then ret (after_cload c ENQ (ea e)) [AHeadWaiter false; ALoadQ]
      else None
  | C_load c enq => if is_q e DV_LOAD MO_RELAXED OFF_Q then ret (after_cload c enq (ea e)) [ALoadQ] else None
  | C_body c enq old =>
      if is_q e DV_CASW (mo_code class_barrier_complete_loop_order) OFF_Q && ex_commit (b_cbc enq old) (eb e)
      then ret (if eok e =? 1 then (if nz enq && changed old (eb e) enq then C_root c else cont_pc c)
                else after_cload c enq (ea e)) [ACasQ old QRel]
      else None
  | C_xor c => if is_q e DV_XOR MO_ACQUIRE OFF_Q && (eb e =? DIRTY) then ret (B_tail c) [AXorQ] else None
  | C_root c => if is_tau e 0 then ret (cont_pc c) [ARootPush] else None
  (* ---- pop_head, drain_barrier_waiter, signal ---- *)
  | P_cas pk =>
      if is_q e DV_CAS MO_RELEASE OFF_T && (eb e =? 0)
      then ret (if eok e =? 1 then after_pop pk 0 else P_store pk) [APop2] else None
  | P_store pk => if is_q e DV_STORE MO_RELAXED OFF_H && negb (eb e =? 0) then ret (after_pop pk (eb e)) [APop3] else None
  | D_load c enq => if is_q e DV_LOAD MO_RELAXED OFF_Q then ret (D_body c enq (ea e)) [ALoadQ] else None
  | D_body c enq old =>
      let w := Z.land (eb e) OWNER_MASK in
      match b_dbw enq old w with
      | Commit new _ =>
          if is_q e DV_CASW (mo_code drain_barrier_waiter_loop_order) OFF_Q && (eb e =? new) && (0 <? w)
          then (if eok e =? 1 then ret (G_sig c w) [ACasQ old (QXfer w)] else ret (D_body c enq (ea e)) [ACasQ old QNone])
          else None
      | _ => None
      end
  | G_sig c w =>
      if is_ev e DV_ADD MO_RELEASE w && (eb e =? 1)
      then ret (if ea e =? 0 then cont_pc c else G_wake c w) [ASig w] else None
  | G_wake c w => if is_note e DV_FUTEX_WAKE w then ret (cont_pc c) [AWake w] else None
  (* ---- worker ---- *)
  | W_lbody fl old =>
      match b_lock self 7 old with
      | Commit new owned =>
          if is_q e DV_CASW (mo_code f_dispatch_queue_drain_try_lock_order) OFF_Q && (eb e =? new) &&
             (match fl with Some _ => negb (lock_restarts self fl old) | None => true end)
          then (if eok e =? 1
                then (if owned =? 0 then ret Idle [ACasQ old QNone] else ret (W_tail owned) [ACasQ old QAcq])
                else ret (W_lbody fl (ea e)) [ACasQ old QNone])
          else if is_q e DV_LOAD MO_RELAXED OFF_Q && lock_restarts self fl old
          then ret (W_lbody (Some (f_dq_state_max_qos old)) (ea e)) [ALoadQ]
          else None
      | _ => None
      end
  | W_tail owned =>
      if is_tau e 1 then ret (W_head owned) [ATail 1] else if is_tau e 0 then ret (W_uload owned) [ATail 0] else None
  | W_head owned =>
      if is_q e DV_LOAD MO_ACQUIRE OFF_H || is_q e DV_LOAD MO_RELAXED OFF_H
      then ret (if ea e =? 0 then W_head owned else W_state owned) [ALoadH] else None
  | W_state owned =>
      if is_q e DV_LOAD MO_RELAXED OFF_Q && negb (nz (f_dq_state_is_suspended (ea e))) then ret (W_pop owned) [ALoadQ] else None
  | W_pop owned =>
      if is_q e DV_STORE MO_RELAXED OFF_H
      then ret (if eb e =? 0 then P_cas (PKwork owned) else W_dec owned (eb e)) [APop1 false] else None
  | W_dec owned next =>
      if is_q e DV_LOAD MO_RELAXED OFF_Q then ret (D_body CWorker (Z.land owned ENQ) (ea e)) [ACurSync true; ALoadQ]
      else if ek e =? DVU_CALLOUT_BEGIN then ret (W_incall owned next (eb e)) [ACurSync false; ABeginCur (eb e)]
      else None
  | W_incall owned next w =>
      if ek e =? DVU_CALLOUT_END
      then ret (if w =? 0 then cont_pc (CDrain owned next) else G_sig (CDrain owned next) w) [AEndCur w] else None
  | W_uload owned => if is_q e DV_LOAD MO_RELAXED OFF_Q then ret (after_wuload owned (ea e)) [ALoadQ] else None
  | W_ubody owned old =>
      match b_dunlock owned old with
      | Commit new _ =>
          if is_q e DV_CASW (mo_code f_dispatch_queue_drain_try_unlock_order) OFF_Q && (eb e =? new)
          then ret (if eok e =? 1 then Idle else after_wuload owned (ea e)) [ACasQ old QRel] else None
      | _ => None
      end
  | W_xor owned => if is_q e DV_XOR MO_ACQUIRE OFF_Q && (eb e =? DIRTY) then ret (W_tail owned) [AXorQ] else None
  end.

(* the fast path as it was before the tail test was added (libdispatch up to 43b9c73^): the compare-exchange is attempted
   from the idle word alone.  Only used to replay the defect (SyncOrder_example.v): no theorem is stated about it. *)
Definition tstep_old (self : Z) (p : pc) (e : event) : option (pc * list act) :=
  match p with
  | Idle =>
      if (ek e =? DVU_CALL) && ((eobj e =? 1) || (eobj e =? 2)) then ret (S_fload KS) [ACall true] else tstep self p e
  | S_aaw => if is_q e DV_LOAD MO_RELAXED OFF_Q then ret (S_fload KA) [ALoadQ] else None
  | _ => tstep self p e
  end.

(* atomic sites of the leaf functions the automaton walks through, in program order: must equal what src2v reads from
   the source (lemmas sites_* in SyncWait_proofs.v) *)
Definition mk_site (k : akind) (f : nat) (o : morder) : site := {| s_kind := k; s_field := f; s_order := o |}.
Definition model_sites_event_signal : list site := [mk_site KAdd 15 Release].
Definition model_sites_event_wait : list site := [mk_site KSub 15 Acquire].
Definition model_sites_event_wait_slow : list site := [mk_site KLoad 15 Acquire].
Definition model_sites_async_and_wait_invoke : list site := [mk_site KAdd 15 Release].
Definition model_sites_push_item : list site :=
  [mk_site KStore 10 Relaxed; mk_site KXchg 18 Release; mk_site KStore 10 Relaxed; mk_site KStore 1 Relaxed].
Definition model_sites_pop_head : list site :=
  [mk_site KLoad 10 Acquire; mk_site KStore 1 Relaxed; mk_site KCas 18 Release; mk_site KLoad 10 Acquire;
   mk_site KStore 1 Relaxed].
Definition model_sites_fast_path : list site := [mk_site KLoad 0 Relaxed; mk_site KCasWeak 0 Acquire].
Definition model_sites_class_barrier_complete : list site :=
  [mk_site KLoad 0 Relaxed; mk_site KXor 0 Acquire; mk_site KCasWeak 0 Release].

(* ------------------------------------------------------------------ global model *)
Record entry := { e_id : Z; e_linked : bool; e_kind : ikind; e_own : Z }.
Inductive sleepst := Awake | NoSleep | Sleeping | Woken.
Inductive phase :=
| PhNone                       (* no item of this thread is in flight *)
| PhQueued                     (* its context is in the list *)
| PhPopH (h : Z)               (* popped by lock holder h, which will hand the lock over *)
| PhPopR (h : Z)               (* popped by worker h, which runs the item itself (async_and_wait) *)
| PhSig (d : Z)                (* hand-off (or remote run) done: d is about to signal the thread event *)
| PhSigd.                      (* signalled *)
Inductive istat := IPend | IRun | IFin.

Record gst := {
  st : Z;                      (* dq_state *)
  lst : list entry;            (* the MPSC list *)
  tailz : option Z;            (* dq_items_tail still points to the last popped item (pop_head between its store of a NULL
                                  head and its cmpxchg of the tail) *)
  rootq : Z;                   (* how many times the lane sits in its target queue *)
  pcs : Z -> pc;
  ev : Z -> Z;                 (* dte_value of the sync context of each thread *)
  slp : Z -> sleepst;          (* kernel side of futex_wait per thread *)
  (* ghost *)
  token : option (option Z);   (* who holds the lane's single "enqueued" token: None = nobody (ENQUEUED clear),
                                  Some None = the lane sits in the root queue, Some (Some t) = thread t (about to push
                                  it, just popped it, or draining) *)
  holder : option Z;           (* who owns the drain lock *)
  cur : option entry;          (* the item the lock holder has popped and not yet handed over / started *)
  ph : Z -> phase;
  ist : Z -> istat;            (* the work item of each thread's current synchronous call *)
  runs : Z -> Z;               (* how many times it was started *)
  remote : Z -> bool;          (* it was run by the drainer (dsc_func == NULL) *)
  running : option Z;          (* the thread inside a client callout of this queue *)
  overlap : bool;              (* a callout began while another one was running *)
  early_ret : bool             (* a synchronous call returned before its item had finished *)
}.

Definition init_word : Z := Z.shiftl (4096 - 1) 41 + DISPATCH_QUEUE_ROLE_BASE_ANON.
Definition init_state : gst :=
  {| st := init_word; lst := []; tailz := None; rootq := 0; pcs := fun _ => Idle; ev := fun _ => 0; slp := fun _ => Awake;
     token := None; holder := None; cur := None; ph := fun _ => PhNone; ist := fun _ => IPend; runs := fun _ => 0;
     remote := fun _ => false; running := None; overlap := false; early_ret := false |}.

Definition tail_value (s : gst) : Z :=
  match rev (lst s) with e :: _ => e_id e | [] => match tailz s with Some x => x | None => 0 end end.
Definition head_value (s : gst) : Z :=
  match lst s with e :: _ => if e_linked e then e_id e else 0 | [] => 0 end.
Fixpoint link_id (l : list entry) (i : Z) : list entry :=
  match l with
  | [] => []
  | e :: l' => if e_id e =? i then {| e_id := i; e_linked := true; e_kind := e_kind e; e_own := e_own e |} :: l'
               else e :: link_id l' i
  end.
Definition wake_one (x : sleepst) : sleepst := match x with Sleeping => Woken | y => y end.
Definition is_waiter_kind (k : ikind) : bool := match k with IAsync => false | _ => true end.
Definition is_sync_kind (k : ikind) : bool := match k with ISync => true | _ => false end.
Definition ist_fin (i : istat) : bool := match i with IFin => true | _ => false end.

(* field updates *)
Definition set_st (s : gst) (v : Z) : gst :=
  {| st := v; lst := lst s; tailz := tailz s; rootq := rootq s; pcs := pcs s; ev := ev s; slp := slp s; token := token s; holder := holder s;
     cur := cur s; ph := ph s; ist := ist s; runs := runs s; remote := remote s; running := running s;
     overlap := overlap s; early_ret := early_ret s |}.
Definition set_list (s : gst) (l : list entry) (tz : option Z) : gst :=
  {| st := st s; lst := l; tailz := tz; rootq := rootq s; pcs := pcs s; ev := ev s; slp := slp s; token := token s; holder := holder s;
     cur := cur s; ph := ph s; ist := ist s; runs := runs s; remote := remote s; running := running s;
     overlap := overlap s; early_ret := early_ret s |}.
Definition set_rootq (s : gst) (n : Z) : gst :=
  {| st := st s; lst := lst s; tailz := tailz s; rootq := n; pcs := pcs s; ev := ev s; slp := slp s; token := token s; holder := holder s;
     cur := cur s; ph := ph s; ist := ist s; runs := runs s; remote := remote s; running := running s;
     overlap := overlap s; early_ret := early_ret s |}.
Definition set_pc (s : gst) (t : Z) (p : pc) : gst :=
  {| st := st s; lst := lst s; tailz := tailz s; rootq := rootq s; pcs := upd (pcs s) t p; ev := ev s; slp := slp s; token := token s;
     holder := holder s; cur := cur s; ph := ph s; ist := ist s; runs := runs s; remote := remote s; running := running s;
     overlap := overlap s; early_ret := early_ret s |}.
Definition set_ev (s : gst) (f : Z -> Z) : gst :=
  {| st := st s; lst := lst s; tailz := tailz s; rootq := rootq s; pcs := pcs s; ev := f; slp := slp s; token := token s; holder := holder s;
     cur := cur s; ph := ph s; ist := ist s; runs := runs s; remote := remote s; running := running s;
     overlap := overlap s; early_ret := early_ret s |}.
Definition set_slp (s : gst) (f : Z -> sleepst) : gst :=
  {| st := st s; lst := lst s; tailz := tailz s; rootq := rootq s; pcs := pcs s; ev := ev s; slp := f; token := token s; holder := holder s;
     cur := cur s; ph := ph s; ist := ist s; runs := runs s; remote := remote s; running := running s;
     overlap := overlap s; early_ret := early_ret s |}.
Definition set_holder (s : gst) (h : option Z) : gst :=
  {| st := st s; lst := lst s; tailz := tailz s; rootq := rootq s; pcs := pcs s; ev := ev s; slp := slp s; token := token s; holder := h;
     cur := cur s; ph := ph s; ist := ist s; runs := runs s; remote := remote s; running := running s;
     overlap := overlap s; early_ret := early_ret s |}.
Definition set_token (s : gst) (k : option (option Z)) : gst :=
  {| st := st s; lst := lst s; tailz := tailz s; rootq := rootq s; pcs := pcs s; ev := ev s; slp := slp s; token := k;
     holder := holder s; cur := cur s; ph := ph s; ist := ist s; runs := runs s; remote := remote s; running := running s;
     overlap := overlap s; early_ret := early_ret s |}.
Definition set_cur (s : gst) (c : option entry) : gst :=
  {| st := st s; lst := lst s; tailz := tailz s; rootq := rootq s; pcs := pcs s; ev := ev s; slp := slp s; token := token s; holder := holder s;
     cur := c; ph := ph s; ist := ist s; runs := runs s; remote := remote s; running := running s;
     overlap := overlap s; early_ret := early_ret s |}.
Definition set_ph (s : gst) (f : Z -> phase) : gst :=
  {| st := st s; lst := lst s; tailz := tailz s; rootq := rootq s; pcs := pcs s; ev := ev s; slp := slp s; token := token s; holder := holder s;
     cur := cur s; ph := f; ist := ist s; runs := runs s; remote := remote s; running := running s;
     overlap := overlap s; early_ret := early_ret s |}.
Definition set_item (s : gst) (fi : Z -> istat) (fr : Z -> Z) (fm : Z -> bool) : gst :=
  {| st := st s; lst := lst s; tailz := tailz s; rootq := rootq s; pcs := pcs s; ev := ev s; slp := slp s; token := token s; holder := holder s;
     cur := cur s; ph := ph s; ist := fi; runs := fr; remote := fm; running := running s;
     overlap := overlap s; early_ret := early_ret s |}.
Definition set_running (s : gst) (r : option Z) (ov : bool) : gst :=
  {| st := st s; lst := lst s; tailz := tailz s; rootq := rootq s; pcs := pcs s; ev := ev s; slp := slp s; token := token s; holder := holder s;
     cur := cur s; ph := ph s; ist := ist s; runs := runs s; remote := remote s; running := r;
     overlap := ov; early_ret := early_ret s |}.
Definition set_early (s : gst) (b : bool) : gst :=
  {| st := st s; lst := lst s; tailz := tailz s; rootq := rootq s; pcs := pcs s; ev := ev s; slp := slp s; token := token s; holder := holder s;
     cur := cur s; ph := ph s; ist := ist s; runs := runs s; remote := remote s; running := running s;
     overlap := overlap s; early_ret := b |}.

(* one effect of thread t performing event e: None = the event is not consistent with the memory / kernel state *)
Definition apply_act (a : act) (s : gst) (t : Z) (e : event) : option gst :=
  match a with
  | ACall sync =>
      Some (if sync then set_item s (upd (ist s) t IPend) (upd (runs s) t 0) (upd (remote s) t false) else s)
  | ARetS => Some (set_early s (early_ret s || negb (ist_fin (ist s t))))
  | ARetA => Some s
  | AWorker => if 0 <? rootq s then Some (set_token (set_rootq s (rootq s - 1)) (Some (Some t))) else None
  | ARootPush => Some (set_token (set_rootq s (rootq s + 1)) (Some None))
  | ALoadQ => if ea e =? st s then Some s else None
  | ACasQ old q =>
      if ea e =? st s then
        if eok e =? 1 then
          if st s =? old then
            let s0 := set_st s (eb e) in
            let s1 := if changed old (eb e) ENQ
                      then set_token s0 (if nz (Z.land (eb e) ENQ) then Some (Some t) else None) else s0 in
            match q with
            | QNone => Some s1
            | QAcq => Some (set_holder s1 (Some t))
            | QRel => Some (set_holder s1 None)
            | QXfer w =>
                match cur s with
                | Some c => if (e_own c =? w) && is_waiter_kind (e_kind c)
                            then Some (set_ph (set_cur (set_holder s1 (Some w)) None) (upd (ph s) w (PhSig t))) else None
                | None => None
                end
            end
          else None
        else Some s                                   (* weak compare-exchange: may fail spuriously *)
      else None
  | AXorQ => if ea e =? st s then Some (set_st s (Z.lxor (st s) DIRTY)) else None
  | AXchgT ik =>
      if ea e =? tail_value s then
        let s1 := set_list s (lst s ++ [{| e_id := eb e; e_linked := false; e_kind := ik;
                                          e_own := if is_waiter_kind ik then t else 0 |}]) (tailz s) in
        Some (if is_waiter_kind ik then set_ph s1 (upd (ph s) t PhQueued) else s1)
      else None
  | APublish x => Some (set_list s (link_id (lst s) x) (tailz s))
  | ALoadT => if ea e =? tail_value s then Some s else None
  | ATail v => if Bool.eqb (v =? 1) (negb (tail_value s =? 0)) then Some s else None
  | ALoadH => if ea e =? head_value s then Some s else None
  | AHeadWaiter b =>
      match lst s with e1 :: _ => if Bool.eqb (is_waiter_kind (e_kind e1)) b then Some s else None | [] => None end
  | APop1 dbw =>
      match lst s, cur s with
      | e1 :: rest, None =>
          let n := eb e in
          let okn := if n =? 0 then true
                     else match rest with e2 :: _ => e_linked e2 && (e_id e2 =? n) | [] => false end in
          if okn then
            let s1 := set_cur (set_list s rest (if n =? 0 then Some (e_id e1) else None)) (Some e1) in
            Some (if is_waiter_kind (e_kind e1)
                  then set_ph s1 (upd (ph s) (e_own e1)
                                      (if dbw || is_sync_kind (e_kind e1) then PhPopH t else PhPopR t))
                  else s1)
          else None
      | _, _ => None
      end
  | APop2 =>
      if (ea e =? tail_value s) && Bool.eqb (eok e =? 1) (match lst s with [] => true | _ => false end)
      then Some (set_list s (lst s) None) else None
  | APop3 =>
      match lst s with e2 :: _ => if e_linked e2 && (e_id e2 =? eb e) then Some s else None | [] => None end
  | ACurSync b =>
      match cur s with Some c => if Bool.eqb (is_sync_kind (e_kind c)) b then Some s else None | None => None end
  | ABeginSelf =>
      Some (set_running (set_item s (upd (ist s) t IRun) (upd (runs s) t (runs s t + 1)) (remote s)) (Some t)
                        (overlap s || match running s with Some _ => true | None => false end))
  | AEndSelf => Some (set_running (set_item s (upd (ist s) t IFin) (runs s) (remote s)) None (overlap s))
  | ABeginCur w =>
      match cur s with
      | Some c =>
          if e_own c =? w then
            let s1 := set_running (set_cur s None) (Some t)
                                  (overlap s || match running s with Some _ => true | None => false end) in
            Some (if w =? 0 then s1 else set_item s1 (upd (ist s) w IRun) (upd (runs s) w (runs s w + 1)) (remote s))
          else None
      | None => None
      end
  | AEndCur w =>
      let s1 := set_running s None (overlap s) in
      Some (if w =? 0 then s1
            else set_ph (set_item s1 (upd (ist s) w IFin) (runs s) (upd (remote s) w true)) (upd (ph s) w (PhSig t)))
  | AEvInit => Some (set_ev s (upd (ev s) t 0))
  | ASub => if ea e =? ev s t then Some (set_ev s (upd (ev s) t (u32 (ev s t - 1)))) else None
  | AELoad => if ea e =? ev s t then Some s else None
  | AFutexWait => Some (set_slp s (upd (slp s) t (if ev s t =? ea e then Sleeping else NoSleep)))
  | AFutexRet => Some (set_slp s (upd (slp s) t Awake))
  | ASig w =>
      if ea e =? ev s w then Some (set_ph (set_ev s (upd (ev s) w (u32 (ev s w + 1)))) (upd (ph s) w PhSigd)) else None
  | AWake w => Some (set_slp s (upd (slp s) w (wake_one (slp s w))))
  | ARemote b => if Bool.eqb (remote s t) b then Some (set_ph s (upd (ph s) t PhNone)) else None
  end.

Fixpoint apply_acts (l : list act) (s : gst) (t : Z) (e : event) : option gst :=
  match l with
  | [] => Some s
  | a :: l' => match apply_act a s t e with Some s1 => apply_acts l' s1 t e | None => None end
  end.

Definition gstep_with (ts : Z -> pc -> event -> option (pc * list act)) (s : gst) (t : Z) (e : event) : option gst :=
  match ts t (pcs s t) e with
  | Some (p', acts) => match apply_acts acts s t e with Some s1 => Some (set_pc s1 t p') | None => None end
  | None => None
  end.
Definition gstep (s : gst) (t : Z) (e : event) : option gst :=
  match tstep t (pcs s t) e with
  | Some (p', acts) => match apply_acts acts s t e with Some s1 => Some (set_pc s1 t p') | None => None end
  | None => None
  end.

(* thread ids are lock values: non-zero, 30 bits *)
Definition valid_tid (t : Z) : Prop := 0 < t <= OWNER_MASK.
Definition step (s : gst) (a : Z * event) (s' : gst) : Prop := valid_tid (fst a) /\ gstep s (fst a) (snd a) = Some s'.
Definition reach : gst -> Prop := reachable (fun s => s = init_state) step.

Fixpoint grun (s : gst) (tr : list (Z * event)) : option gst :=
  match tr with
  | [] => Some s
  | (t, e) :: tr' => match gstep s t e with Some s' => grun s' tr' | None => None end
  end.

(* ---- trace conformance: the recorded trace of one thread.  Taus are not recorded, and which branch a tau took may
   only show several events later, so the automaton is run as an NFA: the set of program points the thread may be at. ---- *)
Definition tstep_pc (self : Z) (p : pc) (e : event) : option pc :=
  match tstep self p e with Some (p', _) => Some p' | None => None end.
Definition kcode (k : kind) : Z := match k with KS => 0 | KA => 1 end.
Definition ccode (c : cont) : list Z :=
  match c with CRet => [0] | CWait k => [1; kcode k] | CWorker => [2] | CDrain o n => [3; o; n] end.
Definition pkcode (pk : popk) : list Z := match pk with PKdbw c q => 0 :: q :: ccode c | PKwork o => [1; o] end.
Definition bcode (b : bool) : Z := if b then 1 else 0.
Definition pc_code (p : pc) : list Z :=
  match p with
  | Idle => [0] | A_xchg => [1] | A_head x => [2; x] | A_link x => [3; x] | A_probe f => [4; f] | A_wload f => [5; f]
  | A_wbody f o => [6; f; o] | A_root => [7] | A_ret => [8] | S_aaw => [9] | S_fload k => [10; kcode k]
  | S_fbody k o => [11; kcode k; o] | S_wprep k => [12; kcode k] | S_xchg k => [13; kcode k] | S_head k x => [14; kcode k; x]
  | S_link k x => [15; kcode k; x] | S_sw => [16] | S_pwload k => [17; kcode k] | S_pwbody k o => [18; kcode k; o]
  | S_sub k => [19; kcode k] | S_eload k => [20; kcode k] | S_futex k => [21; kcode k] | S_sleep k => [22; kcode k]
  | S_woken k => [23; kcode k] | S_fake f => [24; bcode f] | S_call k f => [25; kcode k; bcode f]
  | S_incall k f => [26; kcode k; bcode f] | S_tail => [27] | S_uload => [28] | S_ubody o => [29; o] | S_ret => [30]
  | B_tail c => 31 :: ccode c | B_susp c => 32 :: ccode c | B_head c => 33 :: ccode c | B_dec c => 34 :: ccode c
  | C_load c q => 35 :: q :: ccode c | C_body c q o => 36 :: q :: o :: ccode c | C_xor c => 37 :: ccode c
  | C_root c => 38 :: ccode c | P_cas pk => 39 :: pkcode pk | P_store pk => 40 :: pkcode pk
  | D_load c q => 41 :: q :: ccode c | D_body c q o => 42 :: q :: o :: ccode c | G_sig c w => 43 :: w :: ccode c
  | G_wake c w => 44 :: w :: ccode c
  | W_lbody fl o => 45 :: o :: (match fl with Some f => [1; f] | None => [0] end) | W_tail o => [46; o] | W_head o => [47; o]
  | W_state o => [48; o] | W_pop o => [49; o] | W_dec o n => [50; o; n] | W_incall o n w => [51; o; n; w]
  | W_uload o => [52; o] | W_ubody o v => [53; o; v] | W_xor o => [54; o] | S_ftail k => [55; kcode k]
  end.
Fixpoint zlist_eqb (a b : list Z) : bool :=
  match a, b with [] , [] => true | x :: a', y :: b' => (x =? y) && zlist_eqb a' b' | _, _ => false end.
Definition pc_eqb (p q : pc) : bool := zlist_eqb (pc_code p) (pc_code q).
Fixpoint add_pc (p : pc) (l : list pc) : list pc :=
  match l with [] => [p] | q :: l' => if pc_eqb p q then l else q :: add_pc p l' end.
(* p and everything reachable from it by taus *)
Fixpoint closure (fuel : nat) (self : Z) (p : pc) (acc : list pc) : list pc :=
  let acc := add_pc p acc in
  match fuel with
  | O => acc
  | S f =>
      let acc := match tstep_pc self p (tau 0) with Some p0 => closure f self p0 acc | None => acc end in
      match tstep_pc self p (tau 1) with Some p1 => closure f self p1 acc | None => acc end
  end.
Definition step_set (self : Z) (ps : list pc) (e : event) : option (list pc) :=
  match fold_left (fun acc p => match tstep_pc self p e with Some p' => closure 3 self p' acc | None => acc end) ps [] with
  | [] => None
  | l => Some l
  end.
Definition conform (self : Z) (tr : list event) : Z * Z :=
  let '(ps, i) := run_trace (step_set self) [Idle] tr 0 in
  (i, if existsb (fun p => pc_eqb p Idle) ps then 1 else 0).
